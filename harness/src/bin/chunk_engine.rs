//! Scripted external engine for the C20 check: answers each request with exactly the byte chunks
//! the script prescribes (flush + short pause between chunks), or a truncated reply followed by
//! closing stdout / exiting.
//!
//!   chunk-engine <script file> <log file>
//! script lines:  reply <hex>*  |  partial-close <hex>*  |  partial-exit <hex>*
//! log lines:     req <hex of the raw request bytes> | eof | closed | exited
use std::io::{Read, Write};

fn unhex(s: &str) -> Vec<u8> {
    let s = s.strip_prefix('x').unwrap_or(s);
    (0..s.len() / 2).map(|i| u8::from_str_radix(&s[2 * i..2 * i + 2], 16).unwrap()).collect()
}

fn hex(b: &[u8]) -> String {
    b.iter().map(|x| format!("{:02x}", x)).collect()
}

extern "C" {
    fn close(fd: i32) -> i32;
}

fn main() {
    let args: Vec<String> = std::env::args().collect();
    let script = std::fs::read_to_string(&args[1]).unwrap_or_default();
    let mut log = std::fs::OpenOptions::new().append(true).create(true).open(&args[2]).unwrap();
    let mut lines = script.lines();
    let mut buf: Vec<u8> = vec![];
    let mut stdin = std::io::stdin();
    let mut out_open = true;
    let mut chunk = [0u8; 65536];
    loop {
        // split complete JSON values off the front of the buffer
        loop {
            let mut it = serde_json::Deserializer::from_slice(&buf).into_iter::<serde_json::Value>();
            match it.next() {
                Some(Ok(_)) => {
                    let n = it.byte_offset();
                    let raw: Vec<u8> = buf.drain(..n).collect();
                    let _ = log.write_all(format!("req x{}\n", hex(&raw)).as_bytes());
                    let line = lines.next().unwrap_or("silent");
                    let mut t = line.split(' ');
                    let kind = t.next().unwrap_or("silent");
                    let chunks: Vec<Vec<u8>> = t.filter(|x| !x.is_empty()).map(unhex).collect();
                    if kind == "late-reply" {
                        // the caller will have given up by the time this reply is written
                        std::thread::sleep(std::time::Duration::from_millis(400));
                    }
                    if out_open {
                        let mut so = std::io::stdout();
                        for c in &chunks {
                            if so.write_all(c).is_err() || so.flush().is_err() {
                                break;
                            }
                            std::thread::sleep(std::time::Duration::from_millis(3));
                        }
                    }
                    match kind {
                        "partial-close" => {
                            unsafe { close(1) };
                            out_open = false;
                            let _ = log.write_all(b"closed\n");
                        }
                        "partial-exit" => {
                            let _ = log.write_all(b"exited\n");
                            std::process::exit(0);
                        }
                        _ => {}
                    }
                }
                _ => break,
            }
        }
        match stdin.read(&mut chunk) {
            Ok(0) | Err(_) => {
                let _ = log.write_all(b"eof\n");
                return;
            }
            Ok(n) => buf.extend_from_slice(&chunk[..n]),
        }
    }
}
