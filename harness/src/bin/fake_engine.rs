//! Scripted external engine for the CLI-level checks (C05/C06/C08 CLI paths, C16-C19).
//!
//!   fake-engine <db>
//!
//! Reads concatenated JSON objects {"sql": ...} on stdin, answers each with one JSON object.
//! Behaviour is encoded in the SQL text itself:
//!   select <v>[,<w>...]  -> one row with the comma-separated values
//!   rows <n>             -> n rows "r0".."r(n-1)"
//!   fail...              -> {"err":"boom"}          refuse... -> {"err":"Connection refused"}
//!   err <text>           -> {"err": text}
//!   die...               -> exit(3) without answering
//!   close...             -> close stdout, keep reading until EOF
//!   slow <ms> ...        -> sleep, then an empty result
//!   anything else (incl. CREATE/DROP DATABASE) -> {"result":[]}
//! Environment: FAKE_LOG (append-only event log), FAKE_LATENCY_MS (sleep before every answer of a
//! test-file session), FAKE_SIGINT_AT / FAKE_SIGKILL_AT (send the signal to FAKE_CLI_PID, or the
//! parent, when the k-th request over all engine processes arrives).
use std::io::{Read, Write};
use std::os::unix::io::AsRawFd;

fn log(db: &str, msg: &str) {
    if let Ok(path) = std::env::var("FAKE_LOG") {
        if let Ok(mut f) = std::fs::OpenOptions::new().append(true).create(true).open(path) {
            // CLOCK_MONOTONIC is system-wide: comparable across the engine processes of one run and
            // immune to adjustments of the wall clock
            let mut ts = Timespec { tv_sec: 0, tv_nsec: 0 };
            let t: u128 = if unsafe { clock_gettime(1, &mut ts) } == 0 {
                ts.tv_sec as u128 * 1_000_000_000 + ts.tv_nsec as u128
            } else {
                std::time::SystemTime::now().duration_since(std::time::UNIX_EPOCH).unwrap().as_nanos()
            };
            // one write syscall per line (O_APPEND keeps lines of concurrent engines apart)
            let line = format!("{} {} {} {}\n", t, std::process::id(), db, msg);
            let _ = f.write_all(line.as_bytes());
        }
    }
}

/// global request counter shared by all engine processes (flock on a file next to the log)
fn bump() -> u64 {
    let path = match std::env::var("FAKE_LOG") {
        Ok(p) => format!("{}.cnt", p),
        Err(_) => return 0,
    };
    let mut f = std::fs::OpenOptions::new().read(true).write(true).create(true).truncate(false).open(path).unwrap();
    unsafe { libc_flock(f.as_raw_fd(), 2) };
    let mut s = String::new();
    let _ = f.read_to_string(&mut s);
    let n: u64 = s.trim().parse().unwrap_or(0) + 1;
    use std::io::Seek;
    let _ = f.seek(std::io::SeekFrom::Start(0));
    let _ = f.set_len(0);
    let _ = write!(f, "{}", n);
    unsafe { libc_flock(f.as_raw_fd(), 8) };
    n
}

#[repr(C)]
struct Timespec {
    tv_sec: i64,
    tv_nsec: i64,
}

extern "C" {
    fn clock_gettime(clk: i32, ts: *mut Timespec) -> i32;
    fn flock(fd: i32, op: i32) -> i32;
    fn kill(pid: i32, sig: i32) -> i32;
    fn getppid() -> i32;
    fn close(fd: i32) -> i32;
}
unsafe fn libc_flock(fd: i32, op: i32) {
    flock(fd, op);
}

fn hex(s: &str) -> String {
    s.as_bytes().iter().map(|b| format!("{:02x}", b)).collect()
}

fn main() {
    let db = std::env::args().nth(1).unwrap_or_else(|| "?".into());
    // (the further arguments are logged too: what the CLI made of the command template)
    let rest: Vec<String> = std::env::args().skip(2).map(|a| hex(&a)).collect();
    log(&db, &if rest.is_empty() { "connect".to_string() } else { format!("connect {}", rest.join(" ")) });
    let sigint_at: u64 = std::env::var("FAKE_SIGINT_AT").ok().and_then(|s| s.parse().ok()).unwrap_or(0);
    let sigkill_at: u64 = std::env::var("FAKE_SIGKILL_AT").ok().and_then(|s| s.parse().ok()).unwrap_or(0);
    let latency: u64 = std::env::var("FAKE_LATENCY_MS").ok().and_then(|s| s.parse().ok()).unwrap_or(0);
    let target: i32 = std::env::var("FAKE_CLI_PID").ok().and_then(|s| s.parse().ok()).unwrap_or_else(|| unsafe { getppid() });
    let stdin = std::io::stdin();
    let mut out_open = true;
    // `linger <ms>`: this session takes that long to close after it has seen end-of-file
    let mut linger: u64 = 0;
    let mut seen: std::collections::HashMap<String, u64> = std::collections::HashMap::new();
    let stream = serde_json::Deserializer::from_reader(stdin.lock()).into_iter::<serde_json::Value>();
    for v in stream {
        let v = match v {
            Ok(v) => v,
            Err(_) => break,
        };
        let full = v.get("sql").and_then(|s| s.as_str()).unwrap_or("").to_string();
        let n = bump();
        log(&db, &format!("sql {} {}", n, hex(&full)));
        // generated files tag every SQL line with ` -- F<path>`: not part of the directive
        let sql = full.split(" -- F").next().unwrap_or("").to_string();
        if sigkill_at != 0 && n == sigkill_at {
            log(&db, "sigkill");
            unsafe { kill(target, 9) };
            // the CLI is gone: do not answer
            std::thread::sleep(std::time::Duration::from_millis(200));
            std::process::exit(0);
        }
        if sigint_at != 0 && n == sigint_at {
            log(&db, "sigint");
            unsafe { kill(target, 2) };
        }
        let is_mgmt = sql.starts_with("CREATE DATABASE") || sql.starts_with("DROP DATABASE");
        if latency > 0 && !is_mgmt {
            std::thread::sleep(std::time::Duration::from_millis(latency));
        }
        let reply = if sql.starts_with("CREATE DATABASE") && sql.contains("nocreate") {
            // the server refuses to create this one database (the CLI goes on regardless)
            serde_json::json!({ "err": "permission denied to create database" })
        } else if let Some(v) = sql.strip_prefix("select ") {
            let row: Vec<String> = v.split(',').map(|s| s.trim().to_string()).collect();
            serde_json::json!({ "result": [row] })
        } else if let Some(n) = sql.strip_prefix("rows ") {
            let n: usize = n.trim().parse().unwrap_or(0);
            let rows: Vec<Vec<String>> = (0..n).map(|i| vec![format!("r{}", i)]).collect();
            serde_json::json!({ "result": rows })
        } else if let Some(n) = sql.strip_prefix("desc ") {
            // descending: the order the "database" returns differs from the sorted order
            let n: usize = n.split_whitespace().next().and_then(|s| s.parse().ok()).unwrap_or(0);
            let rows: Vec<Vec<String>> = (0..n).rev().map(|i| vec![format!("r{}", i)]).collect();
            serde_json::json!({ "result": rows })
        } else if let Some(rest) = sql.strip_prefix("flaky ") {
            // `flaky <k> <refuse|boom> ...`: the first k requests with this very text fail
            let mut it = rest.split_whitespace();
            let k: u64 = it.next().and_then(|s| s.parse().ok()).unwrap_or(0);
            let text = if it.next() == Some("refuse") { "Connection refused" } else { "boom" };
            let c = seen.entry(full.clone()).or_insert(0u64);
            *c += 1;
            if *c <= k {
                serde_json::json!({ "err": text })
            } else {
                serde_json::json!({ "result": [] })
            }
        } else if let Some(rest) = sql.strip_prefix("big ") {
            // a reply larger than a pipe buffer, written after a pause: whoever gave up waiting for it
            // must still let the engine finish (or see end-of-file)
            let n: usize = rest.split_whitespace().next().and_then(|s| s.parse().ok()).unwrap_or(0);
            std::thread::sleep(std::time::Duration::from_millis(300));
            serde_json::json!({ "result": [["x".repeat(n)]] })
        } else if let Some(rest) = sql.strip_prefix("orphan ") {
            // leaves a helper process behind that inherits this engine's stdout and outlives it
            let secs = rest.split_whitespace().next().unwrap_or("60").to_string();
            let _ = std::process::Command::new("sleep").arg(secs).stdin(std::process::Stdio::null()).stderr(std::process::Stdio::null()).spawn();
            serde_json::json!({ "result": [] })
        } else if sql.starts_with("blankrow") {
            // two rows of one column; the second value is a single blank
            serde_json::json!({ "result": [["v"], [" "]] })
        } else if sql.starts_with("fail") {
            serde_json::json!({ "err": "boom" })
        } else if sql.starts_with("refuse") {
            serde_json::json!({ "err": "Connection refused" })
        } else if let Some(t) = sql.strip_prefix("err ") {
            serde_json::json!({ "err": t })
        } else if sql.starts_with("die") {
            log(&db, "die");
            std::process::exit(3);
        } else if sql.starts_with("close") {
            log(&db, "close-stdout");
            unsafe { close(1) };
            out_open = false;
            continue;
        } else if let Some(rest) = sql.strip_prefix("linger ") {
            linger = rest.split_whitespace().next().and_then(|s| s.parse().ok()).unwrap_or(0);
            serde_json::json!({ "result": [] })
        } else if let Some(rest) = sql.strip_prefix("slow ") {
            let ms: u64 = rest.split_whitespace().next().and_then(|s| s.parse().ok()).unwrap_or(100);
            std::thread::sleep(std::time::Duration::from_millis(ms));
            serde_json::json!({ "result": [] })
        } else {
            serde_json::json!({ "result": [] })
        };
        if out_open {
            let mut so = std::io::stdout();
            if so.write_all(reply.to_string().as_bytes()).is_err() || so.flush().is_err() {
                log(&db, "epipe");
                break;
            }
        }
    }
    if linger > 0 {
        std::thread::sleep(std::time::Duration::from_millis(linger));
    }
    log(&db, "eof");
}
