//! Line-protocol encoding shared by all ops: strings as `x` + lower-case hex of the UTF-8 bytes.
use sqllogictest::*;

pub fn hx(s: &str) -> String {
    let mut o = String::with_capacity(1 + s.len() * 2);
    o.push('x');
    for b in s.as_bytes() {
        o.push_str(&format!("{:02x}", b));
    }
    o
}

pub fn hxb(b: &[u8]) -> String {
    let mut o = String::with_capacity(1 + b.len() * 2);
    o.push('x');
    for b in b {
        o.push_str(&format!("{:02x}", b));
    }
    o
}

pub fn unhx(s: &str) -> String {
    String::from_utf8(unhxb(s)).expect("utf8")
}

pub fn unhxb(s: &str) -> Vec<u8> {
    let s = s.strip_prefix('x').expect("hex field");
    (0..s.len() / 2)
        .map(|i| u8::from_str_radix(&s[2 * i..2 * i + 2], 16).unwrap())
        .collect()
}

pub fn opt(s: &Option<String>) -> String {
    match s {
        None => "-".into(),
        Some(s) => hx(s),
    }
}

pub fn enc_conds(c: &[Condition]) -> String {
    let mut o = format!("{}", c.len());
    for c in c {
        match c {
            Condition::OnlyIf { label } => o.push_str(&format!(" only {}", hx(label))),
            Condition::SkipIf { label } => o.push_str(&format!(" skip {}", hx(label))),
        }
    }
    o
}

pub fn enc_conn(c: &Connection) -> String {
    match c {
        Connection::Default => "cd".into(),
        Connection::Named(n) => format!("cn {}", hx(n)),
    }
}

pub fn enc_experr(e: &ExpectedError) -> String {
    match e {
        ExpectedError::Empty => "any".into(),
        ExpectedError::Inline(r) => format!("re {}", hx(r.as_str())),
        ExpectedError::Multiline(s) => format!("ml {}", hx(s)),
    }
}

pub fn enc_retry(r: &Option<RetryConfig>) -> String {
    match r {
        None => "-".into(),
        Some(r) => format!("r {} {} {}", r.attempts, r.backoff.as_secs(), r.backoff.subsec_nanos()),
    }
}

pub fn sort_str(s: &Option<SortMode>) -> &'static str {
    match s {
        None => "-",
        Some(SortMode::NoSort) => "nosort",
        Some(SortMode::RowSort) => "rowsort",
        Some(SortMode::ValueSort) => "valuesort",
    }
}

pub fn enc_record<T: ColumnType>(r: &Record<T>) -> String {
    match r {
        Record::Include { loc, filename } => format!("incl {} {}", loc.line(), hx(filename)),
        Record::Statement { loc, conditions, connection, sql, expected, retry } => {
            let e = match expected {
                StatementExpect::Ok => "ok".to_string(),
                StatementExpect::Count(n) => format!("count {}", n),
                StatementExpect::Error(e) => format!("err {}", enc_experr(e)),
            };
            format!(
                "stmt {} {} {} {} {} {}",
                loc.line(),
                enc_conds(conditions),
                enc_conn(connection),
                hx(sql),
                e,
                enc_retry(retry)
            )
        }
        Record::Query { loc, conditions, connection, sql, expected, retry } => {
            let e = match expected {
                QueryExpect::Results { types, sort_mode, label, results, result_mode } => {
                    let t: String = types.iter().map(|t| t.to_char()).collect();
                    let rm = match result_mode {
                        None => "-",
                        Some(ResultMode::RowWise) => "rowwise",
                        Some(ResultMode::ValueWise) => "valuewise",
                    };
                    let mut o = format!(
                        "res {} {} {} {} {}",
                        hx(&t),
                        sort_str(sort_mode),
                        rm,
                        opt(label),
                        results.len()
                    );
                    for l in results {
                        o.push(' ');
                        o.push_str(&hx(l));
                    }
                    o
                }
                QueryExpect::Error(e) => format!("err {}", enc_experr(e)),
            };
            format!(
                "query {} {} {} {} {} {}",
                loc.line(),
                enc_conds(conditions),
                enc_conn(connection),
                hx(sql),
                e,
                enc_retry(retry)
            )
        }
        Record::System { loc, conditions, command, stdout, retry, .. } => format!(
            "system {} {} {} {} {}",
            loc.line(),
            enc_conds(conditions),
            hx(command),
            opt(stdout),
            enc_retry(retry)
        ),
        Record::Sleep { loc, duration } => {
            format!("sleep {} {} {}", loc.line(), duration.as_secs(), duration.subsec_nanos())
        }
        Record::Subtest { loc, name } => format!("subtest {} {}", loc.line(), hx(name)),
        Record::Halt { loc } => format!("halt {}", loc.line()),
        Record::Control(c) => match c {
            Control::SortMode(m) => format!("control sort {}", sort_str(&Some(*m))),
            Control::ResultMode(ResultMode::RowWise) => "control result rowwise".into(),
            Control::ResultMode(ResultMode::ValueWise) => "control result valuewise".into(),
            Control::Substitution(b) => format!("control subst {}", if *b { 1 } else { 0 }),
            _ => "control unknown".into(),
        },
        Record::HashThreshold { loc, threshold } => format!("hash {} {}", loc.line(), threshold),
        Record::Condition(Condition::OnlyIf { label }) => format!("cond only {}", hx(label)),
        Record::Condition(Condition::SkipIf { label }) => format!("cond skip {}", hx(label)),
        Record::Connection(c) => format!("conn {}", enc_conn(c)),
        Record::Comment(ls) => {
            let mut o = format!("comment {}", ls.len());
            for l in ls {
                o.push(' ');
                o.push_str(&hx(l));
            }
            o
        }
        Record::Newline => "newline".into(),
        Record::Injected(Injected::BeginInclude(f)) => format!("begin {}", hx(f)),
        Record::Injected(Injected::EndInclude(f)) => format!("end {}", hx(f)),
        _ => "unknown".into(),
    }
}

pub fn perr_kind(k: &ParseErrorKind) -> &'static str {
    match k {
        ParseErrorKind::UnexpectedToken(_) => "unexpectedToken",
        ParseErrorKind::UnexpectedEOF => "unexpectedEOF",
        ParseErrorKind::InvalidSortMode(_) => "invalidSortMode",
        ParseErrorKind::InvalidLine(_) => "invalidLine",
        ParseErrorKind::InvalidType(_) => "invalidType",
        ParseErrorKind::InvalidNumber(_) => "invalidNumber",
        ParseErrorKind::InvalidErrorMessage(_) => "invalidErrorMessage",
        ParseErrorKind::DuplicatedErrorMessage => "duplicatedErrorMessage",
        ParseErrorKind::InvalidRetryConfig(_) => "invalidRetryConfig",
        ParseErrorKind::StatementHasResults => "statementHasResults",
        ParseErrorKind::InvalidDuration(_) => "invalidDuration",
        ParseErrorKind::InvalidControl(_) => "invalidControl",
        ParseErrorKind::InvalidIncludeFile(_) => "invalidIncludeFile",
        ParseErrorKind::EmptyIncludeFile(_) => "emptyIncludeFile",
        ParseErrorKind::FileNotFound => "fileNotFound",
        ParseErrorKind::ReadFile(_) => "readFile",
        _ => "unknownKind",
    }
}

pub fn terr_kind(k: &TestErrorKind) -> &'static str {
    match k {
        TestErrorKind::ParseError(_) => "parseError",
        TestErrorKind::Ok { .. } => "unexpectedOk",
        TestErrorKind::Fail { .. } => "unexpectedFail",
        TestErrorKind::SystemFail { .. } => "systemFail",
        TestErrorKind::SystemStdoutMismatch { .. } => "stdoutMismatch",
        TestErrorKind::ErrorMismatch { .. } => "errorMismatch",
        TestErrorKind::StatementResultMismatch { .. } => "countMismatch",
        TestErrorKind::QueryResultMismatch { .. } => "resultMismatch",
        TestErrorKind::QueryResultColumnsMismatch { .. } => "columnsMismatch",
        _ => "unknownKind",
    }
}

/// the `actual` / `err` payload of a test error (what the failure reports as the real reason)
pub fn terr_detail(k: &TestErrorKind) -> String {
    match k {
        TestErrorKind::Fail { err, .. } => err.to_string(),
        TestErrorKind::SystemFail { err, .. } => err.to_string(),
        TestErrorKind::SystemStdoutMismatch { actual_stdout, .. } => actual_stdout.clone(),
        TestErrorKind::ErrorMismatch { err, .. } => err.to_string(),
        TestErrorKind::StatementResultMismatch { actual, .. } => actual.clone(),
        TestErrorKind::QueryResultMismatch { actual, .. } => actual.clone(),
        TestErrorKind::QueryResultColumnsMismatch { actual, .. } => actual.clone(),
        _ => String::new(),
    }
}
