//! Op `fmt` (C05): unparse the parsed records of a text with the real `Display`, re-parse.
use std::panic::{catch_unwind, AssertUnwindSafe};

use sqllogictest::*;

use crate::enc::*;
use crate::script::enc_regex_valid;

pub fn encode_fmt_case(text: &str) -> String {
    // the regex-validity table must also cover the regexes of the *formatted* text; they are the
    // same strings (tokens re-joined by one blank), already covered by the candidates of `text`
    format!("fmt {} {}", hx(text), enc_regex_valid(text))
}

pub fn write_records(recs: &[Record<DefaultColumnType>]) -> String {
    let mut o = String::new();
    for r in recs {
        o.push_str(&r.to_string());
        o.push('\n');
    }
    o
}

/// encoding with line numbers blanked, `Newline` records dropped, comment lines right-trimmed and
/// taken one by one: the meaning of a script (what `≈` compares)
pub fn meaning(recs: &[Record<DefaultColumnType>]) -> Vec<String> {
    let mut v = vec![];
    for r in recs {
        if matches!(r, Record::Newline) {
            continue;
        }
        let e = enc_record(r);
        let mut t: Vec<String> = e.split(' ').map(|s| s.to_string()).collect();
        match t[0].as_str() {
            "stmt" | "query" | "system" | "sleep" | "subtest" | "halt" | "hash" | "incl" => t[1] = "_".into(),
            "comment" => {
                // a comment says its lines, one by one: how adjacent comment lines are grouped into
                // records is not part of the meaning (a blanks-only line between two comment lines
                // splits the record, and the writer drops that line) — same as `Slt.says` in Canon.lean
                for x in t.iter().skip(2) {
                    v.push(format!("comment 1 {}", hx(unhx(x).trim_end())));
                }
                continue;
            }
            _ => {}
        }
        v.push(t.join(" "));
    }
    v
}

pub fn normalize_tail(s: &str) -> String {
    if s.is_empty() || !s.ends_with('\n') {
        return s.to_string();
    }
    format!("{}\n", s.trim_end_matches('\n'))
}

/// returns (answer line, oracle message if the property fails on the implementation alone)
pub fn run_fmt(text: &str) -> (String, Option<String>) {
    let res = catch_unwind(AssertUnwindSafe(|| {
        let recs = match parse_with_name::<DefaultColumnType>(text, "f.slt") {
            Ok(r) => r,
            Err(e) => return (format!("parseerr {} {}", perr_kind(&e.kind()), e.location().line()), None),
        };
        let f1 = normalize_tail(&write_records(&recs));
        let (re, oracle) = match parse_with_name::<DefaultColumnType>(&f1, "f.slt") {
            Ok(r2) => {
                let mut o = format!("ok {}", r2.len());
                for r in &r2 {
                    o.push_str(" | ");
                    o.push_str(&enc_record(r));
                }
                let mut msg = None;
                if meaning(&recs) != meaning(&r2) {
                    msg = Some("parse(fmt s) is not the same script as parse(s)".to_string());
                } else {
                    let f2 = normalize_tail(&write_records(&r2));
                    if f2 != f1 {
                        msg = Some("fmt(fmt s) differs from fmt s".to_string());
                    }
                }
                (o, msg)
            }
            Err(e) => (
                format!("err {} {}", perr_kind(&e.kind()), e.location().line()),
                Some("the formatted text does not parse".to_string()),
            ),
        };
        (format!("ok {} {}", hx(&f1), re), oracle)
    }));
    match res {
        Ok(x) => x,
        Err(_) => ("panic".into(), Some("panic while formatting".into())),
    }
}
