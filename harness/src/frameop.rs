//! Op `frame` (C20): the real `ExternalDriver` against a scripted child that controls the exact
//! chunking of its replies.
use std::time::Duration;

use sqllogictest::{AsyncDB, DBOutput};
use sqllogictest_engines::external::{ExternalDriver, ExternalDriverError};

use crate::enc::*;
use crate::rng::Rng;

#[derive(Clone, Debug)]
pub struct Step {
    pub sql: String,
    /// reply | partial-close | partial-exit | silent
    pub kind: String,
    pub chunks: Vec<Vec<u8>>,
}

#[derive(Clone, Debug, Default)]
pub struct FrameCase {
    pub steps: Vec<Step>,
    pub tag: String,
}

impl FrameCase {
    pub fn encode(&self) -> String {
        let mut o = format!("frame {}", self.steps.len());
        for s in &self.steps {
            o.push_str(&format!(" {} {} {}", hx(&s.sql), s.kind, s.chunks.len()));
            for c in &s.chunks {
                o.push(' ');
                o.push_str(&hxb(c));
            }
        }
        o
    }

    pub fn run(&self) -> String {
        let base = std::env::var("SLT_SCRATCH").unwrap_or_else(|_| "/verif/out/scratch".into());
        let dir = std::path::PathBuf::from(base).join(format!("frame_{}", std::process::id()));
        let _ = std::fs::create_dir_all(&dir);
        let script = dir.join("script.txt");
        let log = dir.join("engine.log");
        let _ = std::fs::remove_file(&log);
        let mut text = String::new();
        for s in &self.steps {
            text.push_str(&s.kind);
            for c in &s.chunks {
                text.push(' ');
                text.push_str(&hxb(c));
            }
            text.push('\n');
        }
        std::fs::write(&script, text).unwrap();
        let exe = std::env::current_exe().unwrap().parent().unwrap().join("chunk_engine");
        let rt = tokio::runtime::Builder::new_current_thread().enable_all().build().unwrap();
        let steps = self.steps.clone();
        // a panic inside the driver is an answer like any other (`panic`), not the end of the harness
        let outcome = std::panic::catch_unwind(std::panic::AssertUnwindSafe(|| rt.block_on(async move {
            let mut cmd = tokio::process::Command::new(exe);
            cmd.arg(&script).arg(&log);
            let mut drv = match ExternalDriver::connect(cmd).await {
                Ok(d) => d,
                Err(_) => return (vec!["connect-failed".to_string()], false),
            };
            let mut results = vec![];
            let mut timed_out = false;
            for s in &steps {
                if s.kind == "late-reply" {
                    // the caller gives up after 100 ms (the future is dropped, as a cancelled CLI run does)
                    // and shuts the driver down while the engine is still about to write its reply
                    let r = tokio::time::timeout(Duration::from_millis(100), drv.run(&s.sql)).await;
                    results.push(if r.is_err() { "abandoned".to_string() } else { "answered-early".to_string() });
                    break;
                }
                let r = tokio::time::timeout(Duration::from_millis(1500), drv.run(&s.sql)).await;
                match r {
                    Err(_) => {
                        results.push("timeout".to_string());
                        timed_out = true;
                        break;
                    }
                    Ok(Ok(DBOutput::Rows { rows, .. })) => {
                        let mut o = format!("rows {}", rows.len());
                        for row in rows {
                            o.push_str(&format!(" {}", row.len()));
                            for v in row {
                                o.push(' ');
                                o.push_str(&hx(&v));
                            }
                        }
                        results.push(o);
                    }
                    Ok(Ok(_)) => results.push("complete".to_string()),
                    Ok(Err(ExternalDriverError::Sql(e))) => results.push(format!("sqlerr {}", hx(&e))),
                    Ok(Err(_)) => results.push("fail".to_string()),
                }
            }
            // shutdown closes the engine's stdin and reaps it
            let shut = if timed_out {
                true
            } else {
                tokio::time::timeout(Duration::from_millis(3000), drv.shutdown()).await.is_ok()
            };
            (results, shut)
        })));
        let (results, shut_ok) = match outcome {
            Ok(x) => x,
            Err(_) => (vec!["panic".to_string()], false),
        };
        let logtext = std::fs::read_to_string(dir.join("engine.log")).unwrap_or_default();
        let reqs: Vec<&str> = logtext.lines().filter_map(|l| l.strip_prefix("req ")).collect();
        let saw_eof = logtext.lines().any(|l| l == "eof");
        let exited = logtext.lines().any(|l| l == "exited");
        let mut o = format!("calls {}", results.len());
        for r in &results {
            o.push_str(" ; ");
            o.push_str(r);
        }
        o.push_str(&format!(" ;; reqs {}", reqs.len()));
        for r in reqs {
            o.push(' ');
            o.push_str(r);
        }
        // the engine sees end-of-file on its input after shutdown (unless it exited itself)
        o.push_str(&format!(" ;; eof={} shutdown={}", if exited { 1 } else { saw_eof as u8 }, shut_ok as u8));
        let _ = std::fs::remove_dir_all(&dir);
        o
    }
}

// ------------------------------------------------------------------------------------------

const SQLS: &[&str] = &[
    "select 1", "select 'a\"b'", "line1\nline2", "tab\there", "back\\slash", "é日本 \u{1F600}", "", "ctrl\u{1}\u{1f}x",
    "{\"sql\":\"nested\"}", "  padded  ", "quote ' and \u{7f}",
];

const VALS: &[&str] = &["1", "", "a b", "é", "日本", "\u{1F600}", "q\"uote", "back\\slash", "new\nline", "tab\t", "\u{1}", "{}", "[,]"];

fn json_string(r: &mut Rng, s: &str) -> String {
    // serde_json escaping with random use of the optional \uXXXX / \/ forms
    let mut o = String::from("\"");
    for ch in s.chars() {
        match ch {
            '"' => o.push_str("\\\""),
            '\\' => o.push_str("\\\\"),
            '\n' => o.push_str("\\n"),
            '\t' => o.push_str("\\t"),
            c if (c as u32) < 0x20 => o.push_str(&format!("\\u{:04x}", c as u32)),
            c => {
                if r.chance(1, 8) {
                    let mut b = [0u16; 2];
                    for u in c.encode_utf16(&mut b) {
                        o.push_str(&format!("\\u{:04X}", u));
                    }
                } else {
                    o.push(c);
                }
            }
        }
    }
    o.push('"');
    o
}

fn ws(r: &mut Rng) -> &'static str {
    *r.pick(&["", "", " ", "\n", " \t", "\r\n"])
}

pub fn gen_reply_bytes(r: &mut Rng) -> Vec<u8> {
    let mut s = String::new();
    s.push_str(ws(r));
    if r.chance(1, 4) {
        let v = *r.pick(VALS);
        s.push_str(&format!("{{{}\"err\"{}:{}{}{}}}", ws(r), ws(r), ws(r), json_string(r, v), ws(r)));
    } else {
        let nrows = r.below(4);
        let ncols = r.range(1, 3);
        s.push('{');
        if r.chance(1, 6) {
            s.push_str("\"extra\": [1, 2.5e3, true, null, {\"k\": \"v\"}], ");
        }
        s.push_str(&format!("{}\"result\"{}:{}[", ws(r), ws(r), ws(r)));
        for i in 0..nrows {
            if i > 0 {
                s.push(',');
                s.push_str(ws(r));
            }
            s.push('[');
            for j in 0..ncols {
                if j > 0 {
                    s.push(',');
                    s.push_str(ws(r));
                }
                let v = *r.pick(VALS);
                s.push_str(&json_string(r, v));
            }
            s.push(']');
        }
        s.push(']');
        s.push_str(ws(r));
        s.push('}');
    }
    s.push_str(ws(r));
    s.into_bytes()
}

fn cut(bytes: &[u8], cuts: &[usize]) -> Vec<Vec<u8>> {
    let mut out = vec![];
    let mut prev = 0;
    for &c in cuts {
        out.push(bytes[prev..c].to_vec());
        prev = c;
    }
    out.push(bytes[prev..].to_vec());
    out
}

/// every single cut point / every pair of cut points of one short reply
pub fn exhaustive_cuts(r: &mut Rng, pairs: bool, f: &mut dyn FnMut(FrameCase)) {
    // the caller gives up while a reply is pending (small, and larger than a pipe buffer): shutting the
    // driver down must still let the engine see end-of-file and reap it (D28)
    for n in [10usize, 70_000, 300_000] {
        let big = format!("{{\"result\":[[\"{}\"]]}}", "x".repeat(n)).into_bytes();
        f(FrameCase {
            steps: vec![
                Step { sql: "select 0".into(), kind: "reply".into(), chunks: vec![b"{\"result\":[]}".to_vec()] },
                Step { sql: "select big".into(), kind: "late-reply".into(), chunks: vec![big] },
            ],
            tag: format!("c20 caller gives up, reply of {} bytes pending", n),
        });
    }
    let reply = "{\"result\":[[\"é\",\"\u{1F600}\\n\"],[\"\\u00e9\",\"x\"]]} ".as_bytes().to_vec();
    let reply2 = " {\"err\":\"bo\\\"om 日本\"}".as_bytes().to_vec();
    for rep in [&reply, &reply2] {
        let n = rep.len();
        for i in 1..n {
            f(FrameCase {
                steps: vec![
                    Step { sql: "select 1".into(), kind: "reply".into(), chunks: cut(rep, &[i]) },
                    Step { sql: "select 2".into(), kind: "reply".into(), chunks: vec![b"{\"result\":[]}".to_vec()] },
                ],
                tag: format!("c20 cut {}", i),
            });
            // truncation at i followed by EOF
            let kind = if r.chance(1, 2) { "partial-close" } else { "partial-exit" };
            f(FrameCase {
                steps: vec![
                    Step { sql: "select 1".into(), kind: kind.into(), chunks: vec![rep[..i].to_vec()] },
                    Step { sql: "select 2".into(), kind: "reply".into(), chunks: vec![b"{\"result\":[]}".to_vec()] },
                ],
                tag: format!("c20 truncate {} {}", i, kind),
            });
        }
        if pairs {
            for i in 1..n {
                for j in (i + 1)..n {
                    f(FrameCase {
                        steps: vec![Step { sql: "select 1".into(), kind: "reply".into(), chunks: cut(rep, &[i, j]) }],
                        tag: format!("c20 cut {} {}", i, j),
                    });
                }
            }
        }
    }
}

pub fn gen_frame(r: &mut Rng) -> FrameCase {
    let n = r.range(1, 5);
    let mut steps = vec![];
    for k in 0..n {
        // (one request in forty is longer than a pipe buffer)
        let sql = if r.chance(1, 40) {
            format!("select '{}\n\"é' -- long", "a".repeat(70_000 + r.below(5000)))
        } else {
            r.pick(SQLS).to_string()
        };
        let mut bytes = gen_reply_bytes(r);
        // sometimes two replies at once (the engine answers ahead) or garbage
        let kind;
        match r.below(20) {
            0 if k + 1 == n => {
                let t = r.range(0, bytes.len().saturating_sub(1));
                bytes.truncate(t);
                kind = if r.chance(1, 2) { "partial-close" } else { "partial-exit" };
            }
            1 => {
                kind = "reply";
                bytes = r.pick(&["{\"result\": 5}", "[1,2]", "{\"other\":1}", "nonsense", "{\"result\":[[1]]}", "{\"err\":\"a\",}", "7 "]).as_bytes().to_vec();
            }
            _ => kind = "reply",
        }
        let ncuts = if bytes.len() > 1 { r.below(4) } else { 0 };
        let mut cuts: Vec<usize> = (0..ncuts).map(|_| r.range(1, bytes.len() - 1)).collect();
        cuts.sort();
        cuts.dedup();
        steps.push(Step { sql, kind: kind.into(), chunks: cut(&bytes, &cuts) });
    }
    FrameCase { steps, tag: "c20 random".into() }
}
