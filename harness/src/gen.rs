//! Case generators for the `script` op (C01, C02, C09, C10, C11, C12, C15).
use md5::{Digest, Md5};

use crate::mock::*;
use crate::rng::Rng;
use crate::script::ScriptCase;

pub const VALUES: &[&str] = &[
    "1", "2", "3", "10", "abc", "ab", "a b", "  x ", "ß", "日本", "NULL", "(empty)", "0.5", "a\tb",
    "x  y", "Z", "z", "é", "\u{1F600}", "-1", "a\u{a0}b", "1 ", " 1", " ",
    // white space at the edges that is not ASCII white space (see known finding D21 for updates)
    "\u{a0}lead", "\u{2003}both\u{2003}",
];

pub const ERR_TEXTS: &[&str] = &[
    "boom",
    "syntax error at or near \"(\"",
    "a.b*c",
    "line1\nline2",
    "  padded  ",
    "x\n\ny",
    "日本語 error",
    "",
    "Hey you got FakeDBError!",
    "err [1] (x) {y}",
    "connfail",
    // single-line texts that do not survive being written as an inline pattern (re-tokenised)
    "two  blanks inside",
    "tab\there",
    "trailing tab\t",
    // ... or contain white space that is not ASCII white space
    "nb\u{a0}sp inside",
    "em\u{2003}space and\u{b}vt",
];

pub const REGEXES: &[&str] = &[
    "boom", "syn.*near", "a\\.b\\*c", "^line1", "nomatch", "[0-9]+", "b+", "^$", "Hey you", "\\(x\\)",
    "line1.line2", "pad+ed", "conn.ail", "(", "a{2,1}", "[z-a]", "x   y",
    // sensitive to the flags the pattern is compiled with (dot-all, multi-line, case, unicode, verbose)
    "line1.*line2", "x.+y", "x..y", "^line2", "line1$", "LINE1", "(?i)BOOM", "(?s)line1.line2", "b o o m", "^.*$",
    "\\bx\\b", "日.語",
];

pub const SQLS: &[&str] = &[
    "select 1",
    "select * from t",
    "insert into t values (1)",
    "select\n  2",
    "select '$x' , '\\\\'",
    "select a,\n b\n from t",
    // blanks at the end of the first / a middle line belong to the text
    "select a,  \n b\t\n from t",
    "select 1 \n\t+ 2 \u{a0}\n + 3",
    // a blanks-only line and a `----` line with a trailing blank are part of the text, not its end
    "select 'a\n  \n b'",
    "select 1\n---- \n+ 2",
    "select 2\n ----\n+ 3",
    "SELECT 1",
    "drop table t",
    "select ---- x",
    "select 'é日本'",
    "select '$__TEST_DIR__/a.csv', '$__NOW__'",
    "select '$myvar' || '${myvar}' || '\\$'",
];

pub fn gen_rows(r: &mut Rng, max_rows: usize, max_cols: usize) -> Vec<Vec<String>> {
    let n = r.below(max_rows + 1);
    let c = r.range(1, max_cols);
    (0..n).map(|_| (0..c).map(|_| r.pick(VALUES).to_string()).collect()).collect()
}

pub fn md5_hex(values: &[String]) -> String {
    let mut h = Md5::new();
    for v in values {
        h.update(v.as_bytes());
        h.update(b"\n");
    }
    format!("{:x}", h.finalize())
}

/// Independent reference of the lines a correct expectation consists of.
pub fn reference_lines(
    rows: &[Vec<String>],
    sort: Option<&str>,
    valuewise: bool,
    threshold: usize,
) -> Vec<String> {
    let mut rows: Vec<Vec<String>> = rows.to_vec();
    match sort {
        Some("rowsort") => rows.sort(),
        Some("valuesort") => {
            let mut v: Vec<String> = rows.into_iter().flatten().collect();
            v.sort();
            rows = v.into_iter().map(|x| vec![x]).collect();
        }
        _ => {}
    }
    let values: Vec<String> = rows.iter().flatten().cloned().collect();
    if threshold > 0 && values.len() > threshold {
        return vec![format!("{} values hashing to {}", values.len(), md5_hex(&values))];
    }
    if valuewise {
        values.iter().map(|v| norm(v)).collect()
    } else {
        rows.iter().map(|r| r.iter().map(|v| norm(v)).collect::<Vec<_>>().join(" ")).collect()
    }
}

/// whitespace-normalised value (so that it can be written on a result line)
pub fn norm(v: &str) -> String {
    v.trim().split_ascii_whitespace().collect::<Vec<_>>().join(" ")
}

fn relay_ws(r: &mut Rng, line: &str) -> String {
    // re-lay the blanks of a line: different amounts of blanks/tabs between words
    let words: Vec<&str> = line.split_ascii_whitespace().collect();
    let mut o = String::new();
    if r.chance(1, 3) {
        o.push_str(" ");
    }
    for (i, w) in words.iter().enumerate() {
        if i > 0 {
            o.push_str(*r.pick(&[" ", "  ", "\t", " \t "]));
        }
        o.push_str(w);
    }
    if r.chance(1, 3) {
        o.push_str("  ");
    }
    o
}

/// mutate a correct list of expected lines; returns a description
pub fn mutate_lines(r: &mut Rng, lines: &mut Vec<String>) -> &'static str {
    match r.below(8) {
        0 | 1 | 2 => "exact",
        3 => {
            for l in lines.iter_mut() {
                *l = relay_ws(r, l);
            }
            // a line must not become empty (it would end the block)
            if lines.iter().any(|l| l.is_empty()) {
                for l in lines.iter_mut() {
                    if l.is_empty() {
                        *l = " ".into();
                    }
                }
            }
            "relaid"
        }
        4 => {
            if !lines.is_empty() {
                let i = r.below(lines.len());
                lines[i] = format!("{}X", lines[i]);
            }
            "value-changed"
        }
        5 => {
            if !lines.is_empty() {
                let i = r.below(lines.len());
                lines.remove(i);
            }
            "line-removed"
        }
        6 => {
            lines.push(r.pick(VALUES).trim().to_string());
            if lines.last().unwrap().is_empty() {
                lines.pop();
                lines.push("q".into());
            }
            "line-added"
        }
        _ => {
            if lines.len() > 1 {
                let i = r.below(lines.len() - 1);
                lines.swap(i, i + 1);
            }
            "swapped"
        }
    }
}

/// a value that normalises to the empty string is expected as a blank-only line (an empty line
/// would end the block)
fn fix_empty_lines(lines: &mut Vec<String>) {
    for l in lines.iter_mut() {
        if l.is_empty() {
            *l = " ".into();
        }
    }
}

pub fn types_for(r: &mut Rng, ncols: usize) -> String {
    (0..ncols).map(|_| *r.pick(&['T', 'I', 'R', '?'])).collect()
}

pub fn retry_clause(r: &mut Rng) -> String {
    format!(" retry {} backoff {}", r.range(1, 4), r.pick(&["0s", "1ms", "1s500ms", "2m", "10ns"]))
}

/// write an error expectation; returns (header suffix, block after sql)
fn error_expectation(r: &mut Rng, actual: Option<&str>, allow_inline: bool) -> (String, String) {
    match r.below(if allow_inline { 6 } else { 3 }) {
        0 => ("error".into(), String::new()),
        1 | 2 => {
            // multi-line: exact or wrong
            let t = match actual {
                Some(a) if r.chance(2, 3) && !a.trim().is_empty() && !a.contains("\n\n") => {
                    a.trim().to_string()
                }
                _ => r.pick(&["boom", "line1\nline2", "other text", "padded"]).to_string(),
            };
            ("error".into(), format!("----\n{}\n\n", t))
        }
        3 => (format!("error {}", r.pick(REGEXES)), String::new()),
        4 if actual.is_some_and(|a| !a.trim().is_empty()) => {
            // a one-token pattern derived from the WHOLE actual text: white space (incl. newlines)
            // becomes `.` / `\s` / `.?`, a few characters become `.` or change case, optional
            // anchors: whether it matches depends on the flags the regex is compiled with
            let a = actual.unwrap().trim();
            let mut t = String::new();
            if r.chance(1, 4) {
                t.push('^');
            }
            for c in a.chars() {
                if c.is_whitespace() {
                    t.push_str(*r.pick(&[".", "\\s", ".?", ".*", "\\s+"]));
                } else if r.chance(1, 10) {
                    t.push('.');
                } else if r.chance(1, 12) && c.is_ascii_alphabetic() {
                    t.push(if c.is_ascii_lowercase() { c.to_ascii_uppercase() } else { c.to_ascii_lowercase() });
                } else {
                    t.push_str(&regex::escape(&c.to_string()));
                }
            }
            if r.chance(1, 4) {
                t.push('$');
            }
            (format!("error {}", t), String::new())
        }
        _ => {
            // regex derived from the actual text
            let t = match actual {
                Some(a) => {
                    let first = a.trim().lines().next().unwrap_or("").to_string();
                    let e = regex::escape(&first);
                    if e.split_whitespace().count() == 0 {
                        "boom".to_string()
                    } else {
                        e.split_whitespace().collect::<Vec<_>>().join(" ")
                    }
                }
                None => "boom".to_string(),
            };
            (format!("error {}", t), String::new())
        }
    }
}

pub struct Flags {
    /// a record gets a deliberately random (mostly wrong) expectation with probability 1/wrong_den,
    /// otherwise one that matches the scripted answer
    pub wrong_den: usize,
    pub retry: bool,
    pub conds: bool,
    pub conns: bool,
    pub controls: bool,
    pub system: bool,
    pub misc: bool,
}

pub const LABELS: &[&str] = &["mock", "pg", "duck", "L"];
pub const CONNS: &[&str] = &["default", "a", "A", "b", "c1", "Default", "DEFAULT", "B"];

/// One random record as text; may add rules to the db. Returns the text (ending in a blank line).
pub fn gen_record(r: &mut Rng, db: &mut DbScript, fl: &Flags, eff: &mut Eff) -> String {
    let mut pre = String::new();
    if fl.conds && r.chance(1, 4) {
        for _ in 0..r.range(1, 2) {
            pre.push_str(&format!("{} {}\n", r.pick(&["onlyif", "skipif"]), r.pick(LABELS)));
        }
    }
    let kind = r.below(if fl.system { 10 } else { 8 });
    if fl.conns && kind < 8 && r.chance(1, 3) {
        pre.push_str(&format!("connection {}\n", r.pick(CONNS)));
    }
    let retry = if fl.retry && r.chance(1, 6) { retry_clause(r) } else { String::new() };
    let want_pass = !r.chance(1, fl.wrong_den);
    // fresh sql text per record so that its rule is its own (history-dependence comes from lists)
    let sql = format!("{} -- {}", r.pick(SQLS), db.rules.len());
    let sql = if sql.contains('\n') { sql.replace("\n", "\n ") } else { sql };
    // ... and so do blanks at the end of the last line
    let sql = if r.chance(1, 12) { format!("{}{}", sql, r.pick(&[" ", "  ", "\t", " \u{a0}"])) } else { sql };
    match kind {
        0..=2 => {
            // statement
            let ans = match r.below(5) {
                0 | 1 => Ans::Complete(r.below(4) as u64),
                2 => Ans::Rows { types: "T".into(), rows: gen_rows(r, 3, 1) },
                // now and then an error text of 20 000 characters (whatever is built from it -- a pattern, a
                // line of the file -- must cope)
                _ if r.chance(1, 50) => Ans::Error(format!("long error {}", "x".repeat(20000))),
                _ => Ans::Error(r.pick(ERR_TEXTS).to_string()),
            };
            let (hdr, block) = if want_pass {
                match &ans {
                    Ans::Complete(n) if r.chance(1, 2) => (format!("count {}", n), String::new()),
                    Ans::Rows { rows, .. } if r.chance(1, 2) => (format!("count {}", rows.len()), String::new()),
                    Ans::Error(e) if retry.is_empty() && r.chance(1, 4) => error_expectation(r, Some(e.as_str()), true),
                    Ans::Error(e) => {
                        if r.chance(1, 2) || e.trim().is_empty() || e.contains("\n\n") {
                            ("error".to_string(), String::new())
                        } else {
                            ("error".to_string(), format!("----\n{}\n\n", e.trim()))
                        }
                    }
                    _ => ("ok".to_string(), String::new()),
                }
            } else { match r.below(6) {
                0 | 1 => ("ok".to_string(), String::new()),
                2 => {
                    let n = match &ans {
                        Ans::Complete(n) if r.chance(2, 3) => *n,
                        Ans::Rows { rows, .. } if r.chance(2, 3) => rows.len() as u64,
                        _ => r.below(4) as u64,
                    };
                    (format!("count {}", n), String::new())
                }
                _ => {
                    let actual = if let Ans::Error(e) = &ans { Some(e.as_str()) } else { None };
                    error_expectation(r, actual, retry.is_empty())
                }
            } };
            db.rules.push((sql.clone(), vec![ans]));
            format!("{}statement {}{}\n{}\n{}\n", pre, hdr, retry, sql, block)
        }
        3..=7 => {
            // query
            let rows = gen_rows(r, 4, 3);
            let ncols = rows.first().map(|x| x.len()).unwrap_or(1);
            let dbtypes = types_for(r, ncols);
            let ans = match r.below(if want_pass { 1 } else { 8 }) {
                0 if !want_pass => Ans::Complete(r.below(3) as u64),
                1 => Ans::Error(r.pick(ERR_TEXTS).to_string()),
                _ => Ans::Rows { types: dbtypes.clone(), rows: rows.clone() },
            };
            if !want_pass && r.chance(1, 5) {
                let actual = if let Ans::Error(e) = &ans { Some(e.as_str()) } else { None };
                let (hdr, block) = error_expectation(r, actual, retry.is_empty());
                db.rules.push((sql.clone(), vec![ans]));
                return format!("{}query {}{}\n{}\n{}\n", pre, hdr, retry, sql, block);
            }
            let sort = *r.pick(&[None, None, None, Some("nosort"), Some("rowsort"), Some("valuesort")]);
            let label = if sort.is_some() && r.chance(1, 5) { " lbl" } else { "" };
            let eff_sort = sort.or(eff.sort);
            let mut lines = reference_lines(&rows, eff_sort, eff.valuewise, eff.threshold);
            fix_empty_lines(&mut lines);
            if !want_pass {
                mutate_lines(r, &mut lines);
            }
            let nt = r.range(1, 3);
            let types = if want_pass || r.chance(3, 4) { dbtypes.clone() } else { types_for(r, nt) };
            db.rules.push((sql.clone(), vec![ans]));
            let mut o = format!(
                "{}query {}{}{}{}\n{}\n----\n",
                pre,
                types,
                sort.map(|s| format!(" {}", s)).unwrap_or_default(),
                label,
                retry,
                sql
            );
            for l in &lines {
                o.push_str(l);
                o.push('\n');
            }
            o.push('\n');
            o
        }
        _ => {
            // system
            let cmd = format!("{} # {}", r.pick(&["echo hi", "cat f", "false", "printf 'a\\nb'"]), db.cmd_rules.len());
            let out = r.pick(&["hi\n", "a\nb", "", "  padded \n\n", "x\n\n\ny\n"]).to_string();
            let ans = match r.below(if want_pass { 1 } else { 5 }) {
                0 if !want_pass => CmdAns::Exit { code: r.range(1, 3) as i32, stdout: out.clone() },
                1 => CmdAns::SpawnErr,
                // killed by a signal, possibly after having written the expected output
                2 => CmdAns::Signal { sig: *r.pick(&[1, 2, 9, 15]), stdout: out.clone() },
                _ => CmdAns::Exit { code: 0, stdout: out.clone() },
            };
            db.cmd_rules.push((cmd.clone(), vec![ans]));
            let block = match r.below(if want_pass { 3 } else { 4 }) {
                0 | 1 => String::new(),
                2 if !out.trim().is_empty() && !out.trim().contains("\n\n") => {
                    format!("----\n{}\n\n", out.trim())
                }
                _ if want_pass => String::new(),
                _ => "----\nother\n\n".to_string(),
            };
            format!("{}system ok{}\n{}\n{}\n", pre, retry, cmd, block)
        }
    }
}

/// file-level settings in force (tracked by the generator so that expectations can be right)
#[derive(Clone, Default)]
pub struct Eff {
    pub sort: Option<&'static str>,
    pub valuewise: bool,
    pub threshold: usize,
}

pub fn gen_control(r: &mut Rng, eff: &mut Eff) -> String {
    match r.below(4) {
        0 => {
            let m = *r.pick(&["nosort", "rowsort", "valuesort"]);
            eff.sort = Some(m);
            format!("control sortmode {}\n\n", m)
        }
        1 => {
            let m = *r.pick(&["rowwise", "valuewise"]);
            eff.valuewise = m == "valuewise";
            format!("control resultmode {}\n\n", m)
        }
        _ => {
            let t = *r.pick(&[0usize, 1, 2, 3, 4, 6, 8]);
            eff.threshold = t;
            format!("hash-threshold {}\n\n", t)
        }
    }
}

pub fn gen_misc(r: &mut Rng) -> String {
    match r.below(5) {
        0 => "# a comment\n".into(),
        1 => "\n".into(),
        2 => format!("sleep {}\n\n", r.pick(&["1ms", "2s", "0s"])),
        3 => "subtest foo\n\n".into(),
        _ => "# c1\n# c2\n\n".into(),
    }
}

/// C01 profile: (optional controls) + one record, everything relative to the answer
pub fn gen_c01(r: &mut Rng) -> ScriptCase {
    let mut db = DbScript { engine: "mock".into(), ..Default::default() };
    let mut eff = Eff::default();
    let mut text = String::new();
    let threshold = if r.chance(1, 4) { *r.pick(&[1usize, 2, 3, 4, 6]) } else { 0 };
    eff.threshold = threshold;
    for _ in 0..r.below(3) {
        text.push_str(&gen_control(r, &mut eff));
    }
    let fl = Flags { wrong_den: 2, retry: false, conds: false, conns: false, controls: true, system: true, misc: false };
    text.push_str(&gen_record(r, &mut db, &fl, &mut eff));
    ScriptCase { strict_cols: r.chance(1, 2), threshold, text, db, tag: "c01".into(), ..Default::default() }
}

/// C02 profile: scripts of 1..12 records of all kinds, halt at a random position sometimes
pub fn gen_c02(r: &mut Rng) -> ScriptCase {
    let mut db = DbScript { engine: "mock".into(), ..Default::default() };
    let mut eff = Eff::default();
    let threshold = *r.pick(&[0usize, 0, 0, 2, 5]);
    eff.threshold = threshold;
    let mut text = String::new();
    let n = r.range(1, 12);
    let halt_at = if r.chance(1, 4) { Some(r.below(n)) } else { None };
    let fl = Flags { wrong_den: 7, retry: true, conds: true, conns: true, controls: true, system: true, misc: true };
    for i in 0..n {
        if Some(i) == halt_at {
            text.push_str("halt\n\n");
        }
        match r.below(10) {
            0 => text.push_str(&gen_control(r, &mut eff)),
            1 => text.push_str(&gen_misc(r)),
            _ => text.push_str(&gen_record(r, &mut db, &fl, &mut eff)),
        }
    }
    let mut labels = vec![];
    for l in LABELS {
        if r.chance(1, 3) {
            labels.push(l.to_string());
        }
    }
    if r.chance(1, 10) {
        db.make_fail.push(r.below(3));
    }
    // strip the final blank line sometimes (no trailing newline layouts)
    if r.chance(1, 4) {
        while text.ends_with('\n') {
            text.pop();
        }
    }
    let locals = if r.chance(1, 2) { vec![("myvar".to_string(), "LOCAL".to_string())] } else { vec![] };
    // a second script on the same runner: what one run leaves behind (controls, threshold, sessions)
    // carries over, a `halt` or a failure of the first run does not
    let text2 = if r.chance(1, 3) {
        let mut t2 = String::new();
        let n2 = r.range(1, 5);
        let halt2 = if r.chance(1, 5) { Some(r.below(n2)) } else { None };
        for i in 0..n2 {
            if Some(i) == halt2 {
                t2.push_str("halt\n\n");
            }
            match r.below(10) {
                0 => t2.push_str(&gen_control(r, &mut eff)),
                _ => t2.push_str(&gen_record(r, &mut db, &fl, &mut eff)),
            }
        }
        Some(t2)
    } else {
        None
    };
    // labels added between the two scripts, a threshold set through the API
    let labels2: Vec<String> = if text2.is_some() && r.chance(1, 3) {
        LABELS.iter().filter(|l| !labels.contains(&l.to_string()) && r.chance(1, 2)).map(|l| l.to_string()).collect()
    } else {
        vec![]
    };
    // CRLF line ends sometimes: the SQL that reaches the database is joined by LF all the same
    let crlf = r.chance(1, 6);
    let (text, text2) = if crlf { (text.replace('\n', "\r\n"), text2.map(|t| t.replace('\n', "\r\n"))) } else { (text, text2) };
    let mut labels2 = labels2;
    if text2.is_some() && r.chance(1, 4) {
        labels2.push("@shutdown".to_string());
    }
    let tag = format!("c02 halt={} second={} labels2={} api_threshold={} crlf={}", halt_at.is_some(), text2.is_some(), labels2.len(), threshold, crlf);
    ScriptCase { strict_cols: r.chance(1, 4), threshold, labels, locals, text, text2, labels2, db, tag, ..Default::default() }
}

/// C09: retry N (1..=maxn), outcome bit-vector `bits` (bit i = attempt i passes), record kind k
pub fn gen_c09(n: usize, bits: u32, kind: usize, backoff: &str, r: &mut Rng) -> ScriptCase {
    let mut db = DbScript { engine: "mock".into(), ..Default::default() };
    let mut text = String::new();
    let retry = format!(" retry {} backoff {}", n, backoff);
    let pass = |i: usize| bits & (1 << i) != 0;
    match kind {
        0 => {
            // statement ok: pass = complete, fail = error (text carries the attempt index)
            let ans = (0..n + 1)
                .map(|i| if pass(i) { Ans::Complete(1) } else { Ans::Error(format!("fail{}", i)) })
                .collect();
            db.rules.push(("insert into t values (1)".into(), ans));
            text.push_str(&format!("statement ok{}\ninsert into t values (1)\n\n", retry));
        }
        1 => {
            // statement count 2
            let ans = (0..n + 1).map(|i| Ans::Complete(if pass(i) { 2 } else { i as u64 + 10 })).collect();
            db.rules.push(("update t".into(), ans));
            text.push_str(&format!("statement count 2{}\nupdate t\n\n", retry));
        }
        2 => {
            // statement error (multiline form, the only one compatible with retry)
            let ans = (0..n + 1)
                .map(|i| if pass(i) { Ans::Error("boom".into()) } else { Ans::Error(format!("other{}", i)) })
                .collect();
            db.rules.push(("bad sql".into(), ans));
            text.push_str(&format!("statement error{}\nbad sql\n----\nboom\n\n\n", retry));
        }
        3 => {
            // query with results
            let ans = (0..n + 1)
                .map(|i| Ans::Rows {
                    types: "I".into(),
                    rows: vec![vec![if pass(i) { "7".to_string() } else { format!("{}", 100 + i) }]],
                })
                .collect();
            db.rules.push(("select v from t".into(), ans));
            let sort = *r.pick(&["", " rowsort", " valuesort lbl"]);
            text.push_str(&format!("query I{}{}\nselect v from t\n----\n7\n\n", sort, retry));
        }
        4 => {
            // query error any
            let ans = (0..n + 1)
                .map(|i| if pass(i) { Ans::Error("e".into()) } else { Ans::Complete(i as u64) })
                .collect();
            db.rules.push(("select bad".into(), ans));
            text.push_str(&format!("query error{}\nselect bad\n\n", retry));
        }
        6 => {
            // query under the strict column validator: a failing attempt is a column-type mismatch
            // (even attempts) or a wrong value (odd attempts)
            let ans = (0..n + 1)
                .map(|i| Ans::Rows {
                    types: if pass(i) || i % 2 == 1 { "I".into() } else { "T".into() },
                    rows: vec![vec![if pass(i) || i % 2 == 0 { "7".to_string() } else { format!("{}", 100 + i) }]],
                })
                .collect();
            db.rules.push(("select typed from t".into(), ans));
            text.push_str(&format!("query I{}\nselect typed from t\n----\n7\n\n", retry));
        }
        _ => {
            // system with stdout
            let ans = (0..n + 1)
                .map(|i| {
                    if pass(i) {
                        CmdAns::Exit { code: 0, stdout: "done\n".into() }
                    } else if i % 2 == 0 {
                        CmdAns::Exit { code: 1, stdout: "".into() }
                    } else {
                        CmdAns::Exit { code: 0, stdout: format!("notyet{}\n", i) }
                    }
                })
                .collect();
            db.cmd_rules.push(("check".into(), ans));
            text.push_str(&format!("system ok{}\ncheck\n----\ndone\n\n\n", retry));
        }
    }
    // a trailing record shows that execution continues (or not) after the retried one
    text.push_str("statement ok\nselect 'after'\n\n");
    ScriptCase { strict_cols: kind == 6, text, db, tag: format!("c09 n={} bits={:b} kind={}", n, bits, kind), ..Default::default() }
}

/// two retried records of different kinds one after the other on one runner: what the first one
/// needed must not change what the second one gets
pub fn gen_c09_pair(n1: usize, bits1: u32, k1: usize, n2: usize, bits2: u32, k2: usize, r: &mut Rng) -> ScriptCase {
    let a = gen_c09(n1, bits1, k1, "0s", r);
    let b = gen_c09(n2, bits2, k2, "1ms", r);
    let mut db = a.db.clone();
    db.rules.extend(b.db.rules.clone());
    db.cmd_rules.extend(b.db.cmd_rules.clone());
    ScriptCase {
        strict_cols: a.strict_cols || b.strict_cols,
        text: format!("{}{}", a.text, b.text),
        db,
        tag: format!("c09pair first=({} {:b} {}) second=({} {:b} {})", n1, bits1, k1, n2, bits2, k2),
        ..Default::default()
    }
}

/// C10: a result set in a given order under (query sort, file sort, result mode); the expectation
/// is the reference for `expect_order` (another permutation or the same one)
pub fn gen_c10(
    rows: &[Vec<String>],
    perm_rows: &[Vec<String>],
    qsort: Option<&'static str>,
    fsort: Option<&'static str>,
    valuewise: bool,
    permkind: &str,
    threshold: usize,
) -> ScriptCase {
    let mut db = DbScript { engine: "mock".into(), ..Default::default() };
    let mut text = String::new();
    if let Some(f) = fsort {
        text.push_str(&format!("control sortmode {}\n\n", f));
    }
    if valuewise {
        text.push_str("control resultmode valuewise\n\n");
    }
    let eff = qsort.or(fsort);
    let mut lines = reference_lines(rows, eff, valuewise, threshold);
    fix_empty_lines(&mut lines);
    let ncols = rows.first().map(|r| r.len()).unwrap_or(1);
    // an engine may report no column types at all (the external engine never does): the sort modes
    // work on the values all the same.  Decided by the data, so that a replay decides alike.
    let typeless = perm_rows.iter().flatten().map(|v| v.len()).sum::<usize>() % 4 == 1;
    db.rules.push((
        "select * from t".into(),
        vec![Ans::Rows { types: if typeless { String::new() } else { "T".repeat(ncols) }, rows: perm_rows.to_vec() }],
    ));
    text.push_str(&format!(
        "query {}{}\nselect * from t\n----\n",
        "T".repeat(ncols),
        qsort.map(|s| format!(" {}", s)).unwrap_or_default()
    ));
    for l in lines {
        text.push_str(&l);
        text.push('\n');
    }
    text.push('\n');
    ScriptCase {
        threshold,
        text,
        db,
        // a blank-only value inside a multi-column row line cannot be matched by any expected line
        // (the joined normalised values keep an edge / double blank): no reference exists
        tag: format!(
            "c10 q={:?} f={:?} vw={} perm={} thr={} um={}",
            qsort,
            fsort,
            valuewise,
            permkind,
            threshold,
            rows.iter().any(|r| r.len() > 1 && r.iter().any(|v| norm(v).is_empty()))
        ),
        ..Default::default()
    }
}

/// C11: guards (list of (is_onlyif, label)), label subset, kind, engine name set or empty
pub fn gen_c11(
    guards: &[(bool, &str)],
    labels: &[&str],
    kind: usize,
    engine: &str,
    leak: bool,
) -> ScriptCase {
    gen_c11_gap(guards, labels, kind, engine, leak, "")
}

/// `gap`: blank / comment lines written after every guard line (guards wait for the next record)
pub fn gen_c11_gap(
    guards: &[(bool, &str)],
    labels: &[&str],
    kind: usize,
    engine: &str,
    leak: bool,
    gap: &str,
) -> ScriptCase {
    let mut db = DbScript { engine: engine.into(), ..Default::default() };
    let mut text = String::new();
    for (only, l) in guards {
        text.push_str(&format!("{} {}\n{}", if *only { "onlyif" } else { "skipif" }, l, gap));
    }
    let record_line = text.matches('\n').count() + 1;
    match kind {
        0 => {
            // expectation deliberately wrong: a skipped record cannot fail
            db.rules.push(("guarded".into(), vec![Ans::Error("nope".into())]));
            text.push_str("statement ok\nguarded\n\n");
        }
        1 => {
            db.rules.push(("guarded".into(), vec![Ans::Rows { types: "I".into(), rows: vec![vec!["1".into()]] }]));
            text.push_str("query I\nguarded\n----\n2\n\n");
        }
        _ => {
            db.cmd_rules.push(("guarded".into(), vec![CmdAns::Exit { code: 1, stdout: "".into() }]));
            text.push_str("system ok\nguarded\n\n");
        }
    }
    if leak {
        // an unguarded record after the guarded one must run regardless
        text.push_str("statement ok\nunguarded\n\nsystem ok\nunguarded-cmd\n\n");
    }
    ScriptCase {
        labels: labels.iter().map(|s| s.to_string()).collect(),
        text,
        db,
        tag: format!("c11 guards={:?} labels={:?} kind={} engine={:?} line={}", guards, labels, kind, engine, record_line),
        ..Default::default()
    }
}

/// C12: connection lines over a name alphabet interleaved with statements / queries / others
pub fn gen_c12(r: &mut Rng) -> ScriptCase {
    let mut db = DbScript { engine: "mock".into(), ..Default::default() };
    db.default = Ans::Sess;
    let mut text = String::new();
    let n = r.range(1, 14);
    for i in 0..n {
        match r.below(12) {
            0..=4 => {
                text.push_str(&format!("connection {}\n", r.pick(CONNS)));
                if r.chance(1, 5) {
                    text.push_str(&format!("connection {}\n", r.pick(CONNS)));
                }
            }
            5 => text.push_str("# comment\n"),
            6 => text.push_str("system ok\ntrue\n\n"),
            7 => text.push_str(&format!("{} {}\n", r.pick(&["onlyif", "skipif"]), r.pick(LABELS))),
            8 => text.push_str("statement ok\nwill fail? no\n\n"),
            9 => text.push_str(&format!("query II\nselect {}\n----\n0 0\n\n", i)),
            _ => text.push_str(&format!("statement ok\ns{}\n\n", i)),
        }
    }
    if r.chance(1, 8) {
        db.make_fail.push(r.below(4));
    }
    let mut labels = vec![];
    if r.chance(1, 2) {
        labels.push("mock".to_string());
    }
    // a connection line that no record follows (end of the script, or `halt`) routes nothing: not the
    // first record of the next script on the same runner either
    let mut text2 = None;
    if r.chance(1, 3) {
        if r.chance(1, 2) {
            text.push_str(&format!("connection {}\n", r.pick(CONNS)));
        } else {
            text.push_str(&format!("connection {}\nhalt\n\n", r.pick(CONNS)));
        }
        let mut t2 = String::new();
        for i in 0..r.range(1, 3) {
            if r.chance(1, 3) {
                t2.push_str(&format!("connection {}\n", r.pick(CONNS)));
            }
            t2.push_str(&format!("statement ok\nsecond{}\n\n", i));
        }
        text2 = Some(t2);
    }
    ScriptCase { labels, text, text2, db, tag: "c12".into(), ..Default::default() }
}

/// C15: result sets around the threshold
pub fn gen_c15(r: &mut Rng) -> ScriptCase {
    let mut db = DbScript { engine: "mock".into(), ..Default::default() };
    let nrows = r.below(9);
    let ncols = r.range(1, 6);
    let big = r.chance(1, 6);
    let (nrows, ncols) = if big { (r.range(20, 60), r.range(1, 4)) } else { (nrows, ncols) };
    let rows: Vec<Vec<String>> =
        (0..nrows).map(|_| (0..ncols).map(|_| r.pick(VALUES).to_string()).collect()).collect();
    let count = nrows * ncols;
    let threshold = match r.below(6) {
        0 => 0,
        1 => count.saturating_sub(1),
        2 => count,
        3 => count + 1,
        4 => 1,
        _ => r.below(count + 2),
    };
    let mut text = String::new();
    let api = r.chance(1, 2);
    let api_threshold = if api { threshold } else { *r.pick(&[0usize, 1, 100]) };
    if !api {
        text.push_str(&format!("hash-threshold {}\n\n", threshold));
    }
    let fsort = *r.pick(&[None, None, Some("rowsort"), Some("valuesort"), Some("nosort")]);
    if let Some(f) = fsort {
        text.push_str(&format!("control sortmode {}\n\n", f));
    }
    let valuewise = r.chance(1, 4);
    if valuewise {
        text.push_str("control resultmode valuewise\n\n");
    }
    let qsort = *r.pick(&[None, None, Some("rowsort"), Some("valuesort"), Some("nosort")]);
    // engines may report no types at all (external engine)
    let dbtypes = if r.chance(1, 4) { String::new() } else { "T".repeat(ncols) };
    let mut lines = reference_lines(&rows, qsort.or(fsort), valuewise, threshold);
    fix_empty_lines(&mut lines);
    if r.chance(1, 5) {
        mutate_lines(r, &mut lines);
    }
    db.rules.push(("select * from big".into(), vec![Ans::Rows { types: dbtypes, rows }]));
    text.push_str(&format!(
        "query {}{}\nselect * from big\n----\n",
        "T".repeat(ncols),
        qsort.map(|s| format!(" {}", s)).unwrap_or_default()
    ));
    for l in lines {
        text.push_str(&l);
        text.push('\n');
    }
    text.push('\n');
    // later threshold change must not affect the earlier query, and applies to the next one
    if r.chance(1, 3) {
        text.push_str("hash-threshold 1\n\nquery T\nselect two\n----\n2 values hashing to 6ddb4095eb719e2a9f0a3f95677d24e0\n\n");
        db.rules.push(("select two".into(), vec![Ans::Rows { types: "T".into(), rows: vec![vec!["1".into()], vec!["2".into()]] }]));
    }
    // the threshold (like every control) is a property of the runner: set in one script, it holds for
    // the scripts run on the same runner afterwards
    let (text, text2) = if r.chance(1, 3) {
        match text.find("query ") {
            Some(i) if i > 0 => (text[..i].to_string(), Some(text[i..].to_string())),
            _ => (text, None),
        }
    } else {
        (text, None)
    };
    ScriptCase {
        threshold: api_threshold,
        text,
        text2,
        db,
        tag: format!("c15 thr={} count={}", threshold, count),
        ..Default::default()
    }
}

pub fn permutations<T: Clone>(xs: &[T]) -> Vec<Vec<T>> {
    if xs.len() <= 1 {
        return vec![xs.to_vec()];
    }
    let mut out = vec![];
    for i in 0..xs.len() {
        let mut rest = xs.to_vec();
        let x = rest.remove(i);
        for mut p in permutations(&rest) {
            p.insert(0, x.clone());
            out.push(p);
        }
    }
    out
}

// ------------------------------------------------------------------------------------------
// C13: substitution

const VAR_NAMES: &[&str] = &["l1", "L_2", "SLTV_E1", "SLTV_E2", "UNSET_1", "x", "__TEST_DIR__", "__NOW__", "__DATABASE__", "9lives"];
const VAR_VALUES: &[&str] = &["v", "a b", "$l1", "\\$", "{x}", "a:b", "é日本", "", "${UNSET_1}", "100%", "x\\\\y"];
const LITS: &[&str] = &["select ", "'", " from t where a = ", "é", "{", "}", ":", " ", "日本", "%", "#", "(", "\n "];

/// a piece of text over the documented substitution syntax (depth-bounded)
fn gen_template(r: &mut Rng, depth: usize, in_default: bool) -> String {
    let mut s = String::new();
    for _ in 0..r.range(1, 4) {
        match r.below(10) {
            0..=3 => {
                let l = *r.pick(LITS);
                // inside a default, braces and colons are structure unless escaped
                if in_default && (l == "{" || l == "}") {
                    s.push('\\');
                }
                s.push_str(l);
            }
            4 => {
                s.push('$');
                s.push_str(*r.pick(VAR_NAMES));
                // a following name character would extend the name: separate it
                s.push_str(*r.pick(&[" ", "-", "'", "."]));
            }
            5 => s.push_str(&format!("${{{}}}", r.pick(VAR_NAMES))),
            6 | 7 => {
                if depth > 0 {
                    let d = gen_template(r, depth - 1, true);
                    s.push_str(&format!("${{{}:{}}}", r.pick(VAR_NAMES), d));
                } else {
                    s.push_str(&format!("${{{}:dflt}}", r.pick(VAR_NAMES)));
                }
            }
            8 => s.push_str(*r.pick(&["\\$", "\\\\", "\\{", "\\}", "\\:"])),
            _ => s.push_str("x"),
        }
    }
    s
}

const MALFORMED_SUBST: &[&str] = &[
    "select \\x", "select ${", "select ${}", "select ${a!}", "select $", "select ${a", "select ${a:b", "select $-",
    "select ${a:${b}", "select \\", "select ${a:$}", "select ${UNSET_1:$}", "select '$' ", "a ${x:{}} b", "${x:\\}",
];

pub fn gen_c13(r: &mut Rng) -> ScriptCase {
    let mut db = DbScript { engine: "mock".into(), ..Default::default() };
    let mut text = String::new();
    let n = r.range(1, 7);
    let on_at = if r.chance(5, 6) { Some(r.below(n)) } else { None };
    let off_at = if r.chance(1, 4) { Some(r.below(n)) } else { None };
    for i in 0..n {
        if Some(i) == on_at {
            text.push_str("control substitution on\n\n");
        }
        if Some(i) == off_at {
            text.push_str("control substitution off\n\n");
        }
        let body = if r.chance(1, 7) { r.pick(MALFORMED_SUBST).to_string() } else { gen_template(r, 3, false) };
        // SQL must not contain an empty line / `----` line: keep it on lines starting with a letter
        let body = body.replace("\n\n", "\n ");
        match r.below(6) {
            0 => {
                // system command: simple replacement only
                text.push_str(&format!("system ok\necho {}\n\n", body.replace('\n', " ")));
            }
            1 => text.push_str(&format!("statement error\nq {}\n\n", body)),
            2 => {
                text.push_str(&format!("skipif mock\nstatement ok\nq {}\n\n", body));
            }
            3 => text.push_str(&format!("query T\nq {}\n\n", body)),
            _ => text.push_str(&format!("statement ok\nq {}\n\n", body)),
        }
    }
    let mut locals = vec![];
    if r.chance(2, 3) {
        locals.push(("l1".to_string(), r.pick(VAR_VALUES).to_string()));
    }
    if r.chance(1, 2) {
        locals.push(("L_2".to_string(), r.pick(VAR_VALUES).to_string()));
    }
    if r.chance(1, 3) {
        locals.push(("__DATABASE__".to_string(), "db1".to_string()));
    }
    if r.chance(1, 4) {
        locals.push(("x".to_string(), r.pick(VAR_VALUES).to_string()));
    }
    let mut env = vec![];
    if r.chance(2, 3) {
        env.push(("SLTV_E1".to_string(), r.pick(VAR_VALUES).to_string()));
    }
    if r.chance(1, 3) {
        env.push(("SLTV_E2".to_string(), r.pick(VAR_VALUES).to_string()));
    }
    if r.chance(1, 4) {
        // an environment variable shadowed by a runner-local one
        env.push(("l1".to_string(), "FROM_ENV".to_string()));
    }
    db.default = Ans::Complete(0);
    ScriptCase { labels: vec![], locals, env, text, db, tag: "c13".into(), ..Default::default() }
}
