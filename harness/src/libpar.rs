//! Op `libmon` (C17, library counterpart of the CLI's `-j`): the real `Runner::run_parallel_async`
//! against an in-process logging database.  Every connection made through the `conn_builder` is a
//! session; the log of `connect / sql / eof / create / drop` events goes through the same Lean
//! monitor (`accepts`) as the CLI's engine-side log.  Interleavings are produced by the mock itself:
//! every request yields to the executor a pseudo-random number of times (derived from the case seed),
//! so a schedule replays exactly.
use std::cell::{Cell, RefCell};
use std::future::Future;
use std::pin::Pin;
use std::task::{Context, Poll};

use async_trait::async_trait;
use sqllogictest::{AsyncDB, DBOutput, DefaultColumnType, Runner};

use crate::enc::hx;
use crate::rng::Rng;

pub const MGMT: &str = "postgres";

#[derive(Clone, Debug)]
enum Ev {
    Create(String),
    Drop(String),
    Connect(usize, String),
    Sql(usize, String),
    Eof(usize),
}

thread_local! {
    static LOG: RefCell<Vec<Ev>> = const { RefCell::new(Vec::new()) };
    static NEXT_SESS: Cell<usize> = const { Cell::new(0) };
    static YIELDS: RefCell<Rng> = RefCell::new(Rng::new(0));
    static MAX_YIELD: Cell<usize> = const { Cell::new(0) };
    /// sessions that were dropped without `shutdown()` having been called on them
    static UNSHUT: RefCell<Vec<usize>> = const { RefCell::new(Vec::new()) };
}

fn log(e: Ev) {
    LOG.with(|l| l.borrow_mut().push(e));
}

struct YieldN(usize);

impl Future for YieldN {
    type Output = ();
    fn poll(mut self: Pin<&mut Self>, cx: &mut Context<'_>) -> Poll<()> {
        if self.0 == 0 {
            Poll::Ready(())
        } else {
            self.0 -= 1;
            cx.waker().wake_by_ref();
            Poll::Pending
        }
    }
}

pub struct LogDb {
    sess: usize,
    db: String,
    closed: bool,
}

impl LogDb {
    fn new(db: String) -> Self {
        let sess = NEXT_SESS.with(|n| {
            let v = n.get();
            n.set(v + 1);
            v
        });
        log(Ev::Connect(sess, db.clone()));
        LogDb { sess, db, closed: false }
    }
}

impl Drop for LogDb {
    fn drop(&mut self) {
        // a connection that is dropped without `shutdown` is closed all the same
        if !self.closed {
            self.closed = true;
            log(Ev::Eof(self.sess));
            UNSHUT.with(|u| u.borrow_mut().push(self.sess));
        }
    }
}

#[derive(Debug)]
pub struct LogErr(String);

impl std::fmt::Display for LogErr {
    fn fmt(&self, f: &mut std::fmt::Formatter<'_>) -> std::fmt::Result {
        write!(f, "{}", self.0)
    }
}

impl std::error::Error for LogErr {}

#[async_trait]
impl AsyncDB for LogDb {
    type Error = LogErr;
    type ColumnType = DefaultColumnType;

    async fn run(&mut self, sql: &str) -> Result<DBOutput<DefaultColumnType>, LogErr> {
        let admin = |p: &str| sql.strip_prefix(p).map(|d| d.trim_end_matches(';').to_string());
        if self.db == MGMT && admin("CREATE DATABASE ").is_some() {
            log(Ev::Create(admin("CREATE DATABASE ").unwrap()));
        } else if self.db == MGMT && admin("DROP DATABASE ").is_some() {
            log(Ev::Drop(admin("DROP DATABASE ").unwrap()));
        } else {
            log(Ev::Sql(self.sess, sql.to_string()));
        }
        let k = YIELDS.with(|r| r.borrow_mut().below(MAX_YIELD.with(|m| m.get()) + 1));
        YieldN(k).await;
        if sql.starts_with("fail") {
            Err(LogErr("boom".into()))
        } else if sql.starts_with("unsorted3") {
            Ok(DBOutput::Rows {
                types: vec![DefaultColumnType::Text],
                // (two values: not more than the hash threshold of 2)
                rows: vec![vec!["b".to_string()], vec!["a".to_string()]],
            })
        } else if sql.starts_with("typed1") {
            Ok(DBOutput::Rows { types: vec![DefaultColumnType::Integer], rows: vec![vec!["1".to_string()]] })
        } else if sql.starts_with("hash3") {
            Ok(DBOutput::Rows {
                types: vec![DefaultColumnType::Text],
                rows: vec![vec!["a".to_string()], vec!["b".to_string()], vec!["c".to_string()]],
            })
        } else {
            Ok(DBOutput::StatementComplete(0))
        }
    }

    async fn shutdown(&mut self) {
        if !self.closed {
            self.closed = true;
            log(Ev::Eof(self.sess));
        }
    }

    fn engine_name(&self) -> &str {
        "log"
    }
}

fn lib_builder(_host: String, db: String) -> std::future::Ready<LogDb> {
    std::future::ready(LogDb::new(db))
}

fn to_test_case_name(path: &str) -> String {
    path.replace([' ', '.', '-', '/'], "_")
}

fn owner_of(sql: &str) -> Option<&str> {
    sql.find(" -- F").map(|i| &sql[i + 5..])
}

pub struct LibCase {
    /// (path, position in the glob, database name the library created for it)
    pub names: Vec<(String, usize, String)>,
    pub line: String,
    pub tag: String,
    pub oracle: Option<String>,
}

fn file_text(r: &mut Rng, path: &str, kind: &str) -> String {
    let mut t = String::new();
    if kind == "parse" {
        return format!("statement ok\nselect 0 -- F{path}\n\nstatement okk\nselect 1 -- F{path}\n");
    }
    t.push_str("control substitution on\n\n");
    let n = r.range(1, 4);
    let fail_at = if kind == "fail" { r.below(n) } else { usize::MAX };
    for i in 0..n {
        match r.below(4) {
            0 => t.push_str(&format!("connection {}\n", r.pick(&["a", "b"]))),
            1 => t.push_str("connection default\n"),
            _ => {}
        }
        if i == fail_at {
            t.push_str(&format!("statement ok\nfail {i} -- F{path}\n\n"));
        } else if r.chance(1, 5) {
            // what the parent runner was configured with holds for every file: hash threshold 2 ...
            let digest = crate::gen::md5_hex(&["a".to_string(), "b".to_string(), "c".to_string()]);
            t.push_str(&format!("query T\nhash3 -- F{path}\n----\n3 values hashing to {digest}\n\n"));
        } else if r.chance(1, 6) {
            // ... the sort mode a control record left in force on the parent ...
            t.push_str(&format!("query T\nunsorted3 -- F{path}\n----\na\nb\n\n"));
        } else if r.chance(1, 6) {
            // ... the strict column validator (a wrong type letter fails; under `pass` the letter is right) ...
            t.push_str(&format!("query I\ntyped1 -- F{path}\n----\n1\n\n"));
        } else if kind == "fail" && r.chance(1, 3) {
            return format!("query T\ntyped1 -- F{path}\n----\n1\n\n");
        } else if r.chance(1, 5) {
            // ... and the label PL
            t.push_str(&format!("onlyif PL\nstatement ok\nselect labelled -- F{path}\n\nskipif PL\nstatement ok\nfail skipped -- F{path}\n\n"));
        } else if r.chance(1, 3) {
            t.push_str(&format!("statement ok\ndbname $__DATABASE__ -- F{path}\n\n"));
        } else {
            t.push_str(&format!("statement ok\nselect {i} -- F{path}\n\n"));
        }
    }
    t
}

/// one generated file set, run through the library's `run_parallel_async`
pub fn gen_libpar(r: &mut Rng, idx: usize) -> LibCase {
    let base = std::env::var("SLT_SCRATCH").unwrap_or_else(|_| "/verif/out/scratch".into());
    let dir = std::path::PathBuf::from(base).join(format!("libpar_{}", std::process::id()));
    let _ = std::fs::remove_dir_all(&dir);
    // sometimes a deep directory: what distinguishes the files comes late in the path
    let sub = if r.chance(1, 4) {
        "t/a_directory_name_that_is_long_enough_to_fill_any_identifier_limit/and_one_more_level_below_it".to_string()
    } else {
        "t".to_string()
    };
    std::fs::create_dir_all(dir.join(&sub)).unwrap();
    let nfiles = r.range(1, 12);
    // every job count in turn; names that differ only in the characters the database name replaces
    let jobs = 1 + idx % 8;
    let mut names: Vec<String> = vec![];
    for i in 0..nfiles {
        let stem = if r.chance(1, 4) && !names.is_empty() {
            // a sibling of an earlier name: same letters, another separator
            let prev = names[r.below(names.len())].clone();
            let sep = *r.pick(&["-", "_", ".", " "]);
            prev.replace(['-', '_', '.', ' '], sep)
        } else {
            format!("f{}{}x", i, r.pick(&["-", "_", ".", " ", ""]))
        };
        if !names.contains(&stem) {
            names.push(stem);
        }
    }
    names.sort();
    let all_pass = r.chance(1, 3);
    let mut files = vec![];
    let mut kinds = vec![];
    for n in &names {
        let path = format!("{}/{}/{}.slt", dir.to_string_lossy(), sub, n);
        let kind = if all_pass { "pass" } else { *r.pick(&["pass", "pass", "pass", "fail", "parse"]) };
        std::fs::write(&path, file_text(r, &path, kind)).unwrap();
        files.push(path);
        kinds.push(kind);
    }
    // glob order = byte order of the paths
    let mut order: Vec<usize> = (0..files.len()).collect();
    order.sort_by(|a, b| files[*a].cmp(&files[*b]));
    let files: Vec<String> = order.iter().map(|i| files[*i].clone()).collect();
    let kinds: Vec<&str> = order.iter().map(|i| kinds[*i]).collect();

    // sometimes a custom partitioner (`with_partitioner`): only the files it matches are run
    let part: Option<(u64, u64)> = if r.chance(1, 3) {
        let count = r.range(2, 4) as u64;
        Some((count, r.below(count as usize) as u64))
    } else {
        None
    };
    fn name_hash(name: &str) -> u64 {
        name.bytes().fold(0xcbf29ce484222325u64, |h, b| (h ^ b as u64).wrapping_mul(0x100000001b3))
    }
    let selected: Vec<bool> = files
        .iter()
        .map(|f| match part {
            Some((count, id)) => name_hash(f) % count == id,
            None => true,
        })
        .collect();
    let all_files = files.clone();
    let all_kinds = kinds.clone();
    let files: Vec<String> = all_files.iter().zip(&selected).filter(|(_, s)| **s).map(|(f, _)| f.clone()).collect();
    let kinds: Vec<&str> = all_kinds.iter().zip(&selected).filter(|(_, s)| **s).map(|(k, _)| *k).collect();
    let yield_seed = r.next();
    let max_yield = *r.pick(&[0usize, 1, 3, 8]);
    let nhosts = *r.pick(&[1usize, 1, 2, 3, 4]);
    LOG.with(|l| l.borrow_mut().clear());
    UNSHUT.with(|u| u.borrow_mut().clear());
    NEXT_SESS.with(|n| n.set(0));
    YIELDS.with(|y| *y.borrow_mut() = Rng::new(yield_seed));
    MAX_YIELD.with(|m| m.set(max_yield));

    let rt = tokio::runtime::Builder::new_current_thread().enable_all().build().unwrap();
    let glob = format!("{}/{}/*.slt", dir.to_string_lossy(), sub);
    let res = std::panic::catch_unwind(std::panic::AssertUnwindSafe(|| {
        rt.block_on(async {
            let mut parent = Runner::new(|| async { Ok::<_, LogErr>(LogDb::new(MGMT.to_string())) });
            if let Some((count, id)) = part {
                parent.with_partitioner(move |name: &str| name_hash(name) % count == id);
            }
            parent.with_hash_threshold(2);
            parent.with_column_validator(sqllogictest::strict_column_validator);
            parent.add_label("PL");
            // a control record run on the parent before: its effect is part of the runner's state
            let _ = parent.run_script_async("control sortmode rowsort\n").await;
            // the parent's own `__DATABASE__` (the CLI binds it on every runner) is not the files'
            parent.set_var("__DATABASE__".to_string(), MGMT.to_string());
            // one to four target hosts (files are dealt round-robin): the bound on files in flight is
            // `jobs`, however many hosts there are
            let hosts: Vec<String> = (0..nhosts).map(|k| format!("h{k}")).collect();
            let res = parent.run_parallel_async(&glob, hosts, lib_builder, jobs).await;
            parent.shutdown_async().await;
            res.is_ok()
        })
    }));
    let events: Vec<Ev> = LOG.with(|l| l.borrow().clone());
    let _ = std::fs::remove_dir_all(&dir);

    // ---- canonicalisation: the monitor identifies a file's database as `<test case name>_<8 chars>`
    // (the CLI's scheme).  The library's scheme is its own, so every database string is renamed
    // injectively to `<test case name of the file whose SQL arrived there first>_<its index, 8 hex>`.
    let mut dbs: Vec<String> = vec![];
    let mut sess_db: Vec<(usize, String)> = vec![];
    let mut first_owner: std::collections::HashMap<String, String> = Default::default();
    for e in &events {
        match e {
            Ev::Create(d) | Ev::Drop(d) => {
                if !dbs.contains(d) {
                    dbs.push(d.clone());
                }
            }
            Ev::Connect(s, d) => {
                if d != MGMT && !dbs.contains(d) {
                    dbs.push(d.clone());
                }
                sess_db.push((*s, d.clone()));
            }
            Ev::Sql(s, text) => {
                if let (Some((_, d)), Some(o)) = (sess_db.iter().find(|p| p.0 == *s), owner_of(text)) {
                    first_owner.entry(d.clone()).or_insert_with(|| o.to_string());
                }
            }
            Ev::Eof(_) => {}
        }
    }
    let created_order: Vec<String> =
        events.iter().filter_map(|e| if let Ev::Create(d) = e { Some(d.clone()) } else { None }).collect();
    // files likewise: the k-th file of the glob becomes `lib/f<k>`, so that test-case names are
    // distinct by construction (the library, unlike the CLI, does not require that of the paths)
    let canon_file = |p: &str| -> String {
        match files.iter().position(|f| f == p) {
            Some(k) => format!("lib/f{k}"),
            None => p.to_string(),
        }
    };
    let rename = |d: &str| -> String {
        if d == MGMT {
            return d.to_string();
        }
        let i = dbs.iter().position(|x| x == d).unwrap_or(usize::MAX);
        match first_owner.get(d) {
            Some(o) => format!("{}_{:08x}", to_test_case_name(&canon_file(o)), i),
            // no SQL ever arrived there (the file failed to parse, or was empty): named after the file
            // it was created for, by creation order, so that the run can still be replayed in the
            // driver model
            None => match created_order.iter().position(|x| x == d).and_then(|k| files.get(k)) {
                Some(f) => format!("{}_{:08x}", to_test_case_name(&canon_file(f)), i),
                None => format!("unused_{:08x}", i),
            },
        }
    };
    let mut evs = vec![];
    let mut ncreate = 0;
    for e in &events {
        evs.push(match e {
            Ev::Create(d) => {
                ncreate += 1;
                format!("create {}", hx(&rename(d)))
            }
            Ev::Drop(d) => format!("drop {}", hx(&rename(d))),
            Ev::Connect(s, d) => format!("connect {} {}", s, hx(&rename(d))),
            Ev::Sql(s, text) => {
                let mut text = text.clone();
                if let Some(rest) = text.strip_prefix("dbname ") {
                    if let Some(i) = rest.find(" -- F") {
                        let named = &rest[..i];
                        if dbs.iter().any(|x| x == named) {
                            text = format!("dbname {}{}", rename(named), &rest[i..]);
                        }
                    }
                }
                if let Some(i) = text.find(" -- F") {
                    text = format!("{} -- F{}", &text[..i], canon_file(&text[i + 5..]));
                }
                format!("sql {} {}", s, hx(&text))
            }
            Ev::Eof(s) => format!("eof {}", s),
        });
    }
    let mut line = format!("libmon {} {} {}", jobs, hx(MGMT), files.len());
    for (f, k) in files.iter().zip(&kinds) {
        line.push_str(&format!(" {} {}", hx(&canon_file(f)), (*k != "pass") as u8));
    }
    line.push_str(&format!(" {}", evs.len()));
    for e in &evs {
        line.push(' ');
        line.push_str(e);
    }
    let mut oracle = None;
    let unshut: Vec<usize> = UNSHUT.with(|u| u.borrow().clone());
    match res {
        Err(_) => oracle = Some("run_parallel panicked".to_string()),
        Ok(ok) => {
            let expect_ok = kinds.iter().all(|k| *k == "pass");
            if ok != expect_ok {
                oracle = Some(format!("run_parallel returned ok={ok} but the files are {kinds:?}"));
            }
        }
    }
    if oracle.is_none() && ncreate != files.len() {
        oracle = Some(format!(
            "{} databases were created for {} files{}",
            ncreate,
            files.len(),
            match part {
                Some((c, i)) => format!(" selected by the partitioner {}/{} out of {}", i, c, all_files.len()),
                None => String::new(),
            }
        ));
    }
    if oracle.is_none() && !unshut.is_empty() {
        // (this mock closes a dropped connection; a real driver need not: every session that was opened
        // must be shut down, also those of a file that fails)
        oracle = Some(format!("sessions {:?} were dropped without shutdown() having been called on them", unshut));
    }
    let created: Vec<String> = events
        .iter()
        .filter_map(|e| if let Ev::Create(d) = e { Some(d.clone()) } else { None })
        .collect();
    let names = if created.len() == files.len() {
        // the index in the name is the file's position in the glob, selected or not
        files
            .iter()
            .enumerate()
            .map(|(j, f)| (f.clone(), all_files.iter().position(|x| x == f).unwrap_or(j), created[j].clone()))
            .collect()
    } else {
        vec![]
    };
    LibCase {
        names,
        line,
        tag: format!(
            "c17lib jobs={} hosts={} part={:?} max_yield={} yield_seed={} files={:?} kinds={:?}",
            jobs,
            nhosts,
            part,
            max_yield,
            yield_seed,
            files.iter().map(|f| f.rsplit('/').next().unwrap_or("")).collect::<Vec<_>>(),
            kinds
        ),
        oracle,
    }
}

/// replay of a `libname` case: the file at position `k` of a glob (k dummy files sort before it)
pub fn replay_name(path: &str, k: usize) -> String {
    let p = std::path::Path::new(path);
    let dir = p.parent().unwrap().to_path_buf();
    let _ = std::fs::remove_dir_all(&dir);
    std::fs::create_dir_all(&dir).unwrap();
    for i in 0..k {
        std::fs::write(dir.join(format!("!{:04}.slt", i)), "").unwrap();
    }
    std::fs::write(p, "").unwrap();
    LOG.with(|l| l.borrow_mut().clear());
    UNSHUT.with(|u| u.borrow_mut().clear());
    NEXT_SESS.with(|n| n.set(0));
    MAX_YIELD.with(|m| m.set(0));
    let rt = tokio::runtime::Builder::new_current_thread().enable_all().build().unwrap();
    let glob = format!("{}/*.slt", dir.to_string_lossy());
    rt.block_on(async {
        let mut parent = Runner::new(|| async { Ok::<_, LogErr>(LogDb::new(MGMT.to_string())) });
        let _ = parent.run_parallel_async(&glob, vec!["h".into()], lib_builder, 1).await;
        parent.shutdown_async().await;
    });
    let created: Vec<String> = LOG.with(|l| {
        l.borrow().iter().filter_map(|e| if let Ev::Create(d) = e { Some(d.clone()) } else { None }).collect()
    });
    let _ = std::fs::remove_dir_all(&dir);
    created.get(k).map(|d| hx(d)).unwrap_or_else(|| "no-such-database".into())
}
