//! slt-harness: generates cases, runs the REAL sqllogictest-rs code on them in-process and writes
//! `<out>/cases.txt` (input lines for the Lean model driver), `<out>/impl.txt` (what the
//! implementation did, same line protocol as the driver's answers) and `<out>/tags.txt`.
mod enc;
mod fmtop;
mod frameop;
mod libpar;
mod gen;
mod mock;
mod parseop;
mod rng;
mod script;
mod treegen;
mod treeop;

use std::fs::File;
use std::io::{BufRead, BufWriter, Write};

use rng::Rng;
use script::ScriptCase;

struct Out {
    cases: BufWriter<File>,
    imp: BufWriter<File>,
    tags: BufWriter<File>,
    expect: BufWriter<File>,
    n: usize,
}

impl Out {
    fn new(dir: &str) -> Self {
        std::fs::create_dir_all(dir).unwrap();
        Out {
            cases: BufWriter::new(File::create(format!("{dir}/cases.txt")).unwrap()),
            imp: BufWriter::new(File::create(format!("{dir}/impl.txt")).unwrap()),
            tags: BufWriter::new(File::create(format!("{dir}/tags.txt")).unwrap()),
            expect: BufWriter::new(File::create(format!("{dir}/expect.txt")).unwrap()),
            n: 0,
        }
    }
    fn script(&mut self, c: &ScriptCase) {
        watchdog::enter(&c.encode());
        writeln!(self.cases, "{}", c.encode()).unwrap();
        writeln!(self.imp, "{}", c.run()).unwrap();
        writeln!(self.tags, "{}", c.tag.replace('\n', " ")).unwrap();
        match script::LAST_ORACLE.with(|o| o.borrow_mut().take()) {
            None => writeln!(self.expect, "-").unwrap(),
            Some(m) => writeln!(self.expect, "!{}", m).unwrap(),
        }
        self.n += 1;
    }
    /// a `script` case with a metamorphic oracle on the implementation alone: the script written back
    /// by `Display` (what --format / --override keep of the untouched records) runs the same way —
    /// same calls, same waits, same verdict (line numbers may move)
    fn script_fmt(&mut self, c: &ScriptCase, pid: &str) {
        watchdog::enter(&c.encode());
        writeln!(self.cases, "{}", c.encode()).unwrap();
        let a = c.run();
        writeln!(self.imp, "{}", a).unwrap();
        writeln!(self.tags, "{}", c.tag.replace('\n', " ")).unwrap();
        let own = script::LAST_ORACLE.with(|o| o.borrow_mut().take());
        let strip = |x: &str| -> String {
            let t: Vec<&str> = x.split(' ').collect();
            if t[0] == "failed" && t.len() > 2 {
                format!("failed {}", t[2..].join(" "))
            } else {
                x.to_string()
            }
        };
        let mut verdict = own;
        if verdict.is_none() {
            if let Ok(recs) = sqllogictest::parse_with_name::<sqllogictest::DefaultColumnType>(&c.text, "t.slt") {
                let mut text2 = String::new();
                for r in &recs {
                    text2.push_str(&format!("{}\n", r));
                }
                let mut c2 = c.clone();
                c2.text = text2.clone();
                let b = c2.run();
                let _ = script::LAST_ORACLE.with(|o| o.borrow_mut().take());
                if strip(&a) != strip(&b) {
                    verdict = Some(format!(
                        "{}|the script as written back by Display runs differently: {} instead of {} (formatted text: {:?})",
                        pid,
                        &strip(&b).chars().take(300).collect::<String>(),
                        &strip(&a).chars().take(300).collect::<String>(),
                        text2.chars().take(300).collect::<String>()
                    ));
                }
            }
        }
        match verdict {
            None => writeln!(self.expect, "-").unwrap(),
            Some(m) => writeln!(self.expect, "!{}", m.replace('\n', " ")).unwrap(),
        }
        self.n += 1;
    }
    /// a `fmt` case; the harness's own metamorphic oracle verdict goes to expect.txt as `!msg`
    fn fmt(&mut self, text: &str, tag: &str) {
        watchdog::enter(&fmtop::encode_fmt_case(text));
        writeln!(self.cases, "{}", fmtop::encode_fmt_case(text)).unwrap();
        let (a, oracle) = fmtop::run_fmt(text);
        writeln!(self.imp, "{}", a).unwrap();
        writeln!(self.tags, "{}", tag.replace('\n', " ")).unwrap();
        match oracle {
            None => writeln!(self.expect, "-").unwrap(),
            Some(m) => writeln!(self.expect, "!{}", m).unwrap(),
        }
        self.n += 1;
    }
    fn include(&mut self, tree: &treeop::Tree, tag: &str) {
        watchdog::enter(&treeop::encode_include_case(tree));
        writeln!(self.cases, "{}", treeop::encode_include_case(tree)).unwrap();
        writeln!(self.imp, "{}", treeop::run_include(tree)).unwrap();
        writeln!(self.tags, "{}", tag).unwrap();
        // every fourth tree also through the absolute-pattern oracle (implementation alone)
        match if self.n % 4 == 0 { treeop::include_abs_oracle(tree) } else { None } {
            None => writeln!(self.expect, "-").unwrap(),
            Some(m) => writeln!(self.expect, "!{}", m).unwrap(),
        }
        self.n += 1;
    }
    fn update(&mut self, c: &treeop::UpdateCase) {
        watchdog::enter(&c.encode());
        writeln!(self.cases, "{}", c.encode()).unwrap();
        let (a, oracle) = c.run();
        writeln!(self.imp, "{}", a).unwrap();
        writeln!(self.tags, "{}", c.tag).unwrap();
        match oracle {
            None => writeln!(self.expect, "-").unwrap(),
            Some(m) => writeln!(self.expect, "!{}", m.replace('\n', " ")).unwrap(),
        }
        self.n += 1;
    }
    fn libpar(&mut self, c: &libpar::LibCase) {
        writeln!(self.cases, "{}", c.line).unwrap();
        writeln!(self.imp, "accept").unwrap();
        writeln!(self.tags, "{}", c.tag).unwrap();
        match &c.oracle {
            None => writeln!(self.expect, "-").unwrap(),
            // (no property prefix: the profile serves C17 and, through the partitioner, C18)
            Some(m) => writeln!(self.expect, "!{}", m).unwrap(),
        }
        self.n += 1;
    }
    /// the name the library gave the database of the k-th file, against the model's `libDbName`
    fn libname(&mut self, path: &str, k: usize, actual: &str) {
        writeln!(self.cases, "libname {} {}", enc::hx(path), k).unwrap();
        writeln!(self.imp, "name {}", enc::hx(actual)).unwrap();
        writeln!(self.tags, "c17lib database name").unwrap();
        writeln!(self.expect, "-").unwrap();
        self.n += 1;
    }
    fn frame(&mut self, c: &frameop::FrameCase) {
        watchdog::enter(&c.encode());
        writeln!(self.cases, "{}", c.encode()).unwrap();
        writeln!(self.imp, "{}", c.run()).unwrap();
        writeln!(self.tags, "{}", c.tag).unwrap();
        writeln!(self.expect, "-").unwrap();
        self.n += 1;
    }
    /// a `parse` case; `expect` = what the author of the text intended ("-" = no expectation)
    fn parse(&mut self, strict: bool, text: &str, tag: &str, expect: &str) {
        watchdog::enter(&parseop::encode_parse_case(strict, text));
        writeln!(self.cases, "{}", parseop::encode_parse_case(strict, text)).unwrap();
        writeln!(self.imp, "{}", parseop::run_parse(strict, text)).unwrap();
        writeln!(self.tags, "{}", tag.replace('\n', " ")).unwrap();
        writeln!(self.expect, "{}", expect).unwrap();
        self.n += 1;
    }
}

fn s(v: &[&str]) -> Vec<String> {
    v.iter().map(|x| x.to_string()).collect()
}

const FIXTURES: &[&str] = &[
    "slt/basic.slt", "slt/condition.slt", "slt/connection/counter.slt", "slt/file_level_sort_mode.slt",
    "slt/include/include_1.slt", "slt/retry.slt", "slt/rowsort.slt", "slt/valuesort.slt",
    "no_run/query_retry.slt", "no_run/statement_retry.slt", "no_run/system_retry.slt",
    "custom_type/custom_type.slt", "substitution/basic.slt", "system_command/system_command.slt",
    "system_command/system_command_fail.slt", "system_command/system_command_fail_2.slt",
    "test_dir_escape/test_dir_escape.slt", "validator/validator.slt",
];

fn gen_profile(profile: &str, seed: u64, n: usize, thorough: bool, out: &mut Out) {
    let mut r = Rng::new(seed);
    match profile {
        "c01" => {
            for _ in 0..n {
                out.script(&gen::gen_c01(&mut r));
            }
        }
        "c02" => {
            for _ in 0..n {
                out.script(&gen::gen_c02(&mut r));
            }
        }
        "c09" => {
            let maxn = 6;
            for nn in 1..=maxn {
                for bits in 0..(1u32 << nn) {
                    for kind in 0..7 {
                        for b in ["0s", "1ms", "1s500ms"] {
                            out.script(&gen::gen_c09(nn, bits, kind, b, &mut r));
                        }
                        if nn <= 3 {
                            // back-offs that are not a whole number of the next larger unit
                            for b in ["250us", "1ms500us", "1ms1ns", "1m1ms", "999ns", "1h1s"] {
                                out.script_fmt(&gen::gen_c09(nn, bits, kind, b, &mut r), "C09");
                            }
                        }
                    }
                }
            }
            // two retried records in a row: all outcome pairs for small N, distinct kinds
            for n1 in 1..=3usize {
                for bits1 in 0..(1u32 << n1) {
                    for n2 in 2..=3usize {
                        for bits2 in 0..(1u32 << n2) {
                            let k1 = r.below(7);
                            let k2 = (k1 + 1 + r.below(6)) % 7;
                            out.script(&gen::gen_c09_pair(n1, bits1, k1, n2, bits2, k2, &mut r));
                        }
                    }
                }
            }
            // a database that keeps the default `sleep`: the waits are seen on the clock only
            for (attempts, nanos) in [(20u32, 900_000u64), (20, 999_999), (10, 1_500_000), (5, 3_000_000)] {
                watchdog::enter(&format!("sleepprobe {} {}", attempts, nanos));
                writeln!(out.cases, "sleepprobe {} {}", attempts, nanos).unwrap();
                writeln!(out.imp, "{}", script::run_sleep_probe(attempts, nanos)).unwrap();
                writeln!(out.tags, "c09 default sleep, wall clock").unwrap();
                writeln!(out.expect, "-").unwrap();
                out.n += 1;
            }
            // attempt counts beyond 32 bits (legal: the clause holds a usize): the first pass still ends
            // the loop after that many executions, however large N is
            for big in ["4294967296", "4294967297", "8589934593", "18446744073709551615", "65537", "256", "257"] {
                for pass_at in 0..3usize {
                    for kind in 0..7 {
                        let mut c = gen::gen_c09(pass_at + 1, 1u32 << pass_at, kind, "0s", &mut r);
                        c.text = c.text.replace(&format!(" retry {} backoff", pass_at + 1), &format!(" retry {} backoff", big));
                        c.tag = format!("c09 big n={} pass_at={} kind={}", big, pass_at, kind);
                        out.script(&c);
                    }
                }
            }
            // random larger N
            for _ in 0..n {
                let nn = r.range(7, 24);
                let bits = (r.next() as u32) & ((1u32 << nn) - 1);
                let bits = if r.chance(1, 2) { bits & !((1u32 << r.below(nn)) - 1) } else { bits };
                out.script(&gen::gen_c09(nn, bits, r.below(7), "3ms", &mut r));
            }
        }
        "c10" => {
            let bases: Vec<Vec<Vec<String>>> = vec![
                vec![],
                vec![s(&["a"])],
                vec![s(&["b"]), s(&["a"])],
                vec![s(&["a", "2"]), s(&["a", "10"]), s(&["B", "1"])],
                vec![s(&["b", "1"]), s(&["a", "2"]), s(&["c", "0"])],
                vec![s(&["x"]), s(&["x"]), s(&["y"]), s(&["X"])],
                vec![s(&["ab"]), s(&["a"]), s(&["abc"]), s(&["b"])],
                vec![s(&["1", "2", "3"]), s(&["1", "2", "2"]), s(&["1", "10", "0"]), s(&["0", "9", "9"])],
                vec![s(&["é"]), s(&["z"]), s(&["日本"]), s(&["a"]), s(&["Z"])],
                vec![s(&["1", "a"]), s(&["1", "b"]), s(&["2", "a"]), s(&["10", "a"]), s(&["1", "a"])],
                vec![s(&["a b", "c"]), s(&["a", "b c"]), s(&["  x ", "y"]), s(&["x", "y"]), s(&["w", "z"])],
            ];
            let sorts = [None, Some("nosort"), Some("rowsort"), Some("valuesort")];
            for base in &bases {
                let small = base.len() <= 4;
                for p in gen::permutations(base) {
                    for q in sorts {
                        for f in sorts {
                            for vw in [false, true] {
                                if !small && !thorough && vw && f.is_some() {
                                    continue; // quick tier: thin out the 5-row sets
                                }
                                out.script(&gen::gen_c10(base, &p, q, f, vw, "rows", 0));
                                if small && base.len() >= 2 && !vw {
                                    // digest comparison must be order-independent too
                                    out.script(&gen::gen_c10(base, &p, q, f, vw, "rows", 1));
                                }
                            }
                        }
                    }
                }
            }
            // random: larger sets, row and value permutations
            for _ in 0..n {
                let nrows = r.range(2, if thorough { 200 } else { 40 });
                let ncols = r.range(1, 3);
                let rows: Vec<Vec<String>> = (0..nrows)
                    .map(|_| (0..ncols).map(|_| r.pick(gen::VALUES).to_string()).collect())
                    .collect();
                let q = *r.pick(&sorts);
                let f = *r.pick(&sorts);
                let vw = r.chance(1, 3);
                let mut p = rows.clone();
                let mut pk = "rows";
                if r.chance(1, 2) {
                    r.shuffle(&mut p);
                } else {
                    pk = "values";
                    // permute individual values
                    let mut vals: Vec<String> = rows.iter().flatten().cloned().collect();
                    r.shuffle(&mut vals);
                    p = vals.chunks(ncols).map(|c| c.to_vec()).collect();
                }
                let thr = *r.pick(&[0usize, 0, 1, 3, 10, 1000]);
                out.script(&gen::gen_c10(&rows, &p, q, f, vw, pk, thr));
            }
        }
        "c11" => {
            let labels = ["mock", "pg", "duck", "L"];
            let mut guard_choices: Vec<(bool, &str)> = vec![];
            for l in labels {
                guard_choices.push((true, l));
                guard_choices.push((false, l));
            }
            let mut lists: Vec<Vec<(bool, &str)>> = vec![vec![]];
            let maxlen = if thorough { 3 } else { 2 };
            let mut frontier = lists.clone();
            for _ in 0..maxlen {
                let mut next = vec![];
                for l in &frontier {
                    for g in &guard_choices {
                        let mut l2 = l.clone();
                        l2.push(*g);
                        next.push(l2);
                    }
                }
                lists.extend(next.clone());
                frontier = next;
            }
            for gl in &lists {
                for mask in 0..16u32 {
                    let ls: Vec<&str> =
                        (0..4).filter(|i| mask & (1 << i) != 0).map(|i| labels[i]).collect();
                    for kind in 0..3 {
                        for engine in ["mock", ""] {
                            out.script(&gen::gen_c11(gl, &ls, kind, engine, gl.len() == 1));
                        }
                    }
                }
            }
            // random triples in the quick tier
            for _ in 0..n {
                let gl: Vec<(bool, &str)> = (0..3).map(|_| *r.pick(&guard_choices)).collect();
                let mask = r.below(16) as u32;
                let ls: Vec<&str> =
                    (0..4).filter(|i| mask & (1 << i) != 0).map(|i| labels[i]).collect();
                let engine = *r.pick(&["mock", ""]);
                // (guards wait for the next statement / query / system record, whatever comes in between)
                let gap = *r.pick(&["", "", "\n", "# c\n", "\n# c\n\n", "sleep 1ms\n", "subtest x\n", "hash-threshold 0\n",
                                   "control substitution off\n\n", "control sortmode nosort\n", "connection c9\n"]);
                let mut c = gen::gen_c11_gap(&gl, &ls, r.below(3), engine, true, gap);
                if r.chance(1, 2) {
                    // labels added later count from then on: a second script on the same runner
                    let mask2 = r.below(16) as u32 & !mask;
                    let l2: Vec<&str> = (0..4).filter(|i| mask2 & (1 << i) != 0).map(|i| labels[i]).collect();
                    let gl2: Vec<(bool, &str)> = (0..r.range(1, 2)).map(|_| *r.pick(&guard_choices)).collect();
                    let mut t2 = String::new();
                    for (only, l) in &gl2 {
                        t2.push_str(&format!("{} {}\n", if *only { "onlyif" } else { "skipif" }, l));
                    }
                    t2.push_str("statement ok\nguarded2\n\n");
                    c.db.rules.push(("guarded2".into(), vec![mock::Ans::Error("nope".into())]));
                    c.text2 = Some(t2);
                    c.labels2 = l2.iter().map(|s| s.to_string()).collect();
                    c.tag.push_str(&format!(" second guards2={:?} labels2={:?}", gl2, l2));
                }
                out.script(&c);
            }
        }
        "c12" => {
            for _ in 0..n {
                out.script(&gen::gen_c12(&mut r));
            }
        }
        "c17lib" => {
            for i in 0..n {
                watchdog::enter(&format!("libmon (library run_parallel, case {} of seed {}: regenerate with the same seed)", i, seed));
                let c = libpar::gen_libpar(&mut r, i);
                out.libpar(&c);
                if i % 10 == 0 {
                    for (p, k, d) in &c.names {
                        out.libname(p, *k, d);
                    }
                }
            }
        }
        "c20" => {
            let mut cases = vec![];
            frameop::exhaustive_cuts(&mut r, thorough, &mut |c| cases.push(c));
            for c in &cases {
                out.frame(c);
            }
            for _ in 0..n {
                out.frame(&frameop::gen_frame(&mut r));
            }
        }
        "c18hash" => {
            // DefaultHasher::new() + impl Hash for str, in-process, on random path names
            use std::hash::{DefaultHasher, Hash, Hasher};
            let alphabet: Vec<char> = "abcdefghijklmnopqrstuvwxyzABCXYZ0123456789_-./ é日本".chars().collect();
            for i in 0..n {
                let len = if i < 40 { i } else { r.range(0, 60) };
                let p: String = (0..len).map(|_| *r.pick(&alphabet)).collect();
                let mut h = DefaultHasher::new();
                p.hash(&mut h);
                writeln!(out.cases, "sip {}", enc::hx(&p)).unwrap();
                writeln!(out.imp, "{}", h.finish()).unwrap();
                writeln!(out.tags, "c18hash").unwrap();
                writeln!(out.expect, "-").unwrap();
                out.n += 1;
            }
        }
        "c13" => {
            for _ in 0..n {
                out.script(&gen::gen_c13(&mut r));
            }
            // several runners alive at once: distinct directories, stable, existing, removed on drop
            for k in 2..6 {
                watchdog::enter(&format!("testdir {}", k));
                writeln!(out.cases, "testdir {}", k).unwrap();
                writeln!(out.imp, "{}", script::run_testdir_probe(k)).unwrap();
                writeln!(out.tags, "c13 testdir").unwrap();
                writeln!(out.expect, "-").unwrap();
                out.n += 1;
            }
        }
        "c15" => {
            for _ in 0..n {
                out.script(&gen::gen_c15(&mut r));
            }
        }
        "c03" => {
            for _ in 0..n {
                let (text, exp) = parseop::gen_c03(&mut r);
                out.parse(false, &text, "c03 layout", &exp);
            }
        }
        "c05" => {
            // rendered valid scripts under random layouts, all repository fixtures, duration sweep
            for f in FIXTURES {
                if let Ok(t) = std::fs::read_to_string(format!(
                    "{}/tests/{}",
                    std::env::var("SLT_REPO").unwrap_or_else(|_| "/repo".into()),
                    f
                )) {
                    out.fmt(&t, &format!("c05 fixture {}", f));
                }
            }
            for (i, d) in parseop::duration_sweep().iter().enumerate() {
                let t = if i % 2 == 0 {
                    format!("sleep {}\n", d)
                } else {
                    format!("statement ok retry 3 backoff {}\nselect 1\n\nsystem ok retry 2 backoff {}\ntrue\n", d, d)
                };
                out.fmt(&t, "c05 duration");
            }
            for i in 0..n {
                if i % 4 == 3 {
                    let (_, t) = parseop::gen_c04_mutate(&mut r);
                    out.fmt(&t, "c05 mutated");
                } else {
                    let (t, _) = parseop::gen_c03(&mut r);
                    out.fmt(&t, "c05 layout");
                }
            }
        }
        "c14" => {
            for _ in 0..n {
                let (tree, tag) = treegen::gen_include_tree(&mut r);
                out.include(&tree, &tag);
            }
        }
        "update" => {
            for _ in 0..n {
                let c = treegen::gen_update_case(&mut r, false);
                out.update(&c);
            }
        }
        "updatecrash" => {
            // every interruption point k of an uninterrupted run (driver panic at the k-th request)
            for _ in 0..n {
                let c = treegen::gen_update_case(&mut r, !thorough);
                // number of requests of the uninterrupted run
                let (a, _) = c.run();
                out.update(&c);
                let nreq = a.split(" S ").nth(1).and_then(|x| x.split(' ').next()).and_then(|x| x.parse::<usize>().ok()).unwrap_or(0);
                // final contents of the uninterrupted run: "F n (path content)* L"
                let fin: Vec<String> = {
                    let t: Vec<&str> = a.split(' ').collect();
                    let nf: usize = t[2].parse().unwrap_or(0);
                    (0..nf).map(|i| enc::unhx(t[4 + 2 * i])).collect()
                };
                for k in 0..nreq {
                    let mut ck = c.clone();
                    ck.crash_at = Some(k);
                    ck.expect_final = Some(fin.clone());
                    ck.tag = format!("update crash k={} of {}", k, nreq);
                    out.update(&ck);
                }
            }
        }
        "updatecorner" => {
            // the excluded points of the C06 theorems, run on the real code
            let mk = |content: &str, sql: &str, types: &str, row: &[&str], tag: &str| treeop::UpdateCase {
                sep: " ".into(),
                tree: treeop::Tree { files: vec![("root.slt".into(), content.to_string())], root: "root.slt".into() },
                db: mock::DbScript {
                    engine: "mock".into(),
                    rules: vec![(sql.to_string(), vec![mock::Ans::Rows { types: types.into(), rows: vec![row.iter().map(|s| s.to_string()).collect()] }])],
                    ..Default::default()
                },
                tag: tag.into(),
                representable: true,
                ..Default::default()
            };
            out.update(&mk("query TT\nselect x\n----\nwrong\n", "select x", "TT", &["a\u{a0}", "b"], "corner value with trailing NBSP"));
            out.update(&mk("query TT\nselect x\n----\nwrong\n", "select x", "TT", &["\u{b}a", "b"], "corner value with leading VT"));
            out.update(&mk("query error retry 2 backoff 1s\nselect y\n", "select y", "", &["1"], "corner query error + retry + engine without column types"));
            out.update(&mk("query error\nselect y\n", "select y", "", &["1"], "corner query error + engine without column types"));
            // an empty value is outside the property's own guard (non-empty values): compared, not judged
            let mut c = mk("query TT\nselect x\n----\nwrong\n", "select x", "TT", &["", "b"], "corner empty value");
            c.representable = false;
            out.update(&c);
        }
        "updatesmall" => {
            for t in treegen::small_files() {
                let c = treeop::UpdateCase {
                    sep: " ".into(),
                    tree: treeop::Tree { files: vec![("root.slt".into(), t)], root: "root.slt".into() },
                    db: mock::DbScript { engine: "mock".into(), ..Default::default() },
                    tag: "update small".into(),
                    representable: true,
                    ..Default::default()
                };
                out.update(&c);
            }
        }
        "c04enum" => {
            // every header line of <= 3 (quick) / <= 4 (thorough) tokens over the vocabulary,
            // each followed by one SQL line; 5 tokens over the reduced vocabulary (thorough)
            let maxlen = if thorough { 4 } else { 3 };
            for len in 1..=maxlen {
                parseop::enum_lines(parseop::VOCAB, len, &mut |l| {
                    let text = format!("{}\nselect 1\n", l);
                    out.parse(false, &text, "c04 enum", "-");
                });
            }
            let len5 = if thorough { 5 } else { 4 };
            parseop::enum_lines(parseop::VOCAB5, len5, &mut |l| {
                let text = format!("{}\nselect 1\n", l);
                out.parse(true, &text, "c04 enum5", "-");
            });
        }
        "c04" => {
            for i in 0..n {
                match i % 3 {
                    0 => {
                        let (strict, text, line, bad) = parseop::gen_c04_inject(&mut r);
                        out.parse(strict, &text, &format!("c04 inject line={} bad={}", line, bad), "-");
                    }
                    1 => {
                        let (strict, text) = parseop::gen_c04_soup(&mut r);
                        out.parse(strict, &text, "c04 soup", "-");
                    }
                    _ => {
                        let (strict, text) = parseop::gen_c04_mutate(&mut r);
                        out.parse(strict, &text, "c04 mutate", "-");
                    }
                }
            }
        }
        _ => panic!("unknown profile {profile}"),
    }
}

/// A case that does not come back is an answer too: the main thread announces every case before it
/// runs it; if one is still running after `LIMIT_S` seconds the watchdog writes it to `<outdir>/hang.txt`
/// and ends the process with status 3 (the orchestrator turns that into a violation with this input).
mod watchdog {
    use std::sync::atomic::{AtomicU64, Ordering};
    use std::sync::Mutex;
    pub static CASE: Mutex<String> = Mutex::new(String::new());
    pub static SERIAL: AtomicU64 = AtomicU64::new(0);
    pub const LIMIT_S: u64 = 90;

    pub fn enter(line: &str) {
        if let Ok(mut g) = CASE.lock() {
            g.clear();
            g.push_str(line);
        }
        SERIAL.fetch_add(1, Ordering::Relaxed);
    }

    pub fn start(outdir: String) {
        let _ = std::fs::remove_file(format!("{outdir}/hang.txt"));
        std::thread::spawn(move || {
            let mut last = 0;
            let mut since = std::time::Instant::now();
            loop {
                std::thread::sleep(std::time::Duration::from_millis(500));
                let cur = SERIAL.load(Ordering::Relaxed);
                if cur != last {
                    last = cur;
                    since = std::time::Instant::now();
                } else if cur > 0 && since.elapsed().as_secs() >= LIMIT_S {
                    let case = CASE.lock().map(|g| g.clone()).unwrap_or_default();
                    let _ = std::fs::write(format!("{outdir}/hang.txt"), case);
                    std::process::exit(3);
                }
            }
        });
    }
}

fn main() {
    // panics inside the code under test are outcomes, keep stderr quiet
    std::panic::set_hook(Box::new(|_| {}));
    let args: Vec<String> = std::env::args().collect();
    match args.get(1).map(|s| s.as_str()) {
        Some("gen") => {
            // gen <profile> <seed> <n> <quick|thorough> <outdir>
            let profile = &args[2];
            let seed: u64 = args[3].parse().unwrap();
            let n: usize = args[4].parse().unwrap();
            let thorough = args[5] == "thorough";
            let mut out = Out::new(&args[6]);
            watchdog::start(args[6].clone());
            gen_profile(profile, seed, n, thorough, &mut out);
            println!("{}", out.n);
        }
        Some("replay") => {
            // replay: read case lines on stdin, run each on the implementation, print the answers
            let stdin = std::io::stdin();
            for line in stdin.lock().lines() {
                let line = line.unwrap();
                println!("{}", replay_line(&line));
            }
        }
        _ => {
            eprintln!("usage: slt-harness gen <profile> <seed> <n> <quick|thorough> <outdir> | replay");
            std::process::exit(2);
        }
    }
}

fn replay_line(line: &str) -> String {
    let t: Vec<&str> = line.split(' ').collect();
    match t[0] {
        "script" => decode_script(&t).run(),
        "parse" => parseop::run_parse(t[1] == "1", &enc::unhx(t[2])),
        "fmt" => fmtop::run_fmt(&enc::unhx(t[1])).0,
        "testdir" => script::run_testdir_probe(t[1].parse().unwrap_or(2)),
        "sleepprobe" => script::run_sleep_probe(t[1].parse().unwrap_or(2), t[2].parse().unwrap_or(0)),
        // the recorded event log is the replay (the tag names the seeds that regenerate the run)
        "libmon" => "accept".into(),
        "libname" => format!("name {}", libpar::replay_name(&enc::unhx(t[1]), t[2].parse().unwrap_or(0))),
        "include" => {
            let mut i = 1;
            let tree = decode_tree(&t, &mut i);
            treeop::run_include(&tree)
        }
        "update" | "updatecv" => {
            use enc::unhx;
            let mut i = 1;
            let strict_cols = t[i] == "1";
            let sep = unhx(t[i + 1]);
            let threshold: usize = t[i + 2].parse().unwrap();
            let nl: usize = t[i + 3].parse().unwrap();
            i += 4;
            let labels: Vec<String> = (0..nl).map(|k| unhx(t[i + k])).collect();
            i += nl;
            let tree = decode_tree(&t, &mut i);
            // the two regex tables are recomputed by the run, not trusted
            let n: usize = t[i].parse().unwrap();
            i += 1 + 2 * n;
            let n: usize = t[i].parse().unwrap();
            i += 1 + 3 * n;
            let mut next = || {
                let v = t[i];
                i += 1;
                v
            };
            let db = decode_db(&mut next);
            assert_eq!(next(), "K");
            let crash_at = next().parse::<usize>().ok();
            let mut pre = vec![];
            if i < t.len() && t[i] == "P" {
                let n: usize = t[i + 1].parse().unwrap();
                pre = (0..n).map(|k| unhx(t[i + 2 + k])).collect();
            }
            let c = treeop::UpdateCase {
                pre,
                strict_cols,
                sep,
                threshold,
                labels,
                tree,
                db,
                crash_at,
                tag: "replay".into(),
                representable: false,
                expect_final: None,
                accept_all: t[0] == "updatecv",
            };
            c.run().0
        }
        "frame" => {
            let n: usize = t[1].parse().unwrap();
            let mut i = 2;
            let mut steps = vec![];
            for _ in 0..n {
                let sql = enc::unhx(t[i]);
                let kind = t[i + 1].to_string();
                let nc: usize = t[i + 2].parse().unwrap();
                let chunks = (0..nc).map(|k| enc::unhxb(t[i + 3 + k])).collect();
                i += 3 + nc;
                steps.push(frameop::Step { sql, kind, chunks });
            }
            frameop::FrameCase { steps, tag: "replay".into() }.run()
        }
        _ => "unknown-op".into(),
    }
}

/// inverse of `Tree::encode`
fn decode_tree(t: &[&str], i: &mut usize) -> treeop::Tree {
    let n: usize = t[*i].parse().unwrap();
    *i += 1;
    let mut files = vec![];
    for _ in 0..n {
        files.push((enc::unhx(t[*i]), enc::unhx(t[*i + 1])));
        *i += 2;
    }
    let root = enc::unhx(t[*i]);
    *i += 1;
    treeop::Tree { files, root }
}

/// inverse of `ScriptCase::encode` (tables are recomputed, not trusted)
fn decode_script(t: &[&str]) -> ScriptCase {
    use enc::unhx;
    use mock::*;
    let mut i = 1;
    let mut next = || {
        let v = t[i];
        i += 1;
        v
    };
    let mut c = ScriptCase::default();
    c.strict_cols = next() == "1";
    c.threshold = next().parse().unwrap();
    let nl: usize = next().parse().unwrap();
    for _ in 0..nl {
        c.labels.push(unhx(next()));
    }
    let n: usize = next().parse().unwrap();
    for _ in 0..n {
        let k = unhx(next());
        let v = unhx(next());
        c.locals.push((k, v));
    }
    let n: usize = next().parse().unwrap();
    for _ in 0..n {
        let k = unhx(next());
        let v = unhx(next());
        c.env.push((k, v));
    }
    c.text = unhx(next());
    c.text2 = match next() {
        "-" => None,
        x => Some(unhx(x)),
    };
    let n: usize = next().parse().unwrap();
    for _ in 0..n {
        c.labels2.push(unhx(next()));
    }
    let n: usize = next().parse().unwrap();
    for _ in 0..n {
        next();
        next();
    }
    let n: usize = next().parse().unwrap();
    for _ in 0..n {
        next();
        next();
        next();
    }
    c.db = decode_db(&mut next);
    c
}

/// inverse of `DbScript::encode`, starting at the `db` token
fn decode_db<'a>(next: &mut dyn FnMut() -> &'a str) -> mock::DbScript {
    use enc::unhx;
    use mock::*;
    assert_eq!(next(), "db");
    let mut db = DbScript::default();
    db.engine = unhx(next());
    let n: usize = next().parse().unwrap();
    for _ in 0..n {
        db.make_fail.push(next().parse().unwrap());
    }
    fn dec_ans<'a>(next: &mut dyn FnMut() -> &'a str) -> Ans {
        match next() {
            "rows" => {
                let types = unhx(next());
                let nr: usize = next().parse().unwrap();
                let mut rows = vec![];
                for _ in 0..nr {
                    let nc: usize = next().parse().unwrap();
                    rows.push((0..nc).map(|_| unhx(next())).collect());
                }
                Ans::Rows { types, rows }
            }
            "complete" => Ans::Complete(next().parse().unwrap()),
            "error" => Ans::Error(unhx(next())),
            "sess" => Ans::Sess,
            x => panic!("bad ans {x}"),
        }
    }
    fn dec_cmdans<'a>(next: &mut dyn FnMut() -> &'a str) -> CmdAns {
        match next() {
            "exit" => {
                let code = next().parse().unwrap();
                CmdAns::Exit { code, stdout: unhx(next()) }
            }
            "spawnerr" => CmdAns::SpawnErr,
            "signal" => {
                let sig = next().parse().unwrap();
                CmdAns::Signal { sig, stdout: unhx(next()) }
            }
            x => panic!("bad cmdans {x}"),
        }
    }
    let n: usize = next().parse().unwrap();
    for _ in 0..n {
        let sql = unhx(next());
        let na: usize = next().parse().unwrap();
        let ans = (0..na).map(|_| dec_ans(next)).collect();
        db.rules.push((sql, ans));
    }
    db.default = dec_ans(next);
    let n: usize = next().parse().unwrap();
    for _ in 0..n {
        let cmd = unhx(next());
        let na: usize = next().parse().unwrap();
        let ans = (0..na).map(|_| dec_cmdans(next)).collect();
        db.cmd_rules.push((cmd, ans));
    }
    db.cmd_default = dec_cmdans(next);
    db
}
