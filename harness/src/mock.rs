//! Scripted database / shell used to drive the real `Runner` in-process.
//!
//! Semantics (mirrored by `Driver/Db.lean`): the answer to the j-th call (0-based, over all
//! sessions) with SQL text `s` is `rules[s][min(j, len-1)]`, or `default` if `s` has no rule;
//! `Ans::Sess` answers with `[[session id, number of earlier calls on this session]]`.
use std::cell::RefCell;
use std::collections::HashMap;
use std::os::unix::process::ExitStatusExt;
use std::process::{Command, ExitStatus, Output};
use std::sync::{Arc, Mutex};
use std::time::Duration;

use async_trait::async_trait;
use sqllogictest::{AsyncDB, ColumnType, DBOutput, DefaultColumnType};

use crate::enc::hx;

#[derive(Clone, Debug)]
pub enum Ans {
    Rows { types: String, rows: Vec<Vec<String>> },
    Complete(u64),
    Error(String),
    Sess,
}

#[derive(Clone, Debug)]
pub enum CmdAns {
    Exit { code: i32, stdout: String },
    SpawnErr,
    /// killed by this signal (`ExitStatus::code()` is `None`)
    Signal { sig: i32, stdout: String },
}

#[derive(Clone, Debug)]
pub struct DbScript {
    pub engine: String,
    pub make_fail: Vec<usize>,
    pub rules: Vec<(String, Vec<Ans>)>,
    pub default: Ans,
    pub cmd_rules: Vec<(String, Vec<CmdAns>)>,
    pub cmd_default: CmdAns,
}

impl Default for DbScript {
    fn default() -> Self {
        DbScript {
            engine: String::new(),
            make_fail: vec![],
            rules: vec![],
            default: Ans::Complete(0),
            cmd_rules: vec![],
            cmd_default: CmdAns::Exit { code: 0, stdout: String::new() },
        }
    }
}

pub fn enc_ans(a: &Ans) -> String {
    match a {
        Ans::Rows { types, rows } => {
            let mut o = format!("rows {} {}", hx(types), rows.len());
            for r in rows {
                o.push_str(&format!(" {}", r.len()));
                for v in r {
                    o.push(' ');
                    o.push_str(&hx(v));
                }
            }
            o
        }
        Ans::Complete(n) => format!("complete {}", n),
        Ans::Error(e) => format!("error {}", hx(e)),
        Ans::Sess => "sess".into(),
    }
}

pub fn enc_cmdans(a: &CmdAns) -> String {
    match a {
        CmdAns::Exit { code, stdout } => format!("exit {} {}", code, hx(stdout)),
        CmdAns::SpawnErr => "spawnerr".into(),
        CmdAns::Signal { sig, stdout } => format!("signal {} {}", sig, hx(stdout)),
    }
}

impl DbScript {
    pub fn encode(&self) -> String {
        let mut o = format!("db {} {}", hx(&self.engine), self.make_fail.len());
        for i in &self.make_fail {
            o.push_str(&format!(" {}", i));
        }
        o.push_str(&format!(" {}", self.rules.len()));
        for (sql, ans) in &self.rules {
            o.push_str(&format!(" {} {}", hx(sql), ans.len()));
            for a in ans {
                o.push(' ');
                o.push_str(&enc_ans(a));
            }
        }
        o.push(' ');
        o.push_str(&enc_ans(&self.default));
        o.push_str(&format!(" {}", self.cmd_rules.len()));
        for (cmd, ans) in &self.cmd_rules {
            o.push_str(&format!(" {} {}", hx(cmd), ans.len()));
            for a in ans {
                o.push(' ');
                o.push_str(&enc_cmdans(a));
            }
        }
        o.push(' ');
        o.push_str(&enc_cmdans(&self.cmd_default));
        o
    }
}

#[derive(Clone, Debug, PartialEq, Eq)]
pub enum Ev {
    Make(usize, bool),
    Run(usize, String),
    Cmd(String),
    Sleep(u64, u32),
    Shutdown(usize),
}

pub fn enc_ev(e: &Ev) -> String {
    match e {
        Ev::Make(i, ok) => format!("make {} {}", i, if *ok { 1 } else { 0 }),
        Ev::Run(s, sql) => format!("run {} {}", s, hx(sql)),
        Ev::Cmd(c) => format!("cmd {}", hx(c)),
        Ev::Sleep(s, n) => format!("sleep {} {}", s, n),
        Ev::Shutdown(s) => format!("shutdown {}", s),
    }
}

#[derive(Default)]
pub struct Shared {
    pub script: DbScript,
    pub counts: HashMap<String, usize>,
    pub cmd_counts: HashMap<String, usize>,
    pub sess_calls: HashMap<usize, usize>,
    pub makes: usize,
    pub trace: Vec<Ev>,
    /// panic inside `run` when the total number of `run` calls reaches this value (C08)
    pub panic_at_run: Option<usize>,
    pub runs: usize,
    /// called at the start of every `run` (before a possible panic) — used to snapshot files
    pub on_run: Option<Box<dyn FnMut(usize) + Send>>,
}

pub type SharedRef = Arc<Mutex<Shared>>;

thread_local! {
    static CURRENT: RefCell<Option<SharedRef>> = const { RefCell::new(None) };
}

pub fn set_current(s: Option<SharedRef>) {
    CURRENT.with(|c| *c.borrow_mut() = s);
}

fn with_current<R>(f: impl FnOnce(&mut Shared) -> R) -> R {
    CURRENT.with(|c| {
        let c = c.borrow();
        let s = c.as_ref().expect("no current mock");
        let mut g = s.lock().unwrap_or_else(|e| e.into_inner());
        f(&mut g)
    })
}

#[derive(Debug, thiserror::Error)]
#[error("{0}")]
pub struct MockError(pub String);

pub struct MockConn<T: ColumnType = DefaultColumnType> {
    pub id: usize,
    pub shared: SharedRef,
    pub engine: String,
    _p: std::marker::PhantomData<T>,
}

pub fn new_shared(script: DbScript) -> SharedRef {
    Arc::new(Mutex::new(Shared { script, ..Default::default() }))
}

/// `MakeConnection::make` body
pub fn make_conn<T: ColumnType>(shared: &SharedRef) -> Result<MockConn<T>, MockError> {
    let mut g = shared.lock().unwrap_or_else(|e| e.into_inner());
    let id = g.makes;
    g.makes += 1;
    if g.script.make_fail.contains(&id) {
        g.trace.push(Ev::Make(id, false));
        return Err(MockError("connfail".into()));
    }
    g.trace.push(Ev::Make(id, true));
    let engine = g.script.engine.clone();
    Ok(MockConn { id, shared: shared.clone(), engine, _p: std::marker::PhantomData })
}

fn pick<A: Clone>(rules: &[(String, Vec<A>)], default: &A, key: &str, j: usize) -> A {
    for (k, ans) in rules {
        if k == key {
            if ans.is_empty() {
                return default.clone();
            }
            return ans[j.min(ans.len() - 1)].clone();
        }
    }
    default.clone()
}

#[async_trait]
impl<T: ColumnType> AsyncDB for MockConn<T> {
    type Error = MockError;
    type ColumnType = T;

    async fn run(&mut self, sql: &str) -> Result<DBOutput<T>, MockError> {
        let mut g = self.shared.lock().unwrap_or_else(|e| e.into_inner());
        let n = g.runs;
        if let Some(mut cb) = g.on_run.take() {
            cb(n);
            g.on_run = Some(cb);
        }
        if g.panic_at_run == Some(n) {
            drop(g);
            panic!("mock: scripted driver panic at request {}", n);
        }
        g.runs += 1;
        g.trace.push(Ev::Run(self.id, sql.to_string()));
        let j = *g.counts.get(sql).unwrap_or(&0);
        g.counts.insert(sql.to_string(), j + 1);
        let sc = *g.sess_calls.get(&self.id).unwrap_or(&0);
        g.sess_calls.insert(self.id, sc + 1);
        let a = pick(&g.script.rules, &g.script.default, sql, j);
        match a {
            Ans::Rows { types, rows } => Ok(DBOutput::Rows {
                types: types.chars().map(|c| T::from_char(c).expect("mock type char")).collect(),
                rows,
            }),
            Ans::Complete(n) => Ok(DBOutput::StatementComplete(n)),
            Ans::Error(e) => Err(MockError(e)),
            Ans::Sess => Ok(DBOutput::Rows {
                types: "II".chars().map(|c| T::from_char(c).expect("mock type char")).collect(),
                rows: vec![vec![self.id.to_string(), sc.to_string()]],
            }),
        }
    }

    async fn shutdown(&mut self) {
        let mut g = self.shared.lock().unwrap_or_else(|e| e.into_inner());
        g.trace.push(Ev::Shutdown(self.id));
    }

    fn engine_name(&self) -> &str {
        &self.engine
    }

    async fn sleep(dur: Duration) {
        with_current(|g| g.trace.push(Ev::Sleep(dur.as_secs(), dur.subsec_nanos())));
    }

    async fn run_command(command: Command) -> std::io::Result<Output> {
        let args: Vec<String> =
            command.get_args().map(|a| a.to_string_lossy().to_string()).collect();
        let text = args.last().cloned().unwrap_or_default();
        with_current(|g| {
            g.trace.push(Ev::Cmd(text.clone()));
            let j = *g.cmd_counts.get(&text).unwrap_or(&0);
            g.cmd_counts.insert(text.clone(), j + 1);
            match pick(&g.script.cmd_rules, &g.script.cmd_default, &text, j) {
                CmdAns::Exit { code, stdout } => Ok(Output {
                    status: ExitStatus::from_raw(code << 8),
                    stdout: stdout.into_bytes(),
                    stderr: vec![],
                }),
                CmdAns::SpawnErr => Err(std::io::Error::new(std::io::ErrorKind::NotFound, "spawnerr")),
                CmdAns::Signal { sig, stdout } => Ok(Output {
                    status: ExitStatus::from_raw(sig),
                    stdout: stdout.into_bytes(),
                    stderr: vec![],
                }),
            }
        })
    }
}
