//! Op `parse`: the real `parse_with_name` on a text (C03, C04) + generators.
use std::panic::{catch_unwind, AssertUnwindSafe};

use sqllogictest::*;

use crate::enc::*;
use crate::rng::Rng;
use crate::script::enc_regex_valid;

/// a strict custom column type (T, I, R only) to reach `InvalidType`
#[derive(Debug, PartialEq, Eq, Clone)]
pub enum StrictType {
    T,
    I,
    R,
}

impl ColumnType for StrictType {
    fn from_char(c: char) -> Option<Self> {
        match c {
            'T' => Some(Self::T),
            'I' => Some(Self::I),
            'R' => Some(Self::R),
            _ => None,
        }
    }
    fn to_char(&self) -> char {
        match self {
            Self::T => 'T',
            Self::I => 'I',
            Self::R => 'R',
        }
    }
}

pub fn encode_parse_case(strict: bool, text: &str) -> String {
    format!("parse {} {} {}", if strict { 1 } else { 0 }, hx(text), enc_regex_valid(text))
}

fn enc_result<T: ColumnType>(r: Result<Vec<Record<T>>, ParseError>) -> String {
    match r {
        Ok(recs) => {
            let mut o = format!("ok {}", recs.len());
            for r in &recs {
                o.push_str(" | ");
                o.push_str(&enc_record(r));
            }
            o
        }
        Err(e) => format!("err {} {}", perr_kind(&e.kind()), e.location().line()),
    }
}

pub fn run_parse(strict: bool, text: &str) -> String {
    // three public ways into the parser (the file name only shows in error locations, which are
    // compared by line): chosen by a hash of the text, so that a replay takes the same one
    let entry = text.bytes().fold(0xcbf29ce484222325u64, |h, b| (h ^ b as u64).wrapping_mul(0x100000001b3)) % 3;
    let res = catch_unwind(AssertUnwindSafe(|| {
        if strict {
            match entry {
                0 => enc_result(parse::<StrictType>(text)),
                _ => enc_result(parse_with_name::<StrictType>(text, "f.slt")),
            }
        } else {
            match entry {
                0 => enc_result(parse::<DefaultColumnType>(text)),
                1 if !text.contains("include") => {
                    let base = std::env::var("SLT_SCRATCH").unwrap_or_else(|_| "/verif/out/scratch".into());
                    let dir = std::path::PathBuf::from(base).join(format!("parse_{}", std::process::id()));
                    let _ = std::fs::create_dir_all(&dir);
                    let path = dir.join("f.slt");
                    std::fs::write(&path, text).unwrap();
                    let r = parse_file::<DefaultColumnType>(&path);
                    let _ = std::fs::remove_file(&path);
                    enc_result(r)
                }
                _ => enc_result(parse_with_name::<DefaultColumnType>(text, "f.slt")),
            }
        }
    }));
    match res {
        Ok(s) => s,
        Err(_) => "panic".into(),
    }
}

// ------------------------------------------------------------------------------------------
// C04: exhaustive header lines over the directive vocabulary

pub const VOCAB: &[&str] = &[
    "statement", "query", "system", "ok", "error", "count", "retry", "backoff", "control",
    "sortmode", "resultmode", "substitution", "on", "off", "nosort", "rowsort", "valuesort",
    "rowwise", "valuewise", "include", "halt", "subtest", "sleep", "skipif", "onlyif",
    "connection", "hash-threshold", "default", "3", "0", "1s", "x", "II", "T?", "(", "-1",
];

pub const VOCAB5: &[&str] = &[
    "statement", "query", "system", "ok", "error", "count", "retry", "backoff", "3", "0", "1s",
    "x", "I", "rowsort", "(", "lbl",
];

/// all lines of exactly `len` tokens over `vocab`, each followed by `tail`
pub fn enum_lines(vocab: &[&str], len: usize, f: &mut dyn FnMut(String)) {
    let mut idx = vec![0usize; len];
    loop {
        let line: Vec<&str> = idx.iter().map(|i| vocab[*i]).collect();
        f(line.join(" "));
        let mut k = len;
        loop {
            if k == 0 {
                return;
            }
            k -= 1;
            idx[k] += 1;
            if idx[k] < vocab.len() {
                break;
            }
            idx[k] = 0;
        }
    }
}

// ------------------------------------------------------------------------------------------
// C03: abstract scripts rendered under random layouts, with the records the author intended

const BLANKS: &[&str] = &[" ", "  ", "\t", " \t", "\t\t ", "\u{a0}", " \u{2003}"];

fn sep(r: &mut Rng, fancy: bool) -> String {
    if !fancy {
        return " ".into();
    }
    r.pick(BLANKS).to_string()
}

fn trail(r: &mut Rng, fancy: bool) -> String {
    if fancy && r.chance(1, 3) {
        r.pick(&["", " ", "\t", "  \t"]).to_string()
    } else {
        String::new()
    }
}

pub struct Layout {
    pub fancy: bool,
    pub crlf: bool,
    pub final_newline: bool,
}

const SQL_LINES: &[&str] = &[
    "select 1",
    "select * from t where a = 'x  y'",
    "  indented line",
    "insert into t values (1, 'é日本')",
    "# not a comment inside sql",
    "-- ---- not a delimiter",
    "select '$x' \\\\ {y}",
    "trailing blank ",
    "\ttab start",
    "halt",
    "statement ok",
];

const RESULT_LINES: &[&str] = &["1", "a b", "  x   y ", "3 values hashing to abc", "#", "----x", "é", "(empty)", "\t1\t2", " ", "\t", "\u{a0}", " \u{2003} "];

const DURS: &[(&str, u64, u32)] = &[
    ("1s", 1, 0),
    ("0s", 0, 0),
    ("10ms", 0, 10_000_000),
    ("1m30s", 90, 0),
    ("1s500ms", 1, 500_000_000),
    ("2h", 7200, 0),
    ("3us5ns", 0, 3005),
    ("1day", 86400, 0),
    ("1min1sec", 61, 0),
    ("7ns", 0, 7),
];

const LABELS: &[&str] = &["mock", "pg", "a-b", "x_1", "日本", "retry1", "nosort2", "ROWSORT", "NoSort", "Valuesort", "ON"];
const NAMES: &[&str] = &["default", "a", "A", "conn-1", "Default", "é"];
const REGEX_TOKS: &[&str] = &["boom", "a.*b", "\\(x\\)", "[0-9]+", "x", "retry", "backoff", "3", "é+"];
const ML_TEXTS: &[&str] = &["boom", "line1\nline2", "a\n\nb", "  indented\nx", "x\n \ny", "# hash", "----", "a\n\nb\n\nc", ""];

/// Generates one abstract script, renders it under a layout, and returns
/// (text, expected encoded records in the order the parser must produce them).
pub fn gen_c03(r: &mut Rng) -> (String, String) {
    let lay = Layout { fancy: r.chance(2, 3), crlf: r.chance(1, 4), final_newline: r.chance(3, 4) };
    let n = r.range(1, 8);
    let mut lines: Vec<String> = vec![]; // rendered lines (no terminators)
    let mut recs: Vec<String> = vec![];
    let mut conds: Vec<(bool, String)> = vec![];
    let mut conn: Option<String> = None;
    let enc_c = |c: &[(bool, String)]| {
        let mut o = format!("{}", c.len());
        for (only, l) in c {
            o.push_str(&format!(" {} {}", if *only { "only" } else { "skip" }, hx(l)));
        }
        o
    };
    let enc_cn = |c: &Option<String>| match c {
        None => "cd".to_string(),
        Some(n) if n == "default" => "cd".to_string(),
        Some(n) => format!("cn {}", hx(n)),
    };
    for item in 0..n {
        let last = item + 1 == n;
        let f = lay.fancy;
        match r.below(16) {
            0 => {
                // comment block
                let k = r.range(1, 3);
                let mut ls = vec![];
                for _ in 0..k {
                    let t = r.pick(&[" a comment", "", "# double", " trailing  ", "\tx"]).to_string();
                    lines.push(format!("#{}", t));
                    ls.push(t);
                }
                let mut o = format!("comment {}", ls.len());
                for l in &ls {
                    o.push(' ');
                    o.push_str(&hx(l));
                }
                recs.push(o);
                // a comment block is ended by a non-comment line: add a blank line (Newline record)
                if !last || r.chance(1, 2) {
                    lines.push(String::new());
                    recs.push("newline".into());
                }
            }
            1 => {
                lines.push(String::new());
                recs.push("newline".into());
            }
            2 => {
                // whitespace-only line: no record
                if f {
                    lines.push(r.pick(&[" ", "\t", "  \t "]).to_string());
                } else {
                    lines.push(String::new());
                    recs.push("newline".into());
                }
            }
            3 => {
                let only = r.chance(1, 2);
                let l = r.pick(LABELS).to_string();
                lines.push(format!("{}{}{}{}", if only { "onlyif" } else { "skipif" }, sep(r, f), l, trail(r, f)));
                recs.push(format!("cond {} {}", if only { "only" } else { "skip" }, hx(&l)));
                conds.push((only, l));
            }
            4 => {
                let nme = r.pick(NAMES).to_string();
                lines.push(format!("connection{}{}{}", sep(r, f), nme, trail(r, f)));
                recs.push(format!("conn {}", enc_cn(&Some(nme.clone()))));
                conn = Some(nme);
            }
            5 => {
                let (kind, txt, enc): (&str, String, String) = match r.below(6) {
                    0 => ("halt", String::new(), String::new()),
                    1 => {
                        let nme = r.pick(LABELS).to_string();
                        ("subtest", nme.clone(), hx(&nme))
                    }
                    2 => {
                        let d = r.pick(DURS);
                        ("sleep", d.0.to_string(), format!("{} {}", d.1, d.2))
                    }
                    3 => {
                        let t = r.pick(&["0", "5", "+7", "18446744073709551615"]).to_string();
                        ("hash", t.clone(), t.trim_start_matches('+').to_string())
                    }
                    4 => {
                        let nme = r.pick(&["a.slt", "dir/*.slt", "../x?.slt"]).to_string();
                        ("incl", nme.clone(), hx(&nme))
                    }
                    _ => {
                        let (a, b, e) = *r.pick(&[
                            ("sortmode", "rowsort", "sort rowsort"),
                            ("sortmode", "nosort", "sort nosort"),
                            ("sortmode", "valuesort", "sort valuesort"),
                            ("resultmode", "valuewise", "result valuewise"),
                            ("resultmode", "rowwise", "result rowwise"),
                            ("substitution", "on", "subst 1"),
                            ("substitution", "off", "subst 0"),
                        ]);
                        lines.push(format!("control{}{}{}{}{}", sep(r, f), a, sep(r, f), b, trail(r, f)));
                        recs.push(format!("control {}", e));
                        continue;
                    }
                };
                let lineno = lines.len() + 1;
                let word = match kind {
                    "hash" => "hash-threshold",
                    "incl" => "include",
                    k => k,
                };
                if kind == "halt" {
                    lines.push(format!("halt{}", trail(r, f)));
                    recs.push(format!("halt {}", lineno));
                } else {
                    lines.push(format!("{}{}{}{}", word, sep(r, f), txt, trail(r, f)));
                    recs.push(format!("{} {} {}", kind, lineno, enc));
                }
            }
            _ => {
                // statement / query / system
                let lineno = lines.len() + 1;
                let kind = r.below(3);
                let retry = if r.chance(1, 4) {
                    let a = r.range(1, 9);
                    let d = r.pick(DURS);
                    Some((a, d.0, d.1, d.2))
                } else {
                    None
                };
                let retry_toks: Vec<String> = match &retry {
                    Some((a, d, _, _)) => vec!["retry".into(), a.to_string(), "backoff".into(), d.to_string()],
                    None => vec![],
                };
                let enc_rt = match &retry {
                    Some((a, _, s, n)) => format!("r {} {} {}", a, s, n),
                    None => "-".into(),
                };
                let nsql = r.range(1, 3);
                let mut sql: Vec<String> = vec![];
                for i in 0..nsql {
                    let mut l = r.pick(SQL_LINES).to_string();
                    if i > 0 && l.is_empty() {
                        l = "x".into();
                    }
                    sql.push(l);
                }
                let sql_text = sql.join("\n");
                let mut toks: Vec<String> = vec![];
                let mut block: Vec<String> = vec![]; // lines after the sql (incl. delimiter)
                let enc;
                // error form shared by statement and query
                let error_form = |r: &mut Rng, toks: &mut Vec<String>, block: &mut Vec<String>| -> String {
                    toks.push("error".into());
                    match r.below(3) {
                        0 => "any".to_string(),
                        1 if retry.is_none() => {
                            let k = r.range(1, 3);
                            let mut ts: Vec<String> = (0..k).map(|_| r.pick(REGEX_TOKS).to_string()).collect();
                            if ts.len() == 4 && ts[0] == "retry" && ts[2] == "backoff" {
                                ts[0] = "x".into();
                            }
                            toks.extend(ts.clone());
                            format!("re {}", hx(&ts.join(" ")))
                        }
                        _ => {
                            let t = r.pick(ML_TEXTS).to_string();
                            block.push("----".into());
                            // (an empty text is `----` directly followed by the two blank lines)
                            for l in t.split('\n').filter(|_| !t.is_empty()) {
                                block.push(l.to_string());
                            }
                            block.push(String::new());
                            // trimmed text: lines that are blank-only inside are kept verbatim
                            format!("ml {}", hx(t.trim()))
                        }
                    }
                };
                match kind {
                    0 => {
                        toks.push("statement".into());
                        let e = match r.below(4) {
                            0 => {
                                toks.push("ok".into());
                                "ok".to_string()
                            }
                            1 => {
                                let c = r.pick(&["0", "3", "+12", "007"]).to_string();
                                toks.push("count".into());
                                toks.push(c.clone());
                                format!("count {}", c.trim_start_matches('+').parse::<u64>().unwrap())
                            }
                            _ => format!("err {}", error_form(r, &mut toks, &mut block)),
                        };
                        toks.extend(retry_toks.clone());
                        enc = format!(
                            "stmt {} {} {} {} {} {}",
                            lineno,
                            enc_c(&conds),
                            enc_cn(&conn),
                            hx(&sql_text),
                            e,
                            enc_rt
                        );
                        conds.clear();
                        conn = None;
                    }
                    1 => {
                        toks.push("query".into());
                        let e = if r.chance(1, 4) {
                            format!("err {}", error_form(r, &mut toks, &mut block))
                        } else {
                            let types = r.pick(&["I", "TT", "?", "IRT", "X", "tiR", "Bt", "iI", "Tr", "É", "日I"]).to_string();
                            toks.push(types.clone());
                            let tchars: String = types
                                .chars()
                                .map(|c| match c {
                                    'T' | 'I' | 'R' => c,
                                    _ => '?',
                                })
                                .collect();
                            let sort = *r.pick(&[None, None, Some("nosort"), Some("rowsort"), Some("valuesort")]);
                            if let Some(s) = sort {
                                toks.push(s.into());
                            }
                            let label = if r.chance(1, 3) { Some(r.pick(LABELS).to_string()) } else { None };
                            if let Some(l) = &label {
                                toks.push(l.clone());
                            }
                            let with_results = r.chance(4, 5);
                            let mut res: Vec<String> = vec![];
                            if with_results {
                                block.push("----".into());
                                for _ in 0..r.below(4) {
                                    let l = r.pick(RESULT_LINES).to_string();
                                    block.push(l.clone());
                                    res.push(l);
                                }
                            }
                            let mut o = format!(
                                "res {} {} - {} {}",
                                hx(&tchars),
                                sort.unwrap_or("-"),
                                match &label {
                                    Some(l) => hx(l),
                                    None => "-".into(),
                                },
                                res.len()
                            );
                            for l in &res {
                                o.push(' ');
                                o.push_str(&hx(l));
                            }
                            o
                        };
                        toks.extend(retry_toks.clone());
                        enc = format!(
                            "query {} {} {} {} {} {}",
                            lineno,
                            enc_c(&conds),
                            enc_cn(&conn),
                            hx(&sql_text),
                            e,
                            enc_rt
                        );
                        conds.clear();
                        conn = None;
                    }
                    _ => {
                        toks.push("system".into());
                        toks.push("ok".into());
                        toks.extend(retry_toks.clone());
                        let out = if r.chance(1, 2) {
                            let t = r.pick(ML_TEXTS).to_string();
                            block.push("----".into());
                            // (an empty text is `----` directly followed by the two blank lines)
                            for l in t.split('\n').filter(|_| !t.is_empty()) {
                                block.push(l.to_string());
                            }
                            block.push(String::new());
                            hx(t.trim())
                        } else {
                            "-".into()
                        };
                        enc = format!("system {} {} {} {} {}", lineno, enc_c(&conds), hx(&sql_text), out, enc_rt);
                        conds.clear();
                        // a system record does not consume the pending connection
                    }
                }
                let mut hdr = String::new();
                for (i, t) in toks.iter().enumerate() {
                    if i > 0 {
                        hdr.push_str(&sep(r, f));
                    }
                    hdr.push_str(t);
                }
                hdr.push_str(&trail(r, f));
                lines.push(hdr);
                lines.extend(sql);
                lines.extend(block.clone());
                // terminating blank line (may be omitted at the very end of the file)
                if !(last && r.chance(1, 3)) {
                    lines.push(String::new());
                }
                recs.push(enc);
            }
        }
    }
    let nl = if lay.crlf { "\r\n" } else { "\n" };
    let mut text = lines.join(nl);
    let last_empty = lines.last().map(|l| l.is_empty()).unwrap_or(false);
    if (lay.final_newline || last_empty) && !lines.is_empty() {
        text.push_str(nl);
    }
    let mut exp = format!("ok {}", recs.len());
    for r in &recs {
        exp.push_str(" | ");
        exp.push_str(r);
    }
    (text, exp)
}

// ------------------------------------------------------------------------------------------
// C04: arbitrary and mutated texts

const MALFORMED: &[&str] = &[
    "foo",
    "statement",
    "statement maybe",
    "statement count",
    "statement count x",
    "statement count -1",
    "statement ok retry 0 backoff 1s",
    "statement ok retry x backoff 1s",
    "statement ok retry 3",
    "statement ok retry 3 backoff",
    "statement ok retry 3 back 1s",
    "statement ok retry 3 backoff 1s extra",
    "statement ok retry 3 backoff 1parsec",
    "statement ok please",
    "statement error (",
    "query error [z-a]",
    "query I rowsort lbl extra",
    "query I retry 0 backoff 1s",
    "query I lbl retry 2 backoff",
    "system",
    "system fail",
    "system ok retry",
    "control",
    "control sortmode",
    "control sortmode upside",
    "control resultmode diagonal",
    "control substitution maybe",
    "control foo bar",
    "control sortmode rowsort extra",
    "hash-threshold",
    "hash-threshold x",
    "hash-threshold -1",
    "hash-threshold 1 2",
    "hash-threshold 18446744073709551616",
    "halt now",
    "include",
    "include a b",
    "subtest",
    "subtest a b",
    "sleep",
    "sleep 1",
    "sleep 1 s",
    "sleep forever",
    "skipif",
    "skipif a b",
    "onlyif",
    "connection",
    "connection a b",
    "sleep 18446744073709551615s1000000000ns",
    "statement ok retry 2 backoff 18446744073709551615s1000000000ns",
    "sleep 18446744073709551616s",
    "sleep 1s 2",
    // both an inline pattern and a multi-line text (also when the pattern is the catch-all `.*`), a result
    // block under `statement ok|count`: rejected at the header line
    "statement error .*\nbad\n----\nmsg\n\n",
    "query error .*\nbad\n----\nmsg\n\n",
    "statement error x\nbad\n----\nmsg\n\n",
    "query error (a|b)\nbad\n----\nmsg\n\n",
    "statement ok\nsel\n----\n1\n",
    "statement count 1\nsel\n----\n1\n",
];

/// which of the MALFORMED lines need a following SQL line to be *reached* as header (all are
/// rejected at the header itself, so none) — kept for documentation.
pub fn gen_c04_inject(r: &mut Rng) -> (bool, String, usize, String) {
    // a valid script with one malformed line injected at a record boundary
    let strict = r.chance(1, 5);
    let blocks: Vec<String> = (0..r.range(0, 5))
        .map(|_| {
            r.pick(&[
                "statement ok\nselect 1\n\n",
                "query I\nselect 1\n----\n1\n\n",
                "# comment\n",
                "\n",
                "onlyif x\n",
                "control sortmode rowsort\n\n",
                "system ok\necho\n----\nout\n\n\n",
                "statement error\nbad\n----\nmsg\n\n\n",
                "halt\n",
                "sleep 1s\n",
            ])
            .to_string()
        })
        .collect();
    let pos = r.below(blocks.len() + 1);
    let mut text = String::new();
    let mut line = 1;
    let bad = if strict && r.chance(1, 2) { "query IX" } else { *r.pick(MALFORMED) };
    for (i, b) in blocks.iter().enumerate() {
        if i == pos {
            break;
        }
        text.push_str(b);
        line += b.matches('\n').count();
    }
    text.push_str(bad);
    text.push('\n');
    // the malformed header may be followed by anything (a malformed block is complete as it is)
    if !bad.contains('\n') {
        text.push_str(*r.pick(&["select 1\n\n", "", "\n", "----\nx\n\n"]));
    }
    for b in blocks.iter().skip(pos) {
        text.push_str(b);
    }
    (strict, text, line, bad.to_string())
}

const FRAGMENTS: &[&str] = &[
    "statement", "query", "system", "ok", "error", "count", "retry", "backoff", "control", "sortmode",
    "halt", "----", "\n", "\n\n", "\r\n", "\r", " ", "\t", "#", "1s", "3", "I", "T", "rowsort", "select 1",
    "\u{b}", "\u{a0}", "é", "日本", "\u{1F600}", "$", "\\", "(", "[", "sleep", "include", "x", "0",
    "18446744073709551615s", "1000000000ns", "hash-threshold", "connection", "onlyif", "skipif", "subtest",
    "\u{2028}", "\u{85}", "+5", "-", "default", "substitution", "on", "resultmode", "valuewise",
];

pub fn gen_c04_soup(r: &mut Rng) -> (bool, String) {
    let n = r.range(0, 30);
    let mut s = String::new();
    if r.chance(1, 8) {
        // long lines with multi-byte characters at every byte alignment
        let pad = "a".repeat(r.below(4));
        let body = r.pick(&["€", "日本語", "é", "\u{1F600}"]).repeat(r.range(20, 60));
        s.push_str(*r.pick(&["", "statement ", "control ", "query I ", "foo "]));
        s.push_str(&pad);
        s.push_str(&body);
        s.push('\n');
    }
    for _ in 0..n {
        s.push_str(*r.pick(FRAGMENTS));
        if r.chance(1, 2) {
            s.push(' ');
        } else if r.chance(1, 3) {
            s.push('\n');
        }
    }
    (r.chance(1, 6), s)
}

/// byte/token/line mutations of a rendered valid script
pub fn gen_c04_mutate(r: &mut Rng) -> (bool, String) {
    let (text, _) = gen_c03(r);
    let mut lines: Vec<String> = text.split('\n').map(|s| s.to_string()).collect();
    for _ in 0..r.range(1, 3) {
        if lines.is_empty() {
            break;
        }
        let i = r.below(lines.len());
        match r.below(7) {
            0 => {
                lines.remove(i);
            }
            1 => {
                let l = lines[i].clone();
                lines.insert(i, l);
            }
            2 => {
                let mut toks: Vec<String> = lines[i].split(' ').map(|s| s.to_string()).collect();
                if !toks.is_empty() {
                    let j = r.below(toks.len());
                    toks[j] = r.pick(FRAGMENTS).to_string();
                }
                lines[i] = toks.join(" ");
            }
            3 => {
                let mut toks: Vec<String> = lines[i].split(' ').map(|s| s.to_string()).collect();
                if !toks.is_empty() {
                    let j = r.below(toks.len());
                    toks.remove(j);
                }
                lines[i] = toks.join(" ");
            }
            4 => {
                lines[i].push_str(&format!(" {}", r.pick(FRAGMENTS)));
            }
            5 => {
                if lines.len() > 1 {
                    let j = r.below(lines.len());
                    lines.swap(i, j);
                }
            }
            _ => {
                let chars: Vec<char> = lines[i].chars().collect();
                if !chars.is_empty() {
                    let j = r.below(chars.len());
                    let mut c2 = chars.clone();
                    c2[j] = *r.pick(&['\r', ' ', '#', '-', 'x', '\t', '0']);
                    lines[i] = c2.into_iter().collect();
                }
            }
        }
    }
    (r.chance(1, 6), lines.join("\n"))
}

/// duration tokens around every radix boundary of humantime's format
pub fn duration_sweep() -> Vec<String> {
    let mut v = vec![];
    let secs: &[u64] = &[
        0, 1, 59, 60, 61, 90, 3599, 3600, 3601, 86399, 86400, 86401, 2630015, 2630016, 2630017, 31557599,
        31557600, 31557601, 63115200, 34187616, 1_000_000_000, u64::MAX / 2, u64::MAX - 1, u64::MAX,
    ];
    let nanos: &[u32] = &[0, 1, 999, 1000, 1001, 999_999, 1_000_000, 1_500_000, 999_999_999, 500_000_000, 1_001_001];
    for s in secs {
        for n in nanos {
            let mut t = String::new();
            if *s > 0 || *n == 0 {
                t.push_str(&format!("{}s", s));
            }
            if *n > 0 {
                t.push_str(&format!("{}ns", n));
            }
            v.push(t);
        }
    }
    for k in 0..19 {
        v.push(format!("{}ms", 10u64.pow(k)));
        v.push(format!("{}us", 15 * 10u64.pow(k.min(17))));
    }
    for t in ["1h30m", "2days", "1w", "1M", "1y", "1year1month1day1h1m1s1ms1us1ns", "3weeks2d", "90min", "1hr"] {
        v.push(t.to_string());
    }
    v
}
