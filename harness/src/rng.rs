//! SplitMix64: the single PRNG every random choice derives from.
#[derive(Clone)]
pub struct Rng(pub u64);

impl Rng {
    pub fn new(seed: u64) -> Self {
        Rng(seed.wrapping_mul(0x9E3779B97F4A7C15) ^ 0xD1B54A32D192ED03)
    }
    pub fn next(&mut self) -> u64 {
        self.0 = self.0.wrapping_add(0x9E3779B97F4A7C15);
        let mut z = self.0;
        z = (z ^ (z >> 30)).wrapping_mul(0xBF58476D1CE4E5B9);
        z = (z ^ (z >> 27)).wrapping_mul(0x94D049BB133111EB);
        z ^ (z >> 31)
    }
    pub fn below(&mut self, n: usize) -> usize {
        if n == 0 {
            0
        } else {
            (self.next() % n as u64) as usize
        }
    }
    pub fn range(&mut self, lo: usize, hi: usize) -> usize {
        lo + self.below(hi - lo + 1)
    }
    pub fn chance(&mut self, num: usize, den: usize) -> bool {
        self.below(den) < num
    }
    pub fn pick<'a, T>(&mut self, xs: &'a [T]) -> &'a T {
        &xs[self.below(xs.len())]
    }
    pub fn shuffle<T>(&mut self, xs: &mut [T]) {
        for i in (1..xs.len()).rev() {
            let j = self.below(i + 1);
            xs.swap(i, j);
        }
    }
}
