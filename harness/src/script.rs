//! Op `script`: run a script text with the real parser + `Runner` against the scripted mock and
//! report `(result, trace)`.
use std::panic::{catch_unwind, AssertUnwindSafe};

use sqllogictest::*;

use crate::enc::*;
use crate::mock::*;

#[derive(Clone, Debug, Default)]
pub struct ScriptCase {
    pub strict_cols: bool,
    pub threshold: usize,
    pub labels: Vec<String>,
    pub locals: Vec<(String, String)>,
    pub env: Vec<(String, String)>,
    pub text: String,
    /// a second script run on the SAME runner afterwards (through `run_script_with_name`)
    pub text2: Option<String>,
    /// labels added (`add_label`) between the two scripts
    pub labels2: Vec<String>,
    pub db: DbScript,
    /// free-form tag describing what the generator intended (not sent to the model)
    pub tag: String,
}

/// candidate inline regexes of a text: for every line `statement|query error <tokens…>`
pub fn regex_candidates(text: &str) -> Vec<String> {
    let mut v = vec![];
    for line in text.lines() {
        let t: Vec<&str> = line.split_whitespace().collect();
        if t.len() >= 3 && (t[0] == "statement" || t[0] == "query") && t[1] == "error" {
            let c = t[2..].join(" ");
            if !v.contains(&c) {
                v.push(c);
            }
        }
    }
    v
}

pub fn enc_regex_valid(text: &str) -> String {
    let c = regex_candidates(text);
    let mut o = format!("{}", c.len());
    for r in c {
        o.push_str(&format!(" {} {}", hx(&r), if regex::Regex::new(&r).is_ok() { 1 } else { 0 }));
    }
    o
}

impl ScriptCase {
    fn error_texts(&self) -> Vec<String> {
        let mut v = vec!["connfail".to_string()];
        for (_, ans) in &self.db.rules {
            for a in ans {
                if let Ans::Error(e) = a {
                    if !v.contains(e) {
                        v.push(e.clone());
                    }
                }
            }
        }
        if let Ans::Error(e) = &self.db.default {
            if !v.contains(e) {
                v.push(e.clone());
            }
        }
        v
    }

    pub fn encode(&self) -> String {
        let mut o = format!(
            "script {} {} {}",
            if self.strict_cols { 1 } else { 0 },
            self.threshold,
            self.labels.len()
        );
        for l in &self.labels {
            o.push(' ');
            o.push_str(&hx(l));
        }
        o.push_str(&format!(" {}", self.locals.len()));
        for (k, v) in &self.locals {
            o.push_str(&format!(" {} {}", hx(k), hx(v)));
        }
        o.push_str(&format!(" {}", self.env.len()));
        for (k, v) in &self.env {
            o.push_str(&format!(" {} {}", hx(k), hx(v)));
        }
        o.push(' ');
        o.push_str(&hx(&self.text));
        o.push(' ');
        o.push_str(&crate::enc::opt(&self.text2));
        o.push_str(&format!(" {}", self.labels2.len()));
        for l in &self.labels2 {
            o.push(' ');
            o.push_str(&hx(l));
        }
        let both = match &self.text2 {
            Some(t2) => format!("{}\n{}", self.text, t2),
            None => self.text.clone(),
        };
        o.push(' ');
        o.push_str(&enc_regex_valid(&both));
        // regex match table: every valid candidate x every error text
        let errs = self.error_texts();
        let mut entries = vec![];
        for r in regex_candidates(&both) {
            if let Ok(re) = regex::Regex::new(&r) {
                for e in &errs {
                    entries.push(format!("{} {} {}", hx(&r), hx(e), if re.is_match(e) { 1 } else { 0 }));
                }
            }
        }
        o.push_str(&format!(" {}", entries.len()));
        for e in entries {
            o.push(' ');
            o.push_str(&e);
        }
        o.push(' ');
        o.push_str(&self.db.encode());
        o
    }

    /// Run on the real implementation.
    pub fn run(&self) -> String {
        let records = match parse_with_name::<DefaultColumnType>(&self.text, "t.slt") {
            Ok(r) => r,
            Err(e) => return format!("parseerr {} {}", perr_kind(&e.kind()), e.location().line()),
        };
        for (k, v) in &self.env {
            std::env::set_var(k, v);
        }
        let shared = new_shared(self.db.clone());
        set_current(Some(shared.clone()));
        let sh = shared.clone();
        let mut runner = Runner::new(move || {
            let r = make_conn::<DefaultColumnType>(&sh);
            async move { r }
        });
        for l in &self.labels {
            runner.add_label(l);
        }
        for (k, v) in &self.locals {
            runner.set_var(k.clone(), v.clone());
        }
        runner.with_hash_threshold(self.threshold);
        if self.strict_cols {
            runner.with_column_validator(strict_column_validator);
        }
        // every public way of running a script is an entry point of the same semantics; which one a
        // case goes through is a function of its text (so a replay takes the same one)
        let entry = self.text.bytes().fold(0xcbf29ce484222325u64, |h, b| (h ^ b as u64).wrapping_mul(0x100000001b3)) % 5;
        let text = self.text.clone();
        let res = catch_unwind(AssertUnwindSafe(|| -> Result<(), TestError> {
            match entry {
                0 => runner.run_multi(records),
                1 => {
                    // the per-record API, driven the way `run_multi` drives it
                    for record in records {
                        if let Record::Halt { .. } = record {
                            break;
                        }
                        runner.run(record)?;
                    }
                    Ok(())
                }
                2 => runner.run_script_with_name(&text, "t.slt"),
                3 => futures::executor::block_on(runner.run_multi_async(records)),
                _ => {
                    let base = std::env::var("SLT_SCRATCH").unwrap_or_else(|_| "/verif/out/scratch".into());
                    let dir = std::path::PathBuf::from(base).join(format!("entry_{}", std::process::id()));
                    let _ = std::fs::create_dir_all(&dir);
                    let path = dir.join("t.slt");
                    std::fs::write(&path, &text).unwrap();
                    let r = runner.run_file(&path);
                    let _ = std::fs::remove_file(&path);
                    r
                }
            }
        }));
        let result = match res {
            Ok(Ok(())) => "ok".to_string(),
            Ok(Err(e)) => format!(
                "failed {} {} {}",
                e.location().line(),
                terr_kind(&e.kind()),
                hx(&canon_subst_error(&terr_detail(&e.kind())))
            ),
            Err(_) => "crashed".to_string(),
        };
        let fmt_res = |res: std::thread::Result<Result<(), TestError>>| match res {
            Ok(Ok(())) => "ok".to_string(),
            Ok(Err(e)) => format!(
                "failed {} {} {}",
                e.location().line(),
                terr_kind(&e.kind()),
                hx(&canon_subst_error(&terr_detail(&e.kind())))
            ),
            Err(_) => "crashed".to_string(),
        };
        let result = match &self.text2 {
            None => result,
            Some(_) if result == "crashed" => format!("{} ;; -", result),
            Some(t2) => match parse_with_name::<DefaultColumnType>(t2, "t2.slt") {
                Err(e) => format!("{} ;; parseerr {} {}", result, perr_kind(&e.kind()), e.location().line()),
                Ok(_) => {
                    for l in &self.labels2 {
                        if l == "@shutdown" {
                            // every session opened so far is shut down now; those opened afterwards (and,
                            // the map being kept, the old ones once more) at the end
                            let _ = catch_unwind(AssertUnwindSafe(|| runner.shutdown()));
                            continue;
                        }
                        runner.add_label(l);
                    }
                    let r2 = catch_unwind(AssertUnwindSafe(|| runner.run_script_with_name(t2, "t2.slt")));
                    format!("{} ;; {}", result, fmt_res(r2))
                }
            },
        };
        let _ = catch_unwind(AssertUnwindSafe(|| runner.shutdown()));
        // canonicalise while the runner (and its test directory) is alive
        let _ = take_seen_dirs();
        let canon_trace: Vec<Ev> = {
            let g = shared.lock().unwrap_or_else(|e| e.into_inner());
            g.trace.iter().map(canon_ev).collect()
        };
        let dirs = take_seen_dirs();
        drop(runner);
        set_current(None);
        for (k, _) in &self.env {
            std::env::remove_var(k);
        }
        // C13: one directory per runner, existing while alive, removed on drop
        let mut td_problem = None;
        if dirs.len() > 1 {
            td_problem = Some(format!("C13|records of one runner saw different test directories: {:?}", dirs));
        }
        if canon_trace.iter().any(|e| match e {
            Ev::Run(_, s) | Ev::Cmd(s) => s.contains("<TEST_DIR:gone>"),
            _ => false,
        }) {
            td_problem = Some("C13|$__TEST_DIR__ does not name an existing directory while the runner is alive".into());
        }
        for d in &dirs {
            if std::path::Path::new(d).exists() {
                td_problem = Some(format!("C13|test directory {} still exists after the runner was dropped", d));
            }
        }
        LAST_ORACLE.with(|o| *o.borrow_mut() = td_problem);
        let mut g = shared.lock().unwrap_or_else(|e| e.into_inner());
        g.trace = canon_trace;
        let mut evs: Vec<&Ev> = g.trace.iter().filter(|e| !matches!(e, Ev::Shutdown(_))).collect();
        let mut sd: Vec<&Ev> = g.trace.iter().filter(|e| matches!(e, Ev::Shutdown(_))).collect();
        sd.sort_by_key(|e| match e {
            Ev::Shutdown(i) => *i,
            _ => 0,
        });
        evs.extend(sd);
        let mut o = format!("{} {}", result, evs.len());
        for e in evs {
            o.push(' ');
            o.push_str(&enc_ev(e));
        }
        o
    }
}

/// `$__TEST_DIR__` / `$__NOW__` values are replaced by the placeholders the model uses, after
/// checking their shape (a path under the temp dir ending in `.tmp` + 6 characters; a
/// nanosecond timestamp within a day of the run)
thread_local! {
    /// oracle verdict of the last `ScriptCase::run` (test-directory lifetime)
    pub static LAST_ORACLE: std::cell::RefCell<Option<String>> = const { std::cell::RefCell::new(None) };
}

thread_local! {
    /// test directories observed in the texts canonicalised since the last `take_seen_dirs`
    pub static SEEN_DIRS: std::cell::RefCell<Vec<String>> = const { std::cell::RefCell::new(vec![]) };
}

pub fn take_seen_dirs() -> Vec<String> {
    SEEN_DIRS.with(|d| std::mem::take(&mut *d.borrow_mut()))
}

pub fn canon_text(s: &str) -> String {
    let tmp = std::env::temp_dir().join(".tmp").to_string_lossy().to_string();
    let mut out = String::new();
    let mut rest = s;
    while let Some(i) = rest.find(&tmp) {
        out.push_str(&rest[..i]);
        let after = &rest[i + tmp.len()..];
        let suffix: String = after.chars().take(6).collect();
        if suffix.len() == 6 && suffix.chars().all(|c| c.is_ascii_alphanumeric()) {
            let dir = format!("{}{}", tmp, suffix);
            if std::path::Path::new(&dir).is_dir() {
                out.push_str("<TEST_DIR>");
            } else {
                out.push_str("<TEST_DIR:gone>");
            }
            SEEN_DIRS.with(|d| {
                let mut d = d.borrow_mut();
                if !d.contains(&dir) {
                    d.push(dir.clone());
                }
            });
            rest = &after[6..];
        } else {
            out.push_str(&tmp);
            rest = after;
        }
    }
    out.push_str(rest);
    // timestamps: a window of 19 digits inside a digit run whose value is within a day of now
    let now = std::time::SystemTime::now().duration_since(std::time::UNIX_EPOCH).unwrap().as_nanos();
    let chars: Vec<char> = out.chars().collect();
    let mut res = String::new();
    let mut i = 0;
    while i < chars.len() {
        if chars[i].is_ascii_digit() && i + 19 <= chars.len() && chars[i..i + 19].iter().all(|c| c.is_ascii_digit()) {
            let w: String = chars[i..i + 19].iter().collect();
            let is_now = w.parse::<u128>().map(|v| v <= now && now - v < 86_400_000_000_000).unwrap_or(false);
            if is_now {
                res.push_str("<NOW>");
                i += 19;
                continue;
            }
        }
        res.push(chars[i]);
        i += 1;
    }
    res
}

pub fn canon_ev(e: &Ev) -> Ev {
    match e {
        Ev::Run(k, sql) => Ev::Run(*k, canon_text(sql)),
        Ev::Cmd(c) => Ev::Cmd(canon_text(c)),
        other => other.clone(),
    }
}

/// the dependency's error wording is reduced to the kind the model names
pub fn canon_subst_error(detail: &str) -> String {
    if let Some(m) = detail.strip_prefix("substitution failed: ") {
        if let Some(n) = m.strip_prefix("No such variable: $") {
            return format!("subst:noSuchVar:{}", n);
        }
        if m.starts_with("Invalid escape sequence") {
            return "subst:invalidEscape".into();
        }
        if m.starts_with("Missing variable name") {
            return "subst:missingName".into();
        }
        if m.starts_with("Unexpected character") {
            return "subst:unexpectedChar".into();
        }
        if m.starts_with("Missing closing brace") {
            return "subst:missingBrace".into();
        }
    }
    detail.to_string()
}

/// C13: test directories of several runners alive at the same time
pub fn run_testdir_probe(n: usize) -> String {
    let text = "control substitution on\n\nstatement ok\nselect '$__TEST_DIR__'\n\nsystem ok\nls $__TEST_DIR__\n\nstatement ok\nselect '$__TEST_DIR__' again\n";
    let mut runners = vec![];
    let mut shareds = vec![];
    for _ in 0..n {
        let shared = new_shared(DbScript::default());
        let sh = shared.clone();
        let runner = Runner::new(move || {
            let r = make_conn::<DefaultColumnType>(&sh);
            async move { r }
        });
        runners.push(runner);
        shareds.push(shared);
    }
    let mut dirs: Vec<Vec<String>> = vec![];
    for (runner, shared) in runners.iter_mut().zip(shareds.iter()) {
        set_current(Some(shared.clone()));
        let recs = parse_with_name::<DefaultColumnType>(text, "t.slt").unwrap();
        let _ = runner.run_multi(recs);
        set_current(None);
        let g = shared.lock().unwrap();
        let mut ds = vec![];
        for e in &g.trace {
            let t = match e {
                Ev::Run(_, s) | Ev::Cmd(s) => s.clone(),
                _ => continue,
            };
            if let Some(i) = t.find('/') {
                let d: String = t[i..].chars().take_while(|c| !c.is_whitespace() && *c != '\'').collect();
                ds.push(d);
            }
        }
        dirs.push(ds);
    }
    let same = dirs.iter().all(|d| d.len() == 3 && d.iter().all(|x| *x == d[0]));
    let firsts: Vec<String> = dirs.iter().map(|d| d.first().cloned().unwrap_or_default()).collect();
    let mut uniq = firsts.clone();
    uniq.sort();
    uniq.dedup();
    let distinct = uniq.len() == firsts.len();
    let exist = firsts.iter().all(|d| std::path::Path::new(d).is_dir());
    drop(runners);
    let gone = firsts.iter().all(|d| !std::path::Path::new(d).exists());
    let par = run_parallel_probe(n);
    format!("distinct={} same={} exist={} gone={} {}", distinct as u8, same as u8, exist as u8, gone as u8, par)
}

fn par_builder(_host: String, _db: String) -> std::future::Ready<MockConn> {
    let shared = CURRENT_FOR_PAR.with(|c| c.borrow().clone().expect("no shared"));
    std::future::ready(make_conn::<DefaultColumnType>(&shared).expect("make"))
}

thread_local! {
    static CURRENT_FOR_PAR: std::cell::RefCell<Option<SharedRef>> = const { std::cell::RefCell::new(None) };
}

/// the library's `run_parallel`: one runner per file — own test directory, own `__DATABASE__`
fn run_parallel_probe(n: usize) -> String {
    let base = std::env::var("SLT_SCRATCH").unwrap_or_else(|_| "/verif/out/scratch".into());
    let dir = std::path::PathBuf::from(base).join(format!("par_{}", std::process::id()));
    let _ = std::fs::remove_dir_all(&dir);
    std::fs::create_dir_all(&dir).unwrap();
    for i in 0..n {
        std::fs::write(
            dir.join(format!("f{}.slt", i)),
            "control substitution on\n\nstatement ok\nuse '$__TEST_DIR__' db $__DATABASE__\n\nstatement ok\nagain '$__TEST_DIR__' db $__DATABASE__\n",
        )
        .unwrap();
    }
    let shared = new_shared(DbScript::default());
    set_current(Some(shared.clone()));
    CURRENT_FOR_PAR.with(|c| *c.borrow_mut() = Some(shared.clone()));
    let sh = shared.clone();
    let mut parent = Runner::new(move || {
        let r = make_conn::<DefaultColumnType>(&sh);
        async move { r }
    });
    // the parent has used its own test directory before
    let _ = parent.run_script("control substitution on\n\nstatement ok\nparent '$__TEST_DIR__'\n");
    let glob = format!("{}/*.slt", dir.to_string_lossy());
    let res = parent.run_parallel(&glob, vec!["h".into()], par_builder, 2);
    let mut created = vec![];
    let mut per_db: std::collections::BTreeMap<String, Vec<String>> = Default::default();
    let mut parent_dir = String::new();
    {
        let g = shared.lock().unwrap();
        for e in &g.trace {
            if let Ev::Run(_, s) = e {
                if let Some(d) = s.strip_prefix("CREATE DATABASE ") {
                    created.push(d.trim_end_matches(';').to_string());
                } else if s.starts_with("use ") || s.starts_with("again ") {
                    let parts: Vec<&str> = s.split('\'').collect();
                    let db = s.rsplit(' ').next().unwrap_or("").to_string();
                    per_db.entry(db).or_default().push(parts.get(1).unwrap_or(&"").to_string());
                } else if s.starts_with("parent ") {
                    parent_dir = s.split('\'').nth(1).unwrap_or("").to_string();
                }
            }
        }
    }
    let dbs_ok = created.len() == n && per_db.keys().all(|d| created.contains(d)) && per_db.len() == n;
    let same = per_db.values().all(|v| v.len() == 2 && v[0] == v[1]);
    let mut dirs: Vec<String> = per_db.values().filter_map(|v| v.first().cloned()).collect();
    dirs.push(parent_dir.clone());
    let total = dirs.len();
    dirs.sort();
    dirs.dedup();
    let distinct = dirs.len() == total;
    // the per-file runners are gone: their directories too; the parent's still exists
    let gone = per_db.values().all(|v| v.iter().all(|d| !std::path::Path::new(d).exists()));
    let parent_alive = std::path::Path::new(&parent_dir).is_dir();
    drop(parent);
    set_current(None);
    let _ = std::fs::remove_dir_all(&dir);
    format!(
        "par_ok={} par_db={} par_same={} par_distinct={} par_gone={} parent_alive={}",
        res.is_ok() as u8, dbs_ok as u8, same as u8, distinct as u8, gone as u8, parent_alive as u8
    )
}


/// C09 with a database that keeps the trait's default `sleep`: the waits can only be seen on the
/// clock.  A lower bound is safe (a sleep never returns early): `attempts` failing attempts with a
/// back-off of `nanos` take at least `(attempts - 1) * nanos`.
pub fn run_sleep_probe(attempts: u32, nanos: u64) -> String {
    struct PlainDb;
    #[derive(Debug)]
    struct PlainErr;
    impl std::fmt::Display for PlainErr {
        fn fmt(&self, f: &mut std::fmt::Formatter<'_>) -> std::fmt::Result {
            write!(f, "boom")
        }
    }
    impl std::error::Error for PlainErr {}
    #[async_trait::async_trait]
    impl AsyncDB for PlainDb {
        type Error = PlainErr;
        type ColumnType = DefaultColumnType;
        async fn run(&mut self, _sql: &str) -> Result<DBOutput<DefaultColumnType>, PlainErr> {
            Err(PlainErr)
        }
        async fn shutdown(&mut self) {}
    }
    let mut runner = Runner::new(|| async { Ok::<_, PlainErr>(PlainDb) });
    let d = std::time::Duration::from_nanos(nanos);
    let text = format!("statement ok retry {} backoff {}\nfailing\n", attempts, format!("{}ns", nanos));
    let t0 = std::time::Instant::now();
    let res = runner.run_script(&text);
    let took = t0.elapsed();
    let bound = d * (attempts.saturating_sub(1));
    if res.is_ok() {
        "unexpected-ok".into()
    } else if took >= bound {
        "ok".into()
    } else {
        format!("short: {} failing attempts with back-off {:?} took only {:?}", attempts, d, took)
    }
}
