//! Op `script`: run a script text with the real parser + `Runner` against the scripted mock and
//! report `(result, trace)`.
use std::panic::{catch_unwind, AssertUnwindSafe};

use sqllogictest::*;

use crate::enc::*;
use crate::mock::*;

#[derive(Clone, Debug, Default)]
pub struct ScriptCase {
    pub strict_cols: bool,
    pub threshold: usize,
    pub labels: Vec<String>,
    pub locals: Vec<(String, String)>,
    pub env: Vec<(String, String)>,
    pub text: String,
    pub db: DbScript,
    /// free-form tag describing what the generator intended (not sent to the model)
    pub tag: String,
}

/// candidate inline regexes of a text: for every line `statement|query error <tokens…>`
pub fn regex_candidates(text: &str) -> Vec<String> {
    let mut v = vec![];
    for line in text.lines() {
        let t: Vec<&str> = line.split_whitespace().collect();
        if t.len() >= 3 && (t[0] == "statement" || t[0] == "query") && t[1] == "error" {
            let c = t[2..].join(" ");
            if !v.contains(&c) {
                v.push(c);
            }
        }
    }
    v
}

pub fn enc_regex_valid(text: &str) -> String {
    let c = regex_candidates(text);
    let mut o = format!("{}", c.len());
    for r in c {
        o.push_str(&format!(" {} {}", hx(&r), if regex::Regex::new(&r).is_ok() { 1 } else { 0 }));
    }
    o
}

impl ScriptCase {
    fn error_texts(&self) -> Vec<String> {
        let mut v = vec!["connfail".to_string()];
        for (_, ans) in &self.db.rules {
            for a in ans {
                if let Ans::Error(e) = a {
                    if !v.contains(e) {
                        v.push(e.clone());
                    }
                }
            }
        }
        if let Ans::Error(e) = &self.db.default {
            if !v.contains(e) {
                v.push(e.clone());
            }
        }
        v
    }

    pub fn encode(&self) -> String {
        let mut o = format!(
            "script {} {} {}",
            if self.strict_cols { 1 } else { 0 },
            self.threshold,
            self.labels.len()
        );
        for l in &self.labels {
            o.push(' ');
            o.push_str(&hx(l));
        }
        o.push_str(&format!(" {}", self.locals.len()));
        for (k, v) in &self.locals {
            o.push_str(&format!(" {} {}", hx(k), hx(v)));
        }
        o.push_str(&format!(" {}", self.env.len()));
        for (k, v) in &self.env {
            o.push_str(&format!(" {} {}", hx(k), hx(v)));
        }
        o.push(' ');
        o.push_str(&hx(&self.text));
        o.push(' ');
        o.push_str(&enc_regex_valid(&self.text));
        // regex match table: every valid candidate x every error text
        let errs = self.error_texts();
        let mut entries = vec![];
        for r in regex_candidates(&self.text) {
            if let Ok(re) = regex::Regex::new(&r) {
                for e in &errs {
                    entries.push(format!("{} {} {}", hx(&r), hx(e), if re.is_match(e) { 1 } else { 0 }));
                }
            }
        }
        o.push_str(&format!(" {}", entries.len()));
        for e in entries {
            o.push(' ');
            o.push_str(&e);
        }
        o.push(' ');
        o.push_str(&self.db.encode());
        o
    }

    /// Run on the real implementation.
    pub fn run(&self) -> String {
        let records = match parse_with_name::<DefaultColumnType>(&self.text, "t.slt") {
            Ok(r) => r,
            Err(e) => return format!("parseerr {} {}", perr_kind(&e.kind()), e.location().line()),
        };
        for (k, v) in &self.env {
            std::env::set_var(k, v);
        }
        let shared = new_shared(self.db.clone());
        set_current(Some(shared.clone()));
        let sh = shared.clone();
        let mut runner = Runner::new(move || {
            let r = make_conn::<DefaultColumnType>(&sh);
            async move { r }
        });
        for l in &self.labels {
            runner.add_label(l);
        }
        for (k, v) in &self.locals {
            runner.set_var(k.clone(), v.clone());
        }
        runner.with_hash_threshold(self.threshold);
        if self.strict_cols {
            runner.with_column_validator(strict_column_validator);
        }
        let res = catch_unwind(AssertUnwindSafe(|| runner.run_multi(records)));
        let result = match res {
            Ok(Ok(())) => "ok".to_string(),
            Ok(Err(e)) => format!(
                "failed {} {} {}",
                e.location().line(),
                terr_kind(&e.kind()),
                hx(&terr_detail(&e.kind()))
            ),
            Err(_) => "crashed".to_string(),
        };
        let _ = catch_unwind(AssertUnwindSafe(|| runner.shutdown()));
        drop(runner);
        set_current(None);
        for (k, _) in &self.env {
            std::env::remove_var(k);
        }
        let g = shared.lock().unwrap_or_else(|e| e.into_inner());
        let mut evs: Vec<&Ev> = g.trace.iter().filter(|e| !matches!(e, Ev::Shutdown(_))).collect();
        let mut sd: Vec<&Ev> = g.trace.iter().filter(|e| matches!(e, Ev::Shutdown(_))).collect();
        sd.sort_by_key(|e| match e {
            Ev::Shutdown(i) => *i,
            _ => 0,
        });
        evs.extend(sd);
        let mut o = format!("{} {}", result, evs.len());
        for e in evs {
            o.push(' ');
            o.push_str(&enc_ev(e));
        }
        o
    }
}
