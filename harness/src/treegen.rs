//! Generators of file trees for the `include` (C14) and `update` (C06, C07, C08) ops.
use crate::gen::{self, Eff, Flags};
use crate::mock::*;
use crate::rng::Rng;
use crate::treeop::{Tree, UpdateCase};

const L1: &[&str] = &["a", "a-b", "a.b", "inc", "A"];
const L2: &[&str] = &["sub", "sub2", "s-1"];
const FILES: &[&str] = &["x.slt", "y.slt", "x1.slt", "x-2.slt", "Z.slt", "z.sql"];

fn stmt(id: &mut usize) -> String {
    *id += 1;
    format!("statement ok\nselect {}\n\n", id)
}

/// C14: an acyclic tree: a file includes only patterns pointing into sub-directories of its own
/// directory, or into the leaf-only directory `shared` through `..`. The layout is chosen first
/// so that most patterns match something.
pub fn gen_include_tree(r: &mut Rng) -> (Tree, String) {
    let mut id = 0usize;
    let mut tag = String::new();
    // ---- layout
    let shared: Vec<&str> = FILES.iter().filter(|_| r.chance(1, 2)).copied().collect();
    let mut l1: Vec<(&str, Vec<&str>, Vec<(&str, Vec<&str>)>)> = vec![]; // dir, files, subdirs
    for d1 in L1 {
        if !r.chance(3, 5) {
            continue;
        }
        let files: Vec<&str> = FILES.iter().filter(|_| r.chance(1, 2)).copied().collect();
        let mut subs = vec![];
        for d2 in L2 {
            if r.chance(1, 2) {
                let fs: Vec<&str> = FILES.iter().filter(|_| r.chance(1, 2)).copied().collect();
                if !fs.is_empty() {
                    subs.push((*d2, fs));
                }
            }
        }
        l1.push((d1, files, subs));
    }
    let miss = |r: &mut Rng| r.chance(1, 25);
    let mut files: Vec<(String, String)> = vec![];
    for f in &shared {
        files.push((format!("shared/{}", f), stmt(&mut id)));
    }
    for (d1, fs1, subs) in &l1 {
        for (d2, fs2) in subs {
            for f in fs2 {
                let mut c = stmt(&mut id);
                if r.chance(1, 3) && (!shared.is_empty() || miss(r)) {
                    let pat = match r.below(4) {
                        0 if shared.iter().any(|f| f.ends_with(".slt")) => "*.slt".to_string(),
                        1 if !shared.is_empty() => r.pick(&shared).to_string(),
                        2 if !shared.is_empty() => "*.s*".to_string(),
                        _ if !shared.is_empty() => format!("{}*", &r.pick(&shared)[..1]),
                        _ => "nope.slt".to_string(),
                    };
                    c.push_str(&format!("include ../../shared/{}\n\n", pat));
                    c.push_str(&stmt(&mut id));
                }
                if r.chance(1, 40) {
                    c.push_str("statement maybe\nbroken\n\n");
                    tag.push_str(" parse-error");
                }
                files.push((format!("{}/{}/{}", d1, d2, f), c));
            }
        }
        for f in fs1 {
            let mut c = stmt(&mut id);
            for _ in 0..r.below(3) {
                let pat = if subs.is_empty() || miss(r) {
                    if miss(r) { "nothing-here/*.slt".to_string() } else { continue }
                } else {
                    let (d2, fs2) = r.pick(subs);
                    match r.below(6) {
                        0 => format!("{}/*.s*", d2),
                        1 => format!("{}/{}", d2, r.pick(fs2)),
                        2 => format!("*/{}", r.pick(fs2)),
                        3 => format!("{}/{}?{}", d2, &r.pick(fs2)[..1], ""),
                        4 => "s*/*.s*".to_string(),
                        _ => format!("{}/*.s*", d2),
                    }
                };
                c.push_str(&format!("include {}\n", pat));
                c.push_str(&stmt(&mut id));
            }
            files.push((format!("{}/{}", d1, f), c));
        }
    }
    // a `halt` inside an included file ends the whole run, not only that file; what comes after a
    // halt (includes too) is still parsed
    for (_, content) in files.iter_mut() {
        if r.chance(1, 10) {
            content.push_str("halt\n\n");
            content.push_str(&stmt(&mut id));
        } else if r.chance(1, 12) {
            *content = format!("halt\n\n{}", content);
        }
    }
    // root
    let mut c = String::from("# root\n");
    c.push_str(&stmt(&mut id));
    for _ in 0..r.range(1, 3) {
        let with_files: Vec<&(&str, Vec<&str>, Vec<(&str, Vec<&str>)>)> = l1.iter().filter(|x| !x.1.is_empty()).collect();
        let pat = if with_files.is_empty() || miss(r) {
            if !shared.is_empty() && !miss(r) { "shared/*.s*".to_string() } else { "*/none.slt".to_string() }
        } else {
            let (d1, fs1, _) = *r.pick(&with_files);
            match r.below(10) {
                0 => format!("{}/*.s*", d1),
                // a pattern that also matches directories: a directory cannot be read as a test file,
                // which is a located error (`ReadFile`; the pinned tree panicked, D27)
                9 => r.pick(&[format!("{}/*", d1), "*".to_string(), format!("{}", d1)]).clone(),
                1 => format!("{}/{}", d1, r.pick(fs1)),
                2 => format!("*/{}", r.pick(fs1)),
                3 => format!("{}*/*.s*", &d1[..1]),
                4 => "*/*/*.slt".to_string(),
                5 => format!("./{}/../{}/{}", d1, d1, r.pick(fs1)),
                6 => "?/?.slt".to_string(),
                7 => "*/*.sql".to_string(),
                _ => format!("{}/*.slt", d1),
            }
        };
        c.push_str(&format!("include {}\n\n", pat));
        c.push_str(&stmt(&mut id));
    }
    if r.chance(1, 8) {
        c.push_str("halt\n\n");
        c.push_str(&stmt(&mut id));
    }
    files.push(("root.slt".into(), c));
    let root = if r.chance(1, 40) { "missing.slt".to_string() } else { "root.slt".to_string() };
    (Tree { files, root }, format!("c14{}", tag))
}

/// C06/C07/C08: a root file with 0..3 included files (depth <= 2), records of all kinds with
/// mostly WRONG expectations, halts, controls
pub fn gen_update_case(r: &mut Rng, small: bool) -> UpdateCase {
    let mut db = DbScript { engine: "mock".into(), ..Default::default() };
    let mut eff = Eff::default();
    let fl = Flags { wrong_den: 2, retry: true, conds: true, conns: true, controls: true, system: true, misc: true };
    let mut files: Vec<(String, String)> = vec![];
    let nfiles = if small { r.below(2) } else { r.below(4) };
    let mut gen_file = |r: &mut Rng, db: &mut DbScript, eff: &mut Eff, includes: &[String]| -> String {
        let mut text = String::new();
        let n = if small { r.below(3) } else { r.range(0, 6) };
        let mut inc = includes.to_vec();
        for _ in 0..n {
            match r.below(14) {
                0 => text.push_str(&gen::gen_control(r, eff)),
                1 => text.push_str(&gen::gen_misc(r)),
                2 => text.push_str("halt\n\n"),
                3 if !inc.is_empty() => {
                    let f = inc.remove(0);
                    text.push_str(&format!("include {}\n\n", f));
                }
                _ => text.push_str(&gen::gen_record(r, db, &fl, eff)),
            }
        }
        for f in inc {
            text.push_str(&format!("include {}\n\n", f));
        }
        // various endings: no final newline, several blank lines
        match r.below(6) {
            0 => {
                while text.ends_with('\n') {
                    text.pop();
                }
            }
            1 => text.push_str("\n\n\n"),
            2 => text.push_str("\n\n\n\n\n\n\n\n\n\n"),
            _ => {}
        }
        text
    };
    // leaves first
    let mut names: Vec<String> = vec![];
    for i in 0..nfiles {
        let name = match i {
            0 => "inc/a.slt".to_string(),
            1 => "inc/b.slt".to_string(),
            _ => "inc/deep/c.slt".to_string(),
        };
        names.push(name);
    }
    let mut deep_includes: Vec<String> = vec![];
    if names.len() > 2 {
        let c = gen_file(r, &mut db, &mut eff, &[]);
        files.push((names[2].clone(), c));
        deep_includes.push("deep/c.slt".to_string());
    }
    if names.len() > 1 {
        let c = gen_file(r, &mut db, &mut eff, &[]);
        files.push((names[1].clone(), c));
    }
    if !names.is_empty() {
        let c = gen_file(r, &mut db, &mut eff, &deep_includes);
        files.push((names[0].clone(), c));
    }
    let root_includes: Vec<String> = match names.len() {
        0 => vec![],
        1 => vec!["inc/a.slt".into()],
        _ => {
            if r.chance(1, 2) {
                vec!["inc/*.slt".into()]
            } else {
                vec!["inc/a.slt".into(), "inc/b.slt".into()]
            }
        }
    };
    let c = gen_file(r, &mut db, &mut eff, &root_includes);
    files.push(("root.slt".into(), c));
    if r.chance(1, 12) {
        db.make_fail.push(r.below(2));
    }
    let mut labels = vec![];
    for l in gen::LABELS {
        if r.chance(1, 3) {
            labels.push(l.to_string());
        }
    }
    // answers representable in the format? (guards of C06, DESIGN section 7)
    let mut representable = true;
    for (_, ans) in &db.cmd_rules {
        for a in ans {
            match a {
                CmdAns::Exit { code, stdout } => {
                    if *code != 0 || stdout.trim().contains("\n\n\n") {
                        representable = false;
                    }
                }
                CmdAns::SpawnErr | CmdAns::Signal { .. } => representable = false,
            }
        }
    }
    for (_, ans) in &db.rules {
        for a in ans {
            if let Ans::Error(e) = a {
                if e.trim().contains("\n\n\n") || e.contains("\r") {
                    representable = false;
                }
            }
        }
    }
    // one case in twelve runs under a custom row validator that accepts everything
    let accept_all = !small && r.chance(1, 12);
    // one case in eight: the runner has already run a script that left a sort mode / threshold behind
    // (the update must see it, exactly as the later run of the updated file does)
    let pre: Vec<String> = if !small && r.chance(1, 8) {
        let mut v = vec![r.pick(&["control sortmode rowsort", "control sortmode valuesort", "hash-threshold 2", "hash-threshold 4"]).to_string()];
        if r.chance(1, 3) {
            v.push(r.pick(&["control sortmode rowsort", "hash-threshold 3"]).to_string());
        }
        v
    } else {
        vec![]
    };
    let has_pre = !pre.is_empty();
    UpdateCase {
        pre,
        strict_cols: r.chance(1, 3),
        sep: r.pick(&[" ", "\t"]).to_string(),
        threshold: 0,
        labels,
        tree: Tree { files, root: "root.slt".into() },
        db,
        crash_at: None,
        tag: format!("update repr={} accept_all={} pre={}", representable, accept_all, has_pre),
        representable,
        expect_final: None,
        accept_all,
    }
}

/// C08(d): every tiny script with 0..12 trailing newlines, through the updater
pub fn small_files() -> Vec<String> {
    let bodies = [
        "", "halt", "# c", "statement ok\ns", "query I\nq\n----\n1", "sleep 1s", "subtest x", "halt\nhalt", "onlyif x",
        "connection a", "control sortmode rowsort", "hash-threshold 3", "system ok\ntrue", "h", "\n", "statement error\nbad",
    ];
    let mut v = vec![];
    for b in bodies {
        for k in 0..=12 {
            v.push(format!("{}{}", b, "\n".repeat(k)));
        }
    }
    v
}
