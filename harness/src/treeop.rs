//! Ops on file trees: `include` (C14: parse_file + run_file) and `update` (C06, C07, C08:
//! Runner::update_test_file on real files, with snapshots at every database request, optional
//! driver panic at the k-th request, re-run and second update as oracles).
use std::panic::{catch_unwind, AssertUnwindSafe};
use std::path::{Path, PathBuf};
use std::sync::{Arc, Mutex};

use sqllogictest::*;

use crate::enc::*;
use crate::mock::*;
use crate::script::{enc_regex_valid, regex_candidates};

#[derive(Clone, Debug, Default)]
pub struct Tree {
    pub files: Vec<(String, String)>,
    pub root: String,
}

impl Tree {
    pub fn encode(&self) -> String {
        let mut o = format!("{}", self.files.len());
        for (p, c) in &self.files {
            o.push_str(&format!(" {} {}", hx(p), hx(c)));
        }
        o.push(' ');
        o.push_str(&hx(&self.root));
        o
    }
    pub fn all_text(&self) -> String {
        let mut s = String::new();
        for (_, c) in &self.files {
            s.push_str(c);
            s.push('\n');
        }
        s
    }
    pub fn materialize(&self, dir: &Path) {
        for (p, c) in &self.files {
            let path = dir.join(p);
            std::fs::create_dir_all(path.parent().unwrap()).unwrap();
            std::fs::write(path, c).unwrap();
        }
    }
}

static COUNTER: std::sync::atomic::AtomicUsize = std::sync::atomic::AtomicUsize::new(0);

/// runs `f` with the current directory set to a fresh scratch directory holding the tree
pub fn with_scratch<R>(tree: &Tree, f: impl FnOnce(&Path) -> R) -> R {
    let base = std::env::var("SLT_SCRATCH").unwrap_or_else(|_| "/verif/out/scratch".into());
    let n = COUNTER.fetch_add(1, std::sync::atomic::Ordering::SeqCst);
    let dir = PathBuf::from(base).join(format!("t{}_{}", std::process::id(), n));
    let _ = std::fs::remove_dir_all(&dir);
    std::fs::create_dir_all(&dir).unwrap();
    tree.materialize(&dir);
    let old = std::env::current_dir().unwrap();
    std::env::set_current_dir(&dir).unwrap();
    let r = f(&dir);
    std::env::set_current_dir(old).unwrap();
    let _ = std::fs::remove_dir_all(&dir);
    r
}

fn rec_loc<T: ColumnType>(r: &Record<T>) -> Option<&Location> {
    match r {
        Record::Include { loc, .. }
        | Record::Statement { loc, .. }
        | Record::Query { loc, .. }
        | Record::System { loc, .. }
        | Record::Sleep { loc, .. }
        | Record::Subtest { loc, .. }
        | Record::Halt { loc }
        | Record::HashThreshold { loc, .. } => Some(loc),
        _ => None,
    }
}

pub fn enc_located(recs: &[Record<DefaultColumnType>]) -> String {
    let mut o = format!("ok {}", recs.len());
    for r in recs {
        o.push_str(" | ");
        o.push_str(&enc_record(r));
        if let Some(l) = rec_loc(r) {
            o.push_str(&format!(" @ {}", hx(&l.to_string())));
        }
    }
    o
}

pub fn encode_include_case(tree: &Tree) -> String {
    format!("include {} {}", tree.encode(), enc_regex_valid(&tree.all_text()))
}

fn trace_string(shared: &SharedRef) -> String {
    let g = shared.lock().unwrap_or_else(|e| e.into_inner());
    let evs: Vec<&Ev> = g.trace.iter().filter(|e| !matches!(e, Ev::Shutdown(_))).collect();
    let mut o = format!("{}", evs.len());
    for e in evs {
        o.push(' ');
        o.push_str(&enc_ev(e));
    }
    o
}

/// C14: parse_file on the tree, then run_file against an always-succeeding mock
pub fn run_include(tree: &Tree) -> String {
    with_scratch(tree, |_| {
        let res = catch_unwind(AssertUnwindSafe(|| parse_file::<DefaultColumnType>(&tree.root)));
        let parsed = match res {
            Err(_) => return "panic".to_string(),
            Ok(Err(e)) => {
                return format!("err {} {}", perr_kind(&e.kind()), hx(&e.location().to_string()))
            }
            Ok(Ok(r)) => r,
        };
        let mut o = enc_located(&parsed);
        // execution order
        let shared = new_shared(DbScript::default());
        set_current(Some(shared.clone()));
        let sh = shared.clone();
        let mut runner = Runner::new(move || {
            let r = make_conn::<DefaultColumnType>(&sh);
            async move { r }
        });
        let res = catch_unwind(AssertUnwindSafe(|| runner.run_file(&tree.root)));
        let result = match res {
            Ok(Ok(())) => "ok".to_string(),
            Ok(Err(e)) => format!("failed {} {}", hx(&e.location().to_string()), terr_kind(&e.kind())),
            Err(_) => "crashed".to_string(),
        };
        drop(runner);
        set_current(None);
        o.push_str(&format!(" ;; {} {}", result, trace_string(&shared)));
        o
    })
}

/// C14, on the implementation alone: writing every relative include pattern as the equivalent
/// ABSOLUTE pattern (`<dir of the including file>/<pattern>`, resolved by hand) must not change what
/// is parsed, apart from the absolute prefix in the file names
pub fn include_abs_oracle(tree: &Tree) -> Option<String> {
    /// spellings of one file differ with the way it was reached (`a/../a/x.slt`): compared after
    /// resolving `component/../` and `./` lexically
    fn norm(s: &str) -> String {
        let up = regex::Regex::new(r#"[^/\s":(]+/\.\./"#).unwrap();
        let mut cur = s.replace("/./", "/");
        loop {
            let mut changed = false;
            let next = up
                .replace(&cur, |c: &regex::Captures| {
                    if &c[0] == "../../" {
                        c[0].to_string()
                    } else {
                        changed = true;
                        String::new()
                    }
                })
                .to_string();
            if !changed {
                return next;
            }
            cur = next;
        }
    }
    fn describe(dir: &Path, root: &str) -> Vec<String> {
        let described = describe_raw(dir, root);
        described.iter().map(|s| norm(s)).collect()
    }
    fn describe_raw(dir: &Path, root: &str) -> Vec<String> {
        let prefix = format!("{}/", dir.to_string_lossy());
        match catch_unwind(AssertUnwindSafe(|| parse_file::<DefaultColumnType>(root))) {
            Err(_) => vec!["panic".into()],
            Ok(Err(e)) => vec![format!("err {} {}", perr_kind(&e.kind()), e.location().to_string().replace(&prefix, ""))],
            Ok(Ok(recs)) => recs
                .iter()
                .map(|r| {
                    let loc = rec_loc(r).map(|l| l.to_string().replace(&prefix, "")).unwrap_or_default();
                    match r {
                        // the pattern text differs by construction
                        Record::Include { .. } => format!("include @ {}", loc),
                        _ => format!("{:?}", r).replace(&prefix, ""),
                    }
                })
                .collect(),
        }
    }
    let rel = with_scratch(tree, |dir| describe(dir, &tree.root));
    if rel == vec!["panic".to_string()] {
        return None;
    }
    // the variant is materialised in its own directory, whose name the patterns carry
    let probe = Tree { files: vec![], root: tree.root.clone() };
    let abs = with_scratch(&probe, |dir| {
        let d = dir.to_string_lossy().to_string();
        let files: Vec<(String, String)> = tree
            .files
            .iter()
            .map(|(p, c)| {
                let parent = match p.rfind('/') {
                    Some(i) => format!("{}/{}", d, &p[..i]),
                    None => d.clone(),
                };
                let text: Vec<String> = c
                    .split('\n')
                    .map(|l| {
                        let t: Vec<&str> = l.split_whitespace().collect();
                        if t.len() == 2 && t[0] == "include" && !t[1].starts_with('/') && l.starts_with("include") {
                            // (glob drops a leading `./` from what it yields: dropped here as well)
                            let mut pat = t[1];
                            while let Some(rest) = pat.strip_prefix("./") {
                                pat = rest;
                            }
                            format!("include {}/{}", parent, pat)
                        } else {
                            l.to_string()
                        }
                    })
                    .collect();
                (p.clone(), text.join("\n"))
            })
            .collect();
        let t2 = Tree { files, root: tree.root.clone() };
        t2.materialize(dir);
        describe(dir, &tree.root)
    });
    if rel != abs {
        let k = rel.iter().zip(abs.iter()).position(|(a, b)| a != b).unwrap_or(rel.len().min(abs.len()));
        return Some(format!(
            "C14|with every include pattern written as the equivalent absolute path the parse differs at record {}: relative {:?} / absolute {:?}",
            k,
            rel.get(k).map(|s| s.chars().take(160).collect::<String>()),
            abs.get(k).map(|s| s.chars().take(160).collect::<String>())
        ));
    }
    None
}

// ------------------------------------------------------------------------------------------

#[derive(Clone, Debug, Default)]
pub struct UpdateCase {
    pub strict_cols: bool,
    pub sep: String,
    pub threshold: usize,
    pub labels: Vec<String>,
    pub tree: Tree,
    pub db: DbScript,
    /// panic inside the driver at its k-th request
    pub crash_at: Option<usize>,
    pub tag: String,
    /// answers are representable in the format: the re-run / fixed-point oracle is judged
    pub representable: bool,
    /// final contents of the uninterrupted run of the same case (crash cases only)
    pub expect_final: Option<Vec<String>>,
    /// run with a custom row validator that accepts everything (`|_, _, _| true`): outside the model
    /// (op `updatecv`, answered `unsupported`), judged by an oracle on the implementation alone
    pub accept_all: bool,
    /// records (controls, thresholds) run through `run_script` on the SAME runner before the update:
    /// what they leave behind is in force during the update, as it is for a later `run_file`
    pub pre: Vec<String>,
}

impl UpdateCase {
    fn error_texts(&self) -> Vec<String> {
        let mut v = vec!["connfail".to_string()];
        for (_, ans) in &self.db.rules {
            for a in ans {
                if let Ans::Error(e) = a {
                    if !v.contains(e) {
                        v.push(e.clone());
                    }
                }
            }
        }
        if let Ans::Error(e) = &self.db.default {
            if !v.contains(e) {
                v.push(e.clone());
            }
        }
        v
    }

    pub fn encode(&self) -> String {
        let mut o = format!(
            "{} {} {} {} {}",
            if self.accept_all { "updatecv" } else { "update" },
            if self.strict_cols { 1 } else { 0 },
            hx(&self.sep),
            self.threshold,
            self.labels.len()
        );
        for l in &self.labels {
            o.push(' ');
            o.push_str(&hx(l));
        }
        o.push(' ');
        o.push_str(&self.tree.encode());
        let text = self.tree.all_text();
        o.push(' ');
        o.push_str(&enc_regex_valid(&text));
        let errs = self.error_texts();
        // regexes: those written in the files + the escaped form of every error text
        let mut regs = regex_candidates(&text);
        for e in &errs {
            let esc = regex::escape(e.trim());
            if !esc.is_empty() && !regs.contains(&esc) {
                regs.push(esc);
            }
        }
        let mut entries = vec![];
        for r in regs {
            if let Ok(re) = regex::Regex::new(&r) {
                for e in &errs {
                    entries.push(format!("{} {} {}", hx(&r), hx(e), if re.is_match(e) { 1 } else { 0 }));
                }
            }
        }
        o.push_str(&format!(" {}", entries.len()));
        for e in entries {
            o.push(' ');
            o.push_str(&e);
        }
        o.push(' ');
        o.push_str(&self.db.encode());
        match self.crash_at {
            None => o.push_str(" K -"),
            Some(k) => o.push_str(&format!(" K {}", k)),
        }
        if !self.pre.is_empty() {
            o.push_str(&format!(" P {}", self.pre.len()));
            for l in &self.pre {
                o.push(' ');
                o.push_str(&hx(l));
            }
        }
        o
    }

    fn pre_text(&self) -> String {
        self.pre.iter().map(|l| format!("{}\n\n", l)).collect()
    }

    fn make_runner(
        &self,
        shared: &SharedRef,
    ) -> Runner<MockConn, impl MakeConnection<Conn = MockConn>> {
        let sh = shared.clone();
        let mut runner = Runner::new(move || {
            let r = make_conn::<DefaultColumnType>(&sh);
            async move { r }
        });
        for l in &self.labels {
            runner.add_label(l);
        }
        runner.with_hash_threshold(self.threshold);
        if self.strict_cols {
            runner.with_column_validator(strict_column_validator);
        }
        runner
    }

    fn do_update(&self, shared: &SharedRef) -> std::thread::Result<Result<(), String>> {
        set_current(Some(shared.clone()));
        let mut runner = self.make_runner(shared);
        let colv: ColumnTypeValidator<DefaultColumnType> =
            if self.strict_cols { strict_column_validator } else { default_column_validator };
        let root = self.tree.root.clone();
        let sep = self.sep.clone();
        let pre = self.pre_text();
        let res = catch_unwind(AssertUnwindSafe(|| {
            let accept_all: Validator = |_, _, _| true;
            if !pre.is_empty() {
                runner.run_script(&pre).map_err(|e| e.to_string())?;
            }
            futures::executor::block_on(runner.update_test_file(
                &root,
                &sep,
                if self.accept_all { accept_all } else { default_validator },
                default_normalizer,
                colv,
            ))
            .map_err(|e| e.to_string())
        }));
        drop(runner);
        set_current(None);
        res
    }

    fn read_files(&self) -> Vec<String> {
        self.tree
            .files
            .iter()
            .map(|(p, _)| String::from_utf8_lossy(&std::fs::read(p).unwrap_or_default()).to_string())
            .collect()
    }

    /// files present under the scratch dir that are not part of the tree; temp names canonicalised
    fn leftovers(&self, dir: &Path) -> Vec<String> {
        let mut v = vec![];
        fn walk(d: &Path, base: &Path, out: &mut Vec<String>) {
            if let Ok(rd) = std::fs::read_dir(d) {
                for e in rd.flatten() {
                    let p = e.path();
                    if p.is_dir() {
                        walk(&p, base, out);
                    } else {
                        out.push(p.strip_prefix(base).unwrap().to_string_lossy().to_string());
                    }
                }
            }
        }
        walk(dir, dir, &mut v);
        let mut out = vec![];
        for f in v {
            if self.tree.files.iter().any(|(p, _)| *p == f) {
                continue;
            }
            // library temp name: <file name><10 digits>.temp
            let mut canon = f.clone();
            for (p, _) in &self.tree.files {
                if f.starts_with(p.as_str()) && f.ends_with(".temp") {
                    let mid = &f[p.len()..f.len() - 5];
                    if mid.len() == 10 && mid.chars().all(|c| c.is_ascii_digit()) {
                        canon = format!("{}.temp", p);
                    }
                }
            }
            out.push(canon);
        }
        out.sort();
        out
    }

    /// returns (answer line, oracle failure on the implementation alone)
    pub fn run(&self) -> (String, Option<String>) {
        with_scratch(&self.tree, |dir| {
            let shared = new_shared(self.db.clone());
            let snaps: Arc<Mutex<Vec<Vec<String>>>> = Arc::new(Mutex::new(vec![]));
            {
                let mut g = shared.lock().unwrap();
                g.panic_at_run = self.crash_at;
                let sn = snaps.clone();
                let paths: Vec<String> = self.tree.files.iter().map(|(p, _)| p.clone()).collect();
                g.on_run = Some(Box::new(move |_| {
                    let cur: Vec<String> = paths
                        .iter()
                        .map(|p| String::from_utf8_lossy(&std::fs::read(p).unwrap_or_default()).to_string())
                        .collect();
                    sn.lock().unwrap().push(cur);
                }));
            }
            let res = self.do_update(&shared);
            let status = match &res {
                Ok(Ok(())) => "ok",
                Ok(Err(_)) => "err",
                Err(_) => "panic",
            };
            let after = self.read_files();
            let left = self.leftovers(dir);
            let mut o = format!("{} F {}", status, after.len());
            for ((p, _), c) in self.tree.files.iter().zip(after.iter()) {
                o.push_str(&format!(" {} {}", hx(p), hx(c)));
            }
            o.push_str(&format!(" L {}", left.len()));
            for l in &left {
                o.push(' ');
                o.push_str(&hx(l));
            }
            let snaps = snaps.lock().unwrap().clone();
            o.push_str(&format!(" S {}", snaps.len()));
            for s in &snaps {
                o.push(' ');
                o.push_str(&hx(&s.iter().map(|c| format!("{:x}", md5_of(c))).collect::<Vec<_>>().join(",")));
            }
            o.push_str(&format!(" T {}", trace_string(&shared)));

            // ---------------- oracles on the implementation alone
            let mut oracle = None;
            if status == "panic" && self.crash_at.is_none() {
                oracle = Some("C08|the updater panicked".to_string());
            }
            // atomicity: at every database request (and after a crash) every original file holds
            // its complete old or its complete new content
            let finals: Option<&Vec<String>> =
                if status == "ok" { Some(&after) } else { self.expect_final.as_ref() };
            if let Some(fin) = finals {
                let ok_content = |i: usize, c: &String| *c == self.tree.files[i].1 || *c == fin[i];
                for (k, s) in snaps.iter().enumerate() {
                    for (i, c) in s.iter().enumerate() {
                        if oracle.is_none() && !ok_content(i, c) {
                            oracle = Some(format!(
                                "C08|at database request {} file {} holds neither its old nor its new content",
                                k, self.tree.files[i].0
                            ));
                        }
                    }
                }
                if status == "panic" {
                    for (i, c) in after.iter().enumerate() {
                        if oracle.is_none() && !ok_content(i, c) {
                            oracle = Some(format!(
                                "C08|after the interruption file {} holds neither its old nor its new content",
                                self.tree.files[i].0
                            ));
                        }
                    }
                }
            }
            if oracle.is_none() && status == "ok" {
                if !left.is_empty() {
                    oracle = Some(format!("C08|debris left after completion: {:?}", left));
                }
                for ((p, old), c) in self.tree.files.iter().zip(after.iter()) {
                    if c != old && !c.is_empty() && (!c.ends_with('\n') || c.ends_with("\n\n")) {
                        oracle = Some(format!("C08|{} does not end with exactly one newline", p));
                    }
                }
            }
            if oracle.is_none() && status == "ok" && self.crash_at.is_none() && self.representable {
                // C07: nothing but expectations changes
                if let Some(m) = self.preserved(&after) {
                    oracle = Some(if m.starts_with("C06|") { m } else { format!("C07|{}", m) });
                }
            }
            if oracle.is_none() && status == "ok" && self.crash_at.is_none() && self.accept_all {
                // every result expectation passes under the accept-all validator: none may be rewritten
                if let Some(m) = self.results_kept(&after) {
                    oracle = Some(format!("C07|{}", m));
                }
            }
            if oracle.is_none() && status == "ok" && self.crash_at.is_none() && self.representable && !self.accept_all {
                // C06: re-run passes, second update is a fixed point
                let shared2 = new_shared(self.db.clone());
                set_current(Some(shared2.clone()));
                let mut r2 = self.make_runner(&shared2);
                let root = self.tree.root.clone();
                let pre = self.pre_text();
                let rr = catch_unwind(AssertUnwindSafe(|| {
                    if !pre.is_empty() {
                        r2.run_script(&pre)?;
                    }
                    r2.run_file(&root)
                }));
                drop(r2);
                set_current(None);
                match rr {
                    Ok(Ok(())) => {}
                    Ok(Err(e)) => {
                        oracle = Some(format!(
                            "C06|the updated file does not pass against the same database: {} at {}",
                            terr_kind(&e.kind()),
                            e.location()
                        ))
                    }
                    Err(_) => oracle = Some("C06|running the updated file panicked".into()),
                }
                if oracle.is_none() {
                    let shared3 = new_shared(self.db.clone());
                    let r3 = self.do_update(&shared3);
                    let again = self.read_files();
                    if !matches!(r3, Ok(Ok(()))) {
                        oracle = Some("C06|second update failed".into());
                    } else if again != after {
                        oracle = Some("C06|a second update changed the file again (not a fixed point)".into());
                    }
                }
            }
            // crash: every original file holds its old content or a complete content seen at the end
            // of an uninterrupted run (checked by check.py against the K=- case of the same tree)
            (o, oracle)
        })
    }

    /// under a row validator that accepts everything, the result lines of a query that still has a
    /// result expectation afterwards are the ones it had before
    fn results_kept(&self, after: &[String]) -> Option<String> {
        for ((p, old), new) in self.tree.files.iter().zip(after.iter()) {
            let (b, a) = match (
                parse_with_name::<DefaultColumnType>(old, p.as_str()),
                parse_with_name::<DefaultColumnType>(new, p.as_str()),
            ) {
                (Ok(b), Ok(a)) => (b, a),
                _ => continue,
            };
            let qs = |v: &[Record<DefaultColumnType>]| -> Vec<(String, Option<Vec<String>>)> {
                v.iter()
                    .filter_map(|r| match r {
                        Record::Query { sql, expected, .. } => Some((
                            sql.clone(),
                            match expected {
                                QueryExpect::Results { results, .. } => Some(results.clone()),
                                _ => None,
                            },
                        )),
                        _ => None,
                    })
                    .collect()
            };
            // (records are matched by their position among the queries only if the lists still
            // correspond: a query answered with a statement result becomes a statement)
            let (qb, qa) = (qs(&b), qs(&a));
            if qb.len() != qa.len() || qb.iter().zip(qa.iter()).any(|(x, y)| x.0 != y.0) {
                continue;
            }
            for ((sql, rb), (_, ra)) in qb.iter().zip(qa.iter()) {
                if let (Some(rb), Some(ra)) = (rb, ra) {
                    if rb != ra {
                        return Some(format!(
                            "{}: the validator accepts every answer, but the result lines of `{}` were rewritten: {:?} -> {:?}",
                            p, sql, rb, ra
                        ));
                    }
                }
            }
        }
        None
    }

    /// C07 on the implementation alone: compare parse(before) with parse(after) file by file
    fn preserved(&self, after: &[String]) -> Option<String> {
        for ((p, old), new) in self.tree.files.iter().zip(after.iter()) {
            let a = parse_with_name::<DefaultColumnType>(old, p.as_str());
            let b = parse_with_name::<DefaultColumnType>(new, p.as_str());
            let (a, b) = match (a, b) {
                (Ok(a), Ok(b)) => (a, b),
                (Ok(_), Err(e)) => return Some(format!("C06|{}: rewritten file does not parse: {}", p, e)),
                _ => continue,
            };
            let sa = skeletons(&a);
            let sb = skeletons(&b);
            if sa != sb {
                let i = sa.iter().zip(sb.iter()).position(|(x, y)| x != y).unwrap_or(sa.len().min(sb.len()));
                return Some(format!(
                    "{}: record {} changed outside its expectation: {:?} -> {:?}",
                    p,
                    i,
                    sa.get(i),
                    sb.get(i)
                ));
            }
        }
        None
    }
}

fn md5_of(s: &str) -> u128 {
    use md5::{Digest, Md5};
    let mut h = Md5::new();
    h.update(s.as_bytes());
    u128::from_be_bytes(h.finalize().into())
}

/// everything of a record that an update must not change (expectation blanked), `Newline`
/// records dropped (trailing blank lines are trimmed by the writer)
pub fn skeletons(recs: &[Record<DefaultColumnType>]) -> Vec<String> {
    let mut v = vec![];
    for r in recs {
        match r {
            Record::Newline => {}
            Record::Statement { conditions, connection, sql, retry, .. } => v.push(format!(
                "sq {} {} {} {}",
                enc_conds(conditions),
                enc_conn(connection),
                hx(sql),
                enc_retry(retry)
            )),
            Record::Query { conditions, connection, sql, retry, expected, .. } => {
                let extra = match expected {
                    QueryExpect::Results { sort_mode, label, .. } => {
                        format!(" {} {}", sort_str(sort_mode), opt(label))
                    }
                    _ => String::new(),
                };
                let _ = extra; // sort mode / label are compared separately (they vanish legitimately
                               // when a query becomes a statement or an error expectation)
                v.push(format!(
                    "sq {} {} {} {}",
                    enc_conds(conditions),
                    enc_conn(connection),
                    hx(sql),
                    enc_retry(retry)
                ))
            }
            Record::System { conditions, command, retry, .. } => {
                v.push(format!("sys {} {} {}", enc_conds(conditions), hx(command), enc_retry(retry)))
            }
            Record::Comment(ls) => {
                v.push(format!("comment {:?}", ls.iter().map(|l| l.trim_end().to_string()).collect::<Vec<_>>()))
            }
            other => {
                let e = enc_record(other);
                let mut t: Vec<String> = e.split(' ').map(|s| s.to_string()).collect();
                if matches!(t[0].as_str(), "sleep" | "subtest" | "halt" | "hash" | "incl") {
                    t[1] = "_".into();
                }
                v.push(t.join(" "));
            }
        }
    }
    v
}
