import Driver.Codec
import Driver.Db
import Driver.Ops
