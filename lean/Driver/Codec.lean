/-
Line-protocol codec of the model driver: tokens separated by one blank, strings as `x` + hex of
the UTF-8 bytes, numbers in decimal, lists length-prefixed.
-/
import SltVerif.Syntax
import SltVerif.Md5
namespace Drv
open Slt

abbrev Rd := StateT (List String) (Except String)

def tok : Rd String := do
  match (← get) with
  | [] => throw "unexpected end of line"
  | t :: ts => set ts; pure t

def nat : Rd Nat := do
  let t ← tok
  match t.toNat? with
  | some n => pure n
  | none => throw s!"bad number {t}"

def hexVal (c : Char) : Nat :=
  if '0' ≤ c ∧ c ≤ '9' then c.toNat - 48 else if 'a' ≤ c ∧ c ≤ 'f' then c.toNat - 87 else 0

def hexBytes : List Char → List UInt8
  | a :: b :: rest => (hexVal a * 16 + hexVal b).toUInt8 :: hexBytes rest
  | _ => []

def bytesOfTok (t : String) : Except String (List UInt8) :=
  match t.toList with
  | 'x' :: h => .ok (hexBytes h)
  | _ => .error s!"bad hex field {t}"

def strOfBytes (b : List UInt8) : Str :=
  match String.fromUTF8? ⟨b.toArray⟩ with
  | some s => s.toList
  | none => []

def str : Rd Str := do
  let t ← tok
  match bytesOfTok t with
  | .ok b => pure (strOfBytes b)
  | .error e => throw e

def bytes : Rd (List UInt8) := do
  let t ← tok
  match bytesOfTok t with
  | .ok b => pure b
  | .error e => throw e

def optStr : Rd (Option Str) := do
  match (← get) with
  | "-" :: ts => set ts; pure none
  | _ => some <$> str

def bool : Rd Bool := do
  let t ← tok
  pure (t == "1")

def listOf {α} (p : Rd α) : Rd (List α) := do
  let n ← nat
  let mut out := #[]
  for _ in [0:n] do
    out := out.push (← p)
  pure out.toList

/-! ### output encoding -/

def hexDig (n : Nat) : Char := if n < 10 then Char.ofNat (48 + n) else Char.ofNat (87 + n)

def hxBytes (b : List UInt8) : String :=
  String.ofList ('x' :: b.flatMap (fun x => [hexDig (x.toNat / 16), hexDig (x.toNat % 16)]))

def hx (s : Str) : String := hxBytes (utf8 s)

def optHx : Option Str → String
  | none => "-"
  | some s => hx s

def encConds (cs : List Cond) : String :=
  cs.foldl (fun acc c => acc ++ (match c with
    | .onlyIf l => s!" only {hx l}"
    | .skipIf l => s!" skip {hx l}")) (toString cs.length)

def encConn : Conn → String
  | .dflt => "cd"
  | .named n => s!"cn {hx n}"

def encExpErr : ExpErr → String
  | .empty => "any"
  | .inline r => s!"re {hx r}"
  | .multi t => s!"ml {hx t}"

def encRetry : Option Retry → String
  | none => "-"
  | some r => s!"r {r.attempts} {r.backoff.secs} {r.backoff.nanos}"

def sortStr : Option SortMode → String
  | none => "-"
  | some m => String.ofList m.toStr

def rmStr : Option ResultMode → String
  | none => "-"
  | some m => String.ofList m.toStr

def encRec : Rec → String
  | .incl l f => s!"incl {l} {hx f}"
  | .statement l c cn sql e r =>
    let es := match e with
      | .ok => "ok"
      | .count n => s!"count {n}"
      | .error e => s!"err {encExpErr e}"
    s!"stmt {l} {encConds c} {encConn cn} {hx sql} {es} {encRetry r}"
  | .query l c cn sql e r =>
    let es := match e with
      | .results t so rm lb res =>
        res.foldl (fun acc x => acc ++ " " ++ hx x)
          s!"res {hx (t.map ColT.toChar)} {sortStr so} {rmStr rm} {optHx lb} {res.length}"
      | .error e => s!"err {encExpErr e}"
    s!"query {l} {encConds c} {encConn cn} {hx sql} {es} {encRetry r}"
  | .system l c cmd out r => s!"system {l} {encConds c} {hx cmd} {optHx out} {encRetry r}"
  | .sleep l d => s!"sleep {l} {d.secs} {d.nanos}"
  | .subtest l n => s!"subtest {l} {hx n}"
  | .halt l => s!"halt {l}"
  | .control (.sortMode m) => s!"control sort {String.ofList m.toStr}"
  | .control (.resultMode m) => s!"control result {String.ofList m.toStr}"
  | .control (.substitution b) => s!"control subst {if b then 1 else 0}"
  | .hashThreshold l n => s!"hash {l} {n}"
  | .condition (.onlyIf l) => s!"cond only {hx l}"
  | .condition (.skipIf l) => s!"cond skip {hx l}"
  | .connection c => s!"conn {encConn c}"
  | .comment ls => ls.foldl (fun acc x => acc ++ " " ++ hx x) s!"comment {ls.length}"
  | .newline => "newline"
  | .beginInclude f => s!"begin {hx f}"
  | .endInclude f => s!"end {hx f}"

def perrKindStr : PErrKind → String
  | .unexpectedToken => "unexpectedToken" | .unexpectedEOF => "unexpectedEOF"
  | .invalidSortMode => "invalidSortMode" | .invalidLine => "invalidLine"
  | .invalidType => "invalidType" | .invalidNumber => "invalidNumber"
  | .invalidErrorMessage => "invalidErrorMessage"
  | .duplicatedErrorMessage => "duplicatedErrorMessage"
  | .invalidRetryConfig => "invalidRetryConfig" | .statementHasResults => "statementHasResults"
  | .invalidDuration => "invalidDuration" | .invalidControl => "invalidControl"
  | .invalidIncludeFile => "invalidIncludeFile" | .emptyIncludeFile => "emptyIncludeFile"
  | .fileNotFound => "fileNotFound"

/-- association table lookup used for the externally supplied regex tables -/
def lookup2 {β} (tbl : List (Str × β)) (k : Str) : Option β :=
  match tbl with
  | [] => none
  | (k', v) :: rest => if k' = k then some v else lookup2 rest k

end Drv
