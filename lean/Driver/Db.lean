/-
The scripted database / shell of the correspondence harness, as an `Env` of the runner model.
Mirror of `harness/src/mock.rs`: the answer to the j-th call with SQL text `s` is
`rules[s][min(j, len-1)]` (or the default); `sess` answers `[[session id, earlier calls on it]]`.
-/
import SltVerif.Runner
import Driver.Codec
namespace Drv
open Slt

inductive Ans
  | rows (types : Str) (rows : List Row)
  | complete (n : Nat)
  | error (e : Str)
  | sess

structure DbScript where
  engine : Str
  makeFail : List Nat
  rules : List (Str × List Ans)
  dflt : Ans
  cmdRules : List (Str × List CmdAnswer)
  cmdDflt : CmdAnswer

structure DbState where
  counts : List (Str × Nat) := []
  cmdCounts : List (Str × Nat) := []
  sessCalls : List (Nat × Nat) := []

def getCount (l : List (Str × Nat)) (k : Str) : Nat := (lookup2 l k).getD 0

def bump (l : List (Str × Nat)) (k : Str) : List (Str × Nat) :=
  match l with
  | [] => [(k, 1)]
  | (k', v) :: rest => if k' = k then (k', v + 1) :: rest else (k', v) :: bump rest k

def getN (l : List (Nat × Nat)) (k : Nat) : Nat :=
  match l with
  | [] => 0
  | (k', v) :: rest => if k' = k then v else getN rest k

def bumpN (l : List (Nat × Nat)) (k : Nat) : List (Nat × Nat) :=
  match l with
  | [] => [(k, 1)]
  | (k', v) :: rest => if k' = k then (k', v + 1) :: rest else (k', v) :: bumpN rest k

def pick {α} (rules : List (Str × List α)) (dflt : α) (k : Str) (j : Nat) : α :=
  match lookup2 rules k with
  | none => dflt
  | some [] => dflt
  | some (a :: as) => (a :: as).getD (min j as.length) dflt

def typesOf (t : Str) : List ColT := t.filterMap ColT.fromCharDefault

def readAns : Rd Ans := do
  match (← tok) with
  | "rows" =>
    let t ← str
    let rows ← listOf (listOf str)
    pure (.rows t rows)
  | "complete" => .complete <$> nat
  | "error" => .error <$> str
  | "sess" => pure .sess
  | x => throw s!"bad answer {x}"

def readCmdAns : Rd CmdAnswer := do
  match (← tok) with
  | "exit" =>
    let c ← nat
    let out ← str
    pure (.exit c out)
  | "spawnerr" => pure .spawnErr
  | "signal" =>
    let c ← nat
    let out ← str
    pure (.signal c out)
  | x => throw s!"bad cmd answer {x}"

def readDb : Rd DbScript := do
  let t ← tok
  if t != "db" then throw "expected db"
  let engine ← str
  let makeFail ← listOf nat
  let rules ← listOf (do let s ← str; let a ← listOf readAns; pure (s, a))
  let dflt ← readAns
  let cmdRules ← listOf (do let s ← str; let a ← listOf readCmdAns; pure (s, a))
  let cmdDflt ← readCmdAns
  pure { engine, makeFail, rules, dflt, cmdRules, cmdDflt }

def dbEnv (db : DbScript) (subst : Bool → Str → Except Str Str)
    (regexMatch : Str → Str → Bool) : Env DbState :=
  { make := fun s id => (s, if db.makeFail.contains id then some (kw "connfail") else none)
    run := fun s k sql =>
      let j := getCount s.counts sql
      let sc := getN s.sessCalls k
      let s' := { s with counts := bump s.counts sql, sessCalls := bumpN s.sessCalls k }
      match pick db.rules db.dflt sql j with
      | .rows t rows => (s', .rows (typesOf t) rows)
      | .complete n => (s', .complete n)
      | .error e => (s', .error e)
      | .sess => (s', .rows [.int, .int] [[natToStr k, natToStr sc]])
    engine := fun _ => db.engine
    cmd := fun s c =>
      let j := getCount s.cmdCounts c
      ({ s with cmdCounts := bump s.cmdCounts c }, pick db.cmdRules db.cmdDflt c j)
    subst := subst
    regexMatch := regexMatch
    hash := md5Hex }

end Drv
