/-
Operations of the model driver: one case line in, one answer line out.
-/
import SltVerif.Parser
import SltVerif.Runner
import SltVerif.Unparse
import Driver.Codec
import Driver.Db
namespace Drv
open Slt

def pairSB : Rd (Str × Bool) := do
  let s ← str
  let b ← bool
  pure (s, b)

def tripleSSB : Rd ((Str × Str) × Bool) := do
  let a ← str
  let b ← str
  let c ← bool
  pure ((a, b), c)

def lookupPair (tbl : List ((Str × Str) × Bool)) (a b : Str) : Option Bool :=
  match tbl with
  | [] => none
  | ((a', b'), v) :: rest => if a' = a ∧ b' = b then some v else lookupPair rest a b

def encEv : Ev → String
  | .make i ok => s!"make {i} {if ok then 1 else 0}"
  | .run k sql => s!"run {k} {hx sql}"
  | .cmd c => s!"cmd {hx c}"
  | .sleep d => s!"sleep {d.secs} {d.nanos}"
  | .shutdown k => s!"shutdown {k}"

def failKindStr : FailKind → String
  | .unexpectedOk => "unexpectedOk" | .unexpectedFail => "unexpectedFail"
  | .systemFail => "systemFail" | .stdoutMismatch => "stdoutMismatch"
  | .errorMismatch => "errorMismatch" | .countMismatch => "countMismatch"
  | .resultMismatch => "resultMismatch" | .columnsMismatch => "columnsMismatch"
  | .parseError => "parseError"

def encPFail : PFail → String
  | .err k l => s!"{perrKindStr k} {l}"
  | .panic l => s!"PANIC {l}"

def isShutdown : Ev → Bool
  | .shutdown _ => true
  | _ => false

def shutdownId : Ev → Nat
  | .shutdown k => k
  | _ => 0

def natLe (a b : Nat) : Bool := decide (a ≤ b)

/-- canonical trace: shutdown events (HashMap order in the implementation) sorted by session -/
def canonTrace (t : List Ev) : List Ev :=
  t.filter (fun e => !isShutdown e) ++
    ((t.filter isShutdown).map shutdownId |>.mergeSort natLe).map Ev.shutdown

structure ScriptIn where
  strictCols : Bool
  threshold : Nat
  labels : List Str
  locals : List (Str × Str)
  env : List (Str × Str)
  text : Str
  valid : List (Str × Bool)
  rmatches : List ((Str × Str) × Bool)
  db : DbScript

def readScript : Rd ScriptIn := do
  let strictCols ← bool
  let threshold ← nat
  let labels ← listOf str
  let locals ← listOf (do let a ← str; let b ← str; pure (a, b))
  let env ← listOf (do let a ← str; let b ← str; pure (a, b))
  let text ← str
  let valid ← listOf pairSB
  let rmatches ← listOf tripleSSB
  let db ← readDb
  pure { strictCols, threshold, labels, locals, env, text, valid, rmatches, db }

def hasSubstOn (rs : List Rec) : Bool :=
  rs.any (fun r => match r with | .control (.substitution true) => true | _ => false)

/-- run the model with a given default for regex-table misses -/
def runScriptWith (c : ScriptIn) (dflt : Bool) : String :=
  let pcfg : PCfg :=
    { regexValid := fun s => (lookup2 c.valid s).getD dflt, fromChar := ColT.fromCharDefault }
  match parse pcfg c.text with
  | .error e => s!"parseerr {encPFail e}"
  | .ok recs =>
    if hasSubstOn recs then "unsupported" else
    let E := dbEnv c.db (fun _ s => .ok s) (fun re t => (lookupPair c.rmatches re t).getD dflt)
    let cfg : RCfg := { labels := c.labels, strictCols := c.strictCols }
    let w0 : World DbState := { db := {}, threshold := c.threshold }
    let r := runMulti E cfg w0 recs
    let w := shutdownAll r.1
    let res := match r.2 with
      | .ok => "ok"
      | .failed l k d => s!"failed {l} {failKindStr k} {hx d}"
      | .crashed => "crashed"
    let evs := canonTrace w.trace
    evs.foldl (fun acc e => acc ++ " " ++ encEv e) s!"{res} {evs.length}"

def opScript : Rd String := do
  let c ← readScript
  let a := runScriptWith c false
  let b := runScriptWith c true
  pure (if a == b then a else "TABLE-MISS")

def opParse : Rd String := do
  let strict ← bool
  let text ← str
  let valid ← listOf pairSB
  let run (dflt : Bool) : String :=
    let pcfg : PCfg :=
      { regexValid := fun s => (lookup2 valid s).getD dflt
        fromChar := if strict then ColT.fromCharStrict else ColT.fromCharDefault }
    match parse pcfg text with
    | .error (.panic _) => "panic"
    | .error e => s!"err {encPFail e}"
    | .ok recs => recs.foldl (fun acc r => acc ++ " | " ++ encRec r) s!"ok {recs.length}"
  let a := run false
  let b := run true
  pure (if a == b then a else "TABLE-MISS")

def encParseResult (r : Except PFail (List Rec)) : String :=
  match r with
  | .error (.panic _) => "panic"
  | .error e => s!"err {encPFail e}"
  | .ok recs => recs.foldl (fun acc r => acc ++ " | " ++ encRec r) s!"ok {recs.length}"

def opFmt : Rd String := do
  let text ← str
  let valid ← listOf pairSB
  let run (dflt : Bool) : String :=
    let pcfg : PCfg :=
      { regexValid := fun s => (lookup2 valid s).getD dflt, fromChar := ColT.fromCharDefault }
    match parse pcfg text with
    | .error (.panic _) => "panic"
    | .error e => s!"parseerr {encPFail e}"
    | .ok recs =>
      match fmtFile recs with
      | none => "panic"
      | some f1 => s!"ok {hx f1} {encParseResult (parse pcfg f1)}"
  let a := run false
  let b := run true
  pure (if a == b then a else "TABLE-MISS")

def dispatchOp (line : String) : String :=
  match line.splitOn " " with
  | [] => "bad-op"
  | op :: rest =>
    let r : Except String (String × List String) :=
      match op with
      | "script" => opScript.run rest
      | "parse" => opParse.run rest
      | "fmt" => opFmt.run rest
      | _ => .error s!"unknown op {op}"
    match r with
    | .ok (out, []) => out
    | .ok (_, _ :: _) => "DECODE-ERROR trailing tokens"
    | .error e => s!"DECODE-ERROR {e}"

end Drv
