/-
Operations of the model driver: one case line in, one answer line out.
-/
import SltVerif.Parser
import SltVerif.Runner
import SltVerif.Unparse
import SltVerif.Include
import SltVerif.Update
import SltVerif.Subst
import SltVerif.Cli
import SltVerif.CliTrace
import SltVerif.Extern
import SltVerif.EngineCmd
import Driver.Codec
import Driver.Db
namespace Drv
open Slt

def pairSB : Rd (Str × Bool) := do
  let s ← str
  let b ← bool
  pure (s, b)

def tripleSSB : Rd ((Str × Str) × Bool) := do
  let a ← str
  let b ← str
  let c ← bool
  pure ((a, b), c)

def lookupPair (tbl : List ((Str × Str) × Bool)) (a b : Str) : Option Bool :=
  match tbl with
  | [] => none
  | ((a', b'), v) :: rest => if a' = a ∧ b' = b then some v else lookupPair rest a b

def encEv : Ev → String
  | .make i ok => s!"make {i} {if ok then 1 else 0}"
  | .run k sql => s!"run {k} {hx sql}"
  | .cmd c => s!"cmd {hx c}"
  | .sleep d => s!"sleep {d.secs} {d.nanos}"
  | .shutdown k => s!"shutdown {k}"

def failKindStr : FailKind → String
  | .unexpectedOk => "unexpectedOk" | .unexpectedFail => "unexpectedFail"
  | .systemFail => "systemFail" | .stdoutMismatch => "stdoutMismatch"
  | .errorMismatch => "errorMismatch" | .countMismatch => "countMismatch"
  | .resultMismatch => "resultMismatch" | .columnsMismatch => "columnsMismatch"
  | .parseError => "parseError"

def encPFail : PFail → String
  | .err k l => s!"{perrKindStr k} {l}"
  | .panic l => s!"PANIC {l}"

def isShutdown : Ev → Bool
  | .shutdown _ => true
  | _ => false

def shutdownId : Ev → Nat
  | .shutdown k => k
  | _ => 0

def natLe (a b : Nat) : Bool := decide (a ≤ b)

/-- canonical trace: shutdown events (HashMap order in the implementation) sorted by session -/
def canonTrace (t : List Ev) : List Ev :=
  t.filter (fun e => !isShutdown e) ++
    ((t.filter isShutdown).map shutdownId |>.mergeSort natLe).map Ev.shutdown

structure ScriptIn where
  strictCols : Bool
  threshold : Nat
  labels : List Str
  locals : List (Str × Str)
  env : List (Str × Str)
  text : Str
  text2 : Option Str          -- a second script run on the same runner afterwards
  labels2 : List Str          -- labels added to the runner between the two scripts
  valid : List (Str × Bool)
  rmatches : List ((Str × Str) × Bool)
  db : DbScript

def readScript : Rd ScriptIn := do
  let strictCols ← bool
  let threshold ← nat
  let labels ← listOf str
  let locals ← listOf (do let a ← str; let b ← str; pure (a, b))
  let env ← listOf (do let a ← str; let b ← str; pure (a, b))
  let text ← str
  let text2 ← optStr
  let labels2 ← listOf str
  let valid ← listOf pairSB
  let rmatches ← listOf tripleSSB
  let db ← readDb
  pure { strictCols, threshold, labels, locals, env, text, text2, labels2, valid, rmatches, db }

def hasSubstOn (rs : List Rec) : Bool :=
  rs.any (fun r => match r with | .control (.substitution true) => true | _ => false)

/-- marks the point where the real runner panics inside the `subst` crate (text ending in `$`) -/
def panicSentinel : Str := [Char.ofNat 0, 'P', 'A', 'N', 'I', 'C']

def isPanicEv : Ev → Bool
  | .run _ sql => sql == panicSentinel
  | _ => false

/-- events before the panic, if there was one -/
def cutAtPanic (t : List Ev) : Option (List Ev) :=
  if t.any isPanicEv then some (t.takeWhile (fun e => !isPanicEv e)) else none

def substErrText : SubstErr → Str
  | .invalidEscape => kw "subst:invalidEscape"
  | .missingName => kw "subst:missingName"
  | .unexpectedChar => kw "subst:unexpectedChar"
  | .missingBrace => kw "subst:missingBrace"
  | .noSuchVar n => kw "subst:noSuchVar:" ++ strOfBytes n
  | .panic => kw "subst:PANIC"

def insertSorted (kv : Bytes × Bytes) : List (Bytes × Bytes) → List (Bytes × Bytes)
  | [] => [kv]
  | (k, v) :: rest =>
    if kv.1 = k then (kv.1, kv.2) :: rest
    else if decide (kv.1 < k) then kv :: (k, v) :: rest
    else (k, v) :: insertSorted kv rest

/-- the substitution function of a runner with the given locals / environment; the test
    directory and the clock are placeholders (the harness canonicalises the real values) -/
def substFn (locals env : List (Str × Str)) (full : Bool) (s : Str) : Except Str Str :=
  let v : VarEnv :=
    { testDir := utf8 (kw "<TEST_DIR>"), now := utf8 (kw "<NOW>")
      locals := locals.foldl (fun acc kv => insertSorted (utf8 kv.1, utf8 kv.2) acc) []
      env := env.map (fun kv => (utf8 kv.1, utf8 kv.2)) }
  match substitute v full (utf8 s) with
  | .ok b => .ok (strOfBytes b)
  | .error .panic => .ok panicSentinel     -- the runner panics: see `cutAtPanic`
  | .error e => .error (substErrText e)

/-- run the model with a given default for regex-table misses -/
def runScriptWith (c : ScriptIn) (dflt : Bool) : String :=
  let pcfg : PCfg :=
    { regexValid := fun s => (lookup2 c.valid s).getD dflt, fromChar := ColT.fromCharDefault }
  match parse pcfg c.text with
  | .error e => s!"parseerr {encPFail e}"
  | .ok recs =>
    let E := dbEnv c.db (substFn c.locals c.env) (fun re t => (lookupPair c.rmatches re t).getD dflt)
    let cfg : RCfg := { labels := c.labels, strictCols := c.strictCols }
    let w0 : World DbState := { db := {}, threshold := c.threshold }
    let r1 := runMulti E cfg w0 recs
    let showRes (t : List Ev) (x : RunResult) : String := match cutAtPanic t, x with
      | some _, _ => "crashed"
      | none, .ok => "ok"
      | none, .failed l k d => s!"failed {l} {failKindStr k} {hx d}"
      | none, .crashed => "crashed"
    -- the second script runs on the runner as the first one left it (whatever its result)
    let second : Option (World DbState × String) :=
      match c.text2, cutAtPanic r1.1.trace, r1.2 with
      | some t2, none, .ok | some t2, none, .failed .. =>
        (match parse pcfg t2 with
         | .error e => some (r1.1, s!"parseerr {encPFail e}")
         | .ok recs2 =>
           -- pseudo label `@shutdown`: `Runner::shutdown` between the two scripts
           let sb := c.labels2.contains (kw "@shutdown")
           let w1 := if sb then shutdownAll r1.1 else r1.1
           let r2 := runMulti E { cfg with labels := cfg.labels ++ c.labels2.filter (· != kw "@shutdown") } w1 recs2
           some (r2.1, showRes r2.1.trace r2.2))
      | _, _, _ => none
    let wEnd := match second with | some (w2, _) => w2 | none => r1.1
    let w := shutdownAll wEnd
    let res := showRes r1.1.trace r1.2 ++ (match c.text2, second with
      | some _, some (_, s2) => " ;; " ++ s2
      | some _, none => " ;; -"
      | none, _ => "")
    let evs := match cutAtPanic wEnd.trace with
      | some pre => canonTrace (pre ++ w.trace.filter isShutdown)
      | none => canonTrace w.trace
    evs.foldl (fun acc e => acc ++ " " ++ encEv e) s!"{res} {evs.length}"

def opScript : Rd String := do
  let c ← readScript
  let a := runScriptWith c false
  let b := runScriptWith c true
  pure (if a == b then a else "TABLE-MISS")

def opParse : Rd String := do
  let strict ← bool
  let text ← str
  let valid ← listOf pairSB
  let run (dflt : Bool) : String :=
    let pcfg : PCfg :=
      { regexValid := fun s => (lookup2 valid s).getD dflt
        fromChar := if strict then ColT.fromCharStrict else ColT.fromCharDefault }
    match parse pcfg text with
    | .error (.panic _) => "panic"
    | .error e => s!"err {encPFail e}"
    | .ok recs => recs.foldl (fun acc r => acc ++ " | " ++ encRec r) s!"ok {recs.length}"
  let a := run false
  let b := run true
  pure (if a == b then a else "TABLE-MISS")

def encParseResult (r : Except PFail (List Rec)) : String :=
  match r with
  | .error (.panic _) => "panic"
  | .error e => s!"err {encPFail e}"
  | .ok recs => recs.foldl (fun acc r => acc ++ " | " ++ encRec r) s!"ok {recs.length}"

def opFmt : Rd String := do
  let text ← str
  let valid ← listOf pairSB
  let run (dflt : Bool) : String :=
    let pcfg : PCfg :=
      { regexValid := fun s => (lookup2 valid s).getD dflt, fromChar := ColT.fromCharDefault }
    match parse pcfg text with
    | .error (.panic _) => "panic"
    | .error e => s!"parseerr {encPFail e}"
    | .ok recs =>
      match fmtFile recs with
      | none => "panic"
      | some f1 => s!"ok {hx f1} {encParseResult (parse pcfg f1)}"
  let a := run false
  let b := run true
  pure (if a == b then a else "TABLE-MISS")

/-! ### file trees -/

def readTree : Rd (Fs × Str) := do
  let files ← listOf (do let p ← str; let c ← str; pure (p, c))
  let root ← str
  pure (files, root)

/-- `Display for Location`: `file:line` followed by `\nat file:line` for every include site -/
def locText (file : Str) (line : Nat) (upper : List (Str × Nat)) : Str :=
  upper.foldl (fun acc u => acc ++ kw "\nat " ++ u.1 ++ [':'] ++ natToStr u.2)
    (file ++ [':'] ++ natToStr line)

def encLRec (r : LRec) : String :=
  match r.record.line? with
  | some l => s!"{encRec r.record} @ {hx (locText r.file l r.upper)}"
  | none => encRec r.record

def includeFuel (fs : Fs) : Nat := fs.length + 2

def encIFail : IFail → String
  | .parse (.err k l) file upper => s!"err {perrKindStr k} {hx (locText file l upper)}"
  | .parse (.panic _) _ _ => "panic"
  | .notFound file upper => s!"err fileNotFound {hx (locText file 0 upper)}"
  | .unreadable file upper => s!"err readFile {hx (locText file 0 upper)}"
  | .emptyInclude file line upper => s!"err emptyIncludeFile {hx (locText file line upper)}"
  | .outOfFuel => "unsupported"

def allPassEnv : Env DbState :=
  dbEnv { engine := [], makeFail := [], rules := [], dflt := .complete 0, cmdRules := [],
          cmdDflt := .exit 0 [] } (fun _ s => .ok s) (fun _ _ => false)

def encTrace (t : List Ev) : String :=
  let evs := t.filter (fun e => !isShutdown e)
  evs.foldl (fun acc e => acc ++ " " ++ encEv e) s!"{evs.length}"

def opInclude : Rd String := do
  let (fs, root) ← readTree
  let valid ← listOf pairSB
  let run (dflt : Bool) : String :=
    let pcfg : PCfg :=
      { regexValid := fun s => (lookup2 valid s).getD dflt, fromChar := ColT.fromCharDefault }
    match parseFile pcfg fs (includeFuel fs) root [] with
    | .error e => encIFail e
    | .ok lrecs =>
      let head := lrecs.foldl (fun acc r => acc ++ " | " ++ encLRec r) s!"ok {lrecs.length}"
      -- execution order: run the spliced records against an always-succeeding database
      let cfg : RCfg := { labels := [], strictCols := false }
      let w0 : World DbState := { db := {} }
      -- failure locations are reported with the record's own file and chain
      let rec go (w : World DbState) : List LRec → World DbState × String
        | [] => (w, "ok")
        | lr :: rest =>
          if lr.record.isHalt then (w, "ok") else
          let a := runRecord allPassEnv cfg w lr.record
          match a.2 with
          | .pass => go a.1 rest
          | .fail k _ => (a.1, s!"failed {hx (locText lr.file (lr.record.line?.getD 0) lr.upper)} {failKindStr k}")
          | .unreachable => (a.1, "crashed")
      let r := go w0 lrecs
      s!"{head} ;; {r.2} {encTrace r.1.trace}"
  let a := run false
  let b := run true
  pure (if a == b then a else "TABLE-MISS")

/-- lower-case hex MD5 of a file content, as the harness fingerprints snapshots
    (`format!("{:x}", u128)`: no leading zeros) -/
def stripZeros : Str → Str
  | '0' :: rest => if rest.isEmpty then ['0'] else stripZeros rest
  | s => s

def fingerprint (c : Str) : Str := stripZeros (md5Hex c)

def isRunEv : UEv → Bool
  | .db (.run ..) => true
  | _ => false

/-- prefixes of the event list that end right before each database request -/
def prefixesBeforeRuns (evs : List UEv) : List (List UEv) :=
  let rec go (acc : List UEv) : List UEv → List (List UEv)
    | [] => []
    | e :: rest => if isRunEv e then acc :: go (acc ++ [e]) rest else go (acc ++ [e]) rest
  go [] evs

def dbEvents (evs : List UEv) : List Ev :=
  evs.filterMap (fun e => match e with | .db x => some x | .fs _ => none)

/-- what the engine-side log of a CLI run can see: connections and requests -/
def engineVisible : Ev → Bool
  | .make .. => true
  | .run .. => true
  | _ => false

def opUpdateWith (format noSnap : Bool) : Rd String := do
  let strict ← bool
  let sep ← str
  let threshold ← nat
  let labels ← listOf str
  let (fs, root) ← readTree
  let valid ← listOf pairSB
  let rmatches ← listOf tripleSSB
  let db ← readDb
  let kTok ← tok
  if kTok != "K" then throw "expected K"
  let crashTok ← tok
  let crashAt : Option Nat := crashTok.toNat?
  -- optional: records run through `run_script` on the same runner before the update
  let pre : List Str ← (do
    match (← get) with
    | "P" :: ts => set ts; listOf str
    | _ => pure [])
  let preText : Str := pre.foldr (fun l acc => l ++ ['\n', '\n'] ++ acc) []
  let run (dflt : Bool) : String :=
    let pcfg : PCfg :=
      { regexValid := fun s => (lookup2 valid s).getD dflt, fromChar := ColT.fromCharDefault }
    let encFiles (st : FsState) : String :=
      fs.foldl (fun acc f => acc ++ s!" {hx f.1} {hx ((getFile st.files f.1).getD [])}") s!"F {fs.length}"
    let st0 : FsState := { files := fs, temps := [] }
    match parseFile pcfg fs (includeFuel fs) root [] with
    | .error .outOfFuel => "unsupported"
    | .error _ => s!"err {encFiles st0} L 0 S 0 T 0"
    | .ok lrecs =>
      let recs := lrecs.map (·.record)
      if hasSubstOn recs then "unsupported" else
      let rm := fun re t => (lookupPair rmatches re t).getD dflt
      let E := dbEnv db (fun _ s => .ok s) rm
      let cfg : RCfg := { labels := labels, strictCols := strict }
      let uc : UCfg := { sep := sep, strictCols := strict, regexMatch := rm }
      let w00 : World DbState := { db := {}, threshold := threshold }
      -- what the earlier script left behind (sort mode, result mode, threshold) is in force
      let w0 : World DbState :=
        match parse pcfg preText with
        | .ok precs => { (runMulti E cfg w00 precs).1 with trace := [] }
        | .error _ => w00
      let fin := updateFile E cfg uc format w0 root recs
      if fin.crashed then "panic" else
      let pres := prefixesBeforeRuns fin.evs
      let snap (evs : List UEv) : String :=
        let st := applyFsOps st0 (fsOpsOf evs)
        hx (joinWith [','] (fs.map (fun f => fingerprint ((getFile st.files f.1).getD []))))
      match crashAt with
      | some k =>
        if h : k < pres.length then
          -- the driver panics at its k-th request: everything before it happened
          let evs := pres[k]
          let st := applyFsOps st0 (fsOpsOf evs)
          let temps := (st.temps.map (fun t => t.1 ++ kw ".temp")).mergeSort strLe
          let snaps := if noSnap then "S 0" else
            (pres.take (k + 1)).foldl (fun acc p => acc ++ " " ++ snap p) s!"S {k + 1}"
          let left := temps.foldl (fun acc t => acc ++ " " ++ hx t) s!"L {temps.length}"
          s!"panic {encFiles st} {left} {snaps} T {encTrace (if noSnap then (dbEvents evs).filter engineVisible else dbEvents evs)}"
        else
          let st := applyFsOps st0 (fsOpsOf fin.evs)
          let snaps := if noSnap then "S 0" else
            pres.foldl (fun acc p => acc ++ " " ++ snap p) s!"S {pres.length}"
          s!"ok {encFiles st} L 0 {snaps} T {encTrace (if noSnap then (dbEvents fin.evs).filter engineVisible else dbEvents fin.evs)}"
      | none =>
        let st := applyFsOps st0 (fsOpsOf fin.evs)
        let snaps := if noSnap then "S 0" else
          pres.foldl (fun acc p => acc ++ " " ++ snap p) s!"S {pres.length}"
        s!"ok {encFiles st} L 0 {snaps} T {encTrace (if noSnap then (dbEvents fin.evs).filter engineVisible else dbEvents fin.evs)}"
  let a := run false
  let b := run true
  pure (if a == b then a else "TABLE-MISS")

/-- several root files handed to one CLI invocation (serial): every file gets a fresh runner, so
    nothing one file sets (sort mode, result mode, substitution, threshold, labels, sessions)
    reaches the next.  `mode`: `run` (check) or `override`. Sessions are numbered over the whole
    invocation, as the engine-side log sees them. -/
def shiftEv (off : Nat) : Ev → Ev
  | .make i ok => .make (i + off) ok
  | .run k sql => .run (k + off) sql
  | .shutdown k => .shutdown (k + off)
  | e => e

def countMakes (t : List Ev) : Nat := (t.filter (fun e => match e with | .make .. => true | _ => false)).length

def opCliMulti : Rd String := do
  let mode ← tok
  let strict ← bool
  let sep ← str
  let threshold ← nat
  let labels ← listOf str
  let fs ← listOf (do let p ← str; let c ← str; pure (p, c))
  let roots ← listOf str
  let valid ← listOf pairSB
  let rmatches ← listOf tripleSSB
  let db ← readDb
  let run (dflt : Bool) : String :=
    let pcfg : PCfg :=
      { regexValid := fun s => (lookup2 valid s).getD dflt, fromChar := ColT.fromCharDefault }
    let rm := fun re t => (lookupPair rmatches re t).getD dflt
    -- the CLI binds `__DATABASE__` to the `--db` value (default `postgres`) in every mode
    let E := dbEnv db (substFn [(kw "__DATABASE__", kw "postgres")] []) rm
    let cfg : RCfg := { labels := labels, strictCols := strict }
    let uc : UCfg := { sep := sep, strictCols := strict, regexMatch := rm }
    -- state threaded through the roots: files, trace so far, per-root status; `none` = unsupported
    let step (acc : Option (Fs × List Ev × List String)) (root : Str) : Option (Fs × List Ev × List String) :=
      match acc with
      | none => none
      | some (files, trace, stats) =>
        match parseFile pcfg files (includeFuel files) root [] with
        | .error .outOfFuel => none
        | .error (.parse (.panic _) _ _) => none
        | .error (.parse (.err _ l) _ _) =>
          some (files, trace, stats ++ [if mode == "run" then s!"err {l}" else "done"])
        | .error (.notFound ..) => some (files, trace, stats ++ [if mode == "run" then "err 0" else "done"])
        | .error (.unreadable ..) => some (files, trace, stats ++ [if mode == "run" then "err 0" else "done"])
        | .error (.emptyInclude _ l _) =>
          some (files, trace, stats ++ [if mode == "run" then s!"err {l}" else "done"])
        | .ok lrecs =>
          let recs := lrecs.map (·.record)
          let w0 : World DbState := { db := {}, threshold := threshold }
          let off := countMakes trace
          if mode == "run" then
            let r := runMulti E cfg w0 recs
            if (cutAtPanic r.1.trace).isSome then none else
            let st := match r.2 with
              | .ok => "ok"
              | .failed l _ _ => s!"err {l}"
              | .crashed => "crashed"
            some (files, trace ++ (r.1.trace.filter engineVisible).map (shiftEv off), stats ++ [st])
          else
            let fin := updateFile E cfg uc false w0 root recs
            if fin.crashed then none else
            let evs := dbEvents fin.evs
            if (cutAtPanic evs).isSome then none else
            let st := applyFsOps { files := files, temps := [] } (fsOpsOf fin.evs)
            some (st.files, trace ++ (evs.filter engineVisible).map (shiftEv off), stats ++ ["done"])
    match roots.foldl step (some (fs, [], [])) with
    | none => "unsupported"
    | some (files, trace, stats) =>
      let sts := stats.foldl (fun acc x => acc ++ " " ++ x) s!"R {stats.length}"
      let fl := fs.foldl (fun acc f => acc ++ s!" {hx f.1} {hx ((getFile files f.1).getD [])}") s!"F {fs.length}"
      s!"{sts} {fl} T {encTrace trace}"
  let a := run false
  let b := run true
  pure (if a == b then a else "TABLE-MISS")

/-! ### CLI decision logic -/

def optNat : Rd (Option Nat) := do
  let t ← tok
  pure t.toNat?

def opPart : Rd String := do
  let count ← nat
  let ident ← nat
  let globs ← listOf (listOf str)
  match partitionConfig (some count) (some ident) with
  | .error _ => pure "error"
  | .ok cfg =>
    let sel := globs.flatMap (selectFiles pathHash cfg)
    pure (sel.foldl (fun acc p => acc ++ " " ++ hx p) s!"sel {sel.length}")

/-- partition options from every source (flags, SLT_PARTITION_*, Buildkite), then the selection -/
def opPartSrc : Rd String := do
  let flagCount ← optStr
  let flagId ← optStr
  let sltCount ← optStr
  let sltId ← optStr
  let bkCount ← optStr
  let bkId ← optStr
  let globs ← listOf (listOf str)
  match partitionFromSources { flagCount, flagId, sltCount, sltId, bkCount, bkId } with
  | .error _ => pure "error"
  | .ok cfg =>
    let sel := globs.flatMap (selectFiles pathHash cfg)
    pure (sel.foldl (fun acc p => acc ++ " " ++ hx p) s!"sel {sel.length}")

def readCEv : Rd CEv := do
  match (← tok) with
  | "create" => .create <$> str
  | "drop" => .drop <$> str
  | "connect" => do let s ← nat; let d ← str; pure (.connect s d)
  | "sql" => do let s ← nat; let t ← str; pure (.sql s t)
  | "eof" => .eof <$> nat
  | "cancel" => pure .cancel
  | x => throw s!"bad event {x}"

def readGround : Rd Ground := do
  match (← tok) with
  | "pass" => pure .pass
  | "fail" => pure (.fail false)
  | "refuse" => pure (.fail true)
  | x => throw s!"bad ground {x}"

def readTag : Rd (Option FileResult) := do
  match (← tok) with
  | "ok" => pure (some .ok)
  | "err" => pure (some .err)
  | "skipped" => pure (some .skipped)
  | "cancelled" => pure (some .cancelled)
  | _ => pure none

def readJStatus : Rd (Option JStatus) := do
  match (← tok) with
  | "success" => pure (some .success)
  | "failure" => pure (some .failure)
  | "skipped" => pure (some .skipped)
  | _ => pure none

def showViolation : Violation → String
  | .useBeforeCreate db => s!"use-before-create {hx db}"
  | .duplicateCreate db => s!"duplicate-create {hx db}"
  | .foreignSql db t => s!"foreign-sql {hx db} {hx t}"
  | .wrongDatabaseVar db t => s!"wrong-database-variable {hx db} {hx t}"
  | .tooManyInFlight n => s!"too-many-in-flight {n}"
  | .dropWhileOpen db => s!"drop-while-open {hx db}"
  | .dropUnknown db => s!"drop-unknown-or-twice {hx db}"
  | .notDropped db => s!"not-dropped {hx db}"
  | .droppedThoughKept db => s!"dropped-though-kept {hx db}"
  | .sessionNotClosed s => s!"session-not-closed {s}"
  | .unknownSession s => s!"unknown-session {s}"
  | .startAfterCancel db => s!"start-after-cancel {hx db}"

def showReportViolation : ReportViolation → String
  | .okButFails p => s!"reported-ok-but-fails {hx p}"
  | .failedButPasses p => s!"reported-failed-but-passes {hx p}"
  | .noStatus p => s!"no-status-line {hx p}"
  | .junitMissing p => s!"junit-case-missing {hx p}"
  | .junitName p => s!"junit-name {hx p}"
  | .junitStatus p => s!"junit-status {hx p}"
  | .skippedWithoutCause p => s!"skipped-without-cause {hx p}"
  | .exitZero => "exit-zero-though-not-all-ok"
  | .exitNonZero => "exit-nonzero-though-all-ok"
  | .junitCount n => s!"junit-case-count {n}"

/-- replay an observed CLI run through the monitor and the report checker -/
def opCliMon : Rd String := do
  let jobs ← nat
  let keep ← bool
  let refused ← bool
  let mgmt ← str
  let exitCode ← nat
  let cancelCause ← bool
  let junitCases ← nat
  let reports ← listOf (do
    let path ← str
    let ground ← readGround
    let tag ← readTag
    let jn ← optStr
    let js ← readJStatus
    pure ({ path, ground, tag, junitName := jn, junitStatus := js } : FileReport))
  let evs ← listOf readCEv
  let cfg : MonCfg :=
    { jobs, keep, refused, mgmtDb := mgmt
      files := reports.map (fun r => { path := r.path, failed := r.tag == some FileResult.err }) }
  match accepts cfg evs with
  | some v => pure s!"reject {showViolation v}"
  | none =>
    match checkReport exitCode cancelCause junitCases reports with
    | some v => pure s!"reject {showReportViolation v}"
    | none => pure "accept"

/-- a label of the parallel-driver transition system (witness of a trace-inclusion case) -/
def readDLabel : Rd DLabel := do
  match (← tok) with
  | "create" => pure .create
  | "beginRun" => pure .beginRun
  | "start" => pure .start
  | "open" => .openSession <$> nat
  | "sql" => do let i ← nat; let k ← nat; let t ← str; pure (.sql i k t)
  | "finish" => do
    let i ← nat
    let r ← readTag
    let refused ← bool
    match r with
    | some r => pure (.finish i r refused)
    | none => throw "bad result in finish label"
  | "close" => do let i ← nat; let k ← nat; pure (.closeSession i k)
  | "signal" => pure .signal
  | "beginDrop" => pure .beginDrop
  | "drop" => pure .drop
  | "done" => pure .done
  | x => throw s!"bad label {x}"

/-- trace inclusion: replay a witness label sequence through the driver model and compare its log
    and results with the observed engine log and the printed status tags -/
def opCliTrace : Rd String := do
  let jobs ← nat
  let keep ← bool
  let failFast ← bool
  let mgmt ← str
  let files ← listOf (do
    let path ← str
    let db ← str
    pure ({ path, db } : DFile))
  let labels ← listOf readDLabel
  let evs ← listOf readCEv
  let tags ← listOf readTag
  let exitZero ← bool
  let cfg : DCfg := { jobs, keep, failFast, files }
  if tags.any (·.isNone) then pure "reject no-status-line"
  else if !dwfB cfg mgmt then pure "reject configuration-not-well-formed"
  else
    match traceCheck cfg labels evs (tags.filterMap id) exitZero with
    | .ok => pure "accept"
    | .stuck k => pure s!"reject label-not-enabled {k}"
    | .notFinished => pure "reject run-not-finished"
    | .logDiffers k => pure s!"reject log-differs-at {k}"
    | .resultDiffers i => pure s!"reject result-differs-for-file {i}"
    | .exitDiffers => pure "reject exit-status-differs"

/-- replay an event log of the library's `run_parallel` through the monitor (no report, keep off) -/
def opLibMon : Rd String := do
  let jobs ← nat
  let mgmt ← str
  let files ← listOf (do
    let path ← str
    let failed ← bool
    pure ({ path, failed } : CFile))
  let evs ← listOf readCEv
  let cfg : MonCfg := { jobs, keep := false, refused := false, mgmtDb := mgmt, files }
  match accepts cfg evs with
  | some v => pure s!"reject {showViolation v}"
  | none => pure "accept"

/-- the serial driver's fold: predicted results and exit status -/
def opSerial : Rd String := do
  let failFast ← bool
  let grounds ← listOf readGround
  let st := runSerial failFast (grounds.map (fun g => (g, false)))
  let show1 : FileResult → String
    | .ok => "ok" | .err => "err" | .skipped => "skipped" | .cancelled => "cancelled"
  pure (st.results.foldl (fun acc r => acc ++ " " ++ show1 r) s!"exit={if exitOk st then 0 else 1}")

/-- the serial driver under Ctrl-C: during file `k` (that file is cancelled), or between two files
    (after the first `k` are through) -/
def opSerialSig : Rd String := do
  let failFast ← bool
  let grounds ← listOf readGround
  let k ← nat
  let during ← bool
  let st :=
    if during then runSerial failFast (grounds.zipIdx.map (fun p => (p.1, p.2 == k)))
    else runSerialSigBetween failFast grounds k
  let show1 : FileResult → String
    | .ok => "ok" | .err => "err" | .skipped => "skipped" | .cancelled => "cancelled"
  pure (st.results.foldl (fun acc r => acc ++ " " ++ show1 r) s!"exit={if exitOk st then 0 else 1}")

/-! ### external-engine driver -/

structure FrStep where
  sql : Str
  kind : String
  chunks : List Bytes

def encReply : Reply → String
  | .rows rows =>
    rows.foldl (fun acc row =>
      row.foldl (fun a v => a ++ " " ++ hxBytes v) (acc ++ s!" {row.length}")) s!"rows {rows.length}"
  | .err m => s!"sqlerr {hxBytes m}"

/-- the byte feed as the calls see it: the chunks of step k become available only after request k
    has been sent (lock-step); a truncated reply is followed by end-of-file -/
def opFrame : Rd String := do
  let steps ← listOf (do
    let sql ← str
    let kind ← tok
    let chunks ← listOf bytes
    pure ({ sql, kind, chunks } : FrStep))
  -- run the calls one by one, feeding each step's chunks when its request is made
  let rec go (st : FrState) (closed exited : Bool) (todo : List FrStep) (acc : List String)
      (reqs : List String) (fuel : Nat) : List String × List String × Bool :=
    match fuel, todo with
    | 0, _ => (acc, reqs, closed)
    | _, [] => (acc, reqs, closed)
    | fuel + 1, s :: rest =>
      -- an engine that closed only its output still reads (and logs) requests; one that exited does not
      let reqs' := if exited then reqs else reqs ++ [hxBytes (encodeRequest (utf8 s.sql))]
      -- `late-reply`: the caller gives up before the reply arrives and shuts the driver down
      if s.kind == "late-reply" then (acc ++ ["abandoned"], reqs', closed) else
      let closes := closed || s.kind == "partial-close" || s.kind == "partial-exit"
      let exits := exited || s.kind == "partial-exit"
      let fd : Feed := { chunks := if closed then [] else s.chunks, closes := closes }
      let r := pollNext (2 * fd.chunks.length + 6) st fd
      match r.1 with
      | .reply rep => go r.2.1 closes exits rest (acc ++ [encReply rep]) reqs' fuel
      | .failed => go r.2.1 closes exits rest (acc ++ ["fail"]) reqs' fuel
      | .pending => (acc ++ ["timeout"], reqs', closes)
  let (results, reqs, closed) := go {} false false steps [] [] (steps.length + 1)
  let exited := steps.any (fun s => s.kind == "partial-exit")
  let _ := closed
  let callsS := results.foldl (fun acc r => acc ++ " ; " ++ r) s!"calls {results.length}"
  let reqsS := reqs.foldl (fun acc r => acc ++ " " ++ r) s!"reqs {reqs.length}"
  let _ := exited
  pure s!"{callsS} ;; {reqsS} ;; eof=1 shutdown=1"

def opSip : Rd String := do
  let p ← str
  pure (toString (pathHash p))

def opPartCfg : Rd String := do
  let count ← optNat
  let ident ← optNat
  match partitionConfig count ident with
  | .error _ => pure "error"
  | .ok _ => pure "ok"

def opUpdate : Rd String := opUpdateWith false false

def dispatchOp (line : String) : String :=
  match line.splitOn " " with
  | [] => "bad-op"
  | op :: rest =>
    let r : Except String (String × List String) :=
      match op with
      | "script" => opScript.run rest
      | "parse" => opParse.run rest
      | "fmt" => opFmt.run rest
      | "include" => opInclude.run rest
      | "update" => opUpdate.run rest
      | "updatecv" => .ok ("unsupported", [])   -- custom row validator: outside the model (harness oracle)
      | "cliupdate" => (opUpdateWith false true).run rest
      | "cliformat" => (opUpdateWith true true).run rest
      | "climulti" => opCliMulti.run rest
      | "part" => opPart.run rest
      | "partcfg" => opPartCfg.run rest
      | "partsrc" => opPartSrc.run rest
      | "sip" => opSip.run rest
      | "frame" => opFrame.run rest
      | "testdir" => (do let _ ← nat; pure "distinct=1 same=1 exist=1 gone=1 par_ok=1 par_db=1 par_same=1 par_distinct=1 par_gone=1 parent_alive=1" : Rd String).run rest
      | "sleepprobe" => (do let _ ← nat; let _ ← nat; pure "ok" : Rd String).run rest
      | "cmdtmpl" => (do
          let tmpl ← bytes; let db ← bytes; let host ← bytes; let port ← bytes; let user ← bytes; let pass ← bytes
          pure (hxBytes (expandCmd { db, host, port, user, pass } tmpl)) : Rd String).run rest
      | "note" => .ok ("ok", [])   -- a run judged by an oracle on the implementation alone
      | "climon" => opCliMon.run rest
      | "clitrace" => opCliTrace.run rest
      | "libmon" => opLibMon.run rest
      | "libname" => (do let p ← str; let k ← nat; pure ("name " ++ hx (libDbName p k)) : Rd String).run rest
      | "serial" => opSerial.run rest
      | "serialsig" => opSerialSig.run rest
      | _ => .error s!"unknown op {op}"
    match r with
    | .ok (out, []) => out
    | .ok (_, _ :: _) => "DECODE-ERROR trailing tokens"
    | .error e => s!"DECODE-ERROR {e}"

end Drv
