import Driver.Ops

partial def loop (h : IO.FS.Stream) (out : IO.FS.Stream) : IO Unit := do
  let line ← h.getLine
  if line.isEmpty then return ()
  let l := if line.endsWith "\n" then (line.dropEnd 1).toString else line
  out.putStrLn (Drv.dispatchOp l)
  loop h out

def main : IO Unit := do
  let out ← IO.getStdout
  loop (← IO.getStdin) out
  out.flush
