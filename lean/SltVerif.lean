import SltVerif.Text
import SltVerif.Duration
import SltVerif.Syntax
import SltVerif.Parser
import SltVerif.Shape
import SltVerif.Judge
import SltVerif.Runner
import SltVerif.Md5
