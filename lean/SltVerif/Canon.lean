/-
Specification side of property C05 (formatting): which records can be written out faithfully
(`RecOk`, `ListOk`), the abstract script a record list is written as (`canonItems`: one `Item`
of `Render.lean` per record, in the canonical layout of `impl Display for Record`), the text of a
list of lines (`linesToText`) and the comparison of record lists the property speaks of
(`SameMeaning`).

Nothing here follows the control flow of `Unparse.lean`; the link is the theorem
`writeRecords R = some (linesToText (render (canonItems R)))` of `Lemmas/UnparseRender.lean`.
-/
import SltVerif.Render
import SltVerif.Unparse
namespace Slt

/-! ## Pieces of text -/

/-- every line followed by a line feed -/
def linesToText (ls : List Str) : Str := ls.flatMap (· ++ ['\n'])

/-- first line of an SQL / command text -/
def blockHead (sql : Str) : Str := (splitNl sql).headD []
/-- the other lines of an SQL / command text -/
def blockRest (sql : Str) : List Str := (splitNl sql).tail

/-- the lines a multi-line text (error message / stdout) is written as: none for the empty text -/
def textLines (t : Str) : List Str := if t.isEmpty then [] else splitNl t

/-! ## Guards on records -/

/-- no line ends in a carriage return (it would be taken for a part of a CRLF line end; D18) -/
def NoCr (ls : List Str) : Prop := ∀ l ∈ ls, l.getLast? ≠ some '\r'

instance (ls : List Str) : Decidable (NoCr ls) := by unfold NoCr; infer_instance

/-- SQL / command text: no line but the first is empty or `----`, no line ends in a CR -/
def BlockTextOk (sql : Str) : Prop := NoCr (splitNl sql) ∧ BlockOk (blockRest sql)

instance (sql : Str) : Decidable (BlockTextOk sql) := by unfold BlockTextOk; infer_instance

/-- multi-line text: trimmed, no two consecutive empty lines, no line ends in a CR -/
def MultiTextOk (t : Str) : Prop :=
  trim t = t ∧ NoCr (textLines t) ∧ multiOk false (textLines t) = true

instance (t : Str) : Decidable (MultiTextOk t) := by unfold MultiTextOk; infer_instance

/-- retry clause: attempts positive, every number in the range of its Rust type -/
def RetryVal : Option Retry → Prop
  | none => True
  | some r => 0 < r.attempts ∧ r.attempts < 2 ^ 64 ∧ r.backoff.secs < 2 ^ 64 ∧
      r.backoff.nanos < 1000000000

instance (rt : Option Retry) : Decidable (RetryVal rt) := by
  cases rt <;> (simp only [RetryVal]; infer_instance)

/-- expected error: an inline regex is the single-blank join of its own words, not empty, valid,
not of the shape of a retry clause, and has no retry clause next to it -/
def ExpErr.Ok (cfg : PCfg) : ExpErr → Option Retry → Prop
  | .empty, _ => True
  | .inline re, rt =>
    re ≠ [] ∧ joinSp (words re) = re ∧ isRetryShape (words re) = false ∧
    cfg.regexValid re = true ∧ rt = none
  | .multi t, _ => MultiTextOk t

instance (cfg : PCfg) (e : ExpErr) (rt : Option Retry) : Decidable (e.Ok cfg rt) := by
  cases e <;> (simp only [ExpErr.Ok]; infer_instance)

def SExp.Ok (cfg : PCfg) : SExp → Option Retry → Prop
  | .ok, _ => True
  | .count n, _ => n < 2 ^ 64
  | .error e, rt => e.Ok cfg rt

instance (cfg : PCfg) (e : SExp) (rt : Option Retry) : Decidable (e.Ok cfg rt) := by
  cases e <;> (simp only [SExp.Ok]; infer_instance)

/-- a label is one word, not `retry`, and not a sort mode unless a sort mode precedes it -/
def LabelOk (sort : Option SortMode) : Option Str → Prop
  | none => True
  | some l => IsTok isWs l ∧ l ≠ kw "retry" ∧ (sort = none → SortMode.ofStr l = none)

instance (sort : Option SortMode) (lb : Option Str) : Decidable (LabelOk sort lb) := by
  cases lb <;> (simp only [LabelOk]; infer_instance)

/-- query expectation: no result mode (the parser never sets one, `Display` does not write it),
column types in the image of `cfg.fromChar`, nothing after an empty type string, result lines
non-empty single lines -/
def QExp.Ok (cfg : PCfg) : QExp → Option Retry → Prop
  | .results types sort rmode label res, rt =>
    rmode = none ∧ (∀ t ∈ types, cfg.fromChar t.toChar = some t) ∧
    (types = [] → sort = none ∧ label = none ∧ rt = none) ∧
    LabelOk sort label ∧ (∀ l ∈ res, l ≠ [] ∧ LineOk l)
  | .error e, rt => e.Ok cfg rt

instance (cfg : PCfg) (e : QExp) (rt : Option Retry) : Decidable (e.Ok cfg rt) := by
  cases e <;> (simp only [QExp.Ok]; infer_instance)

def StdoutOk : Option Str → Prop
  | none => True
  | some t => MultiTextOk t

instance (o : Option Str) : Decidable (StdoutOk o) := by
  cases o <;> (simp only [StdoutOk]; infer_instance)

def Cond.label : Cond → Str
  | .onlyIf l | .skipIf l => l

/-- a connection name is one word and not `default` (that is `Conn.dflt`) -/
def ConnOk : Conn → Prop
  | .dflt => True
  | .named n => IsTok isWs n ∧ n ≠ kw "default"

instance (c : Conn) : Decidable (ConnOk c) := by
  cases c <;> (simp only [ConnOk]; infer_instance)

/-- **The records that are written faithfully.** -/
def RecOk (cfg : PCfg) : Rec → Prop
  | .incl _ f => IsTok isWs f
  | .statement _ _ _ sql exp rt => BlockTextOk sql ∧ exp.Ok cfg rt ∧ RetryVal rt
  | .query _ _ _ sql exp rt => BlockTextOk sql ∧ exp.Ok cfg rt ∧ RetryVal rt
  | .system _ _ cmd out rt => BlockTextOk cmd ∧ StdoutOk out ∧ RetryVal rt
  | .sleep _ d => d.secs < 2 ^ 64 ∧ d.nanos < 1000000000
  | .subtest _ n => IsTok isWs n
  | .halt _ => True
  | .control _ => True
  | .hashThreshold _ n => n < 2 ^ 64
  | .condition c => IsTok isWs c.label
  | .connection c => ConnOk c
  | .comment ls => ls ≠ [] ∧ ∀ l ∈ ls, '\n' ∉ l
  | .newline => True
  | .beginInclude _ => False
  | .endInclude _ => False

instance (cfg : PCfg) (r : Rec) : Decidable (RecOk cfg r) := by
  cases r <;> (simp only [RecOk]; infer_instance)

/-! ## Guards on record lists -/

/-- what is pending in front of a record: conditions and connection -/
structure Ctx where
  conds : List Cond := []
  conn : Conn := .dflt
  deriving DecidableEq, Repr

def Ctx.next (c : Ctx) : Rec → Ctx
  | .statement .. | .query .. => ⟨[], .dflt⟩
  | .system .. => ⟨[], c.conn⟩
  | .condition cd => ⟨c.conds ++ [cd], c.conn⟩
  | .connection cn => ⟨c.conds, cn⟩
  | _ => c

/-- the record carries exactly the pending conditions / connection -/
def Ctx.fits (c : Ctx) : Rec → Bool
  | .statement _ cs cn .. | .query _ cs cn .. => decide (cs = c.conds) && decide (cn = c.conn)
  | .system _ cs .. => decide (cs = c.conds)
  | _ => true

/-- conditions and connection of every statement | query | system record are the ones announced
by the `condition` / `connection` records in front of it -/
def ctxOk : Ctx → List Rec → Bool
  | _, [] => true
  | c, r :: rs => c.fits r && ctxOk (c.next r) rs

/-- the record list without the `newline` records at its end -/
def stripNewlines (R : List Rec) : List Rec := (R.reverse.dropWhile (· = .newline)).reverse

def SExp.plain : SExp → Bool
  | .error (.multi _) => false
  | _ => true

def QExp.plain : QExp → Bool
  | .error (.multi _) => false
  | .results .. => false
  | _ => true

/-- a record whose SQL / command text is empty and ends the record: written at the very end of a
file it loses its only SQL line (known finding D19) -/
def Rec.emptyAtEnd : Rec → Bool
  | .statement _ _ _ sql exp _ => sql.isEmpty && exp.plain
  | .query _ _ _ sql exp _ => sql.isEmpty && exp.plain
  | .system _ _ cmd out _ => cmd.isEmpty && out.isNone
  | _ => false

/-- the last record (blank lines apart) is not one with an empty SQL text -/
def EndOk (R : List Rec) : Prop :=
  match (stripNewlines R).getLast? with
  | some r => r.emptyAtEnd = false
  | none => True

instance (R : List Rec) : Decidable (EndOk R) := by
  unfold EndOk; split <;> infer_instance

/-- **The record lists that are written faithfully**: context consistent, no empty SQL text at the
end. -/
def ListOk (R : List Rec) : Prop := ctxOk {} R = true ∧ EndOk R

instance (R : List Rec) : Decidable (ListOk R) := by unfold ListOk; infer_instance

/-! ## The canonical script of a record list -/

def canonSeps : Nat → List Str
  | 0 => []
  | 1 => [[]]
  | n + 2 => [' '] :: canonSeps (n + 1)

/-- canonical layout: nothing in front, one blank between words, nothing behind -/
def canonLay (toks : List Str) : Lay := ⟨[], canonSeps toks.length⟩

def canonRetry : Option Retry → Option RetryTok
  | none => none
  | some r => some ⟨natToStr r.attempts, formatDurationCompact r.backoff⟩

def canonErr : ExpErr → ErrForm
  | .empty => .any
  | .inline re => .inline (words re)
  | .multi t => .multi (textLines t)

def canonStmt : SExp → StmtForm
  | .ok => .ok
  | .count n => .count (natToStr n)
  | .error e => .error (canonErr e)

def canonQuery : QExp → QueryForm
  | .results types sort _ label res =>
    if types = [] then .bare (some res) else .typed (types.map ColT.toChar) sort label (some res)
  | .error e => .error (canonErr e)

/-- layout of a `query` header: `Display` writes `query ` first, so a blank trails when nothing
follows -/
def queryLay (f : QueryForm) (toks : List Str) : Lay :=
  match f with
  | .bare _ => ⟨[], [[' ']]⟩
  | _ => canonLay toks

/-- the item a record is written as -/
def canonItem : Rec → Item
  | .incl _ f => .incl f (canonLay [kw "include", f])
  | .statement _ _ _ sql exp rt =>
    .statement (canonStmt exp) (canonRetry rt)
      (canonLay (kw "statement" :: (canonStmt exp).toks ++ retryToks (canonRetry rt)))
      (blockHead sql) (blockRest sql)
  | .query _ _ _ sql exp rt =>
    .query (canonQuery exp) (canonRetry rt)
      (queryLay (canonQuery exp) (kw "query" :: (canonQuery exp).toks ++ retryToks (canonRetry rt)))
      (blockHead sql) (blockRest sql)
  | .system _ _ cmd out rt =>
    .system (canonRetry rt) (canonLay (kw "system" :: kw "ok" :: retryToks (canonRetry rt)))
      (blockHead cmd) (blockRest cmd) (out.map textLines)
  | .sleep _ d => .sleep (formatDurationCompact d) (canonLay [kw "sleep", formatDurationCompact d])
  | .subtest _ n => .subtest n (canonLay [kw "subtest", n])
  | .halt _ => .halt (canonLay [kw "halt"])
  | .control c => .control c (canonLay (kw "control" :: c.toks))
  | .hashThreshold _ n => .hashThreshold (natToStr n) (canonLay [kw "hash-threshold", natToStr n])
  | .condition (.onlyIf l) => .cond false l (canonLay [kw "onlyif", l])
  | .condition (.skipIf l) => .cond true l (canonLay [kw "skipif", l])
  | .connection .dflt => .connection (kw "default") (canonLay [kw "connection", kw "default"])
  | .connection (.named n) => .connection n (canonLay [kw "connection", n])
  | .comment ls => .comment (ls.map trimEnd)
  | .newline => .blank
  | .beginInclude _ => .blank
  | .endInclude _ => .blank

/-- the abstract script a record list is written as: one item per record -/
def canonItems (R : List Rec) : List Item := R.map canonItem

/-! ## Column types that can be written -/

/-- every column type the configuration can read is read back from the character `Display` writes
for it (true of `DefaultColumnType`: `T`, `I`, `R`, and `?` for everything else) -/
def CfgOk (cfg : PCfg) : Prop := ∀ c t, cfg.fromChar c = some t → cfg.fromChar t.toChar = some t

theorem cfgOk_default (rv : Str → Bool) : CfgOk ⟨rv, ColT.fromCharDefault⟩ := by
  intro c t h
  cases t <;> (dsimp only; decide)

theorem cfgOk_strict (rv : Str → Bool) : CfgOk ⟨rv, ColT.fromCharStrict⟩ := by
  intro c t h
  cases t with
  | any =>
    simp only [ColT.fromCharStrict] at h
    split at h
    · cases h
    · split at h
      · cases h
      · split at h <;> cases h
  | _ => dsimp only; decide

/-! ## Same meaning -/

/-- a record without its line number (formatting moves lines) -/
def Rec.unline : Rec → Rec
  | .incl _ f => .incl 0 f
  | .statement _ c cn sql e r => .statement 0 c cn sql e r
  | .query _ c cn sql e r => .query 0 c cn sql e r
  | .system _ c cmd o r => .system 0 c cmd o r
  | .sleep _ d => .sleep 0 d
  | .subtest _ n => .subtest 0 n
  | .halt _ => .halt 0
  | .hashThreshold _ n => .hashThreshold 0 n
  | r => r

/-- What a record says, piece by piece.  A comment record is its lines, one by one, without the
blanks at their end (the writer right-trims them) — so two comment records in a row say the same as
one record with all their lines (a blanks-only line between two comment lines makes the parser
close one comment record and open another; written out, the lines are adjacent).  Every other
record is itself without its line number. -/
def Rec.atoms : Rec → List Rec
  | .comment ls => ls.map (fun l => .comment [trimEnd l])
  | r => [r.unline]

/-- the meaning of a record list: its pieces, `newline` records at the very end apart (the writer
cuts the blank lines at the end of the file) -/
def meaning (R : List Rec) : List Rec := stripNewlines (R.flatMap Rec.atoms)

/-- **Semantically the same script**: the same records in the same order — kind, SQL / command
text, expectation (result lines verbatim), column types, sort mode, label, retry clause,
conditions, connection, comment lines up to blanks at their end — line numbers, the grouping of
adjacent comment lines into records and `newline` records at the very end apart. -/
def SameMeaning (R' R : List Rec) : Prop := meaning R' = meaning R

instance (R' R : List Rec) : Decidable (SameMeaning R' R) := by unfold SameMeaning; infer_instance

end Slt
