/-
Model of the decision logic of the CLI (`sqllogictest-bin/src/main.rs`): partition
configuration and file selection (161-184, 282-310), test-case / database names, per-file results
and the JUnit status, the serial driver's fold (527-582), and — as a labelled transition system
with a monitor — the create / run / drop bookkeeping of the parallel driver and cancellation
(382-523, 669-736).
-/
import SltVerif.Sip
namespace Slt

/-! ### partitioning -/

/-- `HashPartitioner::matches` for a hash function `h` -/
def selected (h : Str → Nat) (count id : Nat) (file : Str) : Bool := h file % count == id

/-- option validation: `Some((count, id))` = a partitioner is built; `none` = no partitioning;
    `.error` = the CLI refuses to run -/
def partitionConfig (count id : Option Nat) : Except Unit (Option (Nat × Nat)) :=
  match count with
  | none => .ok none                      -- an id without a count is ignored
  | some c =>
    match id with
    | none => .error ()                   -- "parallel job count is specified but job id is not"
    | some i =>
      if c = 0 then .error ()             -- "partition count must be greater than zero"
      else if i ≥ c then .error ()        -- "partition id (zero-based) must be less than count"
      else .ok (some (c, i))

/-- the files of one glob after partitioning: filtered only when the glob matched more than one -/
def selectFiles (h : Str → Nat) (cfg : Option (Nat × Nat)) (files : List Str) : List Str :=
  match cfg with
  | none => files
  | some (c, i) => if files.length > 1 then files.filter (selected h c i) else files

/-! ### names -/

/-- `to_test_case_name`: `' ' '.' '-' '/'` become `'_'` -/
def testCaseName (path : Str) : Str :=
  path.map (fun c => if c = ' ' ∨ c = '.' ∨ c = '-' ∨ c = '/' then '_' else c)

/-- `format!("{test_case_name}_{random_id}")` with an 8-character suffix -/
def dbName (path : Str) (suffix : Str) : Str := testCaseName path ++ '_' :: suffix

/-! ### results -/

inductive FileResult
  | ok | err | skipped | cancelled
  deriving DecidableEq, Repr

inductive JStatus
  | success | failure | skipped
  deriving DecidableEq, Repr

/-- `RunResult::to_junit` -/
def FileResult.junit : FileResult → JStatus
  | .ok => .success
  | .err => .failure
  | _ => .skipped

/-- what running one file to completion gives (ground truth of the file against the engine) -/
inductive Ground
  | pass
  | fail (connRefused : Bool)     -- failing record / parse error / engine dying; "Connection refused" in the error
  deriving DecidableEq, Repr

structure SerialState where
  cancelled : Bool := false
  results : List FileResult := []      -- in file order
  failed : Nat := 0

/-- one iteration of `run_serial`: `connect_and_run_test_file` (skip when already cancelled),
    then the bookkeeping on the result; `sigint` = Ctrl-C arrived while this file was running -/
def serialStep (failFast : Bool) (s : SerialState) (g : Ground × Bool) : SerialState :=
  if s.cancelled then { s with results := s.results ++ [.skipped] }
  else if g.2 then { s with cancelled := true, results := s.results ++ [.cancelled] }
  else match g.1 with
    | .pass => { s with results := s.results ++ [.ok] }
    | .fail refused =>
      { cancelled := s.cancelled || failFast || refused
        results := s.results ++ [.err]
        failed := s.failed + 1 }

def runSerial (failFast : Bool) (files : List (Ground × Bool)) : SerialState :=
  files.foldl (serialStep failFast) {}

/-- the process result: non-zero iff some case failed or the run was cancelled -/
def exitOk (s : SerialState) : Bool := s.failed == 0 && !s.cancelled

end Slt
