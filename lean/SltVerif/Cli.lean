/-
Model of the decision logic of the CLI (`sqllogictest-bin/src/main.rs`): partition
configuration and file selection (161-184, 282-310), test-case / database names, per-file results
and the JUnit status, the serial driver's fold (527-582), and — as a labelled transition system
with a monitor — the create / run / drop bookkeeping of the parallel driver and cancellation
(382-523, 669-736).
-/
import SltVerif.Sip
namespace Slt

/-! ### partitioning -/

/-- `HashPartitioner::matches` for a hash function `h` -/
def selected (h : Str → Nat) (count id : Nat) (file : Str) : Bool := h file % count == id

/-- option validation: `Some((count, id))` = a partitioner is built; `none` = no partitioning;
    `.error` = the CLI refuses to run -/
def partitionConfig (count id : Option Nat) : Except Unit (Option (Nat × Nat)) :=
  match count with
  | none => .ok none                      -- an id without a count is ignored
  | some c =>
    match id with
    | none => .error ()                   -- "parallel job count is specified but job id is not"
    | some i =>
      if c = 0 then .error ()             -- "partition count must be greater than zero"
      else if i ≥ c then .error ()        -- "partition id (zero-based) must be less than count"
      else .ok (some (c, i))

/-- where the two partition options can come from: the command line, the `SLT_PARTITION_*` variables,
    the CI system's own variables (Buildkite); `none` = not given / not set -/
structure PartSources where
  flagCount : Option Str := none
  flagId : Option Str := none
  sltCount : Option Str := none
  sltId : Option Str := none
  bkCount : Option Str := none
  bkId : Option Str := none

/-- `import_partition_config_from_ci` (main.rs 187-209): the `SLT_PARTITION_*` environment after the
    import, as (count, id) — the CI variables are copied only when NEITHER `SLT_` variable is set and
    BOTH CI variables are -/
def importCi (s : PartSources) : Option Str × Option Str :=
  if s.sltId.isSome || s.sltCount.isSome then (s.sltCount, s.sltId)
  else match s.bkId, s.bkCount with
    | some i, some c => (some c, some i)
    | _, _ => (none, none)

/-- clap: a flag wins over the environment variable of the same option -/
def effectivePart (s : PartSources) : Option Str × Option Str :=
  ((s.flagCount.orElse fun _ => (importCi s).1), (s.flagId.orElse fun _ => (importCi s).2))

/-- the whole decision: both values must parse as `u64` (clap rejects the command line otherwise),
    then `partitionConfig` -/
def partitionFromSources (s : PartSources) : Except Unit (Option (Nat × Nat)) :=
  let parse (o : Option Str) : Except Unit (Option Nat) :=
    match o with
    | none => .ok none
    | some t => match parseU64 t with
      | some n => .ok (some n)
      | none => .error ()
  match parse (effectivePart s).1, parse (effectivePart s).2 with
  | .ok c, .ok i => partitionConfig c i
  | _, _ => .error ()

/-- the files of one glob after partitioning: filtered only when the glob matched more than one -/
def selectFiles (h : Str → Nat) (cfg : Option (Nat × Nat)) (files : List Str) : List Str :=
  match cfg with
  | none => files
  | some (c, i) => if files.length > 1 then files.filter (selected h c i) else files

/-! ### names -/

/-- `to_test_case_name`: `' ' '.' '-' '/'` become `'_'` -/
def testCaseName (path : Str) : Str :=
  path.map (fun c => if c = ' ' ∨ c = '.' ∨ c = '-' ∨ c = '/' then '_' else c)

/-- `format!("{test_case_name}_{random_id}")` with an 8-character suffix -/
def dbName (path : Str) (suffix : Str) : Str := testCaseName path ++ '_' :: suffix

/-- the library's `run_parallel` (runner.rs): `format!("{}_{idx}", filename.replace(..))`, `idx` the
    file's position in the glob -/
def libDbName (path : Str) (idx : Nat) : Str := testCaseName path ++ '_' :: natToStr idx

/-! ### results -/

inductive FileResult
  | ok | err | skipped | cancelled
  deriving DecidableEq, Repr

inductive JStatus
  | success | failure | skipped
  deriving DecidableEq, Repr

/-- `RunResult::to_junit` -/
def FileResult.junit : FileResult → JStatus
  | .ok => .success
  | .err => .failure
  | _ => .skipped

/-- what running one file to completion gives (ground truth of the file against the engine) -/
inductive Ground
  | pass
  | fail (connRefused : Bool)     -- failing record / parse error / engine dying; "Connection refused" in the error
  deriving DecidableEq, Repr

structure SerialState where
  cancelled : Bool := false
  results : List FileResult := []      -- in file order
  failed : Nat := 0

/-- one iteration of `run_serial`: `connect_and_run_test_file` (skip when already cancelled),
    then the bookkeeping on the result; `sigint` = Ctrl-C arrived while this file was running -/
def serialStep (failFast : Bool) (s : SerialState) (g : Ground × Bool) : SerialState :=
  if s.cancelled then { s with results := s.results ++ [.skipped] }
  else if g.2 then { s with cancelled := true, results := s.results ++ [.cancelled] }
  else match g.1 with
    | .pass => { s with results := s.results ++ [.ok] }
    | .fail refused =>
      { cancelled := s.cancelled || failFast || refused
        results := s.results ++ [.err]
        failed := s.failed + 1 }

def runSerial (failFast : Bool) (files : List (Ground × Bool)) : SerialState :=
  files.foldl (serialStep failFast) {}

/-- the process result: non-zero iff some case failed or the run was cancelled -/
def exitOk (s : SerialState) : Bool := s.failed == 0 && !s.cancelled

/-- Ctrl-C that takes effect BETWEEN two files (after the first `k` files are through, before file `k`
    looks at the flag): those `k` files run undisturbed, then the flag is set, and the remaining files
    find it set when they start -/
def runSerialSigBetween (failFast : Bool) (files : List Ground) (k : Nat) : SerialState :=
  let s := (files.take k).foldl (fun st g => serialStep failFast st (g, false)) {}
  (files.drop k).foldl (fun st g => serialStep failFast st (g, false)) { s with cancelled := true }

end Slt

namespace Slt

/-! ### the parallel driver and cancellation as a monitored event log -/

/-- events observable from outside: the fake engine's log (sessions are engine processes) and the
    cancellation anchor inserted by the harness (signal sent / failing file closed, plus slack) -/
inductive CEv
  | create (db : Str)                    -- management session: `CREATE DATABASE db;`
  | drop (db : Str)                      -- management session: `DROP DATABASE db;`
  | connect (sess : Nat) (db : Str)      -- an engine process started for database `db`
  | sql (sess : Nat) (text : Str)        -- it received a request
  | eof (sess : Nat)                     -- it saw end-of-file on its stdin (closed by the CLI)
  | cancel                               -- from here on no new test-file session may start
  deriving DecidableEq, Repr

structure CFile where
  path : Str
  failed : Bool            -- reported as failure (its database is kept under keep-on-failure)
  deriving DecidableEq, Repr

structure MonCfg where
  jobs : Nat               -- 0 = serial mode (no per-file databases, no bound to check)
  keep : Bool              -- --keep-db-on-failure
  refused : Bool           -- some file failed with "Connection refused": the CLI assumes the server
                           -- is down and skips dropping the databases
  mgmtDb : Str             -- database of the management / serial sessions (`--db`)
  files : List CFile

structure MonState where
  created : List Str := []
  dropped : List Str := []
  sessions : List (Nat × Str) := []      -- open sessions and their database
  closed : List Nat := []
  cancelled : Bool := false
  deriving Repr

inductive Violation
  | useBeforeCreate (db : Str)           -- a session for a database that was not created (or already dropped)
  | duplicateCreate (db : Str)           -- database names must be unique within the run
  | foreignSql (db : Str) (text : Str)   -- SQL of another file reached this file's database
  | wrongDatabaseVar (db : Str) (text : Str)  -- `$__DATABASE__` did not expand to the file's database
  | tooManyInFlight (n : Nat)
  | dropWhileOpen (db : Str)
  | dropUnknown (db : Str)               -- dropped twice / never created
  | notDropped (db : Str)
  | droppedThoughKept (db : Str)
  | sessionNotClosed (sess : Nat)
  | unknownSession (sess : Nat)
  | startAfterCancel (db : Str)
  deriving DecidableEq, Repr

/-- the file a database belongs to: its name is `testCaseName path ++ "_" ++ 8 characters` -/
def fileOfDb (cfg : MonCfg) (db : Str) : Option CFile :=
  cfg.files.find? (fun f => decide (db.length = (testCaseName f.path).length + 9) &&
    (testCaseName f.path ++ ['_']).isPrefixOf db)

def lookupSess (l : List (Nat × Str)) (s : Nat) : Option Str :=
  match l with
  | [] => none
  | (k, d) :: rest => if k = s then some d else lookupSess rest s

/-- every SQL line of a generated test file ends in ` -- F<path>`: the file it was written in -/
def sqlOwner (text : Str) : Option Str :=
  let marker := kw " -- F"
  let rec go : Str → Option Str
    | [] => none
    | c :: cs => if marker.isPrefixOf (c :: cs) then some ((c :: cs).drop marker.length) else go cs
  go text

def dedupS : List Str → List Str
  | [] => []
  | a :: rest => if rest.contains a then dedupS rest else a :: dedupS rest

/-- databases that currently have at least one open session -/
def inFlight (st : MonState) (mgmt : Str) : List Str :=
  dedupS ((st.sessions.map (·.2)).filter (· ≠ mgmt))

def monStep (cfg : MonCfg) (st : MonState) : CEv → Except Violation MonState
  | .create db =>
    if st.created.contains db then .error (.duplicateCreate db)
    else .ok { st with created := st.created ++ [db] }
  | .drop db =>
    if !st.created.contains db || st.dropped.contains db then .error (.dropUnknown db)
    else if st.sessions.any (fun p => p.2 = db) then .error (.dropWhileOpen db)
    else .ok { st with dropped := st.dropped ++ [db] }
  | .connect s db =>
    if db = cfg.mgmtDb then .ok { st with sessions := st.sessions ++ [(s, db)] }
    else if cfg.jobs > 0 ∧ (!st.created.contains db || st.dropped.contains db) then
      .error (.useBeforeCreate db)
    else if st.cancelled then .error (.startAfterCancel db)
    else
      let st' := { st with sessions := st.sessions ++ [(s, db)] }
      if cfg.jobs > 0 ∧ (inFlight st' cfg.mgmtDb).length > cfg.jobs then
        .error (.tooManyInFlight (inFlight st' cfg.mgmtDb).length)
      else .ok st'
  | .sql s text =>
    match lookupSess st.sessions s with
    | none => .error (.unknownSession s)
    | some db =>
      if db = cfg.mgmtDb ∧ cfg.jobs > 0 then
        -- parallel mode: the management session carries no file's SQL
        if (sqlOwner text).isSome then .error (.foreignSql db text) else .ok st
      else
        -- exclusive use: the text was written in the file this database was created for
        let ownerOk := match sqlOwner text, fileOfDb cfg db with
          | some o, some f => decide (o = f.path)
          | some _, none => cfg.jobs == 0
          | none, _ => true
        if !ownerOk then .error (.foreignSql db text)
        else if (kw "dbname ").isPrefixOf text ∧
            !((kw "dbname " ++ db ++ kw " -- F").isPrefixOf text) then
          .error (.wrongDatabaseVar db text)
        else .ok st
  | .eof s =>
    match lookupSess st.sessions s with
    | none => .error (.unknownSession s)
    | some _ => .ok { st with sessions := st.sessions.filter (fun p => p.1 ≠ s), closed := st.closed ++ [s] }
  | .cancel => .ok { st with cancelled := true }

def monRun (cfg : MonCfg) : MonState → List CEv → Except Violation MonState
  | st, [] => .ok st
  | st, e :: es =>
    match monStep cfg st e with
    | .error v => .error v
    | .ok st' => monRun cfg st' es

/-- end of the run: every session closed; every created database dropped, except — under
    keep-on-failure — those of failed files, which must be kept -/
def monFinish (cfg : MonCfg) (st : MonState) : Option Violation :=
  match st.sessions with
  | (s, _) :: _ => some (.sessionNotClosed s)
  | [] =>
    let check (db : Str) : Option Violation :=
      let kept := cfg.keep && ((fileOfDb cfg db).map (·.failed)).getD false
      if cfg.refused then none
      else if kept then (if st.dropped.contains db then some (.droppedThoughKept db) else none)
      else (if st.dropped.contains db then none else some (.notDropped db))
    st.created.findSome? check

/-- the whole monitor -/
def accepts (cfg : MonCfg) (log : List CEv) : Option Violation :=
  match monRun cfg {} log with
  | .error v => some v
  | .ok st => monFinish cfg st

/-! ### the report: exit status, status tags, JUnit -/

structure FileReport where
  path : Str
  ground : Ground                  -- what the file does when run to completion
  tag : Option FileResult          -- status printed on stdout
  junitName : Option Str           -- name of its JUnit test case
  junitStatus : Option JStatus
  deriving DecidableEq, Repr

inductive ReportViolation
  | okButFails (path : Str)            -- reported ok, but the file does not pass
  | failedButPasses (path : Str)       -- reported failure, but the file passes
  | noStatus (path : Str)
  | junitMissing (path : Str)
  | junitName (path : Str)
  | junitStatus (path : Str)
  | skippedWithoutCause (path : Str)   -- skipped / cancelled although nothing cancelled the run
  | exitZero                            -- exit 0 although not every file was reported ok
  | exitNonZero                         -- exit ≠ 0 although every file was reported ok
  | junitCount (n : Nat)
  deriving DecidableEq, Repr

/-- `cancelCause`: a Ctrl-C was sent, or fail-fast with some failure, or a connection was refused -/
def checkReport (exitCode : Nat) (cancelCause : Bool) (junitCases : Nat) (rs : List FileReport) :
    Option ReportViolation :=
  let per (r : FileReport) : Option ReportViolation :=
    match r.tag with
    | none => some (.noStatus r.path)
    | some t =>
      if t = .ok ∧ r.ground ≠ .pass then some (.okButFails r.path)
      else if t = .err ∧ r.ground = .pass then some (.failedButPasses r.path)
      else if (t = .skipped ∨ t = .cancelled) ∧ !cancelCause then some (.skippedWithoutCause r.path)
      else match r.junitName, r.junitStatus with
        | some n, some s =>
          if n ≠ testCaseName r.path then some (.junitName r.path)
          else if s ≠ t.junit then some (.junitStatus r.path)
          else none
        | _, _ => some (.junitMissing r.path)
  match rs.findSome? per with
  | some v => some v
  | none =>
    if junitCases ≠ rs.length then some (.junitCount junitCases)
    else
      let allOk := rs.all (fun r => r.tag = some .ok)
      -- a Ctrl-C that arrives after the last file finished still makes the run exit non-zero (C19)
      if allOk ∧ exitCode ≠ 0 ∧ !cancelCause then some .exitNonZero
      else if !allOk ∧ exitCode = 0 then some .exitZero
      else none

end Slt

namespace Slt

/-! ### the parallel driver as a labelled transition system

`run_parallel` (main.rs 382-523) + `connect_and_run_test_file` (669-736): databases are created
up front, at most `jobs` files are in flight (`buffer_unordered`; each is its own tokio task, so a
file started before the cancellation may look at the flag only after it), a file opens sessions lazily
(one per connection name), `runner.shutdown` closes them on every exit path, a failure under
fail-fast / a refused connection / Ctrl-C sets the cancellation flag, a file started after that
is skipped without a session (it first waits for the running ones), databases are dropped at the
end unless kept. Nondeterminism (which file finishes next, what it sends, when the signal arrives)
is in the choice of labels. -/

structure DFile where
  path : Str
  db : Str
  deriving DecidableEq, Repr

inductive DrvPhase | creating | running | dropping | finished
  deriving DecidableEq, Repr

structure DSt where
  phase : DrvPhase := .creating
  toCreate : List Str                      -- databases still to be created, in order
  pending : List Nat                       -- indices of files not yet started, in order
  inflight : List (Nat × List Nat) := []   -- started files with their open sessions
  begun : List Nat := []                   -- files that have opened a session (they passed the
                                           -- `is_cancelled()` test and hold `RUNNING_TESTS.read()`)
  results : List (Nat × FileResult) := []
  cancelled : Bool := false
  refused : Bool := false
  toDrop : List Str := []
  nextSess : Nat := 0
  log : List CEv := []

structure DCfg where
  jobs : Nat
  keep : Bool
  failFast : Bool
  files : List DFile

inductive DLabel
  | create                                  -- next `CREATE DATABASE`
  | beginRun                                -- all databases exist: start polling the stream
  | start                                   -- the next pending file is started (or skipped)
  | openSession (i : Nat)                   -- file i opens a session (first use of a connection name)
  | sql (i : Nat) (s : Nat) (text : Str)    -- file i sends `text` (one of its own lines) on session s
  | finish (i : Nat) (res : FileResult) (refused : Bool)   -- file i ends: sessions closed, result processed
  | closeSession (i : Nat) (k : Nat)        -- file i's runner shuts down: its session k is closed (the
                                            -- engine processes see end-of-file one after the other,
                                            -- interleaved with what the other files do)
  | signal                                  -- Ctrl-C
  | beginDrop
  | drop                                    -- next `DROP DATABASE` (kept ones are skipped)
  | done

def DCfg.fileAt (c : DCfg) (i : Nat) : Option DFile := c.files[i]?

def sessionsOf (l : List (Nat × List Nat)) (i : Nat) : Option (List Nat) :=
  match l with
  | [] => none
  | (k, ss) :: rest => if k = i then some ss else sessionsOf rest i

def setSessions (l : List (Nat × List Nat)) (i : Nat) (ss : List Nat) : List (Nat × List Nat) :=
  l.map (fun p => if p.1 = i then (i, ss) else p)

/-- the databases to drop at the end: all of them, except those of failed files under `keep` -/
def dropList (c : DCfg) (results : List (Nat × FileResult)) : List Str :=
  (c.files.zipIdx.filter (fun p =>
    !(c.keep && results.any (fun r => r.1 = p.2 && r.2 = FileResult.err)))).map (·.1.db)

def dstep (c : DCfg) (s : DSt) : DLabel → Option DSt
  | .create =>
    match s.phase, s.toCreate with
    | .creating, db :: rest => some { s with toCreate := rest, log := s.log ++ [.create db] }
    | _, _ => none
  | .beginRun =>
    if s.phase = .creating ∧ s.toCreate = [] then some { s with phase := .running } else none
  | .start =>
    match s.phase, s.pending with
    | .running, i :: rest =>
      if s.cancelled then
        -- skipped; waits until no test is running (`RUNNING_TESTS.write()`)
        if s.inflight = [] then some { s with pending := rest, results := s.results ++ [(i, .skipped)] }
        else none
      else if s.inflight.length < c.jobs then
        some { s with pending := rest, inflight := s.inflight ++ [(i, [])] }
      else none
    | _, _ => none
  | .openSession i =>
    match s.phase, sessionsOf s.inflight i, c.fileAt i with
    | .running, some ss, some f =>
      if s.cancelled then none      -- `select!` is biased towards the cancellation branch
      else some { s with inflight := setSessions s.inflight i (ss ++ [s.nextSess]),
                         begun := i :: s.begun,
                         nextSess := s.nextSess + 1,
                         log := s.log ++ [.connect s.nextSess f.db] }
    | _, _, _ => none
  | .sql i k text =>
    match s.phase, sessionsOf s.inflight i, c.fileAt i with
    | .running, some ss, some f =>
      if s.cancelled ∨ !ss.contains k ∨ sqlOwner text ≠ some f.path then none
      else if (kw "dbname ").isPrefixOf text ∧ !((kw "dbname " ++ f.db ++ kw " -- F").isPrefixOf text) then none
      else some { s with log := s.log ++ [.sql k text] }
    | _, _, _ => none
  | .finish i res refused =>
    match s.phase, sessionsOf s.inflight i with
    | .running, some ss =>
      -- a cancelled result only under cancellation.  A file that occupies a slot (its task is spawned)
      -- but finds the flag set when it first looks (`cancel.is_cancelled()`, main.rs 684) is skipped
      -- too: it has opened no session, and it first waits until no running file is left
      -- (`RUNNING_TESTS.write()`), i.e. until no file in flight has an open session
      if (res = .skipped ∧ (!s.cancelled ∨ s.begun.contains i ∨ s.inflight.any (fun p => !p.2.isEmpty)))
          ∨ (res = .cancelled ∧ !s.cancelled) ∨ (refused ∧ res ≠ .err) then none
      else
        let cancel := s.cancelled || (res == .err && (c.failFast || refused))
        some { s with inflight := s.inflight.filter (fun p => p.1 ≠ i),
                      results := s.results ++ [(i, res)],
                      cancelled := cancel,
                      refused := s.refused || refused,
                      log := s.log ++ ss.map CEv.eof }
    | _, _ => none
  | .closeSession i k =>
    match s.phase, sessionsOf s.inflight i with
    | .running, some ss =>
      if !ss.contains k then none
      else some { s with inflight := setSessions s.inflight i (ss.filter (fun x => x ≠ k)),
                         log := s.log ++ [.eof k] }
    | _, _ => none
  | .signal =>
    if s.phase = .running ∧ !s.cancelled then some { s with cancelled := true, log := s.log ++ [.cancel] }
    else none
  | .beginDrop =>
    if s.phase = .running ∧ s.pending = [] ∧ s.inflight = [] then
      some { s with phase := .dropping, toDrop := if s.refused then [] else dropList c s.results }
    else none
  | .drop =>
    match s.phase, s.toDrop with
    | .dropping, db :: rest => some { s with toDrop := rest, log := s.log ++ [.drop db] }
    | _, _ => none
  | .done =>
    if s.phase = .dropping ∧ s.toDrop = [] then some { s with phase := .finished } else none

def dinit (c : DCfg) : DSt :=
  { toCreate := c.files.map (·.db), pending := List.range c.files.length }

def drun (c : DCfg) : DSt → List DLabel → Option DSt
  | s, [] => some s
  | s, l :: ls =>
    match dstep c s l with
    | none => none
    | some s' => drun c s' ls

/-- the process result of `run_parallel` (main.rs 516-522): `Ok` iff no file failed and the run was
    not cancelled -/
def dexitOk (s : DSt) : Bool := !(s.results.any (fun r => r.2 == FileResult.err)) && !s.cancelled

/-- the monitor configuration that corresponds to a driver run -/
def monCfgOf (c : DCfg) (mgmt : Str) (s : DSt) : MonCfg :=
  { jobs := c.jobs, keep := c.keep, refused := s.refused, mgmtDb := mgmt
    files := c.files.zipIdx.map (fun p =>
      { path := p.1.path, failed := s.results.any (fun r => r.1 = p.2 && r.2 = FileResult.err) }) }

end Slt
