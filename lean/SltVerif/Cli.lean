/-
Model of the decision logic of the CLI (`sqllogictest-bin/src/main.rs`): partition
configuration and file selection (161-184, 282-310), test-case / database names, per-file results
and the JUnit status, the serial driver's fold (527-582), and — as a labelled transition system
with a monitor — the create / run / drop bookkeeping of the parallel driver and cancellation
(382-523, 669-736).
-/
import SltVerif.Sip
namespace Slt

/-! ### partitioning -/

/-- `HashPartitioner::matches` for a hash function `h` -/
def selected (h : Str → Nat) (count id : Nat) (file : Str) : Bool := h file % count == id

/-- option validation: `Some((count, id))` = a partitioner is built; `none` = no partitioning;
    `.error` = the CLI refuses to run -/
def partitionConfig (count id : Option Nat) : Except Unit (Option (Nat × Nat)) :=
  match count with
  | none => .ok none                      -- an id without a count is ignored
  | some c =>
    match id with
    | none => .error ()                   -- "parallel job count is specified but job id is not"
    | some i =>
      if c = 0 then .error ()             -- "partition count must be greater than zero"
      else if i ≥ c then .error ()        -- "partition id (zero-based) must be less than count"
      else .ok (some (c, i))

/-- the files of one glob after partitioning: filtered only when the glob matched more than one -/
def selectFiles (h : Str → Nat) (cfg : Option (Nat × Nat)) (files : List Str) : List Str :=
  match cfg with
  | none => files
  | some (c, i) => if files.length > 1 then files.filter (selected h c i) else files

/-! ### names -/

/-- `to_test_case_name`: `' ' '.' '-' '/'` become `'_'` -/
def testCaseName (path : Str) : Str :=
  path.map (fun c => if c = ' ' ∨ c = '.' ∨ c = '-' ∨ c = '/' then '_' else c)

/-- `format!("{test_case_name}_{random_id}")` with an 8-character suffix -/
def dbName (path : Str) (suffix : Str) : Str := testCaseName path ++ '_' :: suffix

/-! ### results -/

inductive FileResult
  | ok | err | skipped | cancelled
  deriving DecidableEq, Repr

inductive JStatus
  | success | failure | skipped
  deriving DecidableEq, Repr

/-- `RunResult::to_junit` -/
def FileResult.junit : FileResult → JStatus
  | .ok => .success
  | .err => .failure
  | _ => .skipped

/-- what running one file to completion gives (ground truth of the file against the engine) -/
inductive Ground
  | pass
  | fail (connRefused : Bool)     -- failing record / parse error / engine dying; "Connection refused" in the error
  deriving DecidableEq, Repr

structure SerialState where
  cancelled : Bool := false
  results : List FileResult := []      -- in file order
  failed : Nat := 0

/-- one iteration of `run_serial`: `connect_and_run_test_file` (skip when already cancelled),
    then the bookkeeping on the result; `sigint` = Ctrl-C arrived while this file was running -/
def serialStep (failFast : Bool) (s : SerialState) (g : Ground × Bool) : SerialState :=
  if s.cancelled then { s with results := s.results ++ [.skipped] }
  else if g.2 then { s with cancelled := true, results := s.results ++ [.cancelled] }
  else match g.1 with
    | .pass => { s with results := s.results ++ [.ok] }
    | .fail refused =>
      { cancelled := s.cancelled || failFast || refused
        results := s.results ++ [.err]
        failed := s.failed + 1 }

def runSerial (failFast : Bool) (files : List (Ground × Bool)) : SerialState :=
  files.foldl (serialStep failFast) {}

/-- the process result: non-zero iff some case failed or the run was cancelled -/
def exitOk (s : SerialState) : Bool := s.failed == 0 && !s.cancelled

end Slt

namespace Slt

/-! ### the parallel driver and cancellation as a monitored event log -/

/-- events observable from outside: the fake engine's log (sessions are engine processes) and the
    cancellation anchor inserted by the harness (signal sent / failing file closed, plus slack) -/
inductive CEv
  | create (db : Str)                    -- management session: `CREATE DATABASE db;`
  | drop (db : Str)                      -- management session: `DROP DATABASE db;`
  | connect (sess : Nat) (db : Str)      -- an engine process started for database `db`
  | sql (sess : Nat) (text : Str)        -- it received a request
  | eof (sess : Nat)                     -- it saw end-of-file on its stdin (closed by the CLI)
  | cancel                               -- from here on no new test-file session may start
  deriving DecidableEq, Repr

structure CFile where
  path : Str
  failed : Bool            -- reported as failure (its database is kept under keep-on-failure)
  deriving DecidableEq, Repr

structure MonCfg where
  jobs : Nat               -- 0 = serial mode (no per-file databases, no bound to check)
  keep : Bool              -- --keep-db-on-failure
  mgmtDb : Str             -- database of the management / serial sessions (`--db`)
  files : List CFile

structure MonState where
  created : List Str := []
  dropped : List Str := []
  sessions : List (Nat × Str) := []      -- open sessions and their database
  closed : List Nat := []
  cancelled : Bool := false
  deriving Repr

inductive Violation
  | useBeforeCreate (db : Str)           -- a session for a database that was not created (or already dropped)
  | duplicateCreate (db : Str)           -- database names must be unique within the run
  | foreignSql (db : Str) (text : Str)   -- SQL of another file reached this file's database
  | wrongDatabaseVar (db : Str) (text : Str)  -- `$__DATABASE__` did not expand to the file's database
  | tooManyInFlight (n : Nat)
  | dropWhileOpen (db : Str)
  | dropUnknown (db : Str)               -- dropped twice / never created
  | notDropped (db : Str)
  | droppedThoughKept (db : Str)
  | sessionNotClosed (sess : Nat)
  | unknownSession (sess : Nat)
  | startAfterCancel (db : Str)
  deriving DecidableEq, Repr

/-- the file a database belongs to: its name is `testCaseName path ++ "_" ++ 8 characters` -/
def fileOfDb (cfg : MonCfg) (db : Str) : Option CFile :=
  cfg.files.find? (fun f => decide (db.length = (testCaseName f.path).length + 9) &&
    (testCaseName f.path ++ ['_']).isPrefixOf db)

def lookupSess (l : List (Nat × Str)) (s : Nat) : Option Str :=
  match l with
  | [] => none
  | (k, d) :: rest => if k = s then some d else lookupSess rest s

/-- every SQL line of a generated test file ends in ` -- F<path>`: the file it was written in -/
def sqlOwner (text : Str) : Option Str :=
  let marker := kw " -- F"
  let rec go : Str → Option Str
    | [] => none
    | c :: cs => if marker.isPrefixOf (c :: cs) then some ((c :: cs).drop marker.length) else go cs
  go text

def dedupS : List Str → List Str
  | [] => []
  | a :: rest => if rest.contains a then dedupS rest else a :: dedupS rest

/-- databases that currently have at least one open session -/
def inFlight (st : MonState) (mgmt : Str) : List Str :=
  dedupS ((st.sessions.map (·.2)).filter (· ≠ mgmt))

def monStep (cfg : MonCfg) (st : MonState) : CEv → Except Violation MonState
  | .create db =>
    if st.created.contains db then .error (.duplicateCreate db)
    else .ok { st with created := st.created ++ [db] }
  | .drop db =>
    if !st.created.contains db || st.dropped.contains db then .error (.dropUnknown db)
    else if st.sessions.any (fun p => p.2 = db) then .error (.dropWhileOpen db)
    else .ok { st with dropped := st.dropped ++ [db] }
  | .connect s db =>
    if db = cfg.mgmtDb then .ok { st with sessions := st.sessions ++ [(s, db)] }
    else if cfg.jobs > 0 ∧ (!st.created.contains db || st.dropped.contains db) then
      .error (.useBeforeCreate db)
    else if st.cancelled then .error (.startAfterCancel db)
    else
      let st' := { st with sessions := st.sessions ++ [(s, db)] }
      if cfg.jobs > 0 ∧ (inFlight st' cfg.mgmtDb).length > cfg.jobs then
        .error (.tooManyInFlight (inFlight st' cfg.mgmtDb).length)
      else .ok st'
  | .sql s text =>
    match lookupSess st.sessions s with
    | none => .error (.unknownSession s)
    | some db =>
      if db = cfg.mgmtDb ∧ cfg.jobs > 0 then .ok st
      else
        -- exclusive use: the text was written in the file this database was created for
        let ownerOk := match sqlOwner text, fileOfDb cfg db with
          | some o, some f => decide (o = f.path)
          | some _, none => cfg.jobs == 0
          | none, _ => true
        if !ownerOk then .error (.foreignSql db text)
        else if (kw "dbname ").isPrefixOf text ∧
            !((kw "dbname " ++ db ++ kw " -- F").isPrefixOf text) then
          .error (.wrongDatabaseVar db text)
        else .ok st
  | .eof s =>
    match lookupSess st.sessions s with
    | none => .error (.unknownSession s)
    | some _ => .ok { st with sessions := st.sessions.filter (fun p => p.1 ≠ s), closed := st.closed ++ [s] }
  | .cancel => .ok { st with cancelled := true }

def monRun (cfg : MonCfg) : MonState → List CEv → Except Violation MonState
  | st, [] => .ok st
  | st, e :: es =>
    match monStep cfg st e with
    | .error v => .error v
    | .ok st' => monRun cfg st' es

/-- end of the run: every session closed; every created database dropped, except — under
    keep-on-failure — those of failed files, which must be kept -/
def monFinish (cfg : MonCfg) (st : MonState) : Option Violation :=
  match st.sessions with
  | (s, _) :: _ => some (.sessionNotClosed s)
  | [] =>
    let check (db : Str) : Option Violation :=
      let kept := cfg.keep && ((fileOfDb cfg db).map (·.failed)).getD false
      if kept then (if st.dropped.contains db then some (.droppedThoughKept db) else none)
      else (if st.dropped.contains db then none else some (.notDropped db))
    st.created.findSome? check

/-- the whole monitor -/
def accepts (cfg : MonCfg) (log : List CEv) : Option Violation :=
  match monRun cfg {} log with
  | .error v => some v
  | .ok st => monFinish cfg st

/-! ### the report: exit status, status tags, JUnit -/

structure FileReport where
  path : Str
  ground : Ground                  -- what the file does when run to completion
  tag : Option FileResult          -- status printed on stdout
  junitName : Option Str           -- name of its JUnit test case
  junitStatus : Option JStatus
  deriving DecidableEq, Repr

inductive ReportViolation
  | okButFails (path : Str)            -- reported ok, but the file does not pass
  | failedButPasses (path : Str)       -- reported failure, but the file passes
  | noStatus (path : Str)
  | junitMissing (path : Str)
  | junitName (path : Str)
  | junitStatus (path : Str)
  | skippedWithoutCause (path : Str)   -- skipped / cancelled although nothing cancelled the run
  | exitZero                            -- exit 0 although not every file was reported ok
  | exitNonZero                         -- exit ≠ 0 although every file was reported ok
  | junitCount (n : Nat)
  deriving DecidableEq, Repr

/-- `cancelCause`: a Ctrl-C was sent, or fail-fast with some failure, or a connection was refused -/
def checkReport (exitCode : Nat) (cancelCause : Bool) (junitCases : Nat) (rs : List FileReport) :
    Option ReportViolation :=
  let per (r : FileReport) : Option ReportViolation :=
    match r.tag with
    | none => some (.noStatus r.path)
    | some t =>
      if t = .ok ∧ r.ground ≠ .pass then some (.okButFails r.path)
      else if t = .err ∧ r.ground = .pass then some (.failedButPasses r.path)
      else if (t = .skipped ∨ t = .cancelled) ∧ !cancelCause then some (.skippedWithoutCause r.path)
      else match r.junitName, r.junitStatus with
        | some n, some s =>
          if n ≠ testCaseName r.path then some (.junitName r.path)
          else if s ≠ t.junit then some (.junitStatus r.path)
          else none
        | _, _ => some (.junitMissing r.path)
  match rs.findSome? per with
  | some v => some v
  | none =>
    if junitCases ≠ rs.length then some (.junitCount junitCases)
    else
      let allOk := rs.all (fun r => r.tag = some .ok)
      if allOk ∧ exitCode ≠ 0 then some .exitNonZero
      else if !allOk ∧ exitCode = 0 then some .exitZero
      else none

end Slt
