/-
Trace inclusion: is an observed run of the real CLI (engine-side event log + per-file status tags)
a run of the parallel-driver transition system `dstep` of Cli.lean?

The hidden labels (when a file is started, when its result is processed, where the signal takes
effect) are not observable, so a candidate label sequence is found by an untrusted search in the
harness (tools/cli_harness.py, `find_labels`); `traceCheck` replays that witness through `drun` and
compares what the driver model logs with what the engines logged.  The cancellation anchor
(`CEv.cancel`) is not an engine event (the harness inserts it from the time the signal was sent), so
both logs are compared without it.  Everything proved about runs of `dstep` (Props/C16, C17, C19)
then holds of the observed run (`Props/C17.trace_replay_*`).
-/
import SltVerif.Cli
namespace Slt

def CEv.isCancel : CEv → Bool
  | .cancel => true
  | _ => false

def stripCancel (l : List CEv) : List CEv := l.filter (fun e => !e.isCancel)

inductive TraceVerdict
  | ok
  | stuck (k : Nat)            -- label number `k` of the witness is not enabled in the driver model
  | notFinished                -- the witness does not end in phase `finished`
  | logDiffers (k : Nat)       -- first position where the model's log and the observed log differ
  | resultDiffers (file : Nat) -- the model's result for this file is not the status the CLI printed
  | exitDiffers                -- exit status 0 although the model run fails, or the other way round
  deriving DecidableEq, Repr

/-- `drun`, reporting the index of the first label that is not enabled -/
def drunAt (c : DCfg) : DSt → List DLabel → Nat → Except Nat DSt
  | s, [], _ => .ok s
  | s, l :: ls, k =>
    match dstep c s l with
    | none => .error k
    | some s' => drunAt c s' ls (k + 1)

def resultOf (rs : List (Nat × FileResult)) (i : Nat) : Option FileResult :=
  match rs with
  | [] => none
  | (k, r) :: rest => if k = i then some r else resultOf rest i

def firstDiff : List CEv → List CEv → Nat → Option Nat
  | [], [], _ => none
  | a :: as, b :: bs, k => if a = b then firstDiff as bs (k + 1) else some k
  | _, _, k => some k

/-- first file index below `n` whose result in `rs` is not its observed tag -/
def firstWrongResult (rs : List (Nat × FileResult)) (tags : List FileResult) : Nat → Option Nat
  | 0 => none
  | n + 1 =>
    match firstWrongResult rs tags n with
    | some i => some i
    | none => if resultOf rs n = tags[n]? then none else some n

/-- the hypotheses of the driver theorems on a configuration (`DWf`, Lemmas/CliSimBase.lean), as a
    test: test-case names pairwise distinct, database names `<test case name>_<8 characters>`, none of
    them the management database -/
def dwfB (c : DCfg) (mgmt : Str) : Bool :=
  decide ((c.files.map (fun f => testCaseName f.path)).Nodup) &&
  c.files.all (fun f => decide (f.db.length = (testCaseName f.path).length + 9) &&
    (testCaseName f.path ++ ['_']).isPrefixOf f.db) &&
  c.files.all (fun f => decide (f.db ≠ mgmt))

def traceCheck (c : DCfg) (labels : List DLabel) (observed : List CEv) (tags : List FileResult)
    (exitZero : Bool) : TraceVerdict :=
  match drunAt c (dinit c) labels 0 with
  | .error k => .stuck k
  | .ok s =>
    if s.phase ≠ .finished then .notFinished
    else
      match firstDiff (stripCancel s.log) (stripCancel observed) 0 with
      | some k => .logDiffers k
      | none =>
        if tags.length ≠ c.files.length then .resultDiffers tags.length
        else
          match firstWrongResult s.results tags c.files.length with
          | some i => .resultDiffers i
          | none => if dexitOk s = exitZero then .ok else .exitDiffers

end Slt
