/-
Model of humantime 2.1.0 `parse_duration` / `format_duration` (u64 checked arithmetic) and of
`std::time::Duration::new` (carry of nanos ≥ 10^9 into seconds, panicking on overflow).
-/
import SltVerif.Text
namespace Slt

structure Dur where
  secs : Nat
  nanos : Nat
  deriving DecidableEq, Repr, Inhabited

inductive DurOut
  | ok (d : Dur)
  | err
  | panic           -- `Duration::new` overflow inside humantime (dependency defect D11)
  deriving DecidableEq, Repr

def U64MAX : Nat := 2 ^ 64

def ckMul (a b : Nat) : Option Nat := if a * b < U64MAX then some (a * b) else none
def ckAdd (a b : Nat) : Option Nat := if a + b < U64MAX then some (a + b) else none

def isLetter (c : Char) : Bool := ('a' ≤ c && c ≤ 'z') || ('A' ≤ c && c ≤ 'Z')

/-- seconds-per-unit / nanos-per-unit table of `Parser::parse_unit` -/
def unitScale (u : Str) : Option (Nat × Bool) :=   -- (multiplier, isSeconds)
  if u = kw "nanos" ∨ u = kw "nsec" ∨ u = kw "ns" then some (1, false)
  else if u = kw "usec" ∨ u = kw "us" then some (1000, false)
  else if u = kw "millis" ∨ u = kw "msec" ∨ u = kw "ms" then some (1000000, false)
  else if u = kw "seconds" ∨ u = kw "second" ∨ u = kw "secs" ∨ u = kw "sec" ∨ u = kw "s" then some (1, true)
  else if u = kw "minutes" ∨ u = kw "minute" ∨ u = kw "min" ∨ u = kw "mins" ∨ u = kw "m" then some (60, true)
  else if u = kw "hours" ∨ u = kw "hour" ∨ u = kw "hr" ∨ u = kw "hrs" ∨ u = kw "h" then some (3600, true)
  else if u = kw "days" ∨ u = kw "day" ∨ u = kw "d" then some (86400, true)
  else if u = kw "weeks" ∨ u = kw "week" ∨ u = kw "w" then some (604800, true)
  else if u = kw "months" ∨ u = kw "month" ∨ u = kw "M" then some (2630016, true)
  else if u = kw "years" ∨ u = kw "year" ∨ u = kw "y" then some (31557600, true)
  else none

/-- `Parser::parse_unit`: add `n` units `u` to the running `(sec, nsec)`; `none` = error. -/
def addUnit (cur : Nat × Nat) (n : Nat) (u : Str) : Option (Nat × Nat) :=
  match unitScale u with
  | none => none
  | some (k, isSec) =>
    match ckMul n k with
    | none => none
    | some v =>
      let sec0 := if isSec then v else 0
      let nsec0 := if isSec then 0 else v
      match ckAdd cur.2 nsec0 with
      | none => none
      | some nsec =>
        let carry : Option (Nat × Nat) :=
          if nsec > 1000000000 then
            (ckAdd sec0 (nsec / 1000000000)).map (fun s => (s, nsec % 1000000000))
          else some (sec0, nsec)
        match carry with
        | none => none
        | some (sec1, nsec1) =>
          match ckAdd cur.1 sec1 with
          | none => none
          | some sec => some (sec, nsec1)

/-- `Duration::new(secs, nanos)` -/
def durationNew (secs nanos : Nat) : DurOut :=
  let s := secs + nanos / 1000000000
  if s < U64MAX then .ok ⟨s, nanos % 1000000000⟩ else .panic

inductive DPhase
  | first                 -- parse_first_char: skipping blanks, expecting a digit (initial: Empty error at end)
  | firstNext             -- parse_first_char after a unit: end of input = success
  | num (n : Nat)         -- reading digits of the number
  | unit (n : Nat) (u : Str)  -- reading letters of the unit (u in order)

/-- One pass over the characters; structural recursion on the input. -/
def durLoop : DPhase → Nat × Nat → Str → DurOut
  | .first, _, [] => .err
  | .firstNext, cur, [] => durationNew cur.1 cur.2
  | .num _, _, [] => .err                 -- unit "" is unknown
  | .unit n u, cur, [] =>
    match addUnit cur n u with
    | none => .err
    | some cur' => durationNew cur'.1 cur'.2
  | .first, cur, c :: cs =>
    match digitVal c with
    | some d => durLoop (.num d) cur cs
    | none => if isWs c then durLoop .first cur cs else .err
  | .firstNext, cur, c :: cs =>
    match digitVal c with
    | some d => durLoop (.num d) cur cs
    | none => if isWs c then durLoop .firstNext cur cs else .err
  | .num n, cur, c :: cs =>
    match digitVal c with
    | some d =>
      (match (ckMul n 10).bind (fun x => ckAdd x d) with
       | some n' => durLoop (.num n') cur cs
       | none => .err)
    | none =>
      if isWs c then durLoop (.num n) cur cs
      else if isLetter c then durLoop (.unit n [c]) cur cs
      else .err
  | .unit n u, cur, c :: cs =>
    match digitVal c with
    | some d =>
      (match addUnit cur n u with
       | none => .err
       | some cur' => durLoop (.num d) cur' cs)
    | none =>
      if isWs c then
        (match addUnit cur n u with
         | none => .err
         | some cur' => durLoop .firstNext cur' cs)
      else if isLetter c then durLoop (.unit n (u ++ [c])) cur cs
      else .err

/-- humantime `parse_duration`. -/
def parseDuration (s : Str) : DurOut := durLoop .first (0, 0) s

/-! ### format_duration -/

def fmtItemPlural (name : Str) (v : Nat) : List Str :=
  if v = 0 then [] else [natToStr v ++ name ++ (if v > 1 then ['s'] else [])]

def fmtItem (name : Str) (v : Nat) : List Str :=
  if v = 0 then [] else [natToStr v ++ name]

/-- the items humantime prints, in order (it joins them with one blank) -/
def durationItems (d : Dur) : List Str :=
  let secs := d.secs
  let nanos := d.nanos
  let years := secs / 31557600
  let ydays := secs % 31557600
  let months := ydays / 2630016
  let mdays := ydays % 2630016
  let days := mdays / 86400
  let daySecs := mdays % 86400
  let hours := daySecs / 3600
  let minutes := daySecs % 3600 / 60
  let seconds := daySecs % 60
  let millis := nanos / 1000000
  let micros := nanos / 1000 % 1000
  let nanosec := nanos % 1000
  fmtItemPlural (kw "year") years ++ fmtItemPlural (kw "month") months ++
  fmtItemPlural (kw "day") days ++ fmtItem (kw "h") hours ++ fmtItem (kw "m") minutes ++
  fmtItem (kw "s") seconds ++ fmtItem (kw "ms") millis ++ fmtItem (kw "us") micros ++
  fmtItem (kw "ns") nanosec

/-- humantime `format_duration(d).to_string()` -/
def formatDuration (d : Dur) : Str :=
  if d.secs = 0 ∧ d.nanos = 0 then kw "0s" else joinSp (durationItems d)

/-- what sqllogictest-rs writes into a test file: the humantime text without the blanks
    (a duration must be a single token). -/
def formatDurationCompact (d : Dur) : Str :=
  if d.secs = 0 ∧ d.nanos = 0 then kw "0s" else (durationItems d).flatten

end Slt
