/-
Model of the command template of the CLI's external engine (`sqllogictest-bin/src/engines.rs`,
`EngineConfig::External(cmd_tmpl)`):

    cmd_tmpl.replace("{db}", &config.db).replace("{host}", host).replace("{port}", &port.to_string())
            .replace("{user}", &config.user).replace("{pass}", &config.pass)

`str::replace` is `Slt.replaceAll` of `SltVerif/Subst.lean`.  Besides the code (`expandCmd`) this file has the
abstract side: a template as a list of segments (`Seg`), its text (`showSegs`) and the simultaneous
substitution the documentation promises (`evalSegs`).
-/
import SltVerif.Subst
namespace Slt

/-- the five values put into the command line -/
structure EngineVals where
  db : Bytes
  host : Bytes
  port : Bytes      -- decimal digits of the port number
  user : Bytes
  pass : Bytes

/-- none of the five values contains a `{` byte -/
def EngineVals.NoBrace (v : EngineVals) : Prop :=
  bLBrace ∉ v.db ∧ bLBrace ∉ v.host ∧ bLBrace ∉ v.port ∧ bLBrace ∉ v.user ∧ bLBrace ∉ v.pass

instance (v : EngineVals) : Decidable v.NoBrace := by unfold EngineVals.NoBrace; infer_instance

/-- the bytes of `{db}`, `{host}`, `{port}`, `{user}`, `{pass}`: kernel-reducible constants, so that concrete
    instances close with `by decide` (`String.toUTF8` does not reduce there); they are equal to
    `bytesOfString "{db}"` … (`patDb_eq` … in `Lemmas/EngineCmd.lean`, `C20b.placeholders_text`) -/
def patDb : Bytes := [bLBrace, 100, 98, bRBrace]
def patHost : Bytes := [bLBrace, 104, 111, 115, 116, bRBrace]
def patPort : Bytes := [bLBrace, 112, 111, 114, 116, bRBrace]
def patUser : Bytes := [bLBrace, 117, 115, 101, 114, bRBrace]
def patPass : Bytes := [bLBrace, 112, 97, 115, 115, bRBrace]

/-- pattern and replacement of the five `replace` calls, in the order of the code -/
def placeholders (v : EngineVals) : List (Bytes × Bytes) :=
  [(patDb, v.db), (patHost, v.host), (patPort, v.port), (patUser, v.user), (patPass, v.pass)]

/-- the five sequential `replace` calls (fuel `length + 1` suffices, as in `simpleReplace`) -/
def expandCmd (v : EngineVals) (tmpl : Bytes) : Bytes :=
  (placeholders v).foldl (fun acc p => replaceAll p.1 p.2 (acc.length + 1) acc) tmpl

/-! ### the abstract side -/

/-- a piece of a template: literal text or one of the five placeholders -/
inductive Seg
  | lit (b : Bytes)
  | db
  | host
  | port
  | user
  | pass
  deriving DecidableEq, Repr

/-- the text of a segment inside a template -/
def Seg.show : Seg → Bytes
  | .lit b => b
  | .db => patDb
  | .host => patHost
  | .port => patPort
  | .user => patUser
  | .pass => patPass

/-- what a segment stands for -/
def Seg.value (v : EngineVals) : Seg → Bytes
  | .lit b => b
  | .db => v.db
  | .host => v.host
  | .port => v.port
  | .user => v.user
  | .pass => v.pass

/-- the template text -/
def showSegs (l : List Seg) : Bytes := (l.map Seg.show).flatten

/-- the simultaneous substitution: every placeholder by its value, everything else verbatim -/
def evalSegs (v : EngineVals) (l : List Seg) : Bytes := (l.map (Seg.value v)).flatten

end Slt
