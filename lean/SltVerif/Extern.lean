/-
Model of the external-engine driver (`sqllogictest-engines/src/external.rs`): request encoding
(`serde_json::to_string` of `{"sql": …}`), the incremental reply decoder (`JsonDecoder::decode` over
`serde_json::Deserializer::from_slice(..).into_iter()`, with serde_json's distinction between
"end of input while parsing" = wait for more and syntax errors), the untagged `Output` enum, and the
`tokio_util::codec::FramedRead::poll_next` loop with the default `decode_eof`.  Everything on bytes.
-/
import SltVerif.Subst
namespace Slt

/-! ### request encoding -/

def hexLower (n : Nat) : UInt8 := if n < 10 then (48 + n).toUInt8 else (87 + n).toUInt8

/-- serde_json's string escaping: `"` `\` and control characters; everything else verbatim -/
def jsonEscapeByte (b : UInt8) : Bytes :=
  if b = 34 then [92, 34]                 -- \"
  else if b = 92 then [92, 92]            -- \\
  else if b = 8 then [92, 98]             -- \b
  else if b = 12 then [92, 102]           -- \f
  else if b = 10 then [92, 110]           -- \n
  else if b = 13 then [92, 114]           -- \r
  else if b = 9 then [92, 116]            -- \t
  else if b < 32 then [92, 117, 48, 48, hexLower (b.toNat / 16), hexLower (b.toNat % 16)]   -- \u00XX
  else [b]

def jsonString (s : Bytes) : Bytes := [34] ++ s.flatMap jsonEscapeByte ++ [34]

/-- `serde_json::to_string(&Input { sql })` -/
def encodeRequest (sql : Bytes) : Bytes :=
  bytesOfString "{\"sql\":" ++ jsonString sql ++ [125]

/-! ### JSON values as far as the driver looks at them -/

inductive JVal
  | str (s : Bytes)
  | arr (l : List JVal)
  | obj (l : List (Bytes × JVal))
  | scalar                       -- number / true / false / null
  deriving Repr

inductive Scan (α : Type)
  | ok (v : α) (rest : Bytes)
  | incomplete                   -- serde_json `Category::Eof`: the decoder waits for more bytes
  | invalid                      -- any other error
  deriving Repr

def isJsonWs (b : UInt8) : Bool := b = 32 || b = 10 || b = 9 || b = 13

def skipWs : Bytes → Bytes
  | [] => []
  | b :: bs => if isJsonWs b then skipWs bs else b :: bs

def hexDigitVal (b : UInt8) : Option Nat :=
  if 48 ≤ b ∧ b ≤ 57 then some (b.toNat - 48)
  else if 97 ≤ b ∧ b ≤ 102 then some (b.toNat - 87)
  else if 65 ≤ b ∧ b ≤ 70 then some (b.toNat - 55)
  else none

/-- four hex digits -/
def scanHex4 : Bytes → Scan Nat
  | a :: b :: c :: d :: rest =>
    match hexDigitVal a, hexDigitVal b, hexDigitVal c, hexDigitVal d with
    | some x, some y, some z, some w => .ok (x * 4096 + y * 256 + z * 16 + w) rest
    | _, _, _, _ => .invalid
  | l => if l.all (fun x => (hexDigitVal x).isSome) then .incomplete else .invalid

/-- UTF-8 encoding of a code point (as `char::encode_utf8`) -/
def utf8OfCode (n : Nat) : Bytes :=
  if n < 0x80 then [n.toUInt8]
  else if n < 0x800 then [(0xC0 + n / 64).toUInt8, (0x80 + n % 64).toUInt8]
  else if n < 0x10000 then
    [(0xE0 + n / 4096).toUInt8, (0x80 + n / 64 % 64).toUInt8, (0x80 + n % 64).toUInt8]
  else
    [(0xF0 + n / 262144).toUInt8, (0x80 + n / 4096 % 64).toUInt8, (0x80 + n / 64 % 64).toUInt8,
     (0x80 + n % 64).toUInt8]

/-- the body of a string after the opening quote; `acc` = decoded bytes so far -/
def scanStringBody : Nat → Bytes → Bytes → Scan Bytes
  | 0, _, _ => .incomplete
  | _, _, [] => .incomplete                           -- EofWhileParsingString
  | fuel + 1, acc, b :: rest =>
    if b = 34 then .ok acc rest
    else if b = 92 then
      match rest with
      | [] => .incomplete
      | e :: rest2 =>
        if e = 34 then scanStringBody fuel (acc ++ [34]) rest2
        else if e = 92 then scanStringBody fuel (acc ++ [92]) rest2
        else if e = 47 then scanStringBody fuel (acc ++ [47]) rest2
        else if e = 98 then scanStringBody fuel (acc ++ [8]) rest2
        else if e = 102 then scanStringBody fuel (acc ++ [12]) rest2
        else if e = 110 then scanStringBody fuel (acc ++ [10]) rest2
        else if e = 114 then scanStringBody fuel (acc ++ [13]) rest2
        else if e = 116 then scanStringBody fuel (acc ++ [9]) rest2
        else if e = 117 then
          match scanHex4 rest2 with
          | .incomplete => .incomplete
          | .invalid => .invalid
          | .ok n rest3 =>
            if 0xDC00 ≤ n ∧ n ≤ 0xDFFF then .invalid           -- lone trailing surrogate
            else if 0xD800 ≤ n ∧ n ≤ 0xDBFF then
              -- a leading surrogate must be followed by `\uDC00..DFFF`
              match rest3 with
              | [] => .incomplete
              | c1 :: rest4 =>
                if c1 ≠ 92 then .invalid else
                match rest4 with
                | [] => .incomplete
                | c2 :: rest5 =>
                  if c2 ≠ 117 then .invalid else
                  match scanHex4 rest5 with
                  | .incomplete => .incomplete
                  | .invalid => .invalid
                  | .ok m rest6 =>
                    if 0xDC00 ≤ m ∧ m ≤ 0xDFFF then
                      scanStringBody fuel
                        (acc ++ utf8OfCode (0x10000 + (n - 0xD800) * 1024 + (m - 0xDC00))) rest6
                    else .invalid
            else scanStringBody fuel (acc ++ utf8OfCode n) rest3
        else .invalid
    else if b < 32 then .invalid                      -- control character inside a string
    else scanStringBody fuel (acc ++ [b]) rest

/-- a literal `true` / `false` / `null` after its first byte -/
def scanIdent : Bytes → Bytes → Scan JVal
  | [], rest => .ok .scalar rest
  | _ :: _, [] => .incomplete                         -- EofWhileParsingValue
  | c :: cs, b :: rest => if b = c then scanIdent cs rest else .invalid

def isDigitB (b : UInt8) : Bool := 48 ≤ b && b ≤ 57

def dropDigits : Bytes → Bytes
  | [] => []
  | b :: bs => if isDigitB b then dropDigits bs else b :: bs

/-- a number whose optional minus sign has been consumed -/
def scanNumber : Bytes → Scan JVal
  | [] => .incomplete
  | b :: rest =>
    if !isDigitB b then .invalid else
    let afterInt : Option Bytes :=
      if b = 48 then (match rest with
        | d :: _ => if isDigitB d then none else some rest
        | [] => some rest)
      else some (dropDigits rest)
    match afterInt with
    | none => .invalid
    | some r1 =>
      let frac : Scan Unit :=
        match r1 with
        | 46 :: r2 =>
          (match r2 with
           | [] => .incomplete
           | d :: _ => if isDigitB d then .ok () (dropDigits r2) else .invalid)
        | _ => .ok () r1
      match frac with
      | .incomplete => .incomplete
      | .invalid => .invalid
      | .ok _ r3 =>
        match r3 with
        | e :: r4 =>
          if e = 101 ∨ e = 69 then
            let r5 := match r4 with
              | s :: r => if s = 43 ∨ s = 45 then r else r4
              | [] => r4
            (match r5 with
             | [] => .incomplete
             | d :: _ => if isDigitB d then .ok .scalar (dropDigits r5) else .invalid)
          else .ok .scalar r3
        | [] => .ok .scalar r3

mutual
/-- one JSON value after leading white space has been skipped -/
def scanValue : Nat → Bytes → Scan JVal
  | 0, _ => .incomplete
  | _, [] => .incomplete                               -- EofWhileParsingValue
  | fuel + 1, b :: rest =>
    if b = 34 then
      match scanStringBody (rest.length + 1) [] rest with
      | .ok s r => .ok (.str s) r
      | .incomplete => .incomplete
      | .invalid => .invalid
    else if b = 91 then scanArrayFirst fuel (skipWs rest)
    else if b = 123 then scanObjectFirst fuel (skipWs rest)
    else if b = 116 then scanIdent (bytesOfString "rue") rest
    else if b = 102 then scanIdent (bytesOfString "alse") rest
    else if b = 110 then scanIdent (bytesOfString "ull") rest
    else if b = 45 then scanNumber rest
    else if isDigitB b then scanNumber (b :: rest)
    else .invalid

/-- after `[` and white space -/
def scanArrayFirst : Nat → Bytes → Scan JVal
  | 0, _ => .incomplete
  | _, [] => .incomplete                               -- EofWhileParsingList
  | fuel + 1, b :: rest =>
    if b = 93 then .ok (.arr []) rest
    else
      match scanValue fuel (b :: rest) with
      | .incomplete => .incomplete
      | .invalid => .invalid
      | .ok v r =>
        match scanArrayRest fuel (skipWs r) with
        | .ok (.arr vs) r2 => .ok (.arr (v :: vs)) r2
        | .ok _ _ => .invalid
        | .incomplete => .incomplete
        | .invalid => .invalid

/-- after an element: `,` value … or `]` -/
def scanArrayRest : Nat → Bytes → Scan JVal
  | 0, _ => .incomplete
  | _, [] => .incomplete
  | fuel + 1, b :: rest =>
    if b = 93 then .ok (.arr []) rest
    else if b = 44 then
      match skipWs rest with
      | [] => .incomplete
      | c :: r0 =>
        if c = 93 then .invalid                        -- trailing comma
        else
          match scanValue fuel (c :: r0) with
          | .incomplete => .incomplete
          | .invalid => .invalid
          | .ok v r =>
            match scanArrayRest fuel (skipWs r) with
            | .ok (.arr vs) r2 => .ok (.arr (v :: vs)) r2
            | .ok _ _ => .invalid
            | .incomplete => .incomplete
            | .invalid => .invalid
    else .invalid

/-- after `{` and white space -/
def scanObjectFirst : Nat → Bytes → Scan JVal
  | 0, _ => .incomplete
  | _, [] => .incomplete                               -- EofWhileParsingObject
  | fuel + 1, b :: rest =>
    if b = 125 then .ok (.obj []) rest
    else scanMember fuel (b :: rest)

/-- `"key" : value` followed by `,` member … or `}` -/
def scanMember : Nat → Bytes → Scan JVal
  | 0, _ => .incomplete
  | _, [] => .incomplete
  | fuel + 1, b :: rest =>
    if b ≠ 34 then .invalid                            -- key must be a string
    else
      match scanStringBody (rest.length + 1) [] rest with
      | .incomplete => .incomplete
      | .invalid => .invalid
      | .ok key r =>
        match skipWs r with
        | [] => .incomplete
        | c :: r1 =>
          if c ≠ 58 then .invalid
          else
            match skipWs r1 with
            | [] => .incomplete
            | v0 :: r2 =>
              match scanValue fuel (v0 :: r2) with
              | .incomplete => .incomplete
              | .invalid => .invalid
              | .ok v r3 =>
                match skipWs r3 with
                | [] => .incomplete
                | d :: r4 =>
                  if d = 125 then .ok (.obj [(key, v)]) r4
                  else if d = 44 then
                    match skipWs r4 with
                    | [] => .incomplete
                    | k0 :: r5 =>
                      if k0 = 125 then .invalid        -- trailing comma
                      else
                        match scanMember fuel (k0 :: r5) with
                        | .ok (.obj ms) r6 => .ok (.obj ((key, v) :: ms)) r6
                        | .ok _ _ => .invalid
                        | .incomplete => .incomplete
                        | .invalid => .invalid
                  else .invalid
end

/-! ### the untagged `Output` enum -/

inductive Reply
  | rows (r : List (List Bytes))
  | err (msg : Bytes)
  deriving DecidableEq, Repr

def fieldValues (fields : List (Bytes × JVal)) (name : Bytes) : List JVal :=
  (fields.filter (fun p => p.1 = name)).map (·.2)

def asStrings : List JVal → Option (List Bytes)
  | [] => some []
  | .str s :: rest => (asStrings rest).map (s :: ·)
  | _ :: _ => none

def asRows : List JVal → Option (List (List Bytes))
  | [] => some []
  | .arr row :: rest =>
    match asStrings row, asRows rest with
    | some r, some rs => some (r :: rs)
    | _, _ => none
  | _ :: _ => none

/-- `#[serde(untagged)] enum Output { Success { result }, Failed { err } }`: the first variant that
    fits; unknown fields are ignored, a duplicated field makes the variant fail -/
def toReply : JVal → Option Reply
  | .obj fields =>
    let success : Option Reply :=
      match fieldValues fields (bytesOfString "result") with
      | [.arr rows] => (asRows rows).map Reply.rows
      | _ => none
    match success with
    | some r => some r
    | none =>
      match fieldValues fields (bytesOfString "err") with
      | [.str s] => some (.err s)
      | _ => none
  | _ => none

/-! ### `JsonDecoder::decode` -/

inductive Decoded
  | frame (r : Reply) (rest : Bytes)      -- `Ok(Some(v))`, buffer advanced
  | needMore                               -- `Ok(None)`
  | error                                  -- `Err(e)`
  deriving Repr

/-- bytes that may follow a scalar in a stream (`peek_end_of_value`) -/
def endsValue (b : UInt8) : Bool :=
  isJsonWs b || b = 34 || b = 91 || b = 93 || b = 123 || b = 125 || b = 44 || b = 58

def decode (buf : Bytes) : Decoded :=
  match skipWs buf with
  | [] => .needMore                        -- `inner.next() = None`: nothing but white space
  | b :: rest =>
    match scanValue (buf.length + 1) (b :: rest) with
    | .incomplete => .needMore
    | .invalid => .error
    | .ok v r =>
      let selfDelimiting := b = 34 || b = 91 || b = 123
      if !selfDelimiting && (match r with | c :: _ => !endsValue c | [] => false) then .error
      else match toReply v with
        | some reply => .frame reply r
        | none => .error

/-! ### `FramedRead::poll_next` + `run` -/

inductive CallResult
  | reply (r : Reply)
  | failed                                 -- `Some(Err(_))` or `None` (→ UnexpectedEof): the call errs
  | pending                                -- no more input and the stream is still open: the call waits
  deriving DecidableEq, Repr

structure FrState where
  buf : Bytes := []
  eof : Bool := false
  readable : Bool := false
  errored : Bool := false

/-- what arrives on the pipe: chunks, then either end-of-file or nothing more -/
structure Feed where
  chunks : List Bytes
  closes : Bool                            -- after the chunks the engine closes its stdout / exits

/-- one `stdout.next().await`; `fuel` bounds the loop (two iterations per chunk + 4 suffice) -/
def pollNext : Nat → FrState → Feed → CallResult × FrState × Feed
  | 0, st, fd => (.pending, st, fd)
  | fuel + 1, st, fd =>
    if st.errored then (.failed, { st with readable := false, errored := false }, fd)
    else if st.readable then
      if st.eof then
        -- `decode_eof`
        match decode st.buf with
        | .frame r rest => (.reply r, { st with buf := rest }, fd)
        | .error => (.failed, { st with errored := true }, fd)
        | .needMore =>
          if st.buf.isEmpty then (.failed, { st with readable := false }, fd)   -- `None`
          else (.failed, { st with errored := true }, fd)                       -- "bytes remaining on stream"
      else
        match decode st.buf with
        | .frame r rest => (.reply r, { st with buf := rest }, fd)
        | .error => (.failed, { st with errored := true }, fd)
        | .needMore => pollNext fuel { st with readable := false } fd
    else
      -- read more
      match fd.chunks with
      | c :: cs =>
        if c.isEmpty then pollNext fuel st { fd with chunks := cs }
        else pollNext fuel { st with buf := st.buf ++ c, eof := false, readable := true } { fd with chunks := cs }
      | [] =>
        if fd.closes then
          if st.eof then (.failed, st, fd)                                        -- second EOF: `None`
          else pollNext fuel { st with eof := true, readable := true } fd
        else (.pending, st, fd)

/-- successive calls of `run` against one byte feed -/
def runCalls : Nat → FrState → Feed → List CallResult
  | 0, _, _ => []
  | n + 1, st, fd =>
    let r := pollNext (2 * fd.chunks.length + 6) st fd
    r.1 :: runCalls n r.2.1 r.2.2

end Slt
