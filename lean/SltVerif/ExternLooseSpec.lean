/-
Specification side of C20, second part: replies as ANY engine may write them — the two reply shapes with
arbitrary JSON white space between the tokens and arbitrary valid JSON string escapes (`\/`, `é`,
surrogate pairs, upper-case hex digits, …), e.g. the output of Python's `json.dumps` (`", "`, `": "`,
`ensure_ascii`).  The canonical encoding `encReply` of `ExternSpec` is the special case "no white space,
serde_json's escapes" (`Lemmas/ExternLooseCanon.lean`).  Only definitions here.
-/
import SltVerif.ExternSpec
namespace Slt

/-! ### string literals -/

/-- one item of a JSON string literal -/
inductive StrItem
  | raw (b : UInt8)                          -- a byte written verbatim (also bytes ≥ 0x80)
  | esc (e : UInt8)                          -- `\"` `\\` `\/` `\b` `\f` `\n` `\r` `\t`; `e` is the letter
  | u (a b c d : UInt8)                      -- `\uXXXX`, not a surrogate
  | pair (a b c d a' b' c' d' : UInt8)       -- `\uD8XX\uDCXX`: a surrogate pair
  deriving Repr, DecidableEq

def isHex (x : UInt8) : Bool := (hexDigitVal x).isSome

def hexVal (a b c d : UInt8) : Nat :=
  (hexDigitVal a).getD 0 * 4096 + (hexDigitVal b).getD 0 * 256 + (hexDigitVal c).getD 0 * 16 +
    (hexDigitVal d).getD 0

/-- the byte a simple escape letter stands for -/
def unescape (e : UInt8) : Option UInt8 :=
  if e = 34 then some 34 else if e = 92 then some 92 else if e = 47 then some 47
  else if e = 98 then some 8 else if e = 102 then some 12 else if e = 110 then some 10
  else if e = 114 then some 13 else if e = 116 then some 9 else none

/-- RFC 8259: which items are allowed -/
def StrItem.WF : StrItem → Prop
  | .raw b => b ≠ 34 ∧ b ≠ 92 ∧ ¬ b < 32
  | .esc e => (unescape e).isSome = true
  | .u a b c d => isHex a = true ∧ isHex b = true ∧ isHex c = true ∧ isHex d = true ∧
      ¬ (0xD800 ≤ hexVal a b c d ∧ hexVal a b c d ≤ 0xDFFF)
  | .pair a b c d a' b' c' d' =>
      (isHex a = true ∧ isHex b = true ∧ isHex c = true ∧ isHex d = true) ∧
      (isHex a' = true ∧ isHex b' = true ∧ isHex c' = true ∧ isHex d' = true) ∧
      (0xD800 ≤ hexVal a b c d ∧ hexVal a b c d ≤ 0xDBFF) ∧
      (0xDC00 ≤ hexVal a' b' c' d' ∧ hexVal a' b' c' d' ≤ 0xDFFF)

instance (i : StrItem) : Decidable i.WF := by
  cases i <;> (simp only [StrItem.WF]; infer_instance)

/-- the bytes on the wire -/
def StrItem.enc : StrItem → Bytes
  | .raw b => [b]
  | .esc e => [92, e]
  | .u a b c d => [92, 117, a, b, c, d]
  | .pair a b c d a' b' c' d' => [92, 117, a, b, c, d, 92, 117, a', b', c', d']

/-- the bytes denoted -/
def StrItem.dec : StrItem → Bytes
  | .raw b => [b]
  | .esc e => [(unescape e).getD 0]
  | .u a b c d => utf8OfCode (hexVal a b c d)
  | .pair a b c d a' b' c' d' =>
      utf8OfCode (0x10000 + (hexVal a b c d - 0xD800) * 1024 + (hexVal a' b' c' d' - 0xDC00))

/-- a string literal `"…"` -/
def encLStr (s : List StrItem) : Bytes := 34 :: (s.flatMap StrItem.enc ++ [34])
def decLStr (s : List StrItem) : Bytes := s.flatMap StrItem.dec
def WFLStr (s : List StrItem) : Prop := ∀ i ∈ s, i.WF

instance (s : List StrItem) : Decidable (WFLStr s) := by unfold WFLStr; infer_instance

/-! ### arrays with white space -/

/-- an array element with the white space before and after it -/
structure Wsd (α : Type) where
  pre : Bytes := []
  val : α
  post : Bytes := []

/-- `,e,e…]` -/
def encRestW {α : Type} (E : α → Bytes) : List (Wsd α) → Bytes
  | [] => [93]
  | x :: l => 44 :: (x.pre ++ (E x.val ++ (x.post ++ encRestW E l)))

/-- an array: its elements, and the white space between the brackets when there is no element -/
structure ArrW (α : Type) where
  gap : Bytes := []
  elems : List (Wsd α)

def encArrW {α : Type} (E : α → Bytes) (a : ArrW α) : Bytes :=
  match a.elems with
  | [] => 91 :: (a.gap ++ [93])
  | x :: l => 91 :: (x.pre ++ (E x.val ++ (x.post ++ encRestW E l)))

def WFArrW {α : Type} (P : α → Prop) (a : ArrW α) : Prop :=
  AllWs a.gap ∧ ∀ x ∈ a.elems, AllWs x.pre ∧ AllWs x.post ∧ P x.val

instance {α : Type} (P : α → Prop) [DecidablePred P] (a : ArrW α) : Decidable (WFArrW P a) := by
  unfold WFArrW; infer_instance

def ArrW.vals {α : Type} (a : ArrW α) : List α := a.elems.map (·.val)

/-! ### replies -/

abbrev RowW := ArrW (List StrItem)
abbrev RowsW := ArrW RowW

def encRowW : RowW → Bytes := encArrW encLStr
def encRowsW : RowsW → Bytes := encArrW encRowW
def WFRowW : RowW → Prop := WFArrW WFLStr
def WFRowsW : RowsW → Prop := WFArrW WFRowW
instance : DecidablePred WFLStr := fun s => inferInstanceAs (Decidable (WFLStr s))
instance : DecidablePred WFRowW := fun r => by unfold WFRowW; infer_instance
instance : DecidablePred WFRowsW := fun r => by unfold WFRowsW; infer_instance

def RowW.row (r : RowW) : List Bytes := r.vals.map decLStr
def RowsW.rows (rs : RowsW) : List (List Bytes) := rs.vals.map RowW.row

/-- `{ "key" : value }` with its four white-space gaps -/
structure ObjW (α : Type) where
  w₁ : Bytes := []
  key : List StrItem
  w₂ : Bytes := []
  w₃ : Bytes := []
  val : α
  w₄ : Bytes := []

def encObjW {α : Type} (E : α → Bytes) (o : ObjW α) : Bytes :=
  123 :: (o.w₁ ++ (encLStr o.key ++ (o.w₂ ++ 58 :: (o.w₃ ++ (E o.val ++ (o.w₄ ++ [125]))))))

def WFObjW {α : Type} (P : α → Prop) (o : ObjW α) : Prop :=
  AllWs o.w₁ ∧ AllWs o.w₂ ∧ AllWs o.w₃ ∧ AllWs o.w₄ ∧ WFLStr o.key ∧ P o.val

instance {α : Type} (P : α → Prop) [DecidablePred P] (o : ObjW α) : Decidable (WFObjW P o) := by
  unfold WFObjW; infer_instance

/-- a reply as written by some engine -/
inductive LooseReply
  | rows (o : ObjW RowsW)
  | err (o : ObjW (List StrItem))

def LooseReply.enc : LooseReply → Bytes
  | .rows o => encObjW encRowsW o
  | .err o => encObjW encLStr o

def LooseReply.WF : LooseReply → Prop
  | .rows o => WFObjW WFRowsW o ∧ decLStr o.key = bytesOfString "result"
  | .err o => WFObjW WFLStr o ∧ decLStr o.key = bytesOfString "err"

instance (L : LooseReply) : Decidable L.WF := by
  cases L <;> (simp only [LooseReply.WF]; infer_instance)

/-- the reply it denotes -/
def LooseReply.reply : LooseReply → Reply
  | .rows o => .rows o.val.rows
  | .err o => .err (decLStr o.val)

/-- the bytes an engine writes for a sequence of replies, each preceded by white space -/
def looseStream (items : List (Bytes × LooseReply)) : Bytes :=
  items.flatMap (fun i => i.1 ++ i.2.enc)

end Slt
