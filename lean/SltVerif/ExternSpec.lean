/-
Specification side of property C20 (external-engine driver): a canonical JSON encoding of a reply
(what a well-behaved engine writes), white-space padding, proper prefixes (truncated output), the
byte stream made of several padded replies, and the "dead" framing states after end-of-file.
Only definitions here; lemmas are in `Lemmas/Extern*.lean`, property theorems in `Props/C20.lean`.
-/
import SltVerif.Extern
namespace Slt

/-! ### canonical encoding of replies -/

/-- the tail of a JSON array after an element: `,e,e…]` -/
def encRest {α : Type} (E : α → Bytes) : List α → Bytes
  | [] => [93]
  | a :: l => 44 :: (E a ++ encRest E l)

/-- a JSON array `[e,e,…]` whose elements are encoded by `E` -/
def encArr {α : Type} (E : α → Bytes) : List α → Bytes
  | [] => [91, 93]
  | a :: l => 91 :: (E a ++ encRest E l)

/-- one row: `["a","b",…]`, the strings escaped by `jsonString` -/
def encRow : List Bytes → Bytes := encArr jsonString

/-- all rows: `[["a","b"],["c","d"],…]` -/
def encRows : List (List Bytes) → Bytes := encArr encRow

/-- `{"result":[[…],…]}` or `{"err":"…"}` -/
def encReply : Reply → Bytes
  | .rows rs => 123 :: (jsonString (bytesOfString "result") ++ 58 :: (encRows rs ++ [125]))
  | .err m => 123 :: (jsonString (bytesOfString "err") ++ 58 :: (jsonString m ++ [125]))

/-- the JSON value a row / a reply denotes -/
def rowVal (row : List Bytes) : JVal := .arr (row.map .str)
def rowsVal (rs : List (List Bytes)) : JVal := .arr (rs.map rowVal)

/-- the value the engine must find in a request -/
def requestVal (sql : Bytes) : JVal := .obj [(bytesOfString "sql", .str sql)]

/-! ### padding, truncation, streams -/

/-- only JSON white space (blank, `\n`, `\t`, `\r`) -/
def AllWs (pad : Bytes) : Prop := ∀ b ∈ pad, isJsonWs b = true

instance (pad : Bytes) : Decidable (AllWs pad) := by unfold AllWs; infer_instance

/-- a reply surrounded by white space -/
def padded (pad₁ : Bytes) (r : Reply) (pad₂ : Bytes) : Bytes := pad₁ ++ encReply r ++ pad₂

/-- `p` is a proper prefix of `x` (the output was cut somewhere before its end) -/
def ProperPrefix (p x : Bytes) : Prop := p <+: x ∧ p ≠ x

instance (p x : Bytes) : Decidable (ProperPrefix p x) := by unfold ProperPrefix; infer_instance

/-- the bytes an engine writes for a sequence of replies, each preceded by its own padding -/
def replyStream (items : List (Bytes × Reply)) : Bytes :=
  items.flatMap (fun i => i.1 ++ encReply i.2)

/-- framing states in which every further call fails: end-of-file has been seen and either an error
    is latched or nothing is left to decode -/
def FrState.Dead (st : FrState) : Prop := st.eof = true ∧ (st.errored = true ∨ st.readable = false)

/-- the state a call leaves behind after returning a frame -/
def FrState.after (x : Bytes) : FrState := { buf := x, eof := false, readable := true, errored := false }

/-- a state that can still deliver frames: not at end-of-file, no latched error -/
def FrState.Live (st : FrState) : Prop := st.eof = false ∧ st.errored = false

/-- lock-step driving: the chunks of the k-th batch reach the pipe only after the k-th call has started;
    chunks a call left unread stay in the pipe; the stream stays open -/
def runLockstep : FrState → List Bytes → List (List Bytes) → List CallResult
  | _, _, [] => []
  | st, unread, batch :: batches =>
    let r := pollNext (2 * (unread ++ batch).length + 6) st ⟨unread ++ batch, false⟩
    r.1 :: runLockstep r.2.1 r.2.2.chunks batches

/-- one request/reply exchange in lock-step driving: what the engine writes and how it is chunked -/
structure Exchange where
  pad₁ : Bytes
  reply : Reply
  pad₂ : Bytes
  chunks : List Bytes

def Exchange.WF (e : Exchange) : Prop :=
  AllWs e.pad₁ ∧ AllWs e.pad₂ ∧ e.chunks.flatten = padded e.pad₁ e.reply e.pad₂

/-! ### sanity checks of the encoding -/

example : encReply (.rows [[bytesOfString "a", bytesOfString "b\"c"], []]) =
    bytesOfString "{\"result\":[[\"a\",\"b\\\"c\"],[]]}" := by decide +kernel
example : encReply (.rows []) = bytesOfString "{\"result\":[]}" := by decide +kernel
example : encReply (.err (bytesOfString "no such table\n")) =
    bytesOfString "{\"err\":\"no such table\\n\"}" := by decide +kernel

end Slt
