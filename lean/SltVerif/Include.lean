/-
Model of `parse_file` / `parse_file_inner` (parser.rs 963-1008): recursive expansion of `include`
records over an abstract file system, with `glob` 0.3.1 restricted to patterns made of literal
characters, `*` and `?` per path component (matches in ascending path order).
-/
import SltVerif.Parser
namespace Slt

/-- files only: path (components joined by '/') ↦ content; directories are implicit -/
abbrev Fs := List (Str × Str)

def Fs.read (fs : Fs) (p : Str) : Option Str :=
  match fs with
  | [] => none
  | (q, c) :: rest => if q = p then some c else Fs.read rest p

/-- split at '/' -/
def splitSlash : Str → List Str
  | [] => [[]]
  | c :: cs =>
    if c = '/' then [] :: splitSlash cs
    else match splitSlash cs with
      | [] => [[c]]
      | l :: ls => (c :: l) :: ls

def joinSlash (cs : List Str) : Str := joinWith ['/'] cs

/-- `Pattern::matches` for one component: `*` any sequence, `?` any one character -/
def wildMatch : Str → Str → Bool
  | [], [] => true
  | [], _ :: _ => false
  | p :: ps, s =>
    if p = '*' then
      wildMatch ps s || (match s with
        | [] => false
        | _ :: ss => wildMatchStar ps ss (p :: ps))
    else match s with
      | [] => false
      | c :: ss => (p = '?' || p = c) && wildMatch ps ss
where
  /-- `*` consuming further characters: try every suffix (structural on the subject) -/
  wildMatchStar (ps : Str) : Str → Str → Bool
    | [], _ => wildMatch ps []
    | c :: ss, full => wildMatch ps (c :: ss) || wildMatchStar ps ss full

def hasMeta (c : Str) : Bool := c.any (fun x => x = '*' || x = '?')

/-- resolve `.` and `..` components (what the OS does when the walk checks a path) -/
def normComponents : List Str → List Str → List Str
  | acc, [] => acc.reverse
  | acc, c :: cs =>
    if c = ['.'] then normComponents acc cs
    else if c = ['.', '.'] then
      (match acc with
       | [] => normComponents [c] cs
       | a :: acc' => if a = ['.', '.'] then normComponents (c :: a :: acc') cs
                      else normComponents acc' cs)
    else normComponents (c :: acc) cs

def normPath (p : Str) : Str := joinWith ['/'] (normComponents [] (splitSlash p))

/-- is `p` a proper directory prefix of some file, or a file -/
def Fs.isDir (fs : Fs) (p : Str) : Bool :=
  p.isEmpty || fs.any (fun f => (p ++ ['/']).isPrefixOf f.1)
def Fs.isFile (fs : Fs) (p : Str) : Bool := fs.any (fun f => f.1 = p)
def Fs.pathExists (fs : Fs) (p : Str) : Bool := fs.isFile (normPath p) || fs.isDir (normPath p)

def strLe (a b : Str) : Bool := decide (a ≤ b)

def dedup : List Str → List Str
  | [] => []
  | a :: rest => if rest.contains a then dedup rest else a :: dedup rest

/-- names of the entries of directory `d` (`""` = the current directory), sorted -/
def Fs.entries (fs : Fs) (d : Str) : List Str :=
  let nd := normPath d
  let pre := if nd.isEmpty then [] else nd ++ ['/']
  let names := fs.filterMap (fun f =>
    if pre.isPrefixOf f.1 then (splitSlash (f.1.drop pre.length)).head? else none)
  (dedup names).mergeSort strLe

/-- `path.join(s)`; the walk drops a leading `.` component (`curdir` case of glob's `fill_todo`) -/
def joinPath (d c : Str) : Str := if d.isEmpty ∨ d = ['.'] then c else d ++ '/' :: c

/-- one step of the glob walk: extend every prefix by component `c` (a literal component must
    exist, a wildcard component lists the directory in sorted order) -/
def globStep (fs : Fs) (prefixes : List Str) (c : Str) : List Str :=
  prefixes.flatMap (fun d =>
    if hasMeta c then ((fs.entries d).filter (wildMatch c)).map (joinPath d)
    else if fs.pathExists (joinPath d c) then [joinPath d c] else [])

/-- `glob::glob(pattern)` for a relative pattern: matching paths in ascending order -/
def glob (fs : Fs) (pattern : Str) : List Str :=
  (splitSlash pattern).foldl (globStep fs) [[]]

/-- directory part of a path: `path_buf.pop()` -/
def parentDir (p : Str) : Str :=
  joinSlash (splitSlash p).dropLast

/-- `path_buf.pop(); path_buf.push(filename)` -/
def resolveInclude (including : Str) (filename : Str) : Str :=
  match filename with
  | '/' :: _ => filename
  | _ =>
    let d := parentDir including
    if (splitSlash including).length ≤ 1 then filename else d ++ '/' :: filename

/-- a record with its provenance: own file, chain of include sites (innermost first) -/
structure LRec where
  record : Rec
  file : Str
  upper : List (Str × Nat)
  deriving DecidableEq, Repr

inductive IFail
  | parse (f : PFail) (file : Str) (upper : List (Str × Nat))
  | notFound (file : Str) (upper : List (Str × Nat))             -- located at `file:0`
  | unreadable (file : Str) (upper : List (Str × Nat))           -- exists but cannot be read as text
                                                                 -- (a directory): `ReadFile`, at `file:0`
  | emptyInclude (file : Str) (line : Nat) (upper : List (Str × Nat))
  | outOfFuel
  deriving DecidableEq, Repr

/-- the path holds no text file: it does not exist (`FileNotFound`), or it exists but reading it
    fails — in the model: it is a directory (`ReadFile`; a file that is not valid UTF-8 fails the same
    way but has no representation in `Fs`) -/
def missingKind (fs : Fs) (file : Str) (upper : List (Str × Nat)) : IFail :=
  if fs.isDir (normPath file) then .unreadable file upper else .notFound file upper

mutual
/-- `parse_file_inner`; `fuel` bounds the include depth (an include cycle recurses forever in the
    real parser; the property quantifies over file trees, i.e. acyclic includes) -/
def parseFile (cfg : PCfg) (fs : Fs) (fuel : Nat) (file : Str) (upper : List (Str × Nat)) :
    Except IFail (List LRec) :=
  match fuel with
  | 0 => .error .outOfFuel
  | fuel' + 1 =>
    match fs.read (normPath file) with   -- the OS resolves `.` / `..`
    | none => .error (missingKind fs file upper)
    | some script =>
      match parse cfg script with
      | .error f => .error (.parse f file upper)
      | .ok recs => expandRecs cfg fs fuel' file upper recs
termination_by (fuel, 0, 0)

/-- the `for rec in parse_inner(...)` loop -/
def expandRecs (cfg : PCfg) (fs : Fs) (fuel : Nat) (file : Str) (upper : List (Str × Nat))
    (recs : List Rec) : Except IFail (List LRec) :=
  match recs with
  | [] => .ok []
  | r :: rs =>
    match r with
    | .incl line pattern =>
      let found := glob fs (resolveInclude file pattern)
      if found.isEmpty then .error (.emptyInclude file line upper)
      else
        match expandFiles cfg fs fuel file ((file, line) :: upper) found with
        | .error e => .error e
        | .ok inner =>
          match expandRecs cfg fs fuel file upper rs with
          | .error e => .error e
          | .ok rest => .ok (⟨r, file, upper⟩ :: inner ++ rest)
    | _ =>
      match expandRecs cfg fs fuel file upper rs with
      | .error e => .error e
      | .ok rest => .ok (⟨r, file, upper⟩ :: rest)
termination_by (fuel, 2, recs.length)

/-- the `for included_file in iter` loop: begin marker, expansion, end marker per match -/
def expandFiles (cfg : PCfg) (fs : Fs) (fuel : Nat) (including : Str) (site : List (Str × Nat))
    (names : List Str) : Except IFail (List LRec) :=
  match names with
  | [] => .ok []
  | f :: rest =>
    match parseFile cfg fs fuel f site with
    | .error e => .error e
    | .ok inner =>
      match expandFiles cfg fs fuel including site rest with
      | .error e => .error e
      | .ok more =>
        .ok (⟨.beginInclude f, including, site.drop 1⟩ :: inner ++
             ⟨.endInclude f, including, site.drop 1⟩ :: more)
termination_by (fuel, 1, names.length)
end

end Slt
