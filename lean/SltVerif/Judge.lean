/-
Model of `Runner::run_async_no_retry`'s verdict table (runner.rs 989-1214) and of
`ExpectedError::is_match` (parser.rs 426-432).
-/
import SltVerif.Shape
namespace Slt

/-- `RecordOutput` (error payloads reduced to their `to_string()` text) -/
inductive Output
  | nothing
  | query (types : List ColT) (rows : List Row) (error : Option Str)
  | statement (count : Nat) (error : Option Str)
  | system (stdout : Option Str) (error : Option Str)
  deriving DecidableEq, Repr

/-- `TestErrorKind` (payloads dropped) -/
inductive FailKind
  | unexpectedOk          -- `Ok`: expected to fail but succeeded
  | unexpectedFail        -- `Fail`
  | systemFail
  | stdoutMismatch
  | errorMismatch
  | countMismatch         -- `StatementResultMismatch`
  | resultMismatch        -- `QueryResultMismatch`
  | columnsMismatch       -- `QueryResultColumnsMismatch`
  | parseError
  deriving DecidableEq, Repr

inductive Verdict
  | pass
  | fail (k : FailKind) (detail : Str)   -- kind + the `actual` / `err` payload of the `TestErrorKind`
  | unreachable           -- the `_ => unreachable!()` arm
  deriving DecidableEq, Repr

/-- the parts of the runner state / configuration the judge reads -/
structure JCfg where
  resultMode : Option ResultMode
  strictCols : Bool
  regexMatch : Str → Str → Bool

/-- `ExpectedError::is_match` -/
def ExpErr.isMatch (rm : Str → Str → Bool) (e : ExpErr) (err : Str) : Bool :=
  match e with
  | .empty => true
  | .inline re => rm re err
  | .multi t => decide (trim t = trim err)

def judgeStatement (c : JCfg) (exp : SExp) : Output → Verdict
  | .nothing => .pass
  | .query _ rows none =>
    (match exp with
     | .error _ => .fail .unexpectedOk []
     | .count n =>
       if n ≠ rows.length then
         .fail .countMismatch (kw "returned " ++ natToStr rows.length ++ kw " rows")
       else .pass
     | .ok => .pass)
  | .statement count error =>
    (match error, exp with
     | none, .error _ => .fail .unexpectedOk []
     | none, .count n =>
       if n ≠ count then .fail .countMismatch (kw "affected " ++ natToStr count ++ kw " rows")
       else .pass
     | none, .ok => .pass
     | some e, .error ee => if ee.isMatch c.regexMatch e then .pass else .fail .errorMismatch e
     | some e, _ => .fail .unexpectedFail e)
  | _ => .unreachable

def judgeQuery (c : JCfg) (exp : QExp) : Output → Verdict
  | .nothing => .pass
  | .statement _ none =>
    (match exp with
     | .error _ => .fail .unexpectedOk []
     | .results _ _ _ _ res => if res.isEmpty then .pass else .fail .resultMismatch [])
  | .query types rows error =>
    (match error, exp with
     | none, .error _ => .fail .unexpectedOk []
     | some e, .error ee => if ee.isMatch c.regexMatch e then .pass else .fail .errorMismatch e
     | some e, .results .. => .fail .unexpectedFail e
     | none, .results etypes _ _ _ eres =>
       if !columnsOk c.strictCols types etypes then
         .fail .columnsMismatch (types.map ColT.toChar)
       else if !defaultValidator (applyResultMode c.resultMode rows) eres then
         .fail .resultMismatch (joinNl (rows.map joinSp))
       else .pass)
  | _ => .unreachable

def judgeSystem (expStdout : Option Str) : Output → Verdict
  | .nothing => .pass
  | .system actual error =>
    (match error with
     | some err => .fail .systemFail err
     | none =>
       match expStdout with
       | none => .pass
       | some e =>
         if e ≠ trim (actual.getD []) then .fail .stdoutMismatch (actual.getD []) else .pass)
  | _ => .unreachable

/-- `run_async_no_retry`'s `match (record, &result)` -/
def judge (c : JCfg) (r : Rec) (o : Output) : Verdict :=
  match o with
  | .nothing => .pass
  | o =>
    match r with
    | .statement _ _ _ _ exp _ => judgeStatement c exp o
    | .query _ _ _ _ exp _ => judgeQuery c exp o
    | .system _ _ _ stdout _ => judgeSystem stdout o
    | _ => .unreachable

end Slt
