/-
Every run of the parallel driver is accepted by the monitor (`driver_accepted`), for every
schedule; the end-of-run check; consequences at the level of the driver state.
-/
import SltVerif.Lemmas.CliSim
namespace Slt

variable {c : DCfg} {mgmt : Str} {cfg : MonCfg}

theorem drun_sim_from (wf : DWf c mgmt) (cm : CfgMatch c mgmt cfg) (ls : List DLabel) :
    ∀ (s0 : DSt) (m0 : MonState) (s : DSt), IdxInv c s0 → Sim c s0 m0 →
      monRun cfg {} s0.log = .ok m0 → drun c s0 ls = some s →
      ∃ m, monRun cfg {} s.log = .ok m ∧ Sim c s m ∧ IdxInv c s := by
  induction ls with
  | nil =>
    intro s0 m0 s hi hs hm h
    simp at h; subst h
    exact ⟨m0, hm, hs, hi⟩
  | cons l ls ih =>
    intro s0 m0 s hi hs hm h
    obtain ⟨s1, h1, h2⟩ := drun_cons_some h
    obtain ⟨evs, m1, hlog, hrun, hs1⟩ := dstep_sim wf cm hi hs h1
    exact ih s1 m1 s (dstep_idxInv h1 hi) hs1
      (by rw [hlog]; exact monRun_append_of_ok hm hrun) h2

/-- the simulation along every run from the initial state -/
theorem drun_sim (wf : DWf c mgmt) (cm : CfgMatch c mgmt cfg) {ls : List DLabel} {s : DSt}
    (h : drun c (dinit c) ls = some s) :
    ∃ m, monRun cfg {} s.log = .ok m ∧ Sim c s m ∧ IdxInv c s :=
  drun_sim_from wf cm ls (dinit c) {} s (idxInv_init c) (sim_init c) rfl h

/-! ### the end-of-run check -/

theorem mem_dropList (wf : DWf c mgmt) (rs : List (Nat × FileResult)) {i : Nat} {f : DFile}
    (hf : c.fileAt i = some f) :
    f.db ∈ dropList c rs ↔
      (c.keep && rs.any (fun r => r.1 = i && r.2 = FileResult.err)) = false := by
  unfold dropList
  rw [List.mem_map]
  constructor
  · rintro ⟨p, hp, hpd⟩
    obtain ⟨hp1, hp2⟩ := List.mem_filter.mp hp
    have hpf : c.fileAt p.2 = some p.1 := List.mem_zipIdx_iff_getElem?.mp hp1
    have : p.2 = i := fileAt_db_inj wf hpf hf hpd
    rw [this] at hp2
    simp only [Bool.not_eq_true'] at hp2
    exact hp2
  · intro h
    refine ⟨(f, i), List.mem_filter.mpr ⟨List.mk_mem_zipIdx_iff_getElem?.mpr hf, ?_⟩, rfl⟩
    simp only [h, Bool.not_false]

theorem finish_ok (wf : DWf c mgmt) {s : DSt} {m : MonState} (hs : Sim c s m)
    (hp : s.phase = .finished) : monFinish (monCfgOf c mgmt s) m = none := by
  have cm := cfgMatch_monCfgOf c mgmt s
  rw [monFinish_eq, hs.sessions_nil (hs.inflight_phase (by simp [hp]))]
  simp only
  rw [List.findSome?_eq_none_iff]
  intro db hdb
  unfold finishCheck
  cases hr : s.refused with
  | true => simp [monCfgOf, hr]
  | false =>
    have hcfgr : (monCfgOf c mgmt s).refused = false := hr
    simp only [hcfgr, Bool.false_eq_true, ↓reduceIte]
    -- what was dropped
    have hdl := hs.dropped_late (Or.inr hp)
    rw [hs.toDrop_fin hp, List.append_nil, hr] at hdl
    simp only [Bool.false_eq_true, ↓reduceIte] at hdl
    -- the file of the database
    have hc := hs.created
    rw [hs.toCreate_nil (by simp [hp]), List.append_nil] at hc
    rw [hc] at hdb
    obtain ⟨f, hfm, rfl⟩ := List.mem_map.mp hdb
    obtain ⟨i, hi⟩ := List.getElem?_of_mem hfm
    have hfi : c.fileAt i = some f := hi
    obtain ⟨suf, hsuf, hshape⟩ := wf.shape f hfm
    let cf : CFile :=
      { path := f.path, failed := s.results.any (fun r => r.1 = i && r.2 = FileResult.err) }
    have hcf : cf ∈ (monCfgOf c mgmt s).files := by
      simp only [monCfgOf]
      exact List.mem_map.mpr ⟨(f, i), List.mk_mem_zipIdx_iff_getElem?.mpr hi, rfl⟩
    have hres : fileOfDb (monCfgOf c mgmt s) f.db = some cf := by
      rw [hshape, fileOfDb_eq]
      exact find_dbMatches _ (cm.pairwise wf) cf hcf suf hsuf
    rw [hres]
    have hkeep : (monCfgOf c mgmt s).keep = c.keep := rfl
    simp only [Option.map_some, Option.getD_some, hkeep]
    have hmem := mem_dropList wf s.results hfi
    rw [hdl]
    cases hk : (c.keep && cf.failed) with
    | true =>
      have : f.db ∉ dropList c s.results := by
        intro hx
        have := hmem.mp hx
        rw [this] at hk
        cases hk
      simp [this]
    | false =>
      have : f.db ∈ dropList c s.results := hmem.mpr hk
      simp [this]

/-- **every schedule is accepted**: the log of any run is accepted step by step (for any of the
    monitor configurations `monCfgOf c mgmt s'`), and a finished run passes the end-of-run check -/
theorem drun_monRun (wf : DWf c mgmt) {ls : List DLabel} {s : DSt}
    (h : drun c (dinit c) ls = some s) (s' : DSt) :
    ∃ m, monRun (monCfgOf c mgmt s') {} s.log = .ok m ∧ Sim c s m := by
  obtain ⟨m, h1, h2, _⟩ := drun_sim wf (cfgMatch_monCfgOf c mgmt s') h
  exact ⟨m, h1, h2⟩

theorem drun_accepts (wf : DWf c mgmt) {ls : List DLabel} {s : DSt}
    (h : drun c (dinit c) ls = some s) (hp : s.phase = .finished) :
    accepts (monCfgOf c mgmt s) s.log = none := by
  obtain ⟨m, h1, h2⟩ := drun_monRun wf h s
  unfold accepts
  rw [h1]
  exact finish_ok wf h2 hp

/-! ### consequences at the level of the driver -/

/-- never more files in flight than jobs (needs no hypothesis on the configuration) -/
theorem drun_inflight_le {ls : List DLabel} {s : DSt} (h : drun c (dinit c) ls = some s) :
    s.inflight.length ≤ c.jobs := by
  refine drun_induction (c := c) (fun s => s.inflight.length ≤ c.jobs) ?_ ls _ s
    (by simp [dinit]) h
  intro s l s' hP hstep
  cases l with
  | create => obtain ⟨db, rest, _, _, rfl⟩ := dstep_create_inv hstep; exact hP
  | beginRun => obtain ⟨_, _, rfl⟩ := dstep_beginRun_inv hstep; exact hP
  | start =>
    obtain ⟨i, rest, _, _, h3⟩ := dstep_start_inv hstep
    rcases h3 with ⟨_, _, rfl⟩ | ⟨_, hlen, rfl⟩
    · exact hP
    · simp only [List.length_append, List.length_cons, List.length_nil]; omega
  | openSession i =>
    obtain ⟨ss, f, _, _, _, _, rfl⟩ := dstep_openSession_inv hstep
    show (setSessions s.inflight i (ss ++ [s.nextSess])).length ≤ c.jobs
    unfold setSessions
    rw [List.length_map]
    exact hP
  | sql i k t => obtain ⟨ss, f, _, _, _, _, _, _, _, rfl⟩ := dstep_sql_inv hstep; exact hP
  | finish i r b =>
    obtain ⟨ss, _, _, _, _, _, rfl⟩ := dstep_finish_inv hstep
    exact Nat.le_trans (List.length_filter_le _ _) hP
  | closeSession i k =>
    obtain ⟨ss, _, _, _, rfl⟩ := dstep_closeSession_inv hstep
    show (setSessions s.inflight i (ss.filter (fun x => x ≠ k))).length ≤ c.jobs
    rw [setSessions_length]
    exact hP
  | signal => obtain ⟨_, _, rfl⟩ := dstep_signal_inv hstep; exact hP
  | beginDrop => obtain ⟨_, _, _, rfl⟩ := dstep_beginDrop_inv hstep; exact hP
  | drop => obtain ⟨db, rest, _, _, rfl⟩ := dstep_drop_inv hstep; exact hP
  | done => obtain ⟨_, _, rfl⟩ := dstep_done_inv hstep; exact hP

/-- the monitor state after a run is the replay of the log -/
theorem drun_replay (wf : DWf c mgmt) {ls : List DLabel} {s : DSt}
    (h : drun c (dinit c) ls = some s) : Sim c s (replay s.log) := by
  obtain ⟨m, h1, h2⟩ := drun_monRun wf h s
  have := monRun_replay (pre := []) s.log (by rw [replay_nil]; exact h1)
  simp only [List.nil_append] at this
  rw [← this]
  exact h2

/-- the `create` events of a run: exactly the databases of the files, in order, once the creating
    phase is over -/
theorem drun_creates (wf : DWf c mgmt) {ls : List DLabel} {s : DSt}
    (h : drun c (dinit c) ls = some s) (hp : s.phase ≠ .creating) :
    createdOf s.log = c.files.map (·.db) := by
  have hs := drun_replay wf h
  have := hs.created
  rw [hs.toCreate_nil hp, List.append_nil] at this
  exact this

/-- the `drop` events of a finished run: exactly `dropList` (nothing after a refused connection) -/
theorem drun_drops (wf : DWf c mgmt) {ls : List DLabel} {s : DSt}
    (h : drun c (dinit c) ls = some s) (hp : s.phase = .finished) :
    droppedOf s.log = if s.refused then [] else dropList c s.results := by
  have hs := drun_replay wf h
  have := hs.dropped_late (Or.inr hp)
  rw [hs.toDrop_fin hp, List.append_nil] at this
  exact this

/-- no session is open at the end of the run phase -/
theorem drun_open_nil (wf : DWf c mgmt) {ls : List DLabel} {s : DSt}
    (h : drun c (dinit c) ls = some s) (hp : s.phase ≠ .running) : openAt s.log = [] := by
  have hs := drun_replay wf h
  exact hs.sessions_nil (hs.inflight_phase hp)

theorem count_drop (log : List CEv) (db : Str) :
    log.count (CEv.drop db) = (droppedOf log).count db := by
  induction log with
  | nil => rfl
  | cons e rest ih =>
    cases e with
    | drop db' =>
      simp only [droppedOf, List.filterMap_cons, List.count_cons] at ih ⊢
      rw [ih]
      simp
    | _ => simpa [droppedOf, List.filterMap_cons, List.count_cons] using ih

theorem dropList_nodup (wf : DWf c mgmt) (rs : List (Nat × FileResult)) : (dropList c rs).Nodup :=
  (dropList_sublist c rs).nodup wf.dbs_nodup

end Slt
