/-
Files that have opened a session (`DSt.begun`) are never reported skipped: a file in flight may end
`skipped` only when it found the cancellation flag set before it opened its first session.
-/
import SltVerif.Lemmas.CliSimBase
namespace Slt

/-- `begun` is the set of files with a `connect` in the log; they are in flight or reported, and
    none of them is reported skipped -/
structure BegunInv (c : DCfg) (s : DSt) : Prop where
  placed : ∀ i ∈ s.begun, i ∈ s.inflight.map (·.1) ∨ i ∈ s.results.map (·.1)
  notSkipped : ∀ i ∈ s.begun, (i, FileResult.skipped) ∉ s.results
  connects : ∀ k db, CEv.connect k db ∈ s.log →
    ∃ i f, c.fileAt i = some f ∧ f.db = db ∧ i ∈ s.begun

theorem begunInv_init (c : DCfg) : BegunInv c (dinit c) :=
  ⟨by simp [dinit], by simp [dinit], by simp [dinit]⟩

theorem BegunInv.of_same {c : DCfg} {s s' : DSt} (hi : BegunInv c s) (h1 : s'.begun = s.begun)
    (h2 : s'.inflight.map (·.1) = s.inflight.map (·.1)) (h3 : s'.results = s.results)
    (h4 : ∀ k db, CEv.connect k db ∈ s'.log → CEv.connect k db ∈ s.log) : BegunInv c s' := by
  refine ⟨?_, ?_, ?_⟩
  · rw [h1, h2, h3]; exact hi.placed
  · rw [h1, h3]; exact hi.notSkipped
  · intro k db hk
    rw [h1]
    exact hi.connects k db (h4 k db hk)

theorem IdxInv.results_inflight_disjoint {c : DCfg} {s : DSt} (h : IdxInv c s) {i : Nat}
    (h1 : i ∈ s.results.map (·.1)) (h2 : i ∈ s.inflight.map (·.1)) : False :=
  (List.nodup_append.mp (List.nodup_append.mp h.nodup).1).2.2 i h1 i h2 rfl

theorem IdxInv.pending_disjoint {c : DCfg} {s : DSt} (h : IdxInv c s) {i : Nat}
    (h1 : i ∈ s.pending) (h2 : i ∈ s.inflight.map (·.1) ∨ i ∈ s.results.map (·.1)) : False := by
  have := (List.nodup_append.mp h.nodup).2.2 i
  rcases h2 with h2 | h2
  · exact this (List.mem_append_right _ h2) i h1 rfl
  · exact this (List.mem_append_left _ h2) i h1 rfl

theorem dstep_begunInv {c : DCfg} {s s' : DSt} {l : DLabel} (h : dstep c s l = some s')
    (hx : IdxInv c s) (hi : BegunInv c s) : BegunInv c s' := by
  cases l with
  | create =>
    obtain ⟨db, rest, _, _, rfl⟩ := dstep_create_inv h
    exact hi.of_same rfl rfl rfl (by simp)
  | beginRun =>
    obtain ⟨_, _, rfl⟩ := dstep_beginRun_inv h
    exact hi.of_same rfl rfl rfl (by simp)
  | start =>
    obtain ⟨i, rest, _, hpend, h3⟩ := dstep_start_inv h
    have hip : i ∈ s.pending := by rw [hpend]; exact List.mem_cons_self ..
    rcases h3 with ⟨_, _, rfl⟩ | ⟨_, _, rfl⟩
    · refine ⟨?_, ?_, hi.connects⟩
      · intro j hj
        rcases hi.placed j hj with h1 | h1
        · exact Or.inl h1
        · exact Or.inr (by simp only [List.map_append]; exact List.mem_append_left _ h1)
      · intro j hj hmem
        rcases List.mem_append.mp hmem with hmem | hmem
        · exact hi.notSkipped j hj hmem
        · simp only [List.mem_singleton, Prod.mk.injEq] at hmem
          obtain ⟨rfl, _⟩ := hmem
          exact hx.pending_disjoint hip (hi.placed j hj)
    · refine ⟨?_, hi.notSkipped, hi.connects⟩
      intro j hj
      rcases hi.placed j hj with h1 | h1
      · exact Or.inl (by simp only [List.map_append]; exact List.mem_append_left _ h1)
      · exact Or.inr h1
  | openSession i =>
    obtain ⟨ss, f, _, hs, hf, _, rfl⟩ := dstep_openSession_inv h
    have hmem : i ∈ s.inflight.map (·.1) := List.mem_map.mpr ⟨(i, ss), sessionsOf_mem hs, rfl⟩
    refine ⟨?_, ?_, ?_⟩
    · intro j hj
      simp only [setSessions_map_fst]
      rcases List.mem_cons.mp hj with rfl | hj
      · exact Or.inl hmem
      · exact hi.placed j hj
    · intro j hj hr
      rcases List.mem_cons.mp hj with rfl | hj
      · exact hx.results_inflight_disjoint (List.mem_map.mpr ⟨_, hr, rfl⟩) hmem
      · exact hi.notSkipped j hj hr
    · intro k db hk
      rcases List.mem_append.mp hk with hk | hk
      · obtain ⟨j, g, h1, h2, h3⟩ := hi.connects k db hk
        exact ⟨j, g, h1, h2, List.mem_cons_of_mem _ h3⟩
      · simp only [List.mem_singleton, CEv.connect.injEq] at hk
        obtain ⟨_, rfl⟩ := hk
        exact ⟨i, f, hf, rfl, List.mem_cons_self ..⟩
  | sql i k t =>
    obtain ⟨ss, f, _, _, _, _, _, _, _, rfl⟩ := dstep_sql_inv h
    exact hi.of_same rfl rfl rfl (by simp)
  | finish i r b =>
    obtain ⟨ss, _, hs, hsk, _, _, rfl⟩ := dstep_finish_inv h
    refine ⟨?_, ?_, ?_⟩
    · intro j hj
      by_cases hji : j = i
      · subst hji
        exact Or.inr (by simp)
      · rcases hi.placed j hj with h1 | h1
        · left
          rw [map_fst_filter_ne]
          exact List.mem_filter.mpr ⟨h1, by simpa using hji⟩
        · exact Or.inr (by simp only [List.map_append]; exact List.mem_append_left _ h1)
    · intro j hj hmem
      rcases List.mem_append.mp hmem with hmem | hmem
      · exact hi.notSkipped j hj hmem
      · simp only [List.mem_singleton, Prod.mk.injEq] at hmem
        obtain ⟨rfl, rfl⟩ := hmem
        exact (hsk rfl).2.1 hj
    · intro k db hk
      rcases List.mem_append.mp hk with hk | hk
      · exact hi.connects k db hk
      · obtain ⟨_, _, hk⟩ := List.mem_map.mp hk
        cases hk
  | closeSession i k =>
    obtain ⟨ss, _, _, _, rfl⟩ := dstep_closeSession_inv h
    exact hi.of_same rfl (setSessions_map_fst ..) rfl (by simp)
  | signal =>
    obtain ⟨_, _, rfl⟩ := dstep_signal_inv h
    exact hi.of_same rfl rfl rfl (by simp)
  | beginDrop =>
    obtain ⟨_, _, _, rfl⟩ := dstep_beginDrop_inv h
    exact hi.of_same rfl rfl rfl (by simp)
  | drop =>
    obtain ⟨db, rest, _, _, rfl⟩ := dstep_drop_inv h
    exact hi.of_same rfl rfl rfl (by simp)
  | done =>
    obtain ⟨_, _, rfl⟩ := dstep_done_inv h
    exact hi.of_same rfl rfl rfl (by simp)

theorem drun_begunInv {c : DCfg} (ls : List DLabel) (s : DSt) (h : drun c (dinit c) ls = some s) :
    BegunInv c s :=
  (drun_induction (fun s => IdxInv c s ∧ BegunInv c s)
    (fun _ _ _ hP hs => ⟨dstep_idxInv hs hP.1, dstep_begunInv hs hP.1 hP.2⟩) ls _ s
    ⟨idxInv_init c, begunInv_init c⟩ h).2

/-- a file that has opened a session is never reported skipped -/
theorem begun_not_skipped {c : DCfg} {ls : List DLabel} {s : DSt}
    (h : drun c (dinit c) ls = some s) : ∀ i ∈ s.begun, (i, FileResult.skipped) ∉ s.results :=
  (drun_begunInv ls s h).notSkipped

/-- every `connect` in the log is for the database of a file that has begun -/
theorem connect_begun {c : DCfg} {ls : List DLabel} {s : DSt} (h : drun c (dinit c) ls = some s)
    {k : Nat} {db : Str} (hk : CEv.connect k db ∈ s.log) :
    ∃ i f, c.fileAt i = some f ∧ f.db = db ∧ i ∈ s.begun :=
  (drun_begunInv ls s h).connects k db hk

/-- a file for whose database a session was opened is never reported skipped -/
theorem connect_not_skipped {c : DCfg} {mgmt : Str} {ls : List DLabel} {s : DSt} (wf : DWf c mgmt)
    (h : drun c (dinit c) ls = some s) {i k : Nat} {f : DFile} (hf : c.fileAt i = some f)
    (hk : CEv.connect k f.db ∈ s.log) : (i, FileResult.skipped) ∉ s.results := by
  obtain ⟨j, g, hg, hdb, hj⟩ := connect_begun h hk
  have : j = i := fileAt_db_inj wf hg hf hdb
  subst this
  exact begun_not_skipped h j hj

end Slt
