/-
Cancellation in the parallel driver's transition system: the flag is sticky, after it is set the
driver only closes sessions and drops databases, files started afterwards are skipped.
-/
import SltVerif.Lemmas.CliDriver
namespace Slt

/-- the only events the driver emits once the run is cancelled: closing sessions, dropping databases -/
def CEv.quiet : CEv → Bool
  | .eof _ => true
  | .drop _ => true
  | _ => false

theorem CEv.quiet_not_connect {e : CEv} (h : e.quiet = true) (k : Nat) (db : Str) : e ≠ .connect k db := by
  intro he; subst he; simp [CEv.quiet] at h

theorem CEv.quiet_not_sql {e : CEv} (h : e.quiet = true) (k : Nat) (t : Str) : e ≠ .sql k t := by
  intro he; subst he; simp [CEv.quiet] at h

theorem CEv.quiet_not_create {e : CEv} (h : e.quiet = true) (db : Str) : e ≠ .create db := by
  intro he; subst he; simp [CEv.quiet] at h

theorem CEv.quiet_not_cancel {e : CEv} (h : e.quiet = true) : e ≠ .cancel := by
  intro he; subst he; simp [CEv.quiet] at h

/-- the creating phase is never re-entered -/
theorem dstep_phase {c : DCfg} {s s' : DSt} {l : DLabel} (h : dstep c s l = some s')
    (hp : s.phase ≠ .creating) : s'.phase ≠ .creating := by
  cases l with
  | create => obtain ⟨db, rest, _, _, rfl⟩ := dstep_create_inv h; exact hp
  | beginRun => obtain ⟨_, _, rfl⟩ := dstep_beginRun_inv h; simp
  | start =>
    obtain ⟨i, rest, _, _, h3⟩ := dstep_start_inv h
    rcases h3 with ⟨_, _, rfl⟩ | ⟨_, _, rfl⟩ <;> exact hp
  | openSession i => obtain ⟨ss, f, _, _, _, _, rfl⟩ := dstep_openSession_inv h; exact hp
  | sql i k t => obtain ⟨ss, f, _, _, _, _, _, _, _, rfl⟩ := dstep_sql_inv h; exact hp
  | finish i r b => obtain ⟨ss, _, _, _, _, _, rfl⟩ := dstep_finish_inv h; exact hp
  | closeSession i k => obtain ⟨ss, _, _, _, rfl⟩ := dstep_closeSession_inv h; exact hp
  | signal => obtain ⟨_, _, rfl⟩ := dstep_signal_inv h; exact hp
  | beginDrop => obtain ⟨_, _, _, rfl⟩ := dstep_beginDrop_inv h; simp
  | drop => obtain ⟨db, rest, _, _, rfl⟩ := dstep_drop_inv h; exact hp
  | done => obtain ⟨_, _, rfl⟩ := dstep_done_inv h; simp

/-- the flag is set only outside the creating phase -/
def CancelPhase (s : DSt) : Prop := s.cancelled = true → s.phase ≠ .creating

theorem dstep_cancelPhase {c : DCfg} {s s' : DSt} {l : DLabel} (h : dstep c s l = some s')
    (hi : CancelPhase s) : CancelPhase s' := by
  unfold CancelPhase at *
  cases l with
  | create => obtain ⟨db, rest, _, _, rfl⟩ := dstep_create_inv h; exact hi
  | beginRun => obtain ⟨_, _, rfl⟩ := dstep_beginRun_inv h; simp
  | start =>
    obtain ⟨i, rest, _, _, h3⟩ := dstep_start_inv h
    rcases h3 with ⟨_, _, rfl⟩ | ⟨_, _, rfl⟩ <;> exact hi
  | openSession i => obtain ⟨ss, f, _, _, _, _, rfl⟩ := dstep_openSession_inv h; exact hi
  | sql i k t => obtain ⟨ss, f, _, _, _, _, _, _, _, rfl⟩ := dstep_sql_inv h; exact hi
  | finish i r b =>
    obtain ⟨ss, hp, _, _, _, _, rfl⟩ := dstep_finish_inv h
    intro _; simp [hp]
  | closeSession i k => obtain ⟨ss, _, _, _, rfl⟩ := dstep_closeSession_inv h; exact hi
  | signal => obtain ⟨hp, _, rfl⟩ := dstep_signal_inv h; intro _; simp [hp]
  | beginDrop => obtain ⟨_, _, _, rfl⟩ := dstep_beginDrop_inv h; simp
  | drop => obtain ⟨db, rest, hp, _, rfl⟩ := dstep_drop_inv h; intro _; simp [hp]
  | done => obtain ⟨_, _, rfl⟩ := dstep_done_inv h; simp

/-- what one step does to the log and to the cancellation flag -/
theorem dstep_log {c : DCfg} {s s' : DSt} {l : DLabel} (h : dstep c s l = some s') :
    ∃ evs, s'.log = s.log ++ evs ∧
      (s.cancelled = true → s'.cancelled = true) ∧
      (s.cancelled = true → s.phase ≠ .creating → ∀ e ∈ evs, e.quiet = true) ∧
      (CEv.cancel ∈ evs → evs = [CEv.cancel] ∧ s'.cancelled = true) := by
  cases l with
  | create =>
    obtain ⟨db, rest, hp, ht, rfl⟩ := dstep_create_inv h
    exact ⟨[.create db], rfl, id, fun _ hne => absurd hp hne, by simp⟩
  | beginRun =>
    obtain ⟨_, _, rfl⟩ := dstep_beginRun_inv h
    exact ⟨[], by simp, id, by simp, by simp⟩
  | start =>
    obtain ⟨i, rest, _, _, h3⟩ := dstep_start_inv h
    rcases h3 with ⟨_, _, rfl⟩ | ⟨_, _, rfl⟩ <;> exact ⟨[], by simp, id, by simp, by simp⟩
  | openSession i =>
    obtain ⟨ss, f, _, _, _, hc, rfl⟩ := dstep_openSession_inv h
    exact ⟨[.connect s.nextSess f.db], rfl, id, by simp [hc], by simp⟩
  | sql i k t =>
    obtain ⟨ss, f, _, _, _, hc, _, _, _, rfl⟩ := dstep_sql_inv h
    exact ⟨[.sql k t], rfl, id, by simp [hc], by simp⟩
  | finish i r b =>
    obtain ⟨ss, hp, _, _, _, _, rfl⟩ := dstep_finish_inv h
    refine ⟨ss.map CEv.eof, rfl, ?_, ?_, ?_⟩
    · intro hc; simp [hc]
    · intro _ _ e he
      obtain ⟨k, _, rfl⟩ := List.mem_map.mp he
      rfl
    · intro he
      obtain ⟨k, _, hk⟩ := List.mem_map.mp he
      cases hk
  | closeSession i k =>
    obtain ⟨ss, _, _, _, rfl⟩ := dstep_closeSession_inv h
    exact ⟨[.eof k], rfl, id, by simp [CEv.quiet], by simp⟩
  | signal =>
    obtain ⟨_, hc, rfl⟩ := dstep_signal_inv h
    exact ⟨[.cancel], rfl, by simp, by simp [hc], by simp⟩
  | beginDrop =>
    obtain ⟨_, _, _, rfl⟩ := dstep_beginDrop_inv h
    exact ⟨[], by simp, id, by simp, by simp⟩
  | drop =>
    obtain ⟨db, rest, _, _, rfl⟩ := dstep_drop_inv h
    exact ⟨[.drop db], rfl, id, by simp [CEv.quiet], by simp⟩
  | done =>
    obtain ⟨_, _, rfl⟩ := dstep_done_inv h
    exact ⟨[], by simp, id, by simp, by simp⟩

theorem dstep_cancelled_mono {c : DCfg} {s s' : DSt} {l : DLabel} (h : dstep c s l = some s')
    (hc : s.cancelled = true) : s'.cancelled = true := by
  obtain ⟨_, _, h2, _⟩ := dstep_log h
  exact h2 hc

theorem drun_cancelled_mono {c : DCfg} (ls : List DLabel) (s s' : DSt) (hc : s.cancelled = true)
    (h : drun c s ls = some s') : s'.cancelled = true :=
  drun_induction (fun s => s.cancelled = true) (fun _ _ _ hP hs => dstep_cancelled_mono hs hP)
    ls s s' hc h

theorem drun_phase {c : DCfg} (ls : List DLabel) (s s' : DSt) (hp : s.phase ≠ .creating)
    (h : drun c s ls = some s') : s'.phase ≠ .creating :=
  drun_induction (fun s => s.phase ≠ .creating) (fun _ _ _ hP hs => dstep_phase hs hP) ls s s' hp h

/-- once cancelled, a run only appends quiet events -/
theorem drun_log_cancelled {c : DCfg} (ls : List DLabel) :
    ∀ (s s' : DSt), s.cancelled = true → s.phase ≠ .creating → drun c s ls = some s' →
      ∃ evs, s'.log = s.log ++ evs ∧ ∀ e ∈ evs, e.quiet = true := by
  induction ls with
  | nil => intro s s' _ _ h; simp at h; subst h; exact ⟨[], by simp, by simp⟩
  | cons l ls ih =>
    intro s s' hc hp h
    obtain ⟨s1, h1, h2⟩ := drun_cons_some h
    obtain ⟨evs1, he1, hm, hq, _⟩ := dstep_log h1
    obtain ⟨evs2, he2, hq2⟩ := ih s1 s' (hm hc) (dstep_phase h1 hp) h2
    refine ⟨evs1 ++ evs2, by rw [he2, he1, List.append_assoc], ?_⟩
    intro e he
    rcases List.mem_append.mp he with he | he
    · exact hq hc hp e he
    · exact hq2 e he

/-- invariant of runs from the initial state: a `cancel` event in the log means the flag is set, and
    everything after it is quiet -/
def CancelLogInv (s : DSt) : Prop :=
  CancelPhase s ∧
  ∀ pre post, s.log = pre ++ CEv.cancel :: post → s.cancelled = true ∧ ∀ e ∈ post, e.quiet = true

theorem cancelLogInv_init (c : DCfg) : CancelLogInv (dinit c) := by
  refine ⟨by simp [CancelPhase, dinit], ?_⟩
  intro pre post h
  simp [dinit] at h

theorem dstep_cancelLogInv {c : DCfg} {s s' : DSt} {l : DLabel} (h : dstep c s l = some s')
    (hi : CancelLogInv s) : CancelLogInv s' := by
  refine ⟨dstep_cancelPhase h hi.1, ?_⟩
  intro pre post hlog
  obtain ⟨evs, he, hm, hq, hcan⟩ := dstep_log h
  rw [he] at hlog
  rcases append_eq_mid hlog with ⟨post1, h1, h2⟩ | ⟨pre2, h1, h2⟩
  · obtain ⟨hc, hq1⟩ := hi.2 pre post1 h1
    refine ⟨hm hc, ?_⟩
    intro e hmem
    rw [h2] at hmem
    rcases List.mem_append.mp hmem with hmem | hmem
    · exact hq1 e hmem
    · exact hq hc (hi.1 hc) e hmem
  · have hmem : CEv.cancel ∈ evs := by rw [h2]; simp
    obtain ⟨hev, hc'⟩ := hcan hmem
    refine ⟨hc', ?_⟩
    rw [hev] at h2
    have hlen := congrArg List.length h2
    simp only [List.length_cons, List.length_nil, List.length_append] at hlen
    have : post = [] := List.eq_nil_of_length_eq_zero (by omega)
    simp [this]

theorem drun_cancelLogInv {c : DCfg} (ls : List DLabel) (s : DSt)
    (h : drun c (dinit c) ls = some s) : CancelLogInv s :=
  drun_induction CancelLogInv (fun _ _ _ hP hs => dstep_cancelLogInv hs hP) ls _ s
    (cancelLogInv_init c) h

/-! ### files started after the cancellation are skipped -/

/-- what a cancelled run does between two of its states -/
structure CancelledRun (s s' : DSt) : Prop where
  cancelled : s'.cancelled = true
  /-- the files started in between … -/
  pending : ∃ started, s.pending = started ++ s'.pending ∧
    ∃ new, s'.results = s.results ++ new ∧
      /- … are all reported skipped … -/
      (∀ i ∈ started, (i, FileResult.skipped) ∈ new) ∧
      /- … and every new result is a skip of a started file or the end of a file that was in flight;
         a file in flight that has opened a session ends cancelled or with its real result, one that
         had not yet looked at the flag (it had not begun) may be skipped -/
      (∀ p ∈ new, (p.1 ∈ started ∧ p.2 = FileResult.skipped) ∨
        (p.1 ∈ s.inflight.map (·.1) ∧ (p.2 = FileResult.skipped → p.1 ∉ s.begun)))
  /-- nothing new is in flight, and no session is added to a file in flight: every file in flight
      afterwards was in flight before, and its open sessions are among (a sublist of) those it had —
      sessions are only closed (`closeSession`), never opened -/
  inflight : ∀ p ∈ s'.inflight, ∃ q ∈ s.inflight, q.1 = p.1 ∧ p.2.Sublist q.2
  nextSess : s'.nextSess = s.nextSess
  /-- no file opens a session any more -/
  begun : s'.begun = s.begun

theorem CancelledRun.refl (s : DSt) (hc : s.cancelled = true) : CancelledRun s s :=
  ⟨hc, ⟨[], by simp, [], by simp, by simp, by simp⟩,
    fun p h => ⟨p, h, rfl, List.Sublist.refl _⟩, rfl, rfl⟩

theorem CancelledRun.of_same {s s' : DSt} (hc : s'.cancelled = true) (h1 : s'.pending = s.pending)
    (h2 : s'.results = s.results) (h3 : s'.inflight = s.inflight) (h4 : s'.nextSess = s.nextSess)
    (h5 : s'.begun = s.begun) :
    CancelledRun s s' :=
  ⟨hc, ⟨[], by simp [h1], [], by simp [h2], by simp, by simp⟩,
    fun p h => ⟨p, h3 ▸ h, rfl, List.Sublist.refl _⟩, h4, h5⟩

theorem CancelledRun.trans {a b c : DSt} (h1 : CancelledRun a b) (h2 : CancelledRun b c) :
    CancelledRun a c := by
  obtain ⟨st1, hp1, new1, hr1, hs1, hn1⟩ := h1.pending
  obtain ⟨st2, hp2, new2, hr2, hs2, hn2⟩ := h2.pending
  refine ⟨h2.cancelled, ⟨st1 ++ st2, by rw [hp1, hp2, List.append_assoc], new1 ++ new2,
    by rw [hr2, hr1, List.append_assoc], ?_, ?_⟩, ?_, h2.nextSess.trans h1.nextSess,
    h2.begun.trans h1.begun⟩
  · intro i hi
    rcases List.mem_append.mp hi with hi | hi
    · exact List.mem_append_left _ (hs1 i hi)
    · exact List.mem_append_right _ (hs2 i hi)
  · intro p hp
    rcases List.mem_append.mp hp with hp | hp
    · rcases hn1 p hp with ⟨h, h'⟩ | h
      · exact Or.inl ⟨List.mem_append_left _ h, h'⟩
      · exact Or.inr h
    · rcases hn2 p hp with ⟨h, h'⟩ | ⟨h, h'⟩
      · exact Or.inl ⟨List.mem_append_right _ h, h'⟩
      · right
        refine ⟨?_, fun e => h1.begun ▸ h' e⟩
        obtain ⟨q, hq, hq1⟩ := List.mem_map.mp h
        obtain ⟨q', hq', hq'1, _⟩ := h1.inflight q hq
        exact List.mem_map.mpr ⟨q', hq', hq'1.trans hq1⟩
  · intro p hp
    obtain ⟨q, hq, hq1, hq2⟩ := h2.inflight p hp
    obtain ⟨q', hq', hq'1, hq'2⟩ := h1.inflight q hq
    exact ⟨q', hq', hq'1.trans hq1, hq2.trans hq'2⟩

theorem sessionsOf_mem {l : List (Nat × List Nat)} {i : Nat} {ss : List Nat}
    (h : sessionsOf l i = some ss) : (i, ss) ∈ l := by
  induction l with
  | nil => simp [sessionsOf] at h
  | cons p rest ih =>
    obtain ⟨k, ss'⟩ := p
    simp only [sessionsOf] at h
    split at h
    · rename_i hk
      cases h
      subst hk
      exact List.mem_cons_self ..
    · exact List.mem_cons_of_mem _ (ih h)

theorem dstep_cancelledRun {c : DCfg} {s s' : DSt} {l : DLabel} (h : dstep c s l = some s')
    (hc : s.cancelled = true) : CancelledRun s s' := by
  cases l with
  | create => obtain ⟨db, rest, _, _, rfl⟩ := dstep_create_inv h; exact CancelledRun.of_same hc rfl rfl rfl rfl rfl
  | beginRun => obtain ⟨_, _, rfl⟩ := dstep_beginRun_inv h; exact CancelledRun.of_same hc rfl rfl rfl rfl rfl
  | start =>
    obtain ⟨i, rest, _, hpend, h3⟩ := dstep_start_inv h
    rcases h3 with ⟨_, _, rfl⟩ | ⟨hc', _, rfl⟩
    · exact ⟨hc, ⟨[i], by simp [hpend], [(i, .skipped)], rfl, by simp, by simp⟩,
        fun p h => ⟨p, h, rfl, List.Sublist.refl _⟩, rfl, rfl⟩
    · rw [hc] at hc'; cases hc'
  | openSession i =>
    obtain ⟨ss, f, _, _, _, hc', rfl⟩ := dstep_openSession_inv h
    rw [hc] at hc'; cases hc'
  | sql i k t =>
    obtain ⟨ss, f, _, _, _, _, _, _, _, rfl⟩ := dstep_sql_inv h
    exact CancelledRun.of_same hc rfl rfl rfl rfl rfl
  | finish i r b =>
    obtain ⟨ss, _, hs, hne, _, _, rfl⟩ := dstep_finish_inv h
    refine ⟨by simp [hc], ⟨[], by simp, [(i, r)], rfl, by simp, ?_⟩,
      fun p hp => ⟨p, (List.mem_filter.mp hp).1, rfl, List.Sublist.refl _⟩, rfl, rfl⟩
    intro p hp
    simp only [List.mem_singleton] at hp
    subst hp
    right
    exact ⟨List.mem_map.mpr ⟨(i, ss), sessionsOf_mem hs, rfl⟩, fun e => (hne e).2.1⟩
  | closeSession i k =>
    obtain ⟨ss, _, hs, _, rfl⟩ := dstep_closeSession_inv h
    refine ⟨hc, ⟨[], by simp, [], by simp, by simp, by simp⟩, ?_, rfl, rfl⟩
    intro p hp
    obtain ⟨q, hq, rfl⟩ := List.mem_map.mp (show p ∈ s.inflight.map _ from hp)
    by_cases hqi : q.1 = i
    · rw [if_pos hqi]
      exact ⟨(i, ss), sessionsOf_mem hs, rfl, List.filter_sublist⟩
    · rw [if_neg hqi]
      exact ⟨q, hq, rfl, List.Sublist.refl _⟩
  | signal => obtain ⟨_, hc', rfl⟩ := dstep_signal_inv h; rw [hc] at hc'; cases hc'
  | beginDrop => obtain ⟨_, _, _, rfl⟩ := dstep_beginDrop_inv h; exact CancelledRun.of_same hc rfl rfl rfl rfl rfl
  | drop => obtain ⟨db, rest, _, _, rfl⟩ := dstep_drop_inv h; exact CancelledRun.of_same hc rfl rfl rfl rfl rfl
  | done => obtain ⟨_, _, rfl⟩ := dstep_done_inv h; exact CancelledRun.of_same hc rfl rfl rfl rfl rfl

theorem drun_cancelledRun {c : DCfg} (ls : List DLabel) :
    ∀ (s s' : DSt), s.cancelled = true → drun c s ls = some s' → CancelledRun s s' := by
  induction ls with
  | nil => intro s s' hc h; simp at h; subst h; exact CancelledRun.refl s hc
  | cons l ls ih =>
    intro s s' hc h
    obtain ⟨s1, h1, h2⟩ := drun_cons_some h
    exact (dstep_cancelledRun h1 hc).trans (ih s1 s' (dstep_cancelled_mono h1 hc) h2)

end Slt
