/-
Basic lemmas about the parallel driver's transition system (`dstep`, `drun`) of
`SltVerif/Cli.lean`: inversion of every label, run composition, list helpers.
-/
import SltVerif.Cli
namespace Slt

/-! ### list helper -/

/-- where the middle element of a decomposition of `l ++ evs` lies -/
theorem append_eq_mid {α : Type} {l evs pre post : List α} {x : α}
    (h : l ++ evs = pre ++ x :: post) :
    (∃ post1, l = pre ++ x :: post1 ∧ post = post1 ++ evs) ∨
    (∃ pre2, pre = l ++ pre2 ∧ evs = pre2 ++ x :: post) := by
  rcases List.append_eq_append_iff.mp h with ⟨a', h1, h2⟩ | ⟨c', h1, h2⟩
  · right; exact ⟨a', h1, h2⟩
  · cases c' with
    | nil =>
      right
      refine ⟨[], by simpa using h1.symm, ?_⟩
      simpa using h2.symm
    | cons y c'' =>
      left
      simp only [List.cons_append, List.cons.injEq] at h2
      obtain ⟨rfl, rfl⟩ := h2
      exact ⟨c'', h1, rfl⟩

/-! ### inversion of the labels -/

variable {c : DCfg} {s s' : DSt}

theorem dstep_create_inv (h : dstep c s .create = some s') :
    ∃ db rest, s.phase = .creating ∧ s.toCreate = db :: rest ∧
      s' = { s with toCreate := rest, log := s.log ++ [.create db] } := by
  rw [dstep] at h
  split at h
  · rename_i db rest hp ht
    exact ⟨db, rest, hp, ht, (Option.some.inj h).symm⟩
  · simp at h

theorem dstep_beginRun_inv (h : dstep c s .beginRun = some s') :
    s.phase = .creating ∧ s.toCreate = [] ∧ s' = { s with phase := .running } := by
  rw [dstep] at h
  split at h
  · rename_i hc
    exact ⟨hc.1, hc.2, (Option.some.inj h).symm⟩
  · simp at h

theorem dstep_start_inv (h : dstep c s .start = some s') :
    ∃ i rest, s.phase = .running ∧ s.pending = i :: rest ∧
      ((s.cancelled = true ∧ s.inflight = [] ∧
          s' = { s with pending := rest, results := s.results ++ [(i, .skipped)] }) ∨
       (s.cancelled = false ∧ s.inflight.length < c.jobs ∧
          s' = { s with pending := rest, inflight := s.inflight ++ [(i, [])] })) := by
  rw [dstep] at h
  split at h
  · rename_i i rest hp ht
    refine ⟨i, rest, hp, ht, ?_⟩
    split at h
    · rename_i hc
      split at h
      · rename_i hi
        exact Or.inl ⟨hc, hi, (Option.some.inj h).symm⟩
      · simp at h
    · rename_i hc
      split at h
      · rename_i hj
        exact Or.inr ⟨by simpa using hc, hj, (Option.some.inj h).symm⟩
      · simp at h
  · simp at h

theorem dstep_openSession_inv {i : Nat} (h : dstep c s (.openSession i) = some s') :
    ∃ ss f, s.phase = .running ∧ sessionsOf s.inflight i = some ss ∧ c.fileAt i = some f ∧
      s.cancelled = false ∧
      s' = { s with inflight := setSessions s.inflight i (ss ++ [s.nextSess]),
                    begun := i :: s.begun,
                    nextSess := s.nextSess + 1,
                    log := s.log ++ [.connect s.nextSess f.db] } := by
  rw [dstep] at h
  split at h
  · rename_i ss f hp hs hf
    split at h
    · simp at h
    · rename_i hc
      exact ⟨ss, f, hp, hs, hf, by simpa using hc, (Option.some.inj h).symm⟩
  · simp at h

theorem dstep_sql_inv {i k : Nat} {text : Str} (h : dstep c s (.sql i k text) = some s') :
    ∃ ss f, s.phase = .running ∧ sessionsOf s.inflight i = some ss ∧ c.fileAt i = some f ∧
      s.cancelled = false ∧ k ∈ ss ∧ sqlOwner text = some f.path ∧
      ¬((kw "dbname ").isPrefixOf text = true ∧
          (!((kw "dbname " ++ f.db ++ kw " -- F").isPrefixOf text)) = true) ∧
      s' = { s with log := s.log ++ [.sql k text] } := by
  rw [dstep] at h
  split at h
  · rename_i ss f hp hs hf
    split at h
    · simp at h
    · rename_i hc
      split at h
      · simp at h
      · rename_i hd
        have hc1 : s.cancelled = false := by
          cases hcc : s.cancelled with
          | false => rfl
          | true => exact absurd (Or.inl hcc) hc
        have hc2 : k ∈ ss := by
          cases hk : ss.contains k with
          | true => simpa using hk
          | false => exact absurd (Or.inr (Or.inl (by rw [hk]; rfl))) hc
        have hc3 : sqlOwner text = some f.path :=
          Classical.not_not.mp (fun hne => hc (Or.inr (Or.inr hne)))
        exact ⟨ss, f, hp, hs, hf, hc1, hc2, hc3, hd, (Option.some.inj h).symm⟩
  · simp at h

theorem dstep_finish_inv {i : Nat} {res : FileResult} {refused : Bool}
    (h : dstep c s (.finish i res refused) = some s') :
    ∃ ss, s.phase = .running ∧ sessionsOf s.inflight i = some ss ∧
      (res = .skipped → s.cancelled = true ∧ i ∉ s.begun ∧ ∀ p ∈ s.inflight, p.2 = []) ∧
      (res = .cancelled → s.cancelled = true) ∧ (refused = true → res = .err) ∧
      s' = { s with inflight := s.inflight.filter (fun p => p.1 ≠ i),
                    results := s.results ++ [(i, res)],
                    cancelled := s.cancelled || (res == .err && (c.failFast || refused)),
                    refused := s.refused || refused,
                    log := s.log ++ ss.map CEv.eof } := by
  rw [dstep] at h
  split at h
  · rename_i ss hp hs
    split at h
    · simp at h
    · rename_i hc
      refine ⟨ss, hp, hs, ?_, ?_, ?_, (Option.some.inj h).symm⟩
      · intro e
        refine ⟨?_, ?_, ?_⟩
        · cases hcc : s.cancelled with
          | true => rfl
          | false => exact absurd (Or.inl ⟨e, Or.inl (by simp [hcc])⟩) hc
        · intro hb
          exact hc (Or.inl ⟨e, Or.inr (Or.inl (List.contains_iff_mem.mpr hb))⟩)
        · intro p hpm
          cases hpe : p.2 with
          | nil => rfl
          | cons a as =>
            refine absurd (Or.inl ⟨e, Or.inr (Or.inr ?_)⟩) hc
            exact List.any_eq_true.mpr ⟨p, hpm, by simp [hpe]⟩
      · intro e
        cases hcc : s.cancelled with
        | true => rfl
        | false => exact absurd (Or.inr (Or.inl ⟨e, by simp [hcc]⟩)) hc
      · intro e
        exact Classical.not_not.mp (fun hne => hc (Or.inr (Or.inr ⟨e, hne⟩)))
  · simp at h

theorem dstep_closeSession_inv {i k : Nat} (h : dstep c s (.closeSession i k) = some s') :
    ∃ ss, s.phase = .running ∧ sessionsOf s.inflight i = some ss ∧ k ∈ ss ∧
      s' = { s with inflight := setSessions s.inflight i (ss.filter (fun x => x ≠ k)),
                    log := s.log ++ [.eof k] } := by
  rw [dstep] at h
  split at h
  · rename_i ss hp hs
    split at h
    · simp at h
    · rename_i hc
      have hk : k ∈ ss := by
        cases hk : ss.contains k with
        | true => simpa using hk
        | false => exact absurd (by rw [hk]; rfl) hc
      exact ⟨ss, hp, hs, hk, (Option.some.inj h).symm⟩
  · simp at h

theorem dstep_signal_inv (h : dstep c s .signal = some s') :
    s.phase = .running ∧ s.cancelled = false ∧
      s' = { s with cancelled := true, log := s.log ++ [.cancel] } := by
  rw [dstep] at h
  split at h
  · rename_i hc
    exact ⟨hc.1, by simpa using hc.2, (Option.some.inj h).symm⟩
  · simp at h

theorem dstep_beginDrop_inv (h : dstep c s .beginDrop = some s') :
    s.phase = .running ∧ s.pending = [] ∧ s.inflight = [] ∧
      s' = { s with phase := .dropping,
                    toDrop := if s.refused then [] else dropList c s.results } := by
  rw [dstep] at h
  split at h
  · rename_i hc
    exact ⟨hc.1, hc.2.1, hc.2.2, (Option.some.inj h).symm⟩
  · simp at h

theorem dstep_drop_inv (h : dstep c s .drop = some s') :
    ∃ db rest, s.phase = .dropping ∧ s.toDrop = db :: rest ∧
      s' = { s with toDrop := rest, log := s.log ++ [.drop db] } := by
  rw [dstep] at h
  split at h
  · rename_i db rest hp ht
    exact ⟨db, rest, hp, ht, (Option.some.inj h).symm⟩
  · simp at h

theorem dstep_done_inv (h : dstep c s .done = some s') :
    s.phase = .dropping ∧ s.toDrop = [] ∧ s' = { s with phase := .finished } := by
  rw [dstep] at h
  split at h
  · rename_i hc
    exact ⟨hc.1, hc.2, (Option.some.inj h).symm⟩
  · simp at h

/-! ### runs -/

@[simp] theorem drun_nil (c : DCfg) (s : DSt) : drun c s [] = some s := rfl

theorem drun_cons (c : DCfg) (s : DSt) (l : DLabel) (ls : List DLabel) :
    drun c s (l :: ls) = (dstep c s l).bind (fun s' => drun c s' ls) := by
  rw [drun]
  cases dstep c s l <;> rfl

theorem drun_cons_some {c : DCfg} {s s' : DSt} {l : DLabel} {ls : List DLabel}
    (h : drun c s (l :: ls) = some s') : ∃ s1, dstep c s l = some s1 ∧ drun c s1 ls = some s' := by
  rw [drun_cons] at h
  cases h1 : dstep c s l with
  | none => simp [h1] at h
  | some s1 => exact ⟨s1, rfl, by simpa [h1] using h⟩

theorem drun_append_some {c : DCfg} {ls1 ls2 : List DLabel} :
    ∀ {s s' : DSt}, drun c s (ls1 ++ ls2) = some s' →
      ∃ s1, drun c s ls1 = some s1 ∧ drun c s1 ls2 = some s' := by
  induction ls1 with
  | nil => intro s s' h; exact ⟨s, rfl, h⟩
  | cons l ls ih =>
    intro s s' h
    obtain ⟨s1, h1, h2⟩ := drun_cons_some (by simpa using h)
    obtain ⟨s2, h3, h4⟩ := ih h2
    refine ⟨s2, ?_, h4⟩
    rw [drun_cons, h1]
    exact h3

/-- invariants proved step-wise hold along every run -/
theorem drun_induction {c : DCfg} (P : DSt → Prop)
    (hstep : ∀ s l s', P s → dstep c s l = some s' → P s') :
    ∀ (ls : List DLabel) (s s' : DSt), P s → drun c s ls = some s' → P s' := by
  intro ls
  induction ls with
  | nil => intro s s' hP h; simp at h; exact h ▸ hP
  | cons l ls ih =>
    intro s s' hP h
    obtain ⟨s1, h1, h2⟩ := drun_cons_some h
    exact ih s1 s' (hstep s l s1 hP h1) h2

end Slt
