/-
Concrete driver runs used in the `example`s of `Props/C17.lean` and `Props/C19.lean`, and runs that
close sessions one by one (`closeSession`).
-/
import SltVerif.Cli
namespace Slt

/-- three files, two jobs, fail-fast -/
def exCfg : DCfg :=
  { jobs := 2, keep := false, failFast := true,
    files := [⟨kw "a.slt", kw "a_slt_00000000"⟩, ⟨kw "b.slt", kw "b_slt_00000001"⟩,
              ⟨kw "c.slt", kw "c_slt_00000002"⟩] }

/-- a schedule: `a` and `b` start, `a` fails (fail-fast cancels), `b` is cancelled, `c` is skipped -/
def exRunFailFast : List DLabel :=
  [.create, .create, .create, .beginRun, .start, .start, .openSession 0, .openSession 1,
   .sql 0 0 (kw "select 1 -- Fa.slt"), .sql 1 1 (kw "dbname b_slt_00000001 -- Fb.slt"),
   .finish 0 .err false, .finish 1 .cancelled false, .start,
   .beginDrop, .drop, .drop, .drop, .done]

/-- the same files with keep-on-failure and without fail-fast -/
def exCfgKeep : DCfg := { exCfg with keep := true, failFast := false }

/-- `a` fails, `b` (two connections) and `c` pass; Ctrl-C does not arrive -/
def exRunKeep : List DLabel :=
  [.create, .create, .create, .beginRun, .start, .start, .openSession 0, .openSession 1,
   .openSession 1, .sql 1 2 (kw "select 2 -- Fb.slt"), .sql 0 0 (kw "select 1 -- Fa.slt"),
   .finish 0 .err false, .start, .openSession 2, .sql 2 3 (kw "select 3 -- Fc.slt"),
   .finish 1 .ok false, .finish 2 .ok false,
   .beginDrop, .drop, .drop, .done]

/-- Ctrl-C while `a` and `b` are in flight -/
def exRunSignal : List DLabel :=
  [.create, .create, .create, .beginRun, .start, .start, .openSession 0, .openSession 1,
   .sql 0 0 (kw "select 1 -- Fa.slt"), .signal,
   .finish 1 .cancelled false, .finish 0 .cancelled false, .start,
   .beginDrop, .drop, .drop, .drop, .done]

/-- sessions closed one by one: `a` (two connections) and `b` are in flight; `a`'s runner shuts down and
    its two engine processes see end-of-file one after the other, with a request of `b` in between;
    then `a` ends, `c` starts, closes its only session itself and ends after `b` -/
def exRunClose : List DLabel :=
  [.create, .create, .create, .beginRun, .start, .start, .openSession 0, .openSession 0,
   .openSession 1, .sql 0 1 (kw "select 1 -- Fa.slt"),
   .closeSession 0 0, .sql 1 2 (kw "select 2 -- Fb.slt"), .closeSession 0 1,
   .finish 0 .ok false, .start, .openSession 2, .sql 2 3 (kw "select 3 -- Fc.slt"),
   .closeSession 2 3, .finish 1 .ok false, .finish 2 .ok false,
   .beginDrop, .drop, .drop, .drop, .done]

-- the run reaches `finished`, every file is reported ok …
example : (drun exCfg (dinit exCfg) exRunClose).map (·.phase) = some .finished := by decide
example : (drun exCfg (dinit exCfg) exRunClose).map (·.results) =
    some [(0, .ok), (1, .ok), (2, .ok)] := by decide
-- … the `eof`s of `a`'s sessions are interleaved with `b`'s request in the log …
example : (drun exCfg (dinit exCfg) exRunClose).map (fun s => (s.log.drop 7).take 3) =
    some [.eof 0, .sql 2 (kw "select 2 -- Fb.slt"), .eof 1] := by decide
-- … and the monitor accepts the log
example : (drun exCfg (dinit exCfg) exRunClose).map
    (fun s => accepts (monCfgOf exCfg (kw "main") s) s.log) = some none := by decide
-- a session cannot be closed twice, and nothing is sent on a closed session
example : (drun exCfg (dinit exCfg)
    [.create, .create, .create, .beginRun, .start, .openSession 0, .closeSession 0 0,
     .closeSession 0 0]).isNone = true := by decide
example : (drun exCfg (dinit exCfg)
    [.create, .create, .create, .beginRun, .start, .openSession 0, .closeSession 0 0,
     .sql 0 0 (kw "select 1 -- Fa.slt")]).isNone = true := by decide

/-- Ctrl-C while `a` (two connections) and `b` are in flight: the sessions are closed one by one,
    interleaved, before the files are reported cancelled -/
def exRunSignalClose : List DLabel :=
  [.create, .create, .create, .beginRun, .start, .start, .openSession 0, .openSession 1,
   .openSession 0, .sql 0 0 (kw "select 1 -- Fa.slt"), .signal,
   .closeSession 0 2, .closeSession 1 1, .finish 1 .cancelled false, .closeSession 0 0,
   .finish 0 .cancelled false, .start,
   .beginDrop, .drop, .drop, .drop, .done]

example : (drun exCfg (dinit exCfg) exRunSignalClose).map (fun s => (s.phase, s.results)) =
    some (.finished, [(1, .cancelled), (0, .cancelled), (2, .skipped)]) := by decide
example : (drun exCfg (dinit exCfg) exRunSignalClose).map
    (fun s => accepts (monCfgOf exCfg (kw "main") s) s.log) = some none := by decide

/-! ### an observed run: a file in flight that had not yet looked at the flag ends `skipped`

`-j 6`, five files, fail-fast, `d.slt` a parse error: all five files occupy a slot; `a`, `c`, `e` open a
session and send a request, `d` fails without a session (the flag is set), the three running files are
cancelled, and `b` — whose task was spawned before the failure but looks at the flag only now — is
reported skipped. -/

/-- five files, six jobs, fail-fast -/
def exCfgFive : DCfg :=
  { jobs := 6, keep := false, failFast := true,
    files := [⟨kw "a.slt", kw "a_slt_00000000"⟩, ⟨kw "b.slt", kw "b_slt_00000001"⟩,
              ⟨kw "c.slt", kw "c_slt_00000002"⟩, ⟨kw "d.slt", kw "d_slt_00000003"⟩,
              ⟨kw "e.slt", kw "e_slt_00000004"⟩] }

/-- the prefix of the observed run up to the failure of `d` -/
def exRunFivePrefix : List DLabel :=
  [.create, .create, .create, .create, .create, .beginRun,
   .start, .start, .start, .start, .start,
   .openSession 0, .openSession 2, .openSession 4,
   .sql 0 0 (kw "select 1 -- Fa.slt"), .sql 2 1 (kw "select 3 -- Fc.slt"),
   .sql 4 2 (kw "dbname e_slt_00000004 -- Fe.slt"),
   .finish 3 .err false]

/-- the observed run: after the failure the running files `a`, `c`, `e` are cancelled (the session of
    `c` is closed by `closeSession`, those of `a` and `e` by `finish`), then `b` is skipped -/
def exRunLateSkip : List DLabel :=
  exRunFivePrefix ++
  [.finish 0 .cancelled false, .closeSession 2 1, .finish 2 .cancelled false,
   .finish 4 .cancelled false, .finish 1 .skipped false,
   .beginDrop, .drop, .drop, .drop, .drop, .drop, .done]

-- the run reaches `finished`; the results in the order in which the files ended …
example : (drun exCfgFive (dinit exCfgFive) exRunLateSkip).map (fun s => (s.phase, s.results)) =
    some (.finished, [(3, .err), (0, .cancelled), (2, .cancelled), (4, .cancelled), (1, .skipped)]) := by
  decide
-- … i.e. in file order: cancelled, skipped, cancelled, err, cancelled — as observed
example : (drun exCfgFive (dinit exCfgFive) exRunLateSkip).map
    (fun s => (List.range 5).map (fun i => s.results.lookup i)) =
    some [some .cancelled, some .skipped, some .cancelled, some .err, some .cancelled] := by decide
-- the files that have opened a session
example : (drun exCfgFive (dinit exCfgFive) exRunLateSkip).map (·.begun) = some [4, 2, 0] := by decide
-- the monitor accepts the log
example : (drun exCfgFive (dinit exCfgFive) exRunLateSkip).map
    (fun s => accepts (monCfgOf exCfgFive (kw "main") s) s.log) = some none := by decide
-- `b` cannot be skipped while a file in flight still has an open session
-- (it waits for `RUNNING_TESTS.write()`) …
example : (drun exCfgFive (dinit exCfgFive)
    (exRunFivePrefix ++ [.finish 0 .cancelled false, .finish 1 .skipped false])).isNone = true := by
  decide
-- … nor before the flag is set
example : (drun exCfgFive (dinit exCfgFive)
    [.create, .create, .create, .create, .create, .beginRun, .start, .start,
     .finish 1 .skipped false]).isNone = true := by decide
-- a file that has opened a session is never skipped: with every session closed, `b` can be skipped,
-- `a` (which had a session) cannot
example : (drun exCfgFive (dinit exCfgFive)
    (exRunFivePrefix ++ [.closeSession 0 0, .closeSession 2 1, .closeSession 4 2,
      .finish 1 .skipped false])).isSome = true := by decide
example : (drun exCfgFive (dinit exCfgFive)
    (exRunFivePrefix ++ [.closeSession 0 0, .closeSession 2 1, .closeSession 4 2,
      .finish 0 .skipped false])).isNone = true := by decide

end Slt
