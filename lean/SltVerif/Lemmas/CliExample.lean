/-
Concrete driver runs used in the `example`s of `Props/C17.lean` and `Props/C19.lean`.
-/
import SltVerif.Cli
namespace Slt

/-- three files, two jobs, fail-fast -/
def exCfg : DCfg :=
  { jobs := 2, keep := false, failFast := true,
    files := [⟨kw "a.slt", kw "a_slt_00000000"⟩, ⟨kw "b.slt", kw "b_slt_00000001"⟩,
              ⟨kw "c.slt", kw "c_slt_00000002"⟩] }

/-- a schedule: `a` and `b` start, `a` fails (fail-fast cancels), `b` is cancelled, `c` is skipped -/
def exRunFailFast : List DLabel :=
  [.create, .create, .create, .beginRun, .start, .start, .openSession 0, .openSession 1,
   .sql 0 0 (kw "select 1 -- Fa.slt"), .sql 1 1 (kw "dbname b_slt_00000001 -- Fb.slt"),
   .finish 0 .err false, .finish 1 .cancelled false, .start,
   .beginDrop, .drop, .drop, .drop, .done]

/-- the same files with keep-on-failure and without fail-fast -/
def exCfgKeep : DCfg := { exCfg with keep := true, failFast := false }

/-- `a` fails, `b` (two connections) and `c` pass; Ctrl-C does not arrive -/
def exRunKeep : List DLabel :=
  [.create, .create, .create, .beginRun, .start, .start, .openSession 0, .openSession 1,
   .openSession 1, .sql 1 2 (kw "select 2 -- Fb.slt"), .sql 0 0 (kw "select 1 -- Fa.slt"),
   .finish 0 .err false, .start, .openSession 2, .sql 2 3 (kw "select 3 -- Fc.slt"),
   .finish 1 .ok false, .finish 2 .ok false,
   .beginDrop, .drop, .drop, .done]

/-- Ctrl-C while `a` and `b` are in flight -/
def exRunSignal : List DLabel :=
  [.create, .create, .create, .beginRun, .start, .start, .openSession 0, .openSession 1,
   .sql 0 0 (kw "select 1 -- Fa.slt"), .signal,
   .finish 1 .cancelled false, .finish 0 .cancelled false, .start,
   .beginDrop, .drop, .drop, .drop, .done]

end Slt
