/-
The bookkeeping of file indices in the parallel driver: results, in-flight files and pending files
always partition `0 .. n-1`.
-/
import SltVerif.Lemmas.CliCancel
namespace Slt

/-- every file index is in exactly one of: reported, in flight, pending -/
def IdxInv (c : DCfg) (s : DSt) : Prop :=
  (s.results.map (·.1) ++ s.inflight.map (·.1) ++ s.pending).Perm (List.range c.files.length)

theorem idxInv_init (c : DCfg) : IdxInv c (dinit c) := by
  simp [IdxInv, dinit]

theorem IdxInv.nodup {c : DCfg} {s : DSt} (h : IdxInv c s) :
    (s.results.map (·.1) ++ s.inflight.map (·.1) ++ s.pending).Nodup :=
  h.nodup_iff.mpr List.nodup_range

theorem perm_cons_filter_ne {l : List Nat} (hnd : l.Nodup) {a : Nat} (ha : a ∈ l) :
    (a :: l.filter (fun x => x ≠ a)).Perm l := by
  induction l with
  | nil => simp at ha
  | cons b rest ih =>
    rw [List.nodup_cons] at hnd
    by_cases hb : b = a
    · subst hb
      have : rest.filter (fun x => x ≠ b) = rest := by
        rw [List.filter_eq_self]
        intro x hx
        simp only [ne_eq, decide_not, Bool.not_eq_eq_eq_not, Bool.not_true, decide_eq_false_iff_not]
        intro hxb; subst hxb; exact hnd.1 hx
      rw [List.filter_cons_of_neg (by simp), this]
    · have ha' : a ∈ rest := by
        rcases List.mem_cons.mp ha with h | h
        · exact absurd h.symm hb
        · exact h
      have := ih hnd.2 ha'
      rw [List.filter_cons_of_pos (by simpa using hb)]
      exact (List.Perm.swap b a _).trans (List.Perm.cons b this)

theorem map_fst_filter_ne (l : List (Nat × List Nat)) (i : Nat) :
    (l.filter (fun p => p.1 ≠ i)).map (·.1) = (l.map (·.1)).filter (fun x => x ≠ i) := by
  rw [List.filter_map]
  rfl

theorem setSessions_map_fst (l : List (Nat × List Nat)) (i : Nat) (x : List Nat) :
    (setSessions l i x).map (·.1) = l.map (·.1) := by
  unfold setSessions
  rw [List.map_map]
  apply List.map_congr_left
  intro p _
  simp only [Function.comp]
  split
  · rename_i hp; exact hp.symm
  · rfl

theorem setSessions_length (l : List (Nat × List Nat)) (i : Nat) (x : List Nat) :
    (setSessions l i x).length = l.length := by
  unfold setSessions
  rw [List.length_map]

theorem dstep_idxInv {c : DCfg} {s s' : DSt} {l : DLabel} (h : dstep c s l = some s')
    (hi : IdxInv c s) : IdxInv c s' := by
  unfold IdxInv at *
  cases l with
  | create => obtain ⟨db, rest, _, _, rfl⟩ := dstep_create_inv h; exact hi
  | beginRun => obtain ⟨_, _, rfl⟩ := dstep_beginRun_inv h; exact hi
  | start =>
    obtain ⟨i, rest, _, hpend, h3⟩ := dstep_start_inv h
    rw [hpend] at hi
    rcases h3 with ⟨_, hin, rfl⟩ | ⟨_, _, rfl⟩
    · simp only [hin, List.map_nil, List.append_nil, List.map_append, List.map_cons] at hi ⊢
      simpa using hi
    · simp only [List.map_append, List.map_cons, List.map_nil] at hi ⊢
      simpa using hi
  | openSession i =>
    obtain ⟨ss, f, _, _, _, _, rfl⟩ := dstep_openSession_inv h
    have : (setSessions s.inflight i (ss ++ [s.nextSess])).map (·.1) = s.inflight.map (·.1) := by
      unfold setSessions
      rw [List.map_map]
      apply List.map_congr_left
      intro p _
      simp only [Function.comp]
      split
      · rename_i hp; exact hp.symm
      · rfl
    simp only [this]
    exact hi
  | sql i k t => obtain ⟨ss, f, _, _, _, _, _, _, _, rfl⟩ := dstep_sql_inv h; exact hi
  | finish i r b =>
    obtain ⟨ss, _, hs, _, _, _, rfl⟩ := dstep_finish_inv h
    have hnd := (hi.nodup_iff.mpr List.nodup_range)
    have hmem : i ∈ s.inflight.map (·.1) := List.mem_map.mpr ⟨(i, ss), sessionsOf_mem hs, rfl⟩
    have hnd2 : (s.inflight.map (·.1)).Nodup := by
      have := (List.nodup_append.mp hnd).1
      exact (List.nodup_append.mp this).2.1
    have hp := perm_cons_filter_ne hnd2 hmem
    simp only [List.map_append, List.map_cons, List.map_nil, map_fst_filter_ne]
    refine List.Perm.trans ?_ hi
    apply List.Perm.append_right
    rw [List.append_assoc]
    apply List.Perm.append_left
    exact hp
  | closeSession i k =>
    obtain ⟨ss, _, _, _, rfl⟩ := dstep_closeSession_inv h
    simp only [setSessions_map_fst]
    exact hi
  | signal => obtain ⟨_, _, rfl⟩ := dstep_signal_inv h; exact hi
  | beginDrop => obtain ⟨_, _, _, rfl⟩ := dstep_beginDrop_inv h; exact hi
  | drop => obtain ⟨db, rest, _, _, rfl⟩ := dstep_drop_inv h; exact hi
  | done => obtain ⟨_, _, rfl⟩ := dstep_done_inv h; exact hi

theorem drun_idxInv {c : DCfg} (ls : List DLabel) (s : DSt) (h : drun c (dinit c) ls = some s) :
    IdxInv c s :=
  drun_induction (IdxInv c) (fun _ _ _ hP hs => dstep_idxInv hs hP) ls _ s (idxInv_init c) h

/-- the phase discipline: nothing pending or in flight once the run phase is over -/
def PhaseInv (s : DSt) : Prop :=
  (s.phase = .dropping ∨ s.phase = .finished) → s.pending = [] ∧ s.inflight = []

theorem dstep_phaseInv {c : DCfg} {s s' : DSt} {l : DLabel} (h : dstep c s l = some s')
    (hi : PhaseInv s) : PhaseInv s' := by
  unfold PhaseInv at *
  cases l with
  | create => obtain ⟨db, rest, _, _, rfl⟩ := dstep_create_inv h; exact hi
  | beginRun => obtain ⟨_, _, rfl⟩ := dstep_beginRun_inv h; simp
  | start =>
    obtain ⟨i, rest, hp, _, h3⟩ := dstep_start_inv h
    rcases h3 with ⟨_, _, rfl⟩ | ⟨_, _, rfl⟩ <;> simp [hp]
  | openSession i => obtain ⟨ss, f, hp, _, _, _, rfl⟩ := dstep_openSession_inv h; simp [hp]
  | sql i k t => obtain ⟨ss, f, _, _, _, _, _, _, _, rfl⟩ := dstep_sql_inv h; exact hi
  | finish i r b => obtain ⟨ss, hp, _, _, _, _, rfl⟩ := dstep_finish_inv h; simp [hp]
  | closeSession i k => obtain ⟨ss, hp, _, _, rfl⟩ := dstep_closeSession_inv h; simp [hp]
  | signal => obtain ⟨_, _, rfl⟩ := dstep_signal_inv h; exact hi
  | beginDrop => obtain ⟨_, h1, h2, rfl⟩ := dstep_beginDrop_inv h; intro _; exact ⟨h1, h2⟩
  | drop => obtain ⟨db, rest, _, _, rfl⟩ := dstep_drop_inv h; exact hi
  | done =>
    obtain ⟨hp, _, rfl⟩ := dstep_done_inv h
    intro _; exact hi (Or.inl hp)

theorem drun_phaseInv {c : DCfg} (ls : List DLabel) (s : DSt) (h : drun c (dinit c) ls = some s) :
    PhaseInv s :=
  drun_induction PhaseInv (fun _ _ _ hP hs => dstep_phaseInv hs hP) ls _ s
    (by simp [PhaseInv, dinit]) h

/-- **one result per file, in parallel mode too**: when the run phase is over, the reported indices
are a permutation of `0 .. n-1` -/
theorem results_perm_of_finished {c : DCfg} {ls : List DLabel} {s : DSt}
    (h : drun c (dinit c) ls = some s) (hp : s.phase = .dropping ∨ s.phase = .finished) :
    (s.results.map (·.1)).Perm (List.range c.files.length) := by
  have h1 := drun_idxInv ls s h
  obtain ⟨h2, h3⟩ := drun_phaseInv ls s h hp
  unfold IdxInv at h1
  simpa [h2, h3] using h1

end Slt
