/-
Names of the per-file databases of the library's `run_parallel` (`libDbName`).
-/
import SltVerif.Cli
import SltVerif.Lemmas.Duration
namespace Slt

/-- a list is split uniquely at the last occurrence of `c` -/
theorem split_last_unique {α : Type} (c : α) :
    ∀ (a b x y : List α), c ∉ x → c ∉ y → a ++ c :: x = b ++ c :: y → a = b ∧ x = y
  | [], [], x, y, _, _, h => by
    simp at h; exact ⟨rfl, h⟩
  | [], b0 :: bs, x, y, hx, _, h => by
    simp at h
    exact absurd (by rw [h.2]; simp) hx
  | a0 :: as, [], x, y, _, hy, h => by
    simp at h
    exact absurd (by rw [← h.2]; simp) hy
  | a0 :: as, b0 :: bs, x, y, hx, hy, h => by
    simp at h
    have ih := split_last_unique c as bs x y hx hy h.2
    exact ⟨by rw [h.1, ih.1], ih.2⟩

theorem underscore_not_in_natToStr (n : Nat) : '_' ∉ natToStr n := by
  intro h
  have := natToStr_digit n '_' h
  simp [digitVal] at this

theorem natToStr_injective {m n : Nat} (h : natToStr m = natToStr n) : m = n := by
  have hm := parseDigits_natToStr m
  have hn := parseDigits_natToStr n
  rw [h, hn] at hm
  exact (Option.some.inj hm).symm

end Slt
