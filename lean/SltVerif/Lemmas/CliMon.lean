/-
The monitor (`monStep`, `monRun`, `monFinish`, `accepts`) of `SltVerif/Cli.lean`: its state is a
function of the log prefix it has read (`replay`), every accepted step satisfies its guard, and
from these the declarative specification `MonSpec` of an accepted log.
-/
import SltVerif.Lemmas.CliDriver
namespace Slt

/-! ### the monitor state as a function of the prefix -/

def openStep (l : List (Nat × Str)) : CEv → List (Nat × Str)
  | .connect s db => l ++ [(s, db)]
  | .eof s => l.filter (fun p => p.1 ≠ s)
  | _ => l

/-- the sessions that are open after the prefix `log` -/
def openAt (log : List CEv) : List (Nat × Str) := log.foldl openStep []

def createdOf (log : List CEv) : List Str :=
  log.filterMap (fun e => match e with | .create db => some db | _ => none)

def droppedOf (log : List CEv) : List Str :=
  log.filterMap (fun e => match e with | .drop db => some db | _ => none)

def closedOf (log : List CEv) : List Nat :=
  log.filterMap (fun e => match e with | .eof s => some s | _ => none)

def replay (log : List CEv) : MonState :=
  { created := createdOf log, dropped := droppedOf log, sessions := openAt log,
    closed := closedOf log, cancelled := log.contains .cancel }

theorem replay_nil : replay [] = {} := rfl

theorem openAt_snoc (log : List CEv) (e : CEv) : openAt (log ++ [e]) = openStep (openAt log) e := by
  simp [openAt, List.foldl_append]

theorem mem_createdOf {log : List CEv} {db : Str} : db ∈ createdOf log ↔ CEv.create db ∈ log := by
  unfold createdOf
  rw [List.mem_filterMap]
  constructor
  · rintro ⟨e, he, h⟩
    cases e <;> simp at h
    subst h; exact he
  · intro h; exact ⟨_, h, rfl⟩

theorem mem_droppedOf {log : List CEv} {db : Str} : db ∈ droppedOf log ↔ CEv.drop db ∈ log := by
  unfold droppedOf
  rw [List.mem_filterMap]
  constructor
  · rintro ⟨e, he, h⟩
    cases e <;> simp at h
    subst h; exact he
  · intro h; exact ⟨_, h, rfl⟩

theorem mem_closedOf {log : List CEv} {s : Nat} : s ∈ closedOf log ↔ CEv.eof s ∈ log := by
  unfold closedOf
  rw [List.mem_filterMap]
  constructor
  · rintro ⟨e, he, h⟩
    cases e <;> simp at h
    subst h; exact he
  · intro h; exact ⟨_, h, rfl⟩

/-- induction from the right -/
theorem list_snoc_induction {α : Type} (P : List α → Prop) (h0 : P [])
    (hs : ∀ l a, P l → P (l ++ [a])) : ∀ l, P l := by
  suffices ∀ r : List α, P r.reverse by
    intro l
    have := this l.reverse
    rwa [List.reverse_reverse] at this
  intro r
  induction r with
  | nil => exact h0
  | cons a r ih => rw [List.reverse_cons]; exact hs _ _ ih

/-- session `s` was opened for `db` in the prefix and has not been closed since -/
def OpenFor (pre : List CEv) (s : Nat) (db : Str) : Prop :=
  ∃ p1 p2, pre = p1 ++ CEv.connect s db :: p2 ∧ CEv.eof s ∉ p2

theorem openFor_snoc (pre : List CEv) (e : CEv) (s : Nat) (db : Str) :
    OpenFor (pre ++ [e]) s db ↔
      (OpenFor pre s db ∧ e ≠ CEv.eof s) ∨ e = CEv.connect s db := by
  constructor
  · rintro ⟨p1, p2, h, hn⟩
    rcases append_eq_mid h with ⟨post1, h1, h2⟩ | ⟨pre2, h1, h2⟩
    · left
      subst h2
      simp only [List.mem_append, List.mem_singleton, not_or] at hn
      exact ⟨⟨p1, post1, h1, hn.1⟩, fun he => hn.2 he.symm⟩
    · right
      cases pre2 with
      | nil =>
        simp only [List.nil_append, List.cons.injEq] at h2
        exact h2.1
      | cons y ys =>
        have := congrArg List.length h2
        simp at this
  · rintro (⟨⟨p1, p2, h, hn⟩, hne⟩ | he)
    · refine ⟨p1, p2 ++ [e], by simp [h], ?_⟩
      simp only [List.mem_append, List.mem_singleton, not_or]
      exact ⟨hn, fun h => hne h.symm⟩
    · subst he
      exact ⟨pre, [], rfl, by simp⟩

theorem mem_openAt (log : List CEv) (s : Nat) (db : Str) :
    (s, db) ∈ openAt log ↔ OpenFor log s db := by
  induction log using list_snoc_induction with
  | h0 =>
    simp only [openAt, List.foldl_nil, List.not_mem_nil, false_iff]
    rintro ⟨p1, p2, h, _⟩
    simp at h
  | hs l e ih =>
    rw [openAt_snoc, openFor_snoc, ← ih]
    cases e with
    | connect s' db' =>
      simp only [openStep, List.mem_append, List.mem_singleton, Prod.mk.injEq, ne_eq,
        reduceCtorEq, not_false_eq_true, and_true, CEv.connect.injEq]
      constructor
      · rintro (h | ⟨h1, h2⟩)
        · exact Or.inl h
        · exact Or.inr ⟨h1.symm, h2.symm⟩
      · rintro (h | ⟨h1, h2⟩)
        · exact Or.inl h
        · exact Or.inr ⟨h1.symm, h2.symm⟩
    | eof s' =>
      simp only [openStep, List.mem_filter, ne_eq, decide_not, Bool.not_eq_eq_eq_not, Bool.not_true,
        decide_eq_false_iff_not, CEv.eof.injEq, reduceCtorEq, or_false]
      constructor
      · rintro ⟨h1, h2⟩; exact ⟨h1, fun h => h2 h.symm⟩
      · rintro ⟨h1, h2⟩; exact ⟨h1, fun h => h2 h.symm⟩
    | create _ => simp [openStep]
    | drop _ => simp [openStep]
    | sql _ _ => simp [openStep]
    | cancel => simp [openStep]

/-! ### one accepted step: the new state and the guard -/

/-- the ownership check of `monStep` on an `sql` event -/
def ownerOkOf (cfg : MonCfg) (db text : Str) : Bool :=
  match sqlOwner text, fileOfDb cfg db with
  | some o, some f => decide (o = f.path)
  | some _, none => cfg.jobs == 0
  | none, _ => true

theorem monStep_sql_eq (cfg : MonCfg) (st : MonState) (s : Nat) (text : Str) :
    monStep cfg st (.sql s text) =
      match lookupSess st.sessions s with
      | none => .error (.unknownSession s)
      | some db =>
        if db = cfg.mgmtDb ∧ cfg.jobs > 0 then
          (if (sqlOwner text).isSome then .error (.foreignSql db text) else .ok st)
        else if !ownerOkOf cfg db text then .error (.foreignSql db text)
        else if (kw "dbname ").isPrefixOf text ∧
            !((kw "dbname " ++ db ++ kw " -- F").isPrefixOf text) then
          .error (.wrongDatabaseVar db text)
        else .ok st := rfl

theorem monStep_fields {cfg : MonCfg} {st st' : MonState} {e : CEv}
    (h : monStep cfg st e = .ok st') :
    st'.created = st.created ++ createdOf [e] ∧
    st'.dropped = st.dropped ++ droppedOf [e] ∧
    st'.sessions = openStep st.sessions e ∧
    st'.closed = st.closed ++ closedOf [e] ∧
    st'.cancelled = (st.cancelled || e == CEv.cancel) := by
  cases e with
  | create db =>
    simp only [monStep] at h
    split at h
    · cases h
    · cases h; simp [createdOf, droppedOf, closedOf, openStep]
  | drop db =>
    simp only [monStep] at h
    split at h
    · cases h
    · split at h
      · cases h
      · cases h; simp [createdOf, droppedOf, closedOf, openStep]
  | connect s db =>
    simp only [monStep] at h
    split at h
    · cases h; simp [createdOf, droppedOf, closedOf, openStep]
    · split at h
      · cases h
      · split at h
        · cases h
        · split at h
          · cases h
          · cases h; simp [createdOf, droppedOf, closedOf, openStep]
  | sql s text =>
    rw [monStep_sql_eq] at h
    split at h
    · cases h
    · split at h
      · split at h
        · cases h
        · cases h; simp [createdOf, droppedOf, closedOf, openStep]
      · split at h
        · cases h
        · split at h
          · cases h
          · cases h; simp [createdOf, droppedOf, closedOf, openStep]
  | eof s =>
    simp only [monStep] at h
    split at h
    · cases h
    · cases h; simp [createdOf, droppedOf, closedOf, openStep]
  | cancel =>
    simp only [monStep] at h
    cases h; simp [createdOf, droppedOf, closedOf, openStep]

/-- the state is the replay of what has been read -/
theorem monStep_replay {cfg : MonCfg} {pre : List CEv} {st' : MonState} {e : CEv}
    (h : monStep cfg (replay pre) e = .ok st') : st' = replay (pre ++ [e]) := by
  obtain ⟨h1, h2, h3, h4, h5⟩ := monStep_fields h
  cases st'
  simp only [replay, MonState.mk.injEq] at *
  refine ⟨?_, ?_, ?_, ?_, ?_⟩
  · rw [h1]; simp [createdOf]
  · rw [h2]; simp [droppedOf]
  · rw [h3, openAt_snoc]
  · rw [h4]; simp [closedOf]
  · rw [h5]; cases e <;> simp [Bool.or_comm]

theorem monRun_cons_ok {cfg : MonCfg} {st st' : MonState} {e : CEv} {es : List CEv}
    (h : monRun cfg st (e :: es) = .ok st') :
    ∃ s1, monStep cfg st e = .ok s1 ∧ monRun cfg s1 es = .ok st' := by
  rw [monRun] at h
  split at h
  · cases h
  · rename_i s1 h1
    exact ⟨s1, h1, h⟩

theorem monRun_append_ok {cfg : MonCfg} {a b : List CEv} :
    ∀ {st st' : MonState}, monRun cfg st (a ++ b) = .ok st' →
      ∃ s1, monRun cfg st a = .ok s1 ∧ monRun cfg s1 b = .ok st' := by
  induction a with
  | nil => intro st st' h; exact ⟨st, rfl, h⟩
  | cons e es ih =>
    intro st st' h
    obtain ⟨s1, h1, h2⟩ := monRun_cons_ok (by simpa using h)
    obtain ⟨s2, h3, h4⟩ := ih h2
    refine ⟨s2, ?_, h4⟩
    rw [monRun, h1]
    exact h3

theorem monRun_replay {cfg : MonCfg} (es : List CEv) :
    ∀ {pre : List CEv} {st' : MonState}, monRun cfg (replay pre) es = .ok st' →
      st' = replay (pre ++ es) := by
  induction es with
  | nil => intro pre st' h; simp [monRun] at h; simp [h]
  | cons e es ih =>
    intro pre st' h
    obtain ⟨s1, h1, h2⟩ := monRun_cons_ok h
    have := monStep_replay h1
    subst this
    have := ih h2
    simpa using this

/-- **the key lemma**: in an accepted log, at every position the step from the replayed state of
the prefix is accepted -/
theorem monRun_at {cfg : MonCfg} {log : List CEv} {st : MonState}
    (h : monRun cfg {} log = .ok st) (pre : List CEv) (e : CEv) (post : List CEv)
    (hlog : log = pre ++ e :: post) :
    monStep cfg (replay pre) e = .ok (replay (pre ++ [e])) ∧
    monRun cfg (replay (pre ++ [e])) post = .ok st ∧ st = replay log := by
  subst hlog
  rw [← replay_nil] at h
  have hst := monRun_replay _ h
  obtain ⟨s1, h1, h2⟩ := monRun_append_ok h
  have := monRun_replay _ h1
  simp only [List.nil_append] at this
  subst this
  obtain ⟨s2, h3, h4⟩ := monRun_cons_ok h2
  have := monStep_replay h3
  subst this
  exact ⟨h3, h4, by simpa using hst⟩

theorem monRun_prefix {cfg : MonCfg} {log : List CEv} {st : MonState}
    (h : monRun cfg {} log = .ok st) (pre post : List CEv) (hlog : log = pre ++ post) :
    monRun cfg {} pre = .ok (replay pre) := by
  subst hlog
  rw [← replay_nil] at h ⊢
  obtain ⟨s1, h1, _⟩ := monRun_append_ok h
  have := monRun_replay _ h1
  simp only [List.nil_append] at this
  rw [h1, this]

/-! ### guards -/

theorem monStep_create_guard {cfg : MonCfg} {st st' : MonState} {db : Str}
    (h : monStep cfg st (.create db) = .ok st') : db ∉ st.created := by
  simp only [monStep] at h
  split at h
  · cases h
  · rename_i hc; simpa using hc

theorem monStep_drop_guard {cfg : MonCfg} {st st' : MonState} {db : Str}
    (h : monStep cfg st (.drop db) = .ok st') :
    db ∈ st.created ∧ db ∉ st.dropped ∧ ∀ p ∈ st.sessions, p.2 ≠ db := by
  simp only [monStep] at h
  split at h
  · cases h
  · rename_i hc
    split at h
    · cases h
    · rename_i hs
      simp only [Bool.or_eq_true, Bool.not_eq_eq_eq_not, Bool.not_true, not_or,
        Bool.not_eq_false, Bool.not_eq_true] at hc
      refine ⟨by simpa using hc.1, by simpa using hc.2, ?_⟩
      intro p hp hpd
      exact hs (List.any_eq_true.mpr ⟨p, hp, by simpa using hpd⟩)

theorem monStep_connect_guard {cfg : MonCfg} {st st' : MonState} {s : Nat} {db : Str}
    (h : monStep cfg st (.connect s db) = .ok st') (hdb : db ≠ cfg.mgmtDb) :
    (cfg.jobs > 0 → db ∈ st.created ∧ db ∉ st.dropped) ∧ st.cancelled = false ∧
    (cfg.jobs > 0 → (inFlight st' cfg.mgmtDb).length ≤ cfg.jobs) := by
  simp only [monStep] at h
  rw [if_neg hdb] at h
  split at h
  · cases h
  · rename_i h1
    split at h
    · cases h
    · rename_i h2
      split at h
      · cases h
      · rename_i h3
        cases h
        refine ⟨?_, by simpa using h2, ?_⟩
        · intro hj
          have : ¬((!st.created.contains db || st.dropped.contains db) = true) :=
            fun hx => h1 ⟨hj, hx⟩
          simp only [Bool.or_eq_true, Bool.not_eq_eq_eq_not, Bool.not_true, not_or,
            Bool.not_eq_false, Bool.not_eq_true] at this
          exact ⟨by simpa using this.1, by simpa using this.2⟩
        · intro hj
          exact Nat.le_of_not_lt (fun hx => h3 ⟨hj, hx⟩)

theorem monStep_sql_guard {cfg : MonCfg} {st st' : MonState} {s : Nat} {text : Str}
    (h : monStep cfg st (.sql s text) = .ok st') :
    ∃ db, lookupSess st.sessions s = some db ∧
      ((db = cfg.mgmtDb ∧ cfg.jobs > 0 ∧ sqlOwner text = none) ∨
       (¬(db = cfg.mgmtDb ∧ cfg.jobs > 0) ∧ ownerOkOf cfg db text = true ∧
        ((kw "dbname ").isPrefixOf text = true →
          (kw "dbname " ++ db ++ kw " -- F").isPrefixOf text = true))) := by
  rw [monStep_sql_eq] at h
  split at h
  · cases h
  · rename_i db hl
    refine ⟨db, hl, ?_⟩
    split at h
    · rename_i hm
      split at h
      · cases h
      · rename_i hsome
        left
        refine ⟨hm.1, hm.2, ?_⟩
        cases hso : sqlOwner text with
        | none => rfl
        | some o => rw [hso] at hsome; simp at hsome
    · rename_i hnm
      split at h
      · cases h
      · rename_i ho
        split at h
        · cases h
        · rename_i hd
          right
          refine ⟨hnm, by simpa using ho, ?_⟩
          intro hp
          cases hq : (kw "dbname " ++ db ++ kw " -- F").isPrefixOf text with
          | true => rfl
          | false => exact absurd ⟨hp, by rw [hq]; rfl⟩ hd

theorem monStep_eof_guard {cfg : MonCfg} {st st' : MonState} {s : Nat}
    (h : monStep cfg st (.eof s) = .ok st') : ∃ db, lookupSess st.sessions s = some db := by
  simp only [monStep] at h
  split at h
  · cases h
  · rename_i db hl; exact ⟨db, hl⟩

theorem lookupSess_mem {l : List (Nat × Str)} {s : Nat} {db : Str}
    (h : lookupSess l s = some db) : (s, db) ∈ l := by
  induction l with
  | nil => simp [lookupSess] at h
  | cons p rest ih =>
    obtain ⟨k, d⟩ := p
    simp only [lookupSess] at h
    split at h
    · rename_i hk; cases h; subst hk; exact List.mem_cons_self ..
    · exact List.mem_cons_of_mem _ (ih h)

end Slt
