/-
The converse of monitor soundness: a log that satisfies the declarative specification `MonSpec`
and in which session identifiers are not reused is accepted by the monitor.
-/
import SltVerif.Lemmas.CliSimBase
namespace Slt

/-- session identifiers (engine process ids) are not reused within the log -/
def SessionsDistinct (log : List CEv) : Prop :=
  ∀ pre s db post, log = pre ++ CEv.connect s db :: post → ∀ db', CEv.connect s db' ∉ pre

theorem openFor_connect_mem {pre : List CEv} {s : Nat} {db : Str} (h : OpenFor pre s db) :
    CEv.connect s db ∈ pre := by
  obtain ⟨p1, p2, rfl, _⟩ := h
  simp

theorem openAt_nodup_of_distinct (log : List CEv) (hd : SessionsDistinct log) :
    ∀ pre post, log = pre ++ post → ((openAt pre).map (·.1)).Nodup := by
  intro pre
  induction pre using list_snoc_induction with
  | h0 => intro _ _; simp [openAt]
  | hs p e ih =>
    intro post hlog
    have ihp := ih (e :: post) (by simpa using hlog)
    rw [openAt_snoc]
    cases e with
    | connect s db =>
      simp only [openStep, List.map_append, List.map_cons, List.map_nil]
      rw [List.nodup_append]
      refine ⟨ihp, by simp, ?_⟩
      intro a ha b hb
      simp only [List.mem_singleton] at hb
      subst hb
      obtain ⟨q, hq, rfl⟩ := List.mem_map.mp ha
      intro heq
      have hopen : OpenFor p q.1 q.2 := (mem_openAt p q.1 q.2).mp hq
      have := openFor_connect_mem hopen
      rw [heq] at this
      exact hd p b db post (by simpa using hlog) q.2 this
    | eof s =>
      simp only [openStep]
      exact (List.Sublist.map _ List.filter_sublist).nodup ihp
    | create _ => exact ihp
    | drop _ => exact ihp
    | sql _ _ => exact ihp
    | cancel => exact ihp

/-! ### more accepted steps -/

theorem monStep_drop_ok' {cfg : MonCfg} {m : MonState} {db : Str} (h1 : db ∈ m.created)
    (h2 : db ∉ m.dropped) (h3 : ∀ p ∈ m.sessions, p.2 ≠ db) :
    monStep cfg m (.drop db) = .ok { m with dropped := m.dropped ++ [db] } := by
  simp only [monStep]
  rw [if_neg (by simp [h1, h2]), if_neg]
  intro hany
  obtain ⟨p, hp, hpd⟩ := List.any_eq_true.mp hany
  exact h3 p hp (by simpa using hpd)

theorem monStep_connect_mgmt_ok {cfg : MonCfg} {m : MonState} {s : Nat} :
    monStep cfg m (.connect s cfg.mgmtDb) =
      .ok { m with sessions := m.sessions ++ [(s, cfg.mgmtDb)] } := by
  simp only [monStep, ↓reduceIte]

theorem monStep_sql_mgmt_ok {cfg : MonCfg} {m : MonState} {s : Nat} {text : Str}
    (h1 : lookupSess m.sessions s = some cfg.mgmtDb) (hj : cfg.jobs > 0)
    (h2 : sqlOwner text = none) : monStep cfg m (.sql s text) = .ok m := by
  rw [monStep_sql_eq, h1]
  simp only
  simp only [true_and, hj, ↓reduceIte, h2]
  rfl

/-! ### completeness -/

theorem monRun_of_spec {cfg : MonCfg} (hj : cfg.jobs > 0) (log : List CEv)
    (hd : SessionsDistinct log) (hspec : MonSpec cfg log) :
    ∀ pre post, log = pre ++ post → monRun cfg {} pre = .ok (replay pre) := by
  intro pre
  induction pre using list_snoc_induction with
  | h0 => intro _ _; rfl
  | hs p e ih =>
    intro post hlog
    have hlog' : log = p ++ e :: post := by simpa using hlog
    have ihp := ih (e :: post) hlog'
    have hnd := openAt_nodup_of_distinct log hd p (e :: post) hlog'
    suffices h : ∃ st', monStep cfg (replay p) e = .ok st' by
      obtain ⟨st', hst⟩ := h
      have := monStep_replay hst
      subst this
      exact monRun_append_of_ok ihp (monRun_single hst)
    cases e with
    | create db =>
      have := hspec.uniqueCreate p db post hlog'
      exact ⟨_, monStep_create_ok (m := replay p) (fun hx => this (mem_createdOf.mp hx))⟩
    | drop db =>
      obtain ⟨h1, h2⟩ := hspec.dropOnce p db post hlog'
      have h3 := hspec.closeBeforeDrop p db post hlog'
      refine ⟨_, monStep_drop_ok' (m := replay p) (mem_createdOf.mpr h1)
        (fun hx => h2 (mem_droppedOf.mp hx)) ?_⟩
      intro q hq hqd
      apply h3 q.1
      rw [← hqd]
      exact (mem_openAt p q.1 q.2).mp hq
    | connect s db =>
      by_cases hdb : db = cfg.mgmtDb
      · subst hdb
        exact ⟨_, monStep_connect_mgmt_ok⟩
      · obtain ⟨h1, h2⟩ := hspec.createBeforeUse p s db post hlog' hdb
        have h3 : (replay p).cancelled = false := by
          cases hc : (replay p).cancelled with
          | false => rfl
          | true =>
            have : CEv.cancel ∈ p := by simpa [replay] using hc
            exact absurd (hspec.noStartAfterCancel p s db post hlog' this) hdb
        refine ⟨_, monStep_connect_ok (m := replay p) hdb (mem_createdOf.mpr h1)
          (fun hx => h2 (mem_droppedOf.mp hx)) h3 ?_⟩
        apply hspec.bounded (p ++ [CEv.connect s db]) post (by simpa using hlog) _ (dedupS_nodup _)
        intro db' hdb'
        obtain ⟨hne, k, hk⟩ := mem_inFlight.mp hdb'
        refine ⟨hne, k, ?_⟩
        rw [← mem_openAt, openAt_snoc]
        exact hk
    | sql s text =>
      obtain ⟨db, hopen, hown, hdbn⟩ := hspec.exclusiveUse p s text post hlog'
      have hl : lookupSess (replay p).sessions s = some db :=
        lookupSess_of_mem hnd ((mem_openAt p s db).mpr hopen)
      by_cases hdb : db = cfg.mgmtDb
      · subst hdb
        refine ⟨_, monStep_sql_mgmt_ok hl hj ?_⟩
        cases hso : sqlOwner text with
        | none => rfl
        | some o => exact absurd rfl (hown o hso).1
      · refine ⟨_, monStep_sql_ok hl hdb ?_ ?_⟩
        · unfold ownerOkOf
          cases hso : sqlOwner text with
          | none => rfl
          | some o =>
            obtain ⟨_, f, hf, hfo⟩ := hown o hso
            rw [hf]
            simp [hfo]
        · rintro ⟨h1, h2⟩
          rw [hdbn hdb h1] at h2
          cases h2
    | eof s =>
      obtain ⟨db, hopen⟩ := hspec.knownSession p s post hlog'
      obtain ⟨d, hd'⟩ := lookupSess_isSome (l := (replay p).sessions) (k := s)
        (List.mem_map.mpr ⟨(s, db), (mem_openAt p s db).mpr hopen, rfl⟩)
      exact ⟨_, monStep_eof_ok hd'⟩
    | cancel => exact ⟨{ replay p with cancelled := true }, by simp [monStep]⟩

theorem finishCheck_of_spec {cfg : MonCfg} {log : List CEv} (hspec : MonSpec cfg log) (db : Str)
    (hdb : db ∈ createdOf log) : finishCheck cfg (replay log) db = none := by
  unfold finishCheck
  cases hr : cfg.refused with
  | true => simp
  | false =>
    simp only [Bool.false_eq_true, ↓reduceIte]
    obtain ⟨h1, h2⟩ := hspec.allDropped hr db (mem_createdOf.mp hdb)
    by_cases hk : keptDb cfg db
    · rw [if_pos ((keptDb_iff cfg db).mpr hk)]
      have : db ∉ (replay log).dropped := fun hx => h1 hk (mem_droppedOf.mp hx)
      simp [this]
    · rw [if_neg (fun hx => hk ((keptDb_iff cfg db).mp hx))]
      have : db ∈ (replay log).dropped := mem_droppedOf.mpr (h2 hk)
      simp [this]

/-- **monitor completeness** -/
theorem accepts_of_spec {cfg : MonCfg} (hj : cfg.jobs > 0) (log : List CEv)
    (hd : SessionsDistinct log) (hspec : MonSpec cfg log) : accepts cfg log = none := by
  unfold accepts
  rw [monRun_of_spec hj log hd hspec log [] (by simp)]
  simp only
  rw [monFinish_eq]
  have hsess : (replay log).sessions = [] := by
    cases hs : (replay log).sessions with
    | nil => rfl
    | cons q rest =>
      exfalso
      have hq : (q.1, q.2) ∈ openAt log := by
        show q ∈ (replay log).sessions
        rw [hs]; exact List.mem_cons_self ..
      obtain ⟨p1, p2, hlog, hn⟩ := (mem_openAt log q.1 q.2).mp hq
      exact hn (hspec.allClosed p1 q.1 q.2 p2 hlog)
  rw [hsess]
  simp only
  rw [List.findSome?_eq_none_iff]
  intro db hdb
  exact finishCheck_of_spec hspec db hdb

end Slt
