/-
The declarative specification `MonSpec` of a log accepted by the monitor, and the proof that
`accepts cfg log = none` implies it (monitor soundness).
-/
import SltVerif.Lemmas.CliMon
namespace Slt

/-! ### helpers -/

theorem mem_dedupS {l : List Str} {a : Str} : a ∈ dedupS l ↔ a ∈ l := by
  induction l with
  | nil => simp [dedupS]
  | cons b rest ih =>
    simp only [dedupS]
    split
    · rename_i hc
      have hb : b ∈ rest := by simpa using hc
      rw [ih, List.mem_cons]
      constructor
      · exact Or.inr
      · rintro (rfl | h)
        · exact hb
        · exact h
    · rw [List.mem_cons, List.mem_cons, ih]

theorem dedupS_nodup (l : List Str) : (dedupS l).Nodup := by
  induction l with
  | nil => simp [dedupS]
  | cons b rest ih =>
    simp only [dedupS]
    split
    · exact ih
    · rename_i hc
      rw [List.nodup_cons]
      refine ⟨?_, ih⟩
      rw [mem_dedupS]
      simpa using hc

theorem mem_inFlight {st : MonState} {mgmt db : Str} :
    db ∈ inFlight st mgmt ↔ db ≠ mgmt ∧ ∃ s, (s, db) ∈ st.sessions := by
  unfold inFlight
  rw [mem_dedupS, List.mem_filter, List.mem_map]
  constructor
  · rintro ⟨⟨p, hp, rfl⟩, h2⟩
    exact ⟨by simpa using h2, p.1, hp⟩
  · rintro ⟨h1, s, hs⟩
    exact ⟨⟨(s, db), hs, rfl⟩, by simpa using h1⟩

theorem monRun_induction {cfg : MonCfg} (P : MonState → Prop)
    (hstep : ∀ st e st', P st → monStep cfg st e = .ok st' → P st') :
    ∀ (es : List CEv) (st st' : MonState), P st → monRun cfg st es = .ok st' → P st' := by
  intro es
  induction es with
  | nil => intro st st' hP h; simp [monRun] at h; exact h ▸ hP
  | cons e es ih =>
    intro st st' hP h
    obtain ⟨s1, h1, h2⟩ := monRun_cons_ok h
    exact ih s1 st' (hstep st e s1 hP h1) h2

/-- a duplicate-free list characterised by positions -/
theorem count_le_one_of_first {α : Type} [DecidableEq α] (x : α) :
    ∀ l : List α, (∀ pre post, l = pre ++ x :: post → x ∉ pre) → l.count x ≤ 1 := by
  intro l
  induction l using list_snoc_induction with
  | h0 => intro _; simp
  | hs l y ih =>
    intro h
    have hl : l.count x ≤ 1 := ih (fun pre post hp => h pre (post ++ [y]) (by simp [hp]))
    rw [List.count_append]
    by_cases hy : y = x
    · subst hy
      have : y ∉ l := h l [] rfl
      have : l.count y = 0 := List.count_eq_zero.mpr this
      simp [this]
    · have : [y].count x = 0 := List.count_eq_zero.mpr (by simpa using fun h => hy h.symm)
      omega

/-! ### bounded concurrency as a state invariant -/

def Bounded (cfg : MonCfg) (st : MonState) : Prop :=
  ∀ dbs : List Str, dbs.Nodup → (∀ db ∈ dbs, db ≠ cfg.mgmtDb ∧ ∃ s, (s, db) ∈ st.sessions) →
    dbs.length ≤ cfg.jobs

theorem bounded_init (cfg : MonCfg) : Bounded cfg {} := by
  intro dbs _ h
  cases dbs with
  | nil => simp
  | cons a rest =>
    obtain ⟨_, s, hs⟩ := h a (List.mem_cons_self ..)
    simp at hs

theorem monStep_bounded {cfg : MonCfg} (hj : cfg.jobs > 0) {st st' : MonState} {e : CEv}
    (hb : Bounded cfg st) (h : monStep cfg st e = .ok st') : Bounded cfg st' := by
  obtain ⟨_, _, hs, _, _⟩ := monStep_fields h
  have hsub : (∀ p, p ∈ st'.sessions → p ∈ st.sessions) → Bounded cfg st' := by
    intro hsub dbs hnd hdbs
    exact hb dbs hnd (fun db hdb => by
      obtain ⟨h1, s, h2⟩ := hdbs db hdb
      exact ⟨h1, s, hsub _ h2⟩)
  cases e with
  | connect s db =>
    by_cases hdb : db = cfg.mgmtDb
    · intro dbs hnd hdbs
      apply hb dbs hnd
      intro db' hdb'
      obtain ⟨h1, s', h2⟩ := hdbs db' hdb'
      refine ⟨h1, s', ?_⟩
      rw [hs] at h2
      simp only [openStep, List.mem_append, List.mem_singleton, Prod.mk.injEq] at h2
      rcases h2 with h2 | ⟨_, h2⟩
      · exact h2
      · exact absurd (h2.trans hdb) h1
    · obtain ⟨_, _, hlen⟩ := monStep_connect_guard h hdb
      intro dbs hnd hdbs
      have hsub : dbs ⊆ inFlight st' cfg.mgmtDb := by
        intro db' hdb'
        exact mem_inFlight.mpr (hdbs db' hdb')
      exact Nat.le_trans (hnd.length_le_of_subset hsub) (hlen hj)
  | eof s =>
    apply hsub
    intro p hp
    rw [hs] at hp
    exact (List.mem_filter.mp hp).1
  | create _ => apply hsub; intro p hp; rw [hs] at hp; exact hp
  | drop _ => apply hsub; intro p hp; rw [hs] at hp; exact hp
  | sql _ _ => apply hsub; intro p hp; rw [hs] at hp; exact hp
  | cancel => apply hsub; intro p hp; rw [hs] at hp; exact hp

/-! ### the end-of-run check -/

/-- the per-database part of `monFinish` (its local `check`) -/
def finishCheck (cfg : MonCfg) (st : MonState) (db : Str) : Option Violation :=
  let kept := cfg.keep && ((fileOfDb cfg db).map (·.failed)).getD false
  if cfg.refused then none
  else if kept then (if st.dropped.contains db then some (.droppedThoughKept db) else none)
  else (if st.dropped.contains db then none else some (.notDropped db))

theorem monFinish_eq (cfg : MonCfg) (st : MonState) :
    monFinish cfg st =
      match st.sessions with
      | (s, _) :: _ => some (.sessionNotClosed s)
      | [] => st.created.findSome? (finishCheck cfg st) := rfl

/-- the database of a failed file under keep-on-failure -/
def keptDb (cfg : MonCfg) (db : Str) : Prop :=
  cfg.keep = true ∧ ∃ f, fileOfDb cfg db = some f ∧ f.failed = true

theorem keptDb_iff (cfg : MonCfg) (db : Str) :
    (cfg.keep && ((fileOfDb cfg db).map (·.failed)).getD false) = true ↔ keptDb cfg db := by
  unfold keptDb
  rw [Bool.and_eq_true]
  cases fileOfDb cfg db with
  | none => simp
  | some f => simp

theorem finishCheck_none {cfg : MonCfg} {st : MonState} {db : Str}
    (h : finishCheck cfg st db = none) (hr : cfg.refused = false) :
    (keptDb cfg db → db ∉ st.dropped) ∧ (¬ keptDb cfg db → db ∈ st.dropped) := by
  unfold finishCheck at h
  simp only [hr, Bool.false_eq_true, ↓reduceIte] at h
  split at h
  · rename_i hk
    have hk' := (keptDb_iff cfg db).mp hk
    split at h
    · cases h
    · rename_i hd
      exact ⟨fun _ => by simpa using hd, fun hn => absurd hk' hn⟩
  · rename_i hk
    have hk' : ¬ keptDb cfg db := fun hx => hk ((keptDb_iff cfg db).mpr hx)
    split at h
    · rename_i hd
      exact ⟨fun hx => absurd hx hk', fun _ => by simpa using hd⟩
    · cases h

theorem monFinish_none {cfg : MonCfg} {st : MonState} (h : monFinish cfg st = none) :
    st.sessions = [] ∧ (cfg.refused = false → ∀ db ∈ st.created,
      (keptDb cfg db → db ∉ st.dropped) ∧ (¬ keptDb cfg db → db ∈ st.dropped)) := by
  rw [monFinish_eq] at h
  split at h
  · cases h
  · rename_i hs
    refine ⟨hs, ?_⟩
    intro hr db hdb
    rw [List.findSome?_eq_none_iff] at h
    exact finishCheck_none (h db hdb) hr

theorem accepts_none {cfg : MonCfg} {log : List CEv} (h : accepts cfg log = none) :
    ∃ st, monRun cfg {} log = .ok st ∧ monFinish cfg st = none := by
  unfold accepts at h
  split at h
  · cases h
  · rename_i st hst; exact ⟨st, hst, h⟩

/-! ### the specification -/

/-- what an accepted log looks like, by positions (`log = pre ++ e :: post`: the event `e` with
    everything before it and everything after it) -/
structure MonSpec (cfg : MonCfg) (log : List CEv) : Prop where
  /-- create-before-use: a session for a per-file database starts after the database was created
      and before it is dropped -/
  createBeforeUse : ∀ pre s db post, log = pre ++ CEv.connect s db :: post → db ≠ cfg.mgmtDb →
    CEv.create db ∈ pre ∧ CEv.drop db ∉ pre
  /-- database names are unique within the run -/
  uniqueCreate : ∀ pre db post, log = pre ++ CEv.create db :: post → CEv.create db ∉ pre
  /-- exclusive use: SQL arrives on an open session; text carrying an owner marker arrives only on
      a per-file database, namely that of the file it was written in (never on the management
      database); and on a per-file database `$__DATABASE__` is its name -/
  exclusiveUse : ∀ pre s text post, log = pre ++ CEv.sql s text :: post →
    ∃ db, OpenFor pre s db ∧
      (∀ o, sqlOwner text = some o →
        db ≠ cfg.mgmtDb ∧ ∃ f, fileOfDb cfg db = some f ∧ f.path = o) ∧
      (db ≠ cfg.mgmtDb → ((kw "dbname ").isPrefixOf text = true →
        (kw "dbname " ++ db ++ kw " -- F").isPrefixOf text = true))
  /-- bounded concurrency: at every prefix, any set of distinct per-file databases that all have an
      open session has at most `jobs` elements -/
  bounded : ∀ pre post, log = pre ++ post → ∀ dbs : List Str, dbs.Nodup →
    (∀ db ∈ dbs, db ≠ cfg.mgmtDb ∧ ∃ s, OpenFor pre s db) → dbs.length ≤ cfg.jobs
  /-- close-before-drop: no session of the database is open when it is dropped -/
  closeBeforeDrop : ∀ pre db post, log = pre ++ CEv.drop db :: post → ∀ s, ¬ OpenFor pre s db
  /-- a database is dropped at most once, and only after it was created -/
  dropOnce : ∀ pre db post, log = pre ++ CEv.drop db :: post →
    CEv.create db ∈ pre ∧ CEv.drop db ∉ pre
  /-- … and at the end every created database has been dropped, except the kept ones, which have
      not (unless the server is assumed down after a refused connection) -/
  allDropped : cfg.refused = false → ∀ db, CEv.create db ∈ log →
    (keptDb cfg db → CEv.drop db ∉ log) ∧ (¬ keptDb cfg db → CEv.drop db ∈ log)
  /-- every session is closed -/
  allClosed : ∀ pre s db post, log = pre ++ CEv.connect s db :: post → CEv.eof s ∈ post
  /-- only open sessions are closed -/
  knownSession : ∀ pre s post, log = pre ++ CEv.eof s :: post → ∃ db, OpenFor pre s db
  /-- no test-file session starts after the cancellation anchor -/
  noStartAfterCancel : ∀ pre s db post, log = pre ++ CEv.connect s db :: post →
    CEv.cancel ∈ pre → db = cfg.mgmtDb

theorem monSpec_of_accepts {cfg : MonCfg} (hj : cfg.jobs > 0) {log : List CEv}
    (h : accepts cfg log = none) : MonSpec cfg log := by
  obtain ⟨st, hrun, hfin⟩ := accepts_none h
  obtain ⟨hsess, hdrop⟩ := monFinish_none hfin
  have hst : st = replay log := by
    have := monRun_replay (pre := []) log (by rw [replay_nil]; exact hrun)
    simpa using this
  refine ⟨?_, ?_, ?_, ?_, ?_, ?_, ?_, ?_, ?_, ?_⟩
  · intro pre s db post hlog hdb
    obtain ⟨hstep, _, _⟩ := monRun_at hrun pre _ post hlog
    obtain ⟨h1, _, _⟩ := monStep_connect_guard hstep hdb
    have := h1 hj
    simp only [replay] at this
    exact ⟨mem_createdOf.mp this.1, fun hx => this.2 (mem_droppedOf.mpr hx)⟩
  · intro pre db post hlog
    obtain ⟨hstep, _, _⟩ := monRun_at hrun pre _ post hlog
    have := monStep_create_guard hstep
    simp only [replay] at this
    exact fun hx => this (mem_createdOf.mpr hx)
  · intro pre s text post hlog
    obtain ⟨hstep, _, _⟩ := monRun_at hrun pre _ post hlog
    obtain ⟨db, hl, hg⟩ := monStep_sql_guard hstep
    refine ⟨db, (mem_openAt pre s db).mp (lookupSess_mem hl), ?_, ?_⟩
    · intro o hown
      rcases hg with ⟨_, _, hnone⟩ | ⟨hnm, ho, _⟩
      · rw [hnone] at hown; cases hown
      · refine ⟨fun hdb => hnm ⟨hdb, hj⟩, ?_⟩
        unfold ownerOkOf at ho
        rw [hown] at ho
        cases hf : fileOfDb cfg db with
        | none =>
          rw [hf] at ho
          simp only [beq_iff_eq] at ho
          omega
        | some f =>
          rw [hf] at ho
          exact ⟨f, rfl, (of_decide_eq_true ho).symm⟩
    · intro hdb
      rcases hg with ⟨hm, _, _⟩ | ⟨_, _, hd⟩
      · exact absurd hm hdb
      · exact hd
  · intro pre post hlog dbs hnd hdbs
    have hpre := monRun_prefix hrun pre post hlog
    have hb : Bounded cfg (replay pre) :=
      monRun_induction (Bounded cfg) (fun _ _ _ hP hs => monStep_bounded hj hP hs) pre {} _
        (bounded_init cfg) hpre
    apply hb dbs hnd
    intro db hdb
    obtain ⟨h1, s, h2⟩ := hdbs db hdb
    exact ⟨h1, s, (mem_openAt pre s db).mpr h2⟩
  · intro pre db post hlog s hopen
    obtain ⟨hstep, _, _⟩ := monRun_at hrun pre _ post hlog
    obtain ⟨_, _, h3⟩ := monStep_drop_guard hstep
    exact h3 (s, db) ((mem_openAt pre s db).mpr hopen) rfl
  · intro pre db post hlog
    obtain ⟨hstep, _, _⟩ := monRun_at hrun pre _ post hlog
    obtain ⟨h1, h2, _⟩ := monStep_drop_guard hstep
    simp only [replay] at h1 h2
    exact ⟨mem_createdOf.mp h1, fun hx => h2 (mem_droppedOf.mpr hx)⟩
  · intro hr db hdb
    have := hdrop hr db (by rw [hst]; exact mem_createdOf.mpr hdb)
    rw [hst] at this
    simp only [replay] at this
    exact ⟨fun hk hx => this.1 hk (mem_droppedOf.mpr hx), fun hk => mem_droppedOf.mp (this.2 hk)⟩
  · intro pre s db post hlog
    apply Classical.byContradiction
    intro hn
    have : (s, db) ∈ openAt log := (mem_openAt log s db).mpr ⟨pre, post, hlog, hn⟩
    rw [hst] at hsess
    simp only [replay] at hsess
    rw [hsess] at this
    simp at this
  · intro pre s post hlog
    obtain ⟨hstep, _, _⟩ := monRun_at hrun pre _ post hlog
    obtain ⟨db, hl⟩ := monStep_eof_guard hstep
    exact ⟨db, (mem_openAt pre s db).mp (lookupSess_mem hl)⟩
  · intro pre s db post hlog hc
    apply Classical.byContradiction
    intro hdb
    obtain ⟨hstep, _, _⟩ := monRun_at hrun pre _ post hlog
    obtain ⟨_, h2, _⟩ := monStep_connect_guard hstep hdb
    simp only [replay] at h2
    have : pre.contains CEv.cancel = true := by simpa using hc
    rw [this] at h2
    cases h2

/-- dropped exactly once, as a count -/
theorem MonSpec.drop_count {cfg : MonCfg} {log : List CEv} (h : MonSpec cfg log)
    (hr : cfg.refused = false) (db : Str) (hc : CEv.create db ∈ log) (hk : ¬ keptDb cfg db) :
    log.count (CEv.drop db) = 1 := by
  have h1 : log.count (CEv.drop db) ≤ 1 :=
    count_le_one_of_first _ log (fun pre post hp => (h.dropOnce pre db post hp).2)
  have h2 : 0 < log.count (CEv.drop db) := List.count_pos_iff.mpr ((h.allDropped hr db hc).2 hk)
  omega

theorem MonSpec.create_count {cfg : MonCfg} {log : List CEv} (h : MonSpec cfg log) (db : Str) :
    log.count (CEv.create db) ≤ 1 :=
  count_le_one_of_first _ log (fun pre post hp => h.uniqueCreate pre db post hp)

end Slt
