/-
Lemmas about test-case names, database names and `fileOfDb` (`SltVerif/Cli.lean`).
-/
import SltVerif.Cli
namespace Slt

theorem dbName_length (p s : Str) : (dbName p s).length = (testCaseName p).length + 1 + s.length := by
  simp [dbName]; omega

/-- equal database names with suffixes of equal length have equal test-case names and suffixes -/
theorem dbName_inj (p q s t : Str) (hlen : s.length = t.length) (h : dbName p s = dbName q t) :
    testCaseName p = testCaseName q ∧ s = t := by
  have hl : (dbName p s).length = (dbName q t).length := by rw [h]
  rw [dbName_length, dbName_length] at hl
  have hl' : (testCaseName p).length = (testCaseName q).length := by omega
  unfold dbName at h
  have := List.append_inj h hl'
  refine ⟨this.1, ?_⟩
  have h2 := this.2
  simp only [List.cons.injEq, true_and] at h2
  exact h2

/-- the predicate `fileOfDb` searches with -/
def dbMatches (db : Str) (f : CFile) : Bool :=
  decide (db.length = (testCaseName f.path).length + 9) &&
    (testCaseName f.path ++ ['_']).isPrefixOf db

theorem fileOfDb_eq (cfg : MonCfg) (db : Str) : fileOfDb cfg db = cfg.files.find? (dbMatches db) := rfl

theorem dbMatches_dbName (f : CFile) (s : Str) (hs : s.length = 8) :
    dbMatches (dbName f.path s) f = true := by
  unfold dbMatches
  rw [Bool.and_eq_true]
  constructor
  · simp [dbName_length, hs]
  · rw [List.isPrefixOf_iff_prefix]
    refine ⟨s, ?_⟩
    simp [dbName]

theorem dbMatches_dbName_iff (f : CFile) (p s : Str) (hs : s.length = 8)
    (h : dbMatches (dbName p s) f = true) : testCaseName f.path = testCaseName p := by
  unfold dbMatches at h
  rw [Bool.and_eq_true] at h
  obtain ⟨h1, h2⟩ := h
  have h1 : (dbName p s).length = (testCaseName f.path).length + 9 := by simpa using h1
  rw [dbName_length, hs] at h1
  have hl : (testCaseName f.path).length = (testCaseName p).length := by omega
  rw [List.isPrefixOf_iff_prefix] at h2
  obtain ⟨t, ht⟩ := h2
  unfold dbName at ht
  have : testCaseName f.path ++ ('_' :: t) = testCaseName p ++ '_' :: s := by
    rw [← ht]; simp
  exact (List.append_inj this hl).1

/-- `find?` over a list with pairwise distinct test-case names finds exactly the owner -/
theorem find_dbMatches (files : List CFile)
    (hd : files.Pairwise (fun a b => testCaseName a.path ≠ testCaseName b.path))
    (f : CFile) (hf : f ∈ files) (s : Str) (hs : s.length = 8) :
    files.find? (dbMatches (dbName f.path s)) = some f := by
  induction files with
  | nil => simp at hf
  | cons g rest ih =>
    rw [List.pairwise_cons] at hd
    rw [List.find?_cons]
    rcases List.mem_cons.mp hf with rfl | hf'
    · rw [dbMatches_dbName f s hs]
    · have hne : dbMatches (dbName f.path s) g = false := by
        cases hm : dbMatches (dbName f.path s) g with
        | false => rfl
        | true => exact absurd (dbMatches_dbName_iff g f.path s hs hm) (hd.1 f hf')
      rw [hne]
      exact ih hd.2 hf'

/-- a database that does not have the shape of any file's database name resolves to nothing -/
theorem find_dbMatches_some (files : List CFile) (db : Str) (f : CFile)
    (h : files.find? (dbMatches db) = some f) : f ∈ files ∧ dbMatches db f = true := by
  exact ⟨List.mem_of_find?_eq_some h, List.find?_some h⟩

end Slt
