/-
Results of the parallel driver: a skipped / cancelled result needs the cancellation flag, and the
flag is set only by a signal, by a failure under fail-fast or by a refused connection.
-/
import SltVerif.Lemmas.CliIdx
namespace Slt

/-- the cancel causes visible in a driver state -/
def HasCause (c : DCfg) (s : DSt) : Prop :=
  CEv.cancel ∈ s.log ∨
    ∃ i, (i, FileResult.err) ∈ s.results ∧ (c.failFast = true ∨ s.refused = true)

structure ResInv (c : DCfg) (s : DSt) : Prop where
  skipped : ∀ p ∈ s.results, (p.2 = FileResult.skipped ∨ p.2 = FileResult.cancelled) →
    s.cancelled = true
  cause : s.cancelled = true → HasCause c s
  refused : s.refused = true → ∃ i, (i, FileResult.err) ∈ s.results

theorem resInv_init (c : DCfg) : ResInv c (dinit c) :=
  ⟨by simp [dinit], by simp [dinit], by simp [dinit]⟩

theorem dstep_resInv {c : DCfg} {s s' : DSt} {l : DLabel} (h : dstep c s l = some s')
    (hi : ResInv c s) : ResInv c s' := by
  have hlogmono : ∀ evs, HasCause c s → HasCause c { s with log := s.log ++ evs } := by
    intro evs hc
    rcases hc with hc | hc
    · exact Or.inl (List.mem_append_left _ hc)
    · exact Or.inr hc
  cases l with
  | create =>
    obtain ⟨db, rest, _, _, rfl⟩ := dstep_create_inv h
    exact ⟨hi.skipped, fun hc => hlogmono _ (hi.cause hc), hi.refused⟩
  | beginRun => obtain ⟨_, _, rfl⟩ := dstep_beginRun_inv h; exact ⟨hi.skipped, hi.cause, hi.refused⟩
  | start =>
    obtain ⟨i, rest, _, _, h3⟩ := dstep_start_inv h
    rcases h3 with ⟨hc, _, rfl⟩ | ⟨_, _, rfl⟩
    · refine ⟨fun _ _ _ => hc, ?_, ?_⟩
      · intro hc'
        rcases hi.cause hc' with h1 | ⟨j, h1, h2⟩
        · exact Or.inl h1
        · exact Or.inr ⟨j, List.mem_append_left _ h1, h2⟩
      · intro hr
        obtain ⟨j, hj⟩ := hi.refused hr
        exact ⟨j, List.mem_append_left _ hj⟩
    · exact ⟨hi.skipped, hi.cause, hi.refused⟩
  | openSession i =>
    obtain ⟨ss, f, _, _, _, _, rfl⟩ := dstep_openSession_inv h
    exact ⟨hi.skipped, fun hc => hlogmono _ (hi.cause hc), hi.refused⟩
  | sql i k t =>
    obtain ⟨ss, f, _, _, _, _, _, _, _, rfl⟩ := dstep_sql_inv h
    exact ⟨hi.skipped, fun hc => hlogmono _ (hi.cause hc), hi.refused⟩
  | finish i r b =>
    obtain ⟨ss, _, _, hne, hcan, href, rfl⟩ := dstep_finish_inv h
    refine ⟨?_, ?_, ?_⟩
    · intro p hp hps
      rcases List.mem_append.mp hp with hp | hp
      · simp [hi.skipped p hp hps]
      · simp only [List.mem_singleton] at hp
        subst hp
        rcases hps with hps | hps
        · simp [(hne hps).1]
        · simp [hcan hps]
    · intro hc
      simp only [Bool.or_eq_true, Bool.and_eq_true, beq_iff_eq] at hc
      rcases hc with hc | ⟨hr, hc⟩
      · rcases hi.cause hc with h1 | ⟨j, h1, h2⟩
        · exact Or.inl (List.mem_append_left _ h1)
        · refine Or.inr ⟨j, List.mem_append_left _ h1, ?_⟩
          rcases h2 with h2 | h2
          · exact Or.inl h2
          · exact Or.inr (by simp [h2])
      · subst hr
        refine Or.inr ⟨i, List.mem_append_right _ (List.mem_singleton.mpr rfl), ?_⟩
        rcases hc with hc | hc
        · exact Or.inl hc
        · exact Or.inr (by simp [hc])
    · intro hr
      simp only [Bool.or_eq_true] at hr
      rcases hr with hr | hr
      · obtain ⟨j, hj⟩ := hi.refused hr
        exact ⟨j, List.mem_append_left _ hj⟩
      · have := href hr
        subst this
        exact ⟨i, List.mem_append_right _ (List.mem_singleton.mpr rfl)⟩
  | closeSession i k =>
    obtain ⟨ss, _, _, _, rfl⟩ := dstep_closeSession_inv h
    exact ⟨hi.skipped, fun hc => hlogmono _ (hi.cause hc), hi.refused⟩
  | signal =>
    obtain ⟨_, _, rfl⟩ := dstep_signal_inv h
    exact ⟨fun _ _ _ => rfl, fun _ => Or.inl (by simp), hi.refused⟩
  | beginDrop => obtain ⟨_, _, _, rfl⟩ := dstep_beginDrop_inv h; exact ⟨hi.skipped, hi.cause, hi.refused⟩
  | drop =>
    obtain ⟨db, rest, _, _, rfl⟩ := dstep_drop_inv h
    exact ⟨hi.skipped, fun hc => hlogmono _ (hi.cause hc), hi.refused⟩
  | done => obtain ⟨_, _, rfl⟩ := dstep_done_inv h; exact ⟨hi.skipped, hi.cause, hi.refused⟩

theorem drun_resInv {c : DCfg} (ls : List DLabel) (s : DSt) (h : drun c (dinit c) ls = some s) :
    ResInv c s :=
  drun_induction (ResInv c) (fun _ _ _ hP hs => dstep_resInv hs hP) ls _ s (resInv_init c) h

end Slt
