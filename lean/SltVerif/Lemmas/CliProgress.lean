/-
Progress under cancellation: from every state of the running phase in which the cancellation flag
is set, the driver can reach `finished`, in a bounded number of steps (finish every file in
flight as cancelled, skip every pending file, drop the databases).
-/
import SltVerif.Lemmas.CliCancel
namespace Slt

variable {c : DCfg}

theorem drun_trans {s1 s2 s3 : DSt} {l1 l2 : List DLabel} (h1 : drun c s1 l1 = some s2)
    (h2 : drun c s2 l2 = some s3) : drun c s1 (l1 ++ l2) = some s3 := by
  induction l1 generalizing s1 with
  | nil => simp at h1; subst h1; exact h2
  | cons l ls ih =>
    obtain ⟨s', h3, h4⟩ := drun_cons_some h1
    rw [List.cons_append, drun_cons, h3]
    exact ih h4

theorem drun_one {s s' : DSt} {l : DLabel} (h : dstep c s l = some s') : drun c s [l] = some s' := by
  rw [drun_cons, h]; rfl

def afterFinish (s : DSt) (i : Nat) (ss : List Nat) : DSt :=
  { s with inflight := s.inflight.filter (fun p => p.1 ≠ i),
           results := s.results ++ [(i, .cancelled)],
           log := s.log ++ ss.map CEv.eof }

def afterSkip (s : DSt) (i : Nat) (rest : List Nat) : DSt :=
  { s with pending := rest, results := s.results ++ [(i, .skipped)] }

def afterDrop (s : DSt) (db : Str) (rest : List Str) : DSt :=
  { s with toDrop := rest, log := s.log ++ [.drop db] }

def afterBeginDrop (c : DCfg) (s : DSt) : DSt :=
  { s with phase := .dropping, toDrop := if s.refused then [] else dropList c s.results }

/-- phase A: every file in flight can be finished as `cancelled` -/
theorem finish_all_inflight (n : Nat) :
    ∀ s : DSt, s.inflight.length ≤ n → s.phase = .running → s.cancelled = true →
      ∃ ls s', drun c s ls = some s' ∧ s'.phase = .running ∧ s'.cancelled = true ∧
        s'.inflight = [] ∧ s'.pending = s.pending ∧ ls.length ≤ n := by
  induction n with
  | zero =>
    intro s hlen hp hc
    exact ⟨[], s, rfl, hp, hc, List.eq_nil_of_length_eq_zero (by omega), rfl, by simp⟩
  | succ n ih =>
    intro s hlen hp hc
    cases hin : s.inflight with
    | nil => exact ⟨[], s, rfl, hp, hc, hin, rfl, by simp⟩
    | cons p rest =>
      obtain ⟨i, ss⟩ := p
      have hstep : dstep c s (.finish i .cancelled false) = some (afterFinish s i ss) := by
        simp [dstep, hp, hin, sessionsOf, hc, afterFinish]
      obtain ⟨ls, s', h1, h2, h3, h4, h5, h6⟩ := ih (afterFinish s i ss) (by
          show (s.inflight.filter (fun p => p.1 ≠ i)).length ≤ n
          rw [hin, List.filter_cons_of_neg (by simp)]
          have := List.length_filter_le (fun p : Nat × List Nat => decide (p.1 ≠ i)) rest
          rw [hin] at hlen
          simp only [List.length_cons] at hlen
          omega) hp hc
      exact ⟨.finish i .cancelled false :: ls, s', drun_trans (drun_one hstep) h1, h2, h3, h4, h5,
        by simp; omega⟩

/-- phase B: every pending file can be started, i.e. skipped -/
theorem skip_all_pending (pend : List Nat) :
    ∀ s : DSt, s.pending = pend → s.phase = .running → s.cancelled = true → s.inflight = [] →
      ∃ ls s', drun c s ls = some s' ∧ s'.phase = .running ∧ s'.cancelled = true ∧
        s'.inflight = [] ∧ s'.pending = [] ∧ ls.length = pend.length ∧
        s'.results = s.results ++ pend.map (fun i => (i, FileResult.skipped)) := by
  induction pend with
  | nil =>
    intro s hpend hp hc hin
    exact ⟨[], s, rfl, hp, hc, hin, hpend, rfl, by simp⟩
  | cons i rest ih =>
    intro s hpend hp hc hin
    have hstep : dstep c s .start = some (afterSkip s i rest) := by
      simp [dstep, hp, hpend, hc, hin, afterSkip]
    obtain ⟨ls, s', h1, h2, h3, h4, h5, h6, h7⟩ := ih (afterSkip s i rest) rfl hp hc hin
    refine ⟨.start :: ls, s', drun_trans (drun_one hstep) h1, h2, h3, h4, h5, by simp [h6], ?_⟩
    rw [h7]
    simp [afterSkip]

/-- phase D: every database of the drop list can be dropped -/
theorem drop_all (td : List Str) :
    ∀ s : DSt, s.toDrop = td → s.phase = .dropping →
      ∃ ls s', drun c s ls = some s' ∧ s'.phase = .dropping ∧ s'.toDrop = [] ∧
        ls.length = td.length ∧ s'.results = s.results := by
  induction td with
  | nil => intro s ht hp; exact ⟨[], s, rfl, hp, ht, rfl, rfl⟩
  | cons db rest ih =>
    intro s ht hp
    have hstep : dstep c s .drop = some (afterDrop s db rest) := by
      simp [dstep, hp, ht, afterDrop]
    obtain ⟨ls, s', h1, h2, h3, h4, h5⟩ := ih (afterDrop s db rest) rfl hp
    exact ⟨.drop :: ls, s', drun_trans (drun_one hstep) h1, h2, h3, by simp [h4], h5⟩

theorem dropList_length_le (c : DCfg) (rs : List (Nat × FileResult)) :
    (dropList c rs).length ≤ c.files.length := by
  unfold dropList
  rw [List.length_map]
  have := List.length_filter_le
    (fun p : DFile × Nat => !(c.keep && rs.any (fun r => r.1 = p.2 && r.2 = FileResult.err)))
    c.files.zipIdx
  simpa using this

/-- **a cancelled run can always be completed, in a bounded number of steps** -/
theorem cancelled_can_finish (s : DSt) (hp : s.phase = .running) (hc : s.cancelled = true) :
    ∃ ls s', drun c s ls = some s' ∧ s'.phase = .finished ∧
      ls.length ≤ s.inflight.length + s.pending.length + c.files.length + 2 := by
  obtain ⟨l1, s1, r1, p1, c1, i1, pe1, n1⟩ := finish_all_inflight (c := c) _ s (Nat.le_refl _) hp hc
  obtain ⟨l2, s2, r2, p2, c2, i2, pe2, n2, _⟩ := skip_all_pending (c := c) _ s1 rfl p1 c1 i1
  have hstep3 : dstep c s2 .beginDrop = some (afterBeginDrop c s2) := by
    simp [dstep, p2, pe2, i2, afterBeginDrop]
  obtain ⟨l4, s4, r4, p4, t4, n4, _⟩ := drop_all (c := c) _ (afterBeginDrop c s2) rfl rfl
  have hstep5 : dstep c s4 .done = some { s4 with phase := .finished } := by
    simp [dstep, p4, t4]
  refine ⟨l1 ++ (l2 ++ ([.beginDrop] ++ (l4 ++ [.done]))), { s4 with phase := .finished },
    drun_trans r1 (drun_trans r2 (drun_trans (drun_one hstep3) (drun_trans r4 (drun_one hstep5)))),
    rfl, ?_⟩
  have hd : (afterBeginDrop c s2).toDrop.length ≤ c.files.length := by
    show (if s2.refused then [] else dropList c s2.results).length ≤ c.files.length
    split
    · simp
    · exact dropList_length_le c _
  simp only [List.length_append, List.length_cons, List.length_nil]
  rw [pe1] at n2
  omega

/-! ### every cancelled schedule is short -/

/-- the open sessions of the files in flight -/
def openSessions (s : DSt) : Nat := (s.inflight.map (fun p => p.2.length)).sum

/-- the open sessions that can still be closed one by one: those of the first entry of every index
    (`sessionsOf` looks at the first entry only; in reachable states the indices in flight are
    pairwise distinct, and this is the number of all open sessions) -/
def openFirst (seen : List Nat) : List (Nat × List Nat) → Nat
  | [] => 0
  | p :: rest => (if p.1 ∈ seen then 0 else p.2.length) + openFirst (p.1 :: seen) rest

theorem openFirst_le_sum (seen : List Nat) (l : List (Nat × List Nat)) :
    openFirst seen l ≤ (l.map (fun p => p.2.length)).sum := by
  induction l generalizing seen with
  | nil => simp [openFirst]
  | cons p rest ih =>
    have := ih (p.1 :: seen)
    simp only [openFirst, List.map_cons, List.sum_cons]
    split <;> omega

theorem openFirst_congr {seen seen' : List Nat} {l : List (Nat × List Nat)}
    (h : ∀ p ∈ l, (p.1 ∈ seen ↔ p.1 ∈ seen')) : openFirst seen l = openFirst seen' l := by
  induction l generalizing seen seen' with
  | nil => rfl
  | cons p rest ih =>
    have h1 := h p (List.mem_cons_self ..)
    have h2 : openFirst (p.1 :: seen) rest = openFirst (p.1 :: seen') rest := by
      apply ih
      intro q hq
      have := h q (List.mem_cons_of_mem _ hq)
      simp only [List.mem_cons, this]
    simp only [openFirst, h1, h2]

theorem openFirst_setSessions_seen {seen : List Nat} {i : Nat} (x : List Nat) (hi : i ∈ seen)
    (l : List (Nat × List Nat)) : openFirst seen (setSessions l i x) = openFirst seen l := by
  induction l generalizing seen with
  | nil => rfl
  | cons p rest ih =>
    show openFirst seen ((if p.1 = i then (i, x) else p) :: setSessions rest i x) = _
    by_cases hp : p.1 = i
    · rw [if_pos hp]
      simp only [openFirst, hp, hi, ↓reduceIte]
      rw [ih (List.mem_cons_self ..)]
    · rw [if_neg hp]
      simp only [openFirst]
      rw [ih (List.mem_cons_of_mem _ hi)]

theorem openFirst_setSessions_lt {seen : List Nat} {i : Nat} {x ss : List Nat} (hi : i ∉ seen)
    (hx : x.length < ss.length) (l : List (Nat × List Nat)) (hs : sessionsOf l i = some ss) :
    openFirst seen (setSessions l i x) < openFirst seen l := by
  induction l generalizing seen with
  | nil => simp [sessionsOf] at hs
  | cons p rest ih =>
    obtain ⟨j, ss'⟩ := p
    show openFirst seen ((if j = i then (i, x) else (j, ss')) :: setSessions rest i x) < _
    simp only [sessionsOf] at hs
    by_cases hp : j = i
    · rw [if_pos hp] at hs ⊢
      cases hs
      subst hp
      simp only [openFirst, hi, ↓reduceIte]
      rw [openFirst_setSessions_seen x (List.mem_cons_self ..)]
      omega
    · rw [if_neg hp] at hs ⊢
      simp only [openFirst]
      have := ih (seen := j :: seen)
        (by simp only [List.mem_cons, not_or]; exact ⟨fun e => hp e.symm, hi⟩) hs
      omega

theorem openFirst_filter_le (seen : List Nat) (i : Nat) (l : List (Nat × List Nat)) :
    openFirst seen (l.filter (fun p => p.1 ≠ i)) ≤ openFirst seen l := by
  induction l generalizing seen with
  | nil => simp [openFirst]
  | cons p rest ih =>
    by_cases hp : p.1 = i
    · rw [List.filter_cons_of_neg (by simp [hp])]
      have h1 : openFirst seen (rest.filter (fun p => p.1 ≠ i)) =
          openFirst (p.1 :: seen) (rest.filter (fun p => p.1 ≠ i)) := by
        apply openFirst_congr
        intro q hq
        have hq2 : q.1 ≠ i := by simpa using (List.mem_filter.mp hq).2
        simp only [List.mem_cons, hp]
        constructor
        · exact Or.inr
        · rintro (h | h)
          · exact absurd h hq2
          · exact h
      have := ih (p.1 :: seen)
      simp only [openFirst]
      omega
    · rw [List.filter_cons_of_pos (by simp [hp])]
      have := ih (p.1 :: seen)
      simp only [openFirst]
      omega

/-- the number of steps a cancelled driver can still take: each session still open is closed at most
    once, each file in flight ends once, each pending file is skipped once, each database is dropped
    at most once, plus the two phase changes -/
def cancelMeasure (c : DCfg) (s : DSt) : Nat :=
  match s.phase with
  | .creating => 0
  | .running => openFirst [] s.inflight + s.inflight.length + s.pending.length + c.files.length + 2
  | .dropping => s.toDrop.length + 1
  | .finished => 0

theorem cancelMeasure_running_le (c : DCfg) (s : DSt) (hp : s.phase = .running) :
    cancelMeasure c s ≤ openSessions s + s.inflight.length + s.pending.length + c.files.length + 2 := by
  have := openFirst_le_sum [] s.inflight
  simp only [cancelMeasure, hp, openSessions]
  omega

theorem dstep_cancelMeasure {s s' : DSt} {l : DLabel} (h : dstep c s l = some s')
    (hc : s.cancelled = true) (hp : s.phase ≠ .creating) :
    cancelMeasure c s' < cancelMeasure c s := by
  cases l with
  | create => obtain ⟨db, rest, hp', _, _⟩ := dstep_create_inv h; exact absurd hp' hp
  | beginRun => obtain ⟨hp', _, _⟩ := dstep_beginRun_inv h; exact absurd hp' hp
  | start =>
    obtain ⟨i, rest, hp', hpend, h3⟩ := dstep_start_inv h
    rcases h3 with ⟨_, hin, rfl⟩ | ⟨hc', _, _⟩
    · simp only [cancelMeasure, hp', hpend, hin, List.length_cons]; omega
    · rw [hc] at hc'; cases hc'
  | openSession i =>
    obtain ⟨ss, f, _, _, _, hc', _⟩ := dstep_openSession_inv h
    rw [hc] at hc'; cases hc'
  | sql i k t =>
    obtain ⟨ss, f, _, _, _, hc', _⟩ := dstep_sql_inv h
    rw [hc] at hc'; cases hc'
  | finish i r b =>
    obtain ⟨ss, hp', hss, _, _, _, rfl⟩ := dstep_finish_inv h
    have : (s.inflight.filter (fun p => p.1 ≠ i)).length < s.inflight.length :=
      List.length_filter_lt_length_iff_exists.mpr ⟨(i, ss), sessionsOf_mem hss, by simp⟩
    have := openFirst_filter_le [] i s.inflight
    simp only [cancelMeasure, hp']; omega
  | closeSession i k =>
    obtain ⟨ss, hp', hss, hk, rfl⟩ := dstep_closeSession_inv h
    have hlt : (ss.filter (fun x => x ≠ k)).length < ss.length :=
      List.length_filter_lt_length_iff_exists.mpr ⟨k, hk, by simp⟩
    have := openFirst_setSessions_lt (seen := []) (by simp) hlt s.inflight hss
    have hlen : (setSessions s.inflight i (ss.filter (fun x => x ≠ k))).length = s.inflight.length := by
      unfold setSessions; rw [List.length_map]
    simp only [cancelMeasure, hp', hlen]; omega
  | signal => obtain ⟨_, hc', _⟩ := dstep_signal_inv h; rw [hc] at hc'; cases hc'
  | beginDrop =>
    obtain ⟨hp', _, _, rfl⟩ := dstep_beginDrop_inv h
    have hd : (if s.refused then [] else dropList c s.results).length ≤ c.files.length := by
      split
      · simp
      · exact dropList_length_le c _
    simp only [cancelMeasure, hp']; omega
  | drop =>
    obtain ⟨db, rest, hp', ht, rfl⟩ := dstep_drop_inv h
    simp only [cancelMeasure, hp', ht, List.length_cons]; omega
  | done =>
    obtain ⟨hp', _, rfl⟩ := dstep_done_inv h
    simp only [cancelMeasure, hp']; omega

/-- **every schedule of a cancelled driver is bounded** -/
theorem cancelled_run_bounded (ls : List DLabel) :
    ∀ (s s' : DSt), s.cancelled = true → s.phase ≠ .creating → drun c s ls = some s' →
      ls.length + cancelMeasure c s' ≤ cancelMeasure c s := by
  induction ls with
  | nil => intro s s' _ _ h; simp at h; subst h; simp
  | cons l ls ih =>
    intro s s' hc hp h
    obtain ⟨s1, h1, h2⟩ := drun_cons_some h
    have := dstep_cancelMeasure h1 hc hp
    have := ih s1 s' (dstep_cancelled_mono h1 hc) (dstep_phase h1 hp) h2
    simp only [List.length_cons]
    omega

end Slt
