/-
Lemmas about the report checker (`checkReport`) of `SltVerif/Cli.lean`: the declarative
specification `ReportOk` and its equivalence with `checkReport … = none`.
-/
import SltVerif.Cli
namespace Slt

/-- the per-file part of `checkReport` (the local `per` of the definition) -/
def perFileCheck (cancelCause : Bool) (r : FileReport) : Option ReportViolation :=
  match r.tag with
  | none => some (.noStatus r.path)
  | some t =>
    if t = .ok ∧ r.ground ≠ .pass then some (.okButFails r.path)
    else if t = .err ∧ r.ground = .pass then some (.failedButPasses r.path)
    else if (t = .skipped ∨ t = .cancelled) ∧ !cancelCause then some (.skippedWithoutCause r.path)
    else match r.junitName, r.junitStatus with
      | some n, some s =>
        if n ≠ testCaseName r.path then some (.junitName r.path)
        else if s ≠ t.junit then some (.junitStatus r.path)
        else none
      | _, _ => some (.junitMissing r.path)

theorem checkReport_eq (exitCode : Nat) (cancelCause : Bool) (n : Nat) (rs : List FileReport) :
    checkReport exitCode cancelCause n rs =
      match rs.findSome? (perFileCheck cancelCause) with
      | some v => some v
      | none =>
        if n ≠ rs.length then some (.junitCount n)
        else
          if (rs.all (fun r => r.tag = some .ok)) ∧ exitCode ≠ 0 ∧ !cancelCause then some .exitNonZero
          else if !(rs.all (fun r => r.tag = some .ok)) ∧ exitCode = 0 then some .exitZero
          else none := rfl

/-- what the report of one file has to look like -/
structure FileReportOk (cancelCause : Bool) (r : FileReport) (t : FileResult) : Prop where
  tag : r.tag = some t
  okPass : t = .ok → r.ground = .pass
  errFail : t = .err → r.ground ≠ .pass
  skipCause : t = .skipped ∨ t = .cancelled → cancelCause = true
  junitName : r.junitName = some (testCaseName r.path)
  junitStatus : r.junitStatus = some t.junit

/-- the declarative specification of a correct report -/
structure ReportOk (exitCode : Nat) (cancelCause : Bool) (junitCases : Nat)
    (rs : List FileReport) : Prop where
  perFile : ∀ r ∈ rs, ∃ t, FileReportOk cancelCause r t
  count : junitCases = rs.length
  exitZero : exitCode = 0 → ∀ r ∈ rs, r.tag = some .ok
  exitNonZero : (∀ r ∈ rs, r.tag = some .ok) → exitCode = 0 ∨ cancelCause = true

theorem perFileCheck_none_iff (cancelCause : Bool) (r : FileReport) :
    perFileCheck cancelCause r = none ↔ ∃ t, FileReportOk cancelCause r t := by
  unfold perFileCheck
  constructor
  · intro h
    cases ht : r.tag with
    | none => simp [ht] at h
    | some t =>
      simp only [ht] at h
      split at h
      · simp at h
      · rename_i h1
        split at h
        · simp at h
        · rename_i h2
          split at h
          · simp at h
          · rename_i h3
            split at h
            · rename_i n s hn hs
              split at h
              · simp at h
              · rename_i h4
                split at h
                · simp at h
                · rename_i h5
                  refine ⟨t, ⟨ht, ?_, ?_, ?_, ?_, ?_⟩⟩
                  · intro e; exact Classical.not_not.mp (fun hne => h1 ⟨e, hne⟩)
                  · intro e hp; exact h2 ⟨e, hp⟩
                  · intro e
                    cases hc : cancelCause with
                    | true => rfl
                    | false => exact absurd ⟨e, by simp [hc]⟩ h3
                  · rw [hn]; simpa using h4
                  · rw [hs]; simpa using h5
            · simp at h
  · rintro ⟨t, ht⟩
    rw [ht.tag]
    simp only
    rw [if_neg (fun h => h.2 (ht.okPass h.1)), if_neg (fun h => ht.errFail h.1 h.2),
      if_neg (fun h => by have := ht.skipCause h.1; simp [this] at h)]
    rw [ht.junitName, ht.junitStatus]
    simp

theorem checkReport_none_iff (exitCode : Nat) (cancelCause : Bool) (n : Nat) (rs : List FileReport) :
    checkReport exitCode cancelCause n rs = none ↔ ReportOk exitCode cancelCause n rs := by
  rw [checkReport_eq]
  constructor
  · intro h
    cases hf : rs.findSome? (perFileCheck cancelCause) with
    | some v => simp [hf] at h
    | none =>
      simp only [hf] at h
      rw [List.findSome?_eq_none_iff] at hf
      split at h
      · simp at h
      · rename_i hn
        split at h
        · simp at h
        · rename_i h1
          split at h
          · simp at h
          · rename_i h2
            refine ⟨fun r hr => (perFileCheck_none_iff cancelCause r).mp (hf r hr),
              Classical.not_not.mp hn, ?_, ?_⟩
            · intro he
              have : rs.all (fun r => r.tag = some .ok) = true := by
                cases hall : rs.all (fun r => r.tag = some .ok) with
                | true => rfl
                | false => exact absurd ⟨by simp [hall], he⟩ h2
              simpa using this
            · intro hall
              have hall' : rs.all (fun r => r.tag = some .ok) = true := by simpa using hall
              by_cases he : exitCode = 0
              · exact Or.inl he
              · right
                cases hc : cancelCause with
                | true => rfl
                | false => exact absurd ⟨hall', he, by simp [hc]⟩ h1
  · intro h
    have hf : rs.findSome? (perFileCheck cancelCause) = none := by
      rw [List.findSome?_eq_none_iff]
      intro r hr
      exact (perFileCheck_none_iff cancelCause r).mpr (h.perFile r hr)
    simp only [hf]
    rw [if_neg (fun hne => hne h.count)]
    rw [if_neg, if_neg]
    · rintro ⟨h1, h2⟩
      have := h.exitZero h2
      have hall' : rs.all (fun r => r.tag = some .ok) = true := by simpa using this
      simp [hall'] at h1
    · rintro ⟨h1, h2, h3⟩
      have hall : ∀ r ∈ rs, r.tag = some .ok := by simpa using h1
      rcases h.exitNonZero hall with he | hc
      · exact h2 he
      · simp [hc] at h3

end Slt
