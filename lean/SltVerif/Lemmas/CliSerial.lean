/-
Lemmas about the serial driver's fold (`serialStep`, `runSerial`, `exitOk`) of `SltVerif/Cli.lean`.
-/
import SltVerif.Cli
namespace Slt

/-- does running this file set the cancellation flag? a signal, a failure under fail-fast, or a
    refused connection -/
def isCause (ff : Bool) (g : Ground × Bool) : Bool :=
  g.2 || (match g.1 with
    | .pass => false
    | .fail refused => ff || refused)

/-- the result of a file that is actually run (the run is not yet cancelled when it starts) -/
def judgeFile (g : Ground × Bool) : FileResult :=
  if g.2 then .cancelled else
    match g.1 with
    | .pass => .ok
    | .fail _ => .err

/-- `foldl` from an arbitrary state -/
def runSerialFrom (ff : Bool) (s : SerialState) (files : List (Ground × Bool)) : SerialState :=
  files.foldl (serialStep ff) s

theorem runSerial_eq (ff : Bool) (files : List (Ground × Bool)) :
    runSerial ff files = runSerialFrom ff {} files := rfl

@[simp] theorem runSerialFrom_nil (ff : Bool) (s : SerialState) : runSerialFrom ff s [] = s := rfl

@[simp] theorem runSerialFrom_cons (ff : Bool) (s : SerialState) (g) (files) :
    runSerialFrom ff s (g :: files) = runSerialFrom ff (serialStep ff s g) files := rfl

theorem runSerialFrom_append (ff : Bool) (s : SerialState) (a b : List (Ground × Bool)) :
    runSerialFrom ff s (a ++ b) = runSerialFrom ff (runSerialFrom ff s a) b := by
  simp [runSerialFrom, List.foldl_append]

/-! ### one result per file -/

theorem serialStep_results_length (ff : Bool) (s : SerialState) (g : Ground × Bool) :
    (serialStep ff s g).results.length = s.results.length + 1 := by
  unfold serialStep
  split
  · simp
  · split
    · simp
    · split <;> simp

theorem runSerialFrom_results_length (ff : Bool) (files : List (Ground × Bool)) :
    ∀ s : SerialState, (runSerialFrom ff s files).results.length = s.results.length + files.length := by
  induction files with
  | nil => intro s; simp
  | cons g rest ih =>
    intro s
    rw [runSerialFrom_cons, ih, serialStep_results_length]
    simp only [List.length_cons]
    omega

/-! ### the exit status -/

theorem exitOk_iff (s : SerialState) : exitOk s = true ↔ s.failed = 0 ∧ s.cancelled = false := by
  simp [exitOk]

/-- the invariant behind `exit_zero_iff`: the counters are clean iff every result so far is `ok` -/
def ExitInv (s : SerialState) : Prop :=
  (s.failed = 0 ∧ s.cancelled = false) ↔ ∀ r ∈ s.results, r = FileResult.ok

theorem exitInv_init : ExitInv {} := by simp [ExitInv]

theorem serialStep_exitInv (ff : Bool) (s : SerialState) (g : Ground × Bool) (h : ExitInv s) :
    ExitInv (serialStep ff s g) := by
  unfold ExitInv at *
  unfold serialStep
  by_cases hc : s.cancelled = true
  · simp [hc]
  · have hc' : s.cancelled = false := by simpa using hc
    by_cases hg : g.2 = true
    · simp [hc', hg]
    · have hg' : g.2 = false := by simpa using hg
      cases h1 : g.1 with
      | pass =>
        simp only [hc', hg', Bool.false_eq_true, ↓reduceIte]
        simp only [hc', and_true] at h
        simp only [List.mem_append, List.mem_singleton, and_true]
        constructor
        · intro h0 r hr
          rcases hr with hr | hr
          · exact h.mp h0 r hr
          · exact hr
        · intro hall
          exact h.mpr (fun r hr => hall r (Or.inl hr))
      | fail refused =>
        simp [hc', hg']

theorem runSerialFrom_exitInv (ff : Bool) (files : List (Ground × Bool)) :
    ∀ s : SerialState, ExitInv s → ExitInv (runSerialFrom ff s files) := by
  induction files with
  | nil => intro s h; exact h
  | cons g rest ih => intro s h; exact ih _ (serialStep_exitInv ff s g h)

/-- without a signal, one step keeps the exit status clean iff the file passes -/
theorem serialStep_exitOk (ff : Bool) (s : SerialState) (g : Ground × Bool) (hg : g.2 = false) :
    exitOk (serialStep ff s g) = true ↔ exitOk s = true ∧ g.1 = Ground.pass := by
  simp only [exitOk_iff]
  unfold serialStep
  by_cases hc : s.cancelled = true
  · simp [hc]
  · have hc' : s.cancelled = false := by simpa using hc
    cases h1 : g.1 with
    | pass => simp [hc', hg]
    | fail refused => simp [hc', hg]

theorem runSerialFrom_exitOk (ff : Bool) (files : List (Ground × Bool)) :
    ∀ s : SerialState, (∀ g ∈ files, g.2 = false) →
      (exitOk (runSerialFrom ff s files) = true ↔
        exitOk s = true ∧ ∀ g ∈ files, g.1 = Ground.pass) := by
  induction files with
  | nil => intro s _; simp
  | cons g rest ih =>
    intro s hsig
    rw [runSerialFrom_cons, ih _ (fun x hx => hsig x (List.mem_cons_of_mem _ hx)),
      serialStep_exitOk ff s g (hsig g (List.mem_cons_self ..))]
    simp only [List.mem_cons, forall_eq_or_imp]
    constructor
    · rintro ⟨⟨a, b⟩, c⟩; exact ⟨a, b, c⟩
    · rintro ⟨a, b, c⟩; exact ⟨⟨a, b⟩, c⟩

/-- cancellation is sticky and forces a non-zero exit -/
theorem serialStep_cancelled_mono (ff : Bool) (s : SerialState) (g : Ground × Bool)
    (h : s.cancelled = true) : (serialStep ff s g).cancelled = true := by
  unfold serialStep
  simp [h]

theorem runSerialFrom_cancelled_mono (ff : Bool) (files : List (Ground × Bool)) :
    ∀ s : SerialState, s.cancelled = true → (runSerialFrom ff s files).cancelled = true := by
  induction files with
  | nil => intro s h; exact h
  | cons g rest ih => intro s h; exact ih _ (serialStep_cancelled_mono ff s g h)

theorem serialStep_signal (ff : Bool) (s : SerialState) (g : Ground × Bool) (hg : g.2 = true) :
    (serialStep ff s g).cancelled = true := by
  unfold serialStep
  by_cases hc : s.cancelled = true
  · simp [hc]
  · have hc' : s.cancelled = false := by simpa using hc
    simp [hc', hg]

theorem runSerialFrom_signal (ff : Bool) (files : List (Ground × Bool)) :
    ∀ s : SerialState, (∃ g ∈ files, g.2 = true) → (runSerialFrom ff s files).cancelled = true := by
  induction files with
  | nil => intro s h; simp at h
  | cons g rest ih =>
    intro s h
    rw [runSerialFrom_cons]
    rcases h with ⟨x, hx, hx2⟩
    rcases List.mem_cons.mp hx with rfl | hx
    · exact runSerialFrom_cancelled_mono ff rest _ (serialStep_signal ff s x hx2)
    · exact ih _ ⟨x, hx, hx2⟩

/-! ### the shape of the result list -/

/-- a file that is run and is no cancel cause: judged on its own ground, flag stays clear -/
theorem serialStep_noCause (ff : Bool) (s : SerialState) (g : Ground × Bool)
    (hs : s.cancelled = false) (hg : isCause ff g = false) :
    (serialStep ff s g).cancelled = false ∧
      (serialStep ff s g).results = s.results ++ [judgeFile g] := by
  unfold isCause at hg
  unfold serialStep judgeFile
  cases h2 : g.2 with
  | true => simp [h2] at hg
  | false =>
    cases h1 : g.1 with
    | pass => simp [hs]
    | fail refused =>
      simp only [h2, h1, Bool.false_or, Bool.or_eq_false_iff] at hg
      simp [hs, hg.1, hg.2]

/-- a file that is run and is a cancel cause: judged, and the flag is set -/
theorem serialStep_cause (ff : Bool) (s : SerialState) (g : Ground × Bool)
    (hs : s.cancelled = false) (hg : isCause ff g = true) :
    (serialStep ff s g).cancelled = true ∧
      (serialStep ff s g).results = s.results ++ [judgeFile g] := by
  unfold isCause at hg
  unfold serialStep judgeFile
  cases h2 : g.2 with
  | true => simp [hs]
  | false =>
    cases h1 : g.1 with
    | pass => simp [h2, h1] at hg
    | fail refused =>
      simp only [h2, h1, Bool.false_or] at hg
      simp [hs, hg]

/-- after cancellation: skipped -/
theorem serialStep_skipped (ff : Bool) (s : SerialState) (g : Ground × Bool)
    (hs : s.cancelled = true) :
    (serialStep ff s g).cancelled = true ∧
      (serialStep ff s g).results = s.results ++ [FileResult.skipped] := by
  unfold serialStep
  simp [hs]

theorem runSerialFrom_noCause (ff : Bool) (files : List (Ground × Bool)) :
    ∀ s : SerialState, s.cancelled = false → (∀ g ∈ files, isCause ff g = false) →
      (runSerialFrom ff s files).cancelled = false ∧
      (runSerialFrom ff s files).results = s.results ++ files.map judgeFile := by
  induction files with
  | nil => intro s hs _; simp [hs]
  | cons g rest ih =>
    intro s hs hall
    have h1 := serialStep_noCause ff s g hs (hall g (List.mem_cons_self ..))
    have h2 := ih _ h1.1 (fun x hx => hall x (List.mem_cons_of_mem _ hx))
    rw [runSerialFrom_cons]
    refine ⟨h2.1, ?_⟩
    rw [h2.2, h1.2]
    simp

theorem runSerialFrom_skipped (ff : Bool) (files : List (Ground × Bool)) :
    ∀ s : SerialState, s.cancelled = true →
      (runSerialFrom ff s files).cancelled = true ∧
      (runSerialFrom ff s files).results = s.results ++ files.map (fun _ => FileResult.skipped) := by
  induction files with
  | nil => intro s hs; simp [hs]
  | cons g rest ih =>
    intro s hs
    have h1 := serialStep_skipped ff s g hs
    have h2 := ih _ h1.1
    rw [runSerialFrom_cons]
    refine ⟨h2.1, ?_⟩
    rw [h2.2, h1.2]
    simp

/-- the general shape: judged up to and including the first cause, skipped afterwards -/
theorem runSerialFrom_shape (ff : Bool) (s : SerialState) (pre post : List (Ground × Bool))
    (g : Ground × Bool) (hs : s.cancelled = false)
    (hpre : ∀ x ∈ pre, isCause ff x = false) (hg : isCause ff g = true) :
    (runSerialFrom ff s (pre ++ g :: post)).cancelled = true ∧
    (runSerialFrom ff s (pre ++ g :: post)).results =
      s.results ++ pre.map judgeFile ++ [judgeFile g] ++ post.map (fun _ => FileResult.skipped) := by
  rw [runSerialFrom_append, runSerialFrom_cons]
  have h1 := runSerialFrom_noCause ff pre s hs hpre
  have h2 := serialStep_cause ff _ g h1.1 hg
  have h3 := runSerialFrom_skipped ff post _ h2.1
  refine ⟨h3.1, ?_⟩
  rw [h3.2, h2.2, h1.2]

/-- every file list splits at its first cancel cause (if any) -/
theorem split_first_cause (ff : Bool) (files : List (Ground × Bool)) :
    (∀ g ∈ files, isCause ff g = false) ∨
    ∃ pre g post, files = pre ++ g :: post ∧ (∀ x ∈ pre, isCause ff x = false) ∧
      isCause ff g = true := by
  induction files with
  | nil => left; simp
  | cons a rest ih =>
    cases ha : isCause ff a with
    | true => right; exact ⟨[], a, rest, rfl, by simp, ha⟩
    | false =>
      rcases ih with ih | ⟨pre, g, post, h1, h2, h3⟩
      · left
        intro x hx
        rcases List.mem_cons.mp hx with rfl | hx
        · exact ha
        · exact ih x hx
      · right
        refine ⟨a :: pre, g, post, by simp [h1], ?_, h3⟩
        intro x hx
        rcases List.mem_cons.mp hx with rfl | hx
        · exact ha
        · exact h2 x hx

/-- failed counter = number of `err` results -/
theorem serialStep_failed (ff : Bool) (s : SerialState) (g : Ground × Bool)
    (h : s.failed = s.results.count FileResult.err) :
    (serialStep ff s g).failed = (serialStep ff s g).results.count FileResult.err := by
  unfold serialStep
  split
  · simp [h]
  · split
    · simp [h]
    · split <;> simp [h]

theorem runSerialFrom_failed (ff : Bool) (files : List (Ground × Bool)) :
    ∀ s : SerialState, s.failed = s.results.count FileResult.err →
      (runSerialFrom ff s files).failed = (runSerialFrom ff s files).results.count FileResult.err := by
  induction files with
  | nil => intro s h; exact h
  | cons g rest ih => intro s h; exact ih _ (serialStep_failed ff s g h)

end Slt
