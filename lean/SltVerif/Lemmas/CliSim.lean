/-
The simulation between the parallel driver (`dstep`) and the monitor (`monStep`): every log the
driver can produce — for every schedule — is accepted by the monitor.
-/
import SltVerif.Lemmas.CliSimBase
namespace Slt

/-- the relation between a driver state and the monitor state after reading the driver's log -/
structure Sim (c : DCfg) (s : DSt) (m : MonState) : Prop where
  created : m.created ++ s.toCreate = c.files.map (·.db)
  toCreate_nil : s.phase ≠ .creating → s.toCreate = []
  dropped_early : s.phase = .creating ∨ s.phase = .running → m.dropped = [] ∧ s.toDrop = []
  dropped_late : s.phase = .dropping ∨ s.phase = .finished →
    m.dropped ++ s.toDrop = (if s.refused then [] else dropList c s.results)
  toDrop_fin : s.phase = .finished → s.toDrop = []
  cancelled : m.cancelled = true → s.cancelled = true
  sess_nodup : (m.sessions.map (·.1)).Nodup
  sess_lt : ∀ p ∈ m.sessions, p.1 < s.nextSess
  sess_of_inflight : ∀ i ss, (i, ss) ∈ s.inflight →
    ss.Nodup ∧ ∀ k ∈ ss, ∃ f, c.fileAt i = some f ∧ (k, f.db) ∈ m.sessions
  inflight_of_sess : ∀ p ∈ m.sessions, ∃ i ss f,
    (i, ss) ∈ s.inflight ∧ p.1 ∈ ss ∧ c.fileAt i = some f ∧ f.db = p.2
  inflight_len : s.inflight.length ≤ c.jobs
  inflight_phase : s.phase ≠ .running → s.inflight = []

theorem sim_init (c : DCfg) : Sim c (dinit c) {} := by
  refine ⟨by simp [dinit], by simp [dinit], by simp [dinit], by simp [dinit], by simp [dinit],
    by simp, by simp, by simp, by simp [dinit], by simp, by simp [dinit], by simp [dinit]⟩

theorem Sim.sessions_nil {c : DCfg} {s : DSt} {m : MonState} (hs : Sim c s m)
    (hi : s.inflight = []) : m.sessions = [] := by
  cases hm : m.sessions with
  | nil => rfl
  | cons p rest =>
    obtain ⟨i, ss, f, h1, _⟩ := hs.inflight_of_sess p (by rw [hm]; exact List.mem_cons_self ..)
    rw [hi] at h1
    simp at h1

theorem IdxInv.inflight_nodup {c : DCfg} {s : DSt} (h : IdxInv c s) :
    (s.inflight.map (·.1)).Nodup := by
  have := (List.nodup_append.mp h.nodup).1
  exact (List.nodup_append.mp this).2.1

theorem IdxInv.pending_not_inflight {c : DCfg} {s : DSt} (h : IdxInv c s) {i : Nat}
    (hi : i ∈ s.pending) : i ∉ s.inflight.map (·.1) := by
  intro hm
  have := (List.nodup_append.mp h.nodup).2.2 i (List.mem_append_right _ hm) i hi
  exact this rfl

/-! ### the step lemma, label by label -/

section
variable {c : DCfg} {mgmt : Str} {cfg : MonCfg} {s s' : DSt} {m : MonState}

theorem sim_create (wf : DWf c mgmt) (hs : Sim c s m) (h : dstep c s .create = some s') :
    ∃ evs m', s'.log = s.log ++ evs ∧ monRun cfg m evs = .ok m' ∧ Sim c s' m' := by
  obtain ⟨db, rest, hp, ht, rfl⟩ := dstep_create_inv h
  have hc := hs.created
  rw [ht] at hc
  have hnd := wf.dbs_nodup
  rw [← hc] at hnd
  have hnot : db ∉ m.created := by
    intro hm
    exact (List.nodup_append.mp hnd).2.2 db hm db (List.mem_cons_self ..) rfl
  refine ⟨[.create db], _, rfl, monRun_single (monStep_create_ok hnot), ?_⟩
  exact
    { created := by simp [← hc]
      toCreate_nil := fun hne => absurd hp hne
      dropped_early := hs.dropped_early
      dropped_late := hs.dropped_late
      toDrop_fin := hs.toDrop_fin
      cancelled := hs.cancelled
      sess_nodup := hs.sess_nodup
      sess_lt := hs.sess_lt
      sess_of_inflight := hs.sess_of_inflight
      inflight_of_sess := hs.inflight_of_sess
      inflight_len := hs.inflight_len
      inflight_phase := hs.inflight_phase }

theorem sim_beginRun (hs : Sim c s m) (h : dstep c s .beginRun = some s') :
    ∃ evs m', s'.log = s.log ++ evs ∧ monRun cfg m evs = .ok m' ∧ Sim c s' m' := by
  obtain ⟨hp, ht, rfl⟩ := dstep_beginRun_inv h
  refine ⟨[], m, by simp, rfl, ?_⟩
  exact
    { created := hs.created
      toCreate_nil := fun _ => ht
      dropped_early := fun _ => hs.dropped_early (Or.inl hp)
      dropped_late := by simp
      toDrop_fin := by simp
      cancelled := hs.cancelled
      sess_nodup := hs.sess_nodup
      sess_lt := hs.sess_lt
      sess_of_inflight := hs.sess_of_inflight
      inflight_of_sess := hs.inflight_of_sess
      inflight_len := hs.inflight_len
      inflight_phase := by simp }

theorem sim_start (hs : Sim c s m) (h : dstep c s .start = some s') :
    ∃ evs m', s'.log = s.log ++ evs ∧ monRun cfg m evs = .ok m' ∧ Sim c s' m' := by
  obtain ⟨i, rest, hp, hpend, h3⟩ := dstep_start_inv h
  rcases h3 with ⟨_, _, rfl⟩ | ⟨_, hlen, rfl⟩
  · refine ⟨[], m, by simp, rfl, ?_⟩
    exact
      { created := hs.created
        toCreate_nil := hs.toCreate_nil
        dropped_early := hs.dropped_early
        dropped_late := by simp [hp]
        toDrop_fin := by simp [hp]
        cancelled := hs.cancelled
        sess_nodup := hs.sess_nodup
        sess_lt := hs.sess_lt
        sess_of_inflight := hs.sess_of_inflight
        inflight_of_sess := hs.inflight_of_sess
        inflight_len := hs.inflight_len
        inflight_phase := hs.inflight_phase }
  · refine ⟨[], m, by simp, rfl, ?_⟩
    exact
      { created := hs.created
        toCreate_nil := hs.toCreate_nil
        dropped_early := hs.dropped_early
        dropped_late := hs.dropped_late
        toDrop_fin := hs.toDrop_fin
        cancelled := hs.cancelled
        sess_nodup := hs.sess_nodup
        sess_lt := hs.sess_lt
        sess_of_inflight := by
          intro j ss hj
          rcases List.mem_append.mp hj with hj | hj
          · exact hs.sess_of_inflight j ss hj
          · simp only [List.mem_singleton, Prod.mk.injEq] at hj
            obtain ⟨_, rfl⟩ := hj
            simp
        inflight_of_sess := by
          intro p hpm
          obtain ⟨j, ss, f, h1, h2⟩ := hs.inflight_of_sess p hpm
          exact ⟨j, ss, f, List.mem_append_left _ h1, h2⟩
        inflight_len := by simp; omega
        inflight_phase := fun hne => absurd hp hne }

theorem sim_signal (hs : Sim c s m) (h : dstep c s .signal = some s') :
    ∃ evs m', s'.log = s.log ++ evs ∧ monRun cfg m evs = .ok m' ∧ Sim c s' m' := by
  obtain ⟨hp, _, rfl⟩ := dstep_signal_inv h
  refine ⟨[.cancel], { m with cancelled := true }, rfl, monRun_single (by simp [monStep]), ?_⟩
  exact
    { created := hs.created
      toCreate_nil := hs.toCreate_nil
      dropped_early := hs.dropped_early
      dropped_late := hs.dropped_late
      toDrop_fin := hs.toDrop_fin
      cancelled := fun _ => rfl
      sess_nodup := hs.sess_nodup
      sess_lt := hs.sess_lt
      sess_of_inflight := hs.sess_of_inflight
      inflight_of_sess := hs.inflight_of_sess
      inflight_len := hs.inflight_len
      inflight_phase := hs.inflight_phase }

theorem sim_beginDrop (hs : Sim c s m) (h : dstep c s .beginDrop = some s') :
    ∃ evs m', s'.log = s.log ++ evs ∧ monRun cfg m evs = .ok m' ∧ Sim c s' m' := by
  obtain ⟨hp, _, hin, rfl⟩ := dstep_beginDrop_inv h
  refine ⟨[], m, by simp, rfl, ?_⟩
  have hd := hs.dropped_early (Or.inr hp)
  exact
    { created := hs.created
      toCreate_nil := fun _ => hs.toCreate_nil (by simp [hp])
      dropped_early := by simp
      dropped_late := fun _ => by simp [hd.1]
      toDrop_fin := by simp
      cancelled := hs.cancelled
      sess_nodup := hs.sess_nodup
      sess_lt := hs.sess_lt
      sess_of_inflight := hs.sess_of_inflight
      inflight_of_sess := hs.inflight_of_sess
      inflight_len := hs.inflight_len
      inflight_phase := fun _ => hin }

theorem sim_done (hs : Sim c s m) (h : dstep c s .done = some s') :
    ∃ evs m', s'.log = s.log ++ evs ∧ monRun cfg m evs = .ok m' ∧ Sim c s' m' := by
  obtain ⟨hp, ht, rfl⟩ := dstep_done_inv h
  refine ⟨[], m, by simp, rfl, ?_⟩
  exact
    { created := hs.created
      toCreate_nil := fun _ => hs.toCreate_nil (by simp [hp])
      dropped_early := by simp
      dropped_late := fun _ => hs.dropped_late (Or.inl hp)
      toDrop_fin := fun _ => ht
      cancelled := hs.cancelled
      sess_nodup := hs.sess_nodup
      sess_lt := hs.sess_lt
      sess_of_inflight := hs.sess_of_inflight
      inflight_of_sess := hs.inflight_of_sess
      inflight_len := hs.inflight_len
      inflight_phase := fun _ => hs.inflight_phase (by simp [hp]) }

theorem dropList_sublist (c : DCfg) (rs : List (Nat × FileResult)) :
    (dropList c rs).Sublist (c.files.map (·.db)) := by
  unfold dropList
  have : c.files.map (·.db) = (c.files.zipIdx.map Prod.fst).map (·.db) := by
    rw [List.zipIdx_map_fst]
  rw [this, List.map_map]
  exact List.Sublist.map _ List.filter_sublist

theorem sim_drop (wf : DWf c mgmt) (hs : Sim c s m) (h : dstep c s .drop = some s') :
    ∃ evs m', s'.log = s.log ++ evs ∧ monRun cfg m evs = .ok m' ∧ Sim c s' m' := by
  obtain ⟨db, rest, hp, ht, rfl⟩ := dstep_drop_inv h
  have hl := hs.dropped_late (Or.inl hp)
  rw [ht] at hl
  have hr : s.refused = false := by
    cases hr : s.refused with
    | false => rfl
    | true => rw [hr] at hl; simp at hl
  rw [hr] at hl
  simp only [Bool.false_eq_true, ↓reduceIte] at hl
  have hsub := dropList_sublist c s.results
  rw [← hl] at hsub
  have hnd : (m.dropped ++ db :: rest).Nodup := hsub.nodup wf.dbs_nodup
  have hnot : db ∉ m.dropped := by
    intro hm
    exact (List.nodup_append.mp hnd).2.2 db hm db (List.mem_cons_self ..) rfl
  have hcr : db ∈ m.created := by
    have h1 := hs.created
    rw [hs.toCreate_nil (by simp [hp]), List.append_nil] at h1
    rw [h1]
    exact hsub.subset (List.mem_append_right _ (List.mem_cons_self ..))
  have hsess : m.sessions = [] := hs.sessions_nil (hs.inflight_phase (by simp [hp]))
  refine ⟨[.drop db], _, rfl, monRun_single (monStep_drop_ok hcr hnot hsess), ?_⟩
  exact
    { created := hs.created
      toCreate_nil := hs.toCreate_nil
      dropped_early := by simp [hp]
      dropped_late := fun _ => by simp [hr, ← hl]
      toDrop_fin := by simp [hp]
      cancelled := hs.cancelled
      sess_nodup := hs.sess_nodup
      sess_lt := hs.sess_lt
      sess_of_inflight := hs.sess_of_inflight
      inflight_of_sess := hs.inflight_of_sess
      inflight_len := hs.inflight_len
      inflight_phase := hs.inflight_phase }

theorem sim_sql (wf : DWf c mgmt) (cm : CfgMatch c mgmt cfg) (hs : Sim c s m) {i k : Nat}
    {text : Str} (h : dstep c s (.sql i k text) = some s') :
    ∃ evs m', s'.log = s.log ++ evs ∧ monRun cfg m evs = .ok m' ∧ Sim c s' m' := by
  obtain ⟨ss, f, hp, hss, hf, _, hk, hown, hdb, rfl⟩ := dstep_sql_inv h
  obtain ⟨_, hmem⟩ := hs.sess_of_inflight i ss (sessionsOf_mem hss)
  obtain ⟨f', hf', hkm⟩ := hmem k hk
  rw [hf] at hf'
  cases hf'
  have hl := lookupSess_of_mem hs.sess_nodup hkm
  have hfm := fileAt_mem hf
  have hne : f.db ≠ cfg.mgmtDb := by rw [cm.mgmtDb]; exact wf.mgmt f hfm
  obtain ⟨cf, hcf, hcp⟩ := cm.resolves wf f hfm
  have hok : ownerOkOf cfg f.db text = true := by
    unfold ownerOkOf
    rw [hown, hcf]
    simp [hcp]
  refine ⟨[.sql k text], m, rfl, monRun_single (monStep_sql_ok hl hne hok hdb), ?_⟩
  exact
    { created := hs.created
      toCreate_nil := hs.toCreate_nil
      dropped_early := hs.dropped_early
      dropped_late := hs.dropped_late
      toDrop_fin := hs.toDrop_fin
      cancelled := hs.cancelled
      sess_nodup := hs.sess_nodup
      sess_lt := hs.sess_lt
      sess_of_inflight := hs.sess_of_inflight
      inflight_of_sess := hs.inflight_of_sess
      inflight_len := hs.inflight_len
      inflight_phase := hs.inflight_phase }

theorem sim_openSession (wf : DWf c mgmt) (cm : CfgMatch c mgmt cfg) (hi : IdxInv c s)
    (hs : Sim c s m) {i : Nat} (h : dstep c s (.openSession i) = some s') :
    ∃ evs m', s'.log = s.log ++ evs ∧ monRun cfg m evs = .ok m' ∧ Sim c s' m' := by
  obtain ⟨ss, f, hp, hss, hf, hc, rfl⟩ := dstep_openSession_inv h
  have hiss := sessionsOf_mem hss
  obtain ⟨hssnd, hmem⟩ := hs.sess_of_inflight i ss hiss
  have hfm := fileAt_mem hf
  have hne : f.db ≠ cfg.mgmtDb := by rw [cm.mgmtDb]; exact wf.mgmt f hfm
  have hcr : f.db ∈ m.created := by
    have h1 := hs.created
    rw [hs.toCreate_nil (by simp [hp]), List.append_nil] at h1
    rw [h1]
    exact List.mem_map.mpr ⟨f, hfm, rfl⟩
  have hdr : f.db ∉ m.dropped := by rw [(hs.dropped_early (Or.inr hp)).1]; simp
  have hcan : m.cancelled = false := by
    cases hmc : m.cancelled with
    | false => rfl
    | true => rw [hs.cancelled hmc] at hc; cases hc
  -- the new relation between sessions and in-flight files
  have hnew_of_sess : ∀ p ∈ m.sessions ++ [(s.nextSess, f.db)], ∃ j ss' f',
      (j, ss') ∈ setSessions s.inflight i (ss ++ [s.nextSess]) ∧ p.1 ∈ ss' ∧
        c.fileAt j = some f' ∧ f'.db = p.2 := by
    intro p hpm
    rcases List.mem_append.mp hpm with hpm | hpm
    · obtain ⟨j, ss', f', h1, h2, h3, h4⟩ := hs.inflight_of_sess p hpm
      by_cases hji : j = i
      · subst hji
        have : ss' = ss := fst_nodup_unique hi.inflight_nodup h1 hiss
        subst this
        exact ⟨j, ss' ++ [s.nextSess], f', mem_setSessions.mpr (Or.inr ⟨rfl, ss', h1⟩),
          List.mem_append_left _ h2, h3, h4⟩
      · exact ⟨j, ss', f', mem_setSessions.mpr (Or.inl ⟨hji, h1⟩), h2, h3, h4⟩
    · simp only [List.mem_singleton] at hpm
      subst hpm
      exact ⟨i, ss ++ [s.nextSess], f, mem_setSessions.mpr (Or.inr ⟨rfl, ss, hiss⟩),
        by simp, hf, rfl⟩
  have hlen : (inFlight { m with sessions := m.sessions ++ [(s.nextSess, f.db)] } cfg.mgmtDb).length
      ≤ cfg.jobs := by
    rw [cm.jobs]
    refine Nat.le_trans ?_ hs.inflight_len
    have hsub : inFlight { m with sessions := m.sessions ++ [(s.nextSess, f.db)] } cfg.mgmtDb ⊆
        s.inflight.filterMap (fun p => (c.fileAt p.1).map (·.db)) := by
      intro db hdb
      obtain ⟨_, k, hk⟩ := mem_inFlight.mp hdb
      obtain ⟨j, ss', f', h1, _, h3, h4⟩ := hnew_of_sess (k, db) hk
      rw [List.mem_filterMap]
      have hj : j ∈ (setSessions s.inflight i (ss ++ [s.nextSess])).map (·.1) :=
        List.mem_map.mpr ⟨_, h1, rfl⟩
      rw [setSessions_map_fst] at hj
      obtain ⟨q, hq, hqj⟩ := List.mem_map.mp hj
      refine ⟨q, hq, ?_⟩
      rw [hqj, h3]
      simp [h4]
    exact Nat.le_trans ((dedupS_nodup _).length_le_of_subset hsub) (List.length_filterMap_le _ _)
  refine ⟨[.connect s.nextSess f.db], _, rfl,
    monRun_single (monStep_connect_ok hne hcr hdr hcan hlen), ?_⟩
  exact
    { created := hs.created
      toCreate_nil := hs.toCreate_nil
      dropped_early := hs.dropped_early
      dropped_late := hs.dropped_late
      toDrop_fin := hs.toDrop_fin
      cancelled := hs.cancelled
      sess_nodup := by
        simp only [List.map_append, List.map_cons, List.map_nil]
        rw [List.nodup_append]
        refine ⟨hs.sess_nodup, by simp, ?_⟩
        intro a ha b hb
        simp only [List.mem_singleton] at hb
        subst hb
        obtain ⟨p, hp1, hp2⟩ := List.mem_map.mp ha
        have := hs.sess_lt p hp1
        omega
      sess_lt := by
        intro p hpm
        rcases List.mem_append.mp hpm with hpm | hpm
        · have := hs.sess_lt p hpm
          show p.1 < s.nextSess + 1
          omega
        · simp only [List.mem_singleton] at hpm
          subst hpm
          show s.nextSess < s.nextSess + 1
          omega
      sess_of_inflight := by
        intro j ss' hj
        rcases mem_setSessions.mp hj with ⟨hji, hj'⟩ | ⟨hj', _⟩
        · obtain ⟨h1, h2⟩ := hs.sess_of_inflight j ss' hj'
          refine ⟨h1, fun k hk => ?_⟩
          obtain ⟨f', hf', hk'⟩ := h2 k hk
          exact ⟨f', hf', List.mem_append_left _ hk'⟩
        · cases hj'
          refine ⟨?_, fun k hk => ?_⟩
          · rw [List.nodup_append]
            refine ⟨hssnd, by simp, ?_⟩
            intro a ha b hb
            simp only [List.mem_singleton] at hb
            subst hb
            obtain ⟨f', _, hk'⟩ := hmem a ha
            have := hs.sess_lt _ hk'
            simp only at this
            omega
          · rcases List.mem_append.mp hk with hk | hk
            · obtain ⟨f', hf', hk'⟩ := hmem k hk
              exact ⟨f', hf', List.mem_append_left _ hk'⟩
            · simp only [List.mem_singleton] at hk
              subst hk
              exact ⟨f, hf, List.mem_append_right _ (List.mem_singleton.mpr rfl)⟩
      inflight_of_sess := hnew_of_sess
      inflight_len := by
        show (setSessions s.inflight i (ss ++ [s.nextSess])).length ≤ c.jobs
        unfold setSessions
        rw [List.length_map]
        exact hs.inflight_len
      inflight_phase := fun hne => absurd hp hne }

theorem sim_finish (wf : DWf c mgmt) (hi : IdxInv c s) (hs : Sim c s m) {i : Nat}
    {res : FileResult} {refused : Bool} (h : dstep c s (.finish i res refused) = some s') :
    ∃ evs m', s'.log = s.log ++ evs ∧ monRun cfg m evs = .ok m' ∧ Sim c s' m' := by
  obtain ⟨ss, hp, hss, _, _, _, rfl⟩ := dstep_finish_inv h
  have hiss := sessionsOf_mem hss
  obtain ⟨hssnd, hmem⟩ := hs.sess_of_inflight i ss hiss
  obtain ⟨m', hrun, hsess, hcr, hdr, hcan⟩ := monRun_eofs (cfg := cfg) ss m hssnd (by
    intro k hk
    obtain ⟨f, _, hk'⟩ := hmem k hk
    exact List.mem_map.mpr ⟨_, hk', rfl⟩)
  refine ⟨ss.map CEv.eof, m', rfl, hrun, ?_⟩
  have hsub : ∀ p, p ∈ m'.sessions → p ∈ m.sessions ∧ p.1 ∉ ss := by
    intro p hpm
    rw [hsess] at hpm
    obtain ⟨h1, h2⟩ := List.mem_filter.mp hpm
    exact ⟨h1, by simpa using h2⟩
  exact
    { created := by rw [hcr]; exact hs.created
      toCreate_nil := hs.toCreate_nil
      dropped_early := fun hph => by rw [hdr]; exact hs.dropped_early hph
      dropped_late := by simp [hp]
      toDrop_fin := by simp [hp]
      cancelled := by
        intro hmc
        rw [hcan] at hmc
        simp [hs.cancelled hmc]
      sess_nodup := by
        rw [hsess]
        exact (List.Sublist.map _ List.filter_sublist).nodup hs.sess_nodup
      sess_lt := fun p hpm => hs.sess_lt p (hsub p hpm).1
      sess_of_inflight := by
        intro j ss' hj
        obtain ⟨hj', hji⟩ := List.mem_filter.mp hj
        have hji : j ≠ i := by simpa using hji
        obtain ⟨h1, h2⟩ := hs.sess_of_inflight j ss' hj'
        refine ⟨h1, fun k hk => ?_⟩
        obtain ⟨f', hf', hk'⟩ := h2 k hk
        refine ⟨f', hf', ?_⟩
        rw [hsess]
        refine List.mem_filter.mpr ⟨hk', ?_⟩
        have : k ∉ ss := by
          intro hks
          obtain ⟨f, hf, hkf⟩ := hmem k hks
          have hdb : f'.db = f.db := fst_nodup_unique hs.sess_nodup hk' hkf
          exact hji (fileAt_db_inj wf hf' hf hdb)
        simpa using this
      inflight_of_sess := by
        intro p hpm
        obtain ⟨hpm', hpn⟩ := hsub p hpm
        obtain ⟨j, ss', f', h1, h2, h3, h4⟩ := hs.inflight_of_sess p hpm'
        have hji : j ≠ i := by
          intro hji
          subst hji
          have : ss' = ss := fst_nodup_unique hi.inflight_nodup h1 hiss
          subst this
          exact hpn h2
        exact ⟨j, ss', f', List.mem_filter.mpr ⟨h1, by simpa using hji⟩, h2, h3, h4⟩
      inflight_len := Nat.le_trans (List.length_filter_le _ _) hs.inflight_len
      inflight_phase := fun hne => absurd hp hne }

theorem sim_closeSession (wf : DWf c mgmt) (hi : IdxInv c s) (hs : Sim c s m) {i k : Nat}
    (h : dstep c s (.closeSession i k) = some s') :
    ∃ evs m', s'.log = s.log ++ evs ∧ monRun cfg m evs = .ok m' ∧ Sim c s' m' := by
  obtain ⟨ss, hp, hss, hk, rfl⟩ := dstep_closeSession_inv h
  have hiss := sessionsOf_mem hss
  obtain ⟨hssnd, hmem⟩ := hs.sess_of_inflight i ss hiss
  obtain ⟨f, hf, hkf⟩ := hmem k hk
  have hl := lookupSess_of_mem hs.sess_nodup hkf
  refine ⟨[.eof k], _, rfl, monRun_single (monStep_eof_ok hl), ?_⟩
  have hsub : ∀ p, p ∈ m.sessions.filter (fun p => p.1 ≠ k) → p ∈ m.sessions ∧ p.1 ≠ k := by
    intro p hpm
    obtain ⟨h1, h2⟩ := List.mem_filter.mp hpm
    exact ⟨h1, by simpa using h2⟩
  exact
    { created := hs.created
      toCreate_nil := hs.toCreate_nil
      dropped_early := hs.dropped_early
      dropped_late := hs.dropped_late
      toDrop_fin := hs.toDrop_fin
      cancelled := hs.cancelled
      sess_nodup := (List.Sublist.map _ List.filter_sublist).nodup hs.sess_nodup
      sess_lt := fun p hpm => hs.sess_lt p (hsub p hpm).1
      sess_of_inflight := by
        intro j ss' hj
        rcases mem_setSessions.mp hj with ⟨hji, hj'⟩ | ⟨hj', _⟩
        · obtain ⟨h1, h2⟩ := hs.sess_of_inflight j ss' hj'
          refine ⟨h1, fun k' hk' => ?_⟩
          obtain ⟨f', hf', hkm⟩ := h2 k' hk'
          refine ⟨f', hf', List.mem_filter.mpr ⟨hkm, ?_⟩⟩
          have : k' ≠ k := by
            intro hkk
            subst hkk
            have hdb : f'.db = f.db := fst_nodup_unique hs.sess_nodup hkm hkf
            exact hji (fileAt_db_inj wf hf' hf hdb)
          simpa using this
        · cases hj'
          refine ⟨hssnd.sublist List.filter_sublist, fun k' hk' => ?_⟩
          obtain ⟨hk1, hk2⟩ := List.mem_filter.mp hk'
          obtain ⟨f', hf', hkm⟩ := hmem k' hk1
          exact ⟨f', hf', List.mem_filter.mpr ⟨hkm, by simpa using hk2⟩⟩
      inflight_of_sess := by
        intro p hpm
        obtain ⟨hpm', hpn⟩ := hsub p hpm
        obtain ⟨j, ss', f', h1, h2, h3, h4⟩ := hs.inflight_of_sess p hpm'
        by_cases hji : j = i
        · subst hji
          have : ss' = ss := fst_nodup_unique hi.inflight_nodup h1 hiss
          subst this
          exact ⟨j, ss'.filter (fun x => x ≠ k), f',
            mem_setSessions.mpr (Or.inr ⟨rfl, ss', h1⟩),
            List.mem_filter.mpr ⟨h2, by simpa using hpn⟩, h3, h4⟩
        · exact ⟨j, ss', f', mem_setSessions.mpr (Or.inl ⟨hji, h1⟩), h2, h3, h4⟩
      inflight_len := by
        show (setSessions s.inflight i (ss.filter (fun x => x ≠ k))).length ≤ c.jobs
        rw [setSessions_length]
        exact hs.inflight_len
      inflight_phase := fun hne => absurd hp hne }

/-- **the step lemma**: whatever the driver does, the monitor accepts the events it emits, and the
    relation is preserved -/
theorem dstep_sim (wf : DWf c mgmt) (cm : CfgMatch c mgmt cfg) (hi : IdxInv c s) (hs : Sim c s m)
    {l : DLabel} (h : dstep c s l = some s') :
    ∃ evs m', s'.log = s.log ++ evs ∧ monRun cfg m evs = .ok m' ∧ Sim c s' m' := by
  cases l with
  | create => exact sim_create wf hs h
  | beginRun => exact sim_beginRun hs h
  | start => exact sim_start hs h
  | openSession i => exact sim_openSession wf cm hi hs h
  | sql i k t => exact sim_sql wf cm hs h
  | finish i r b => exact sim_finish wf hi hs h
  | closeSession i k => exact sim_closeSession wf hi hs h
  | signal => exact sim_signal hs h
  | beginDrop => exact sim_beginDrop hs h
  | drop => exact sim_drop wf hs h
  | done => exact sim_done hs h

end

end Slt
