/-
Preparations for the simulation between the parallel driver (`dstep`) and the monitor (`monStep`):
well-formedness of a driver configuration, accepted monitor steps, list helpers.
-/
import SltVerif.Lemmas.CliIdx
import SltVerif.Lemmas.CliMonSpec
import SltVerif.Lemmas.CliNames
namespace Slt

/-! ### configurations -/

/-- the hypotheses on a driver configuration: test-case names pairwise distinct (the CLI aborts
    otherwise), database names of the `dbName` shape, the management database different from all -/
structure DWf (c : DCfg) (mgmt : Str) : Prop where
  names : (c.files.map (fun f => testCaseName f.path)).Nodup
  shape : ∀ f ∈ c.files, ∃ suf : Str, suf.length = 8 ∧ f.db = dbName f.path suf
  mgmt : ∀ f ∈ c.files, f.db ≠ mgmt

theorem DWf.dbs_nodup {c : DCfg} {mgmt : Str} (wf : DWf c mgmt) : (c.files.map (·.db)).Nodup := by
  have h1 : c.files.Pairwise (fun a b => testCaseName a.path ≠ testCaseName b.path) :=
    List.pairwise_map.mp wf.names
  apply List.pairwise_map.mpr
  apply List.Pairwise.imp_of_mem _ h1
  intro a b ha hb hne
  obtain ⟨sa, hsa, hda⟩ := wf.shape a ha
  obtain ⟨sb, hsb, hdb⟩ := wf.shape b hb
  rw [hda, hdb]
  intro heq
  exact hne (dbName_inj _ _ _ _ (hsa.trans hsb.symm) heq).1

/-- a monitor configuration that fits the driver configuration (the `failed` flags and `refused`
    are irrelevant for `monRun`) -/
structure CfgMatch (c : DCfg) (mgmt : Str) (cfg : MonCfg) : Prop where
  jobs : cfg.jobs = c.jobs
  mgmtDb : cfg.mgmtDb = mgmt
  paths : cfg.files.map (·.path) = c.files.map (·.path)

theorem cfgMatch_monCfgOf (c : DCfg) (mgmt : Str) (s : DSt) : CfgMatch c mgmt (monCfgOf c mgmt s) := by
  refine ⟨rfl, rfl, ?_⟩
  have : c.files.map (·.path) = (c.files.zipIdx.map Prod.fst).map (·.path) := by
    rw [List.zipIdx_map_fst]
  rw [this]
  simp only [monCfgOf, List.map_map]
  rfl

theorem CfgMatch.pairwise {c : DCfg} {mgmt : Str} {cfg : MonCfg} (wf : DWf c mgmt)
    (cm : CfgMatch c mgmt cfg) :
    cfg.files.Pairwise (fun a b => testCaseName a.path ≠ testCaseName b.path) := by
  have h1 : (cfg.files.map (fun f => testCaseName f.path)).Nodup := by
    have e1 : cfg.files.map (fun f => testCaseName f.path) =
        (cfg.files.map (·.path)).map testCaseName := by rw [List.map_map]; rfl
    have e2 : c.files.map (fun f => testCaseName f.path) =
        (c.files.map (·.path)).map testCaseName := by rw [List.map_map]; rfl
    rw [e1, cm.paths, ← e2]
    exact wf.names
  exact List.pairwise_map.mp h1

/-- the monitor resolves the database of every file to an entry with that file's path -/
theorem CfgMatch.resolves {c : DCfg} {mgmt : Str} {cfg : MonCfg} (wf : DWf c mgmt)
    (cm : CfgMatch c mgmt cfg) (f : DFile) (hf : f ∈ c.files) :
    ∃ cf, fileOfDb cfg f.db = some cf ∧ cf.path = f.path := by
  have hp : f.path ∈ cfg.files.map (·.path) := by
    rw [cm.paths]; exact List.mem_map.mpr ⟨f, hf, rfl⟩
  obtain ⟨cf, hcf, hcp⟩ := List.mem_map.mp hp
  obtain ⟨suf, hs, hd⟩ := wf.shape f hf
  refine ⟨cf, ?_, hcp⟩
  rw [hd, ← hcp, fileOfDb_eq]
  exact find_dbMatches cfg.files (cm.pairwise wf) cf hcf suf hs

theorem fileAt_mem {c : DCfg} {i : Nat} {f : DFile} (h : c.fileAt i = some f) : f ∈ c.files :=
  List.mem_of_getElem? h

theorem fileAt_db_inj {c : DCfg} {mgmt : Str} (wf : DWf c mgmt) {i j : Nat} {f g : DFile}
    (hi : c.fileAt i = some f) (hj : c.fileAt j = some g) (hdb : f.db = g.db) : i = j := by
  unfold DCfg.fileAt at hi hj
  have hlt : i < (c.files.map (·.db)).length := by
    rw [List.length_map]
    exact (List.getElem?_eq_some_iff.mp hi).1
  apply (List.getElem?_inj hlt wf.dbs_nodup).mp
  rw [List.getElem?_map, List.getElem?_map, hi, hj]
  simp [hdb]

/-! ### list helpers -/

theorem fst_nodup_unique {β : Type} {l : List (Nat × β)} (hnd : (l.map (·.1)).Nodup) {k : Nat}
    {a b : β} (ha : (k, a) ∈ l) (hb : (k, b) ∈ l) : a = b := by
  induction l with
  | nil => simp at ha
  | cons p rest ih =>
    simp only [List.map_cons, List.nodup_cons] at hnd
    rcases List.mem_cons.mp ha with ha | ha <;> rcases List.mem_cons.mp hb with hb | hb
    · rw [← ha] at hb; exact (Prod.mk.inj hb).2.symm
    · exact absurd (List.mem_map.mpr ⟨(k, b), hb, by rw [← ha]⟩) hnd.1
    · exact absurd (List.mem_map.mpr ⟨(k, a), ha, by rw [← hb]⟩) hnd.1
    · exact ih hnd.2 ha hb

theorem lookupSess_of_mem {l : List (Nat × Str)} (hnd : (l.map (·.1)).Nodup) {k : Nat} {d : Str}
    (h : (k, d) ∈ l) : lookupSess l k = some d := by
  induction l with
  | nil => simp at h
  | cons p rest ih =>
    obtain ⟨k', d'⟩ := p
    simp only [lookupSess]
    by_cases hk : k' = k
    · subst hk
      rw [if_pos rfl]
      have := fst_nodup_unique hnd (List.mem_cons_self ..) h
      rw [this]
    · rw [if_neg hk]
      simp only [List.map_cons, List.nodup_cons] at hnd
      rcases List.mem_cons.mp h with h | h
      · exact absurd (Prod.mk.inj h).1.symm hk
      · exact ih hnd.2 h

theorem lookupSess_isSome {l : List (Nat × Str)} {k : Nat} (h : k ∈ l.map (·.1)) :
    ∃ d, lookupSess l k = some d := by
  induction l with
  | nil => simp at h
  | cons p rest ih =>
    obtain ⟨k', d'⟩ := p
    simp only [lookupSess]
    by_cases hk : k' = k
    · exact ⟨d', by rw [if_pos hk]⟩
    · rw [if_neg hk]
      simp only [List.map_cons, List.mem_cons] at h
      rcases h with h | h
      · exact absurd h.symm hk
      · exact ih h

theorem mem_setSessions {l : List (Nat × List Nat)} {i : Nat} {x : List Nat} {q : Nat × List Nat} :
    q ∈ setSessions l i x ↔ (q.1 ≠ i ∧ q ∈ l) ∨ (q = (i, x) ∧ ∃ y, (i, y) ∈ l) := by
  unfold setSessions
  rw [List.mem_map]
  constructor
  · rintro ⟨p, hp, rfl⟩
    by_cases hpi : p.1 = i
    · right
      rw [if_pos hpi]
      refine ⟨rfl, p.2, ?_⟩
      rw [← hpi]; exact hp
    · left
      rw [if_neg hpi]
      exact ⟨hpi, hp⟩
  · rintro (⟨h1, h2⟩ | ⟨rfl, y, hy⟩)
    · exact ⟨q, h2, by rw [if_neg h1]⟩
    · exact ⟨(i, y), hy, by simp⟩

/-! ### accepted monitor steps -/

theorem monRun_single {cfg : MonCfg} {m m' : MonState} {e : CEv} (h : monStep cfg m e = .ok m') :
    monRun cfg m [e] = .ok m' := by
  rw [monRun, h]; rfl

theorem monRun_append_of_ok {cfg : MonCfg} {a b : List CEv} :
    ∀ {m m1 m2 : MonState}, monRun cfg m a = .ok m1 → monRun cfg m1 b = .ok m2 →
      monRun cfg m (a ++ b) = .ok m2 := by
  induction a with
  | nil => intro m m1 m2 h1 h2; simp [monRun] at h1; subst h1; exact h2
  | cons e es ih =>
    intro m m1 m2 h1 h2
    obtain ⟨s1, h3, h4⟩ := monRun_cons_ok h1
    rw [List.cons_append, monRun, h3]
    exact ih h4 h2

theorem monStep_create_ok {cfg : MonCfg} {m : MonState} {db : Str} (h : db ∉ m.created) :
    monStep cfg m (.create db) = .ok { m with created := m.created ++ [db] } := by
  simp only [monStep]
  rw [if_neg (by simpa using h)]

theorem monStep_drop_ok {cfg : MonCfg} {m : MonState} {db : Str} (h1 : db ∈ m.created)
    (h2 : db ∉ m.dropped) (h3 : m.sessions = []) :
    monStep cfg m (.drop db) = .ok { m with dropped := m.dropped ++ [db] } := by
  simp only [monStep]
  rw [if_neg (by simp [h1, h2]), if_neg (by simp [h3])]

theorem monStep_connect_ok {cfg : MonCfg} {m : MonState} {s : Nat} {db : Str}
    (h0 : db ≠ cfg.mgmtDb) (h1 : db ∈ m.created) (h2 : db ∉ m.dropped) (h3 : m.cancelled = false)
    (h4 : (inFlight { m with sessions := m.sessions ++ [(s, db)] } cfg.mgmtDb).length ≤ cfg.jobs) :
    monStep cfg m (.connect s db) = .ok { m with sessions := m.sessions ++ [(s, db)] } := by
  simp only [monStep]
  rw [if_neg h0, if_neg (by simp [h1, h2]), if_neg (by simp [h3]),
    if_neg (fun h => by have := h.2; omega)]

theorem monStep_sql_ok {cfg : MonCfg} {m : MonState} {s : Nat} {db text : Str}
    (h1 : lookupSess m.sessions s = some db) (h2 : db ≠ cfg.mgmtDb)
    (h3 : ownerOkOf cfg db text = true)
    (h4 : ¬((kw "dbname ").isPrefixOf text = true ∧
          (!((kw "dbname " ++ db ++ kw " -- F").isPrefixOf text)) = true)) :
    monStep cfg m (.sql s text) = .ok m := by
  rw [monStep_sql_eq, h1]
  simp only
  rw [if_neg (fun h => h2 h.1), if_neg (by simp [h3]), if_neg h4]

theorem monStep_eof_ok {cfg : MonCfg} {m : MonState} {s : Nat} {db : Str}
    (h1 : lookupSess m.sessions s = some db) :
    monStep cfg m (.eof s) =
      .ok { m with sessions := m.sessions.filter (fun p => p.1 ≠ s), closed := m.closed ++ [s] } := by
  simp only [monStep, h1]

/-- closing all sessions of a file -/
theorem monRun_eofs {cfg : MonCfg} (ss : List Nat) :
    ∀ (m : MonState), ss.Nodup → (∀ k ∈ ss, k ∈ m.sessions.map (·.1)) →
      ∃ m', monRun cfg m (ss.map CEv.eof) = .ok m' ∧
        m'.sessions = m.sessions.filter (fun p => !ss.contains p.1) ∧
        m'.created = m.created ∧ m'.dropped = m.dropped ∧ m'.cancelled = m.cancelled := by
  induction ss with
  | nil =>
    intro m _ _
    exact ⟨m, rfl, (List.filter_eq_self.mpr (by simp)).symm, rfl, rfl, rfl⟩
  | cons k rest ih =>
    intro m hnd hall
    rw [List.nodup_cons] at hnd
    obtain ⟨d, hd⟩ := lookupSess_isSome (hall k (List.mem_cons_self ..))
    have hstep := monStep_eof_ok (cfg := cfg) hd
    obtain ⟨m', h1, h2, h3, h4, h5⟩ := ih
      { m with sessions := m.sessions.filter (fun p => p.1 ≠ k), closed := m.closed ++ [k] } hnd.2
      (by
        intro k' hk'
        obtain ⟨p, hp, hpk⟩ := List.mem_map.mp (hall k' (List.mem_cons_of_mem _ hk'))
        refine List.mem_map.mpr ⟨p, List.mem_filter.mpr ⟨hp, ?_⟩, hpk⟩
        have : k' ≠ k := fun h => hnd.1 (h ▸ hk')
        simpa [hpk] using this)
    refine ⟨m', ?_, ?_, h3, h4, h5⟩
    · rw [List.map_cons, monRun, hstep]
      exact h1
    · rw [h2, List.filter_filter]
      apply List.filter_congr
      intro p _
      simp only [List.contains_cons, Bool.not_or]
      by_cases hpk : p.1 = k
      · simp [hpk]
      · have : (p.1 == k) = false := by simpa using hpk
        simp [hpk, this]

end Slt
