/-
Lemmas about the trace-inclusion checker `traceCheck` (CliTrace.lean): it answers `ok` exactly when
the witness is a finished run of the driver model with the observed log and the observed results.
-/
import SltVerif.CliTrace
import SltVerif.Lemmas.CliDriver
import SltVerif.Lemmas.CliExample
import SltVerif.Lemmas.CliSimBase
namespace Slt

theorem drunAt_ok {c : DCfg} : ∀ (ls : List DLabel) (s s' : DSt) (k : Nat),
    drunAt c s ls k = .ok s' → drun c s ls = some s' := by
  intro ls
  induction ls with
  | nil => intro s s' k h; simp only [drunAt, Except.ok.injEq] at h; simp [drun, h]
  | cons l ls ih =>
    intro s s' k h
    simp only [drunAt] at h
    cases hd : dstep c s l with
    | none => rw [hd] at h; cases h
    | some s1 =>
      rw [hd] at h
      simp only [drun, hd]
      exact ih s1 s' (k + 1) h

theorem drunAt_of_drun {c : DCfg} : ∀ (ls : List DLabel) (s s' : DSt) (k : Nat),
    drun c s ls = some s' → drunAt c s ls k = .ok s' := by
  intro ls
  induction ls with
  | nil => intro s s' k h; simp only [drun, Option.some.injEq] at h; simp [drunAt, h]
  | cons l ls ih =>
    intro s s' k h
    simp only [drun] at h
    cases hd : dstep c s l with
    | none => rw [hd] at h; cases h
    | some s1 =>
      rw [hd] at h
      simp only [drunAt, hd]
      exact ih s1 s' (k + 1) h

theorem firstDiff_none : ∀ (a b : List CEv) (k : Nat), firstDiff a b k = none → a = b := by
  intro a
  induction a with
  | nil => intro b k h; cases b with
    | nil => rfl
    | cons y ys => simp [firstDiff] at h
  | cons x xs ih =>
    intro b k h
    cases b with
    | nil => simp [firstDiff] at h
    | cons y ys =>
      simp only [firstDiff] at h
      by_cases hxy : x = y
      · rw [if_pos hxy] at h
        rw [hxy, ih ys (k + 1) h]
      · rw [if_neg hxy] at h; cases h

theorem firstDiff_self : ∀ (a : List CEv) (k : Nat), firstDiff a a k = none := by
  intro a
  induction a with
  | nil => intro k; rfl
  | cons x xs ih => intro k; simp only [firstDiff, if_true]; exact ih (k + 1)

theorem firstWrongResult_none {rs : List (Nat × FileResult)} {tags : List FileResult} :
    ∀ n, firstWrongResult rs tags n = none → ∀ i, i < n → resultOf rs i = tags[i]? := by
  intro n
  induction n with
  | zero => intro _ i hi; omega
  | succ n ih =>
    intro h i hi
    simp only [firstWrongResult] at h
    cases hn : firstWrongResult rs tags n with
    | some j => rw [hn] at h; cases h
    | none =>
      rw [hn] at h
      by_cases hr : resultOf rs n = tags[n]?
      · by_cases hin : i = n
        · rw [hin]; exact hr
        · exact ih hn i (by omega)
      · simp only [if_neg hr] at h; cases h

theorem firstWrongResult_of_all {rs : List (Nat × FileResult)} {tags : List FileResult} :
    ∀ n, (∀ i, i < n → resultOf rs i = tags[i]?) → firstWrongResult rs tags n = none := by
  intro n
  induction n with
  | zero => intro _; rfl
  | succ n ih =>
    intro h
    simp only [firstWrongResult]
    rw [ih (fun i hi => h i (by omega))]
    simp only [if_pos (h n (by omega))]

theorem resultOf_mem {rs : List (Nat × FileResult)} {i : Nat} {r : FileResult}
    (h : resultOf rs i = some r) : (i, r) ∈ rs := by
  induction rs with
  | nil => simp [resultOf] at h
  | cons p rest ih =>
    obtain ⟨k, q⟩ := p
    simp only [resultOf] at h
    by_cases hk : k = i
    · rw [if_pos hk] at h
      cases h
      rw [hk]
      exact List.mem_cons_self
    · rw [if_neg hk] at h
      exact List.mem_cons_of_mem _ (ih h)

/-- what a positive answer of the checker means -/
structure TraceOk (c : DCfg) (labels : List DLabel) (observed : List CEv) (tags : List FileResult)
    (exitZero : Bool) (s : DSt) : Prop where
  run : drun c (dinit c) labels = some s
  finished : s.phase = .finished
  log : stripCancel s.log = stripCancel observed
  ntags : tags.length = c.files.length
  results : ∀ i, i < c.files.length → resultOf s.results i = tags[i]?
  exit : dexitOk s = exitZero

theorem traceCheck_ok {c : DCfg} {labels : List DLabel} {observed : List CEv}
    {tags : List FileResult} {exitZero : Bool} (h : traceCheck c labels observed tags exitZero = .ok) :
    ∃ s, TraceOk c labels observed tags exitZero s := by
  unfold traceCheck at h
  cases hr : drunAt c (dinit c) labels 0 with
  | error k => rw [hr] at h; cases h
  | ok s =>
    rw [hr] at h
    simp only at h
    by_cases hp : s.phase ≠ .finished
    · rw [if_pos hp] at h; cases h
    · rw [if_neg hp] at h
      cases hd : firstDiff (stripCancel s.log) (stripCancel observed) 0 with
      | some k => rw [hd] at h; cases h
      | none =>
        rw [hd] at h
        simp only at h
        by_cases hn : tags.length ≠ c.files.length
        · rw [if_pos hn] at h; cases h
        · rw [if_neg hn] at h
          cases hw : firstWrongResult s.results tags c.files.length with
          | some i => rw [hw] at h; cases h
          | none =>
            rw [hw] at h
            simp only at h
            by_cases he : dexitOk s = exitZero
            · exact ⟨s, drunAt_ok labels _ _ 0 hr, Classical.not_not.mp hp, firstDiff_none _ _ 0 hd,
                Classical.not_not.mp hn, firstWrongResult_none _ hw, he⟩
            · rw [if_neg he] at h; cases h

theorem traceCheck_complete {c : DCfg} {labels : List DLabel} {observed : List CEv}
    {tags : List FileResult} {exitZero : Bool} {s : DSt}
    (h : TraceOk c labels observed tags exitZero s) :
    traceCheck c labels observed tags exitZero = .ok := by
  unfold traceCheck
  rw [drunAt_of_drun labels _ _ 0 h.run]
  simp only
  rw [if_neg (by simp [h.finished]), h.log, firstDiff_self]
  simp only
  rw [if_neg (by simp [h.ntags]), firstWrongResult_of_all _ h.results]
  simp only
  rw [if_pos h.exit]

theorem dwf_of_dwfB {c : DCfg} {mgmt : Str} (h : dwfB c mgmt = true) : DWf c mgmt := by
  unfold dwfB at h
  simp only [Bool.and_eq_true, decide_eq_true_eq, List.all_eq_true] at h
  obtain ⟨⟨hn, hs⟩, hm⟩ := h
  refine ⟨hn, ?_, hm⟩
  intro f hf
  obtain ⟨hlen, hpre⟩ := hs f hf
  have hpre' : (testCaseName f.path ++ ['_']) <+: f.db := List.isPrefixOf_iff_prefix.mp hpre
  have hsuf : testCaseName f.path ++ ['_'] ++ f.db.drop (testCaseName f.path ++ ['_']).length = f.db :=
    List.prefix_iff_eq_append.mp hpre'
  refine ⟨f.db.drop (testCaseName f.path ++ ['_']).length, ?_, ?_⟩
  · simp only [List.length_drop, List.length_append, List.length_cons, List.length_nil]
    omega
  · unfold dbName
    rw [← hsuf]
    simp

/-- the log of the example run `exRunClose` (used by the examples next to the property theorems) -/
def exCloseLog : List CEv :=
  match drun exCfg (dinit exCfg) exRunClose with
  | some s => s.log
  | none => []

end Slt
