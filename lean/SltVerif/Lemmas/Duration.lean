/-
Round trip of durations through humantime's printer and parser (used by property C05):

  parseDuration (formatDurationCompact d) = .ok d      for every `std::time::Duration` d

plus: the compact text is a single whitespace-free, non-empty token, and both the singular and the
plural unit names written by `fmtItemPlural` are known to `unitScale`.
-/
import SltVerif.Duration
namespace Slt

/-! ### decimal numerals -/

/-- the ASCII digit character of `d` (`d < 10`) -/
def dc (d : Nat) : Char := Char.ofNat (48 + d)

theorem digitVal_dc : ∀ d, d < 10 → digitVal (dc d) = some d := by decide

theorem isWs_dc : ∀ d, d < 10 → isWs (dc d) = false := by decide

/-- fuel-free description of `natToStr` -/
def digits (n : Nat) : Str :=
  if n < 10 then [dc n] else digits (n / 10) ++ [dc (n % 10)]
termination_by n
decreasing_by omega

theorem natDigitsAux_eq (fuel : Nat) :
    ∀ n acc, n < fuel → natDigitsAux fuel n acc = digits n ++ acc := by
  induction fuel with
  | zero => intro n acc h; omega
  | succ f ih =>
    intro n acc h
    rw [digits]
    simp only [natDigitsAux]
    by_cases h0 : n / 10 = 0
    · have h1 : n < 10 := by omega
      have h2 : n % 10 = n := by omega
      simp [h0, h1, h2, dc]
    · have h1 : ¬ n < 10 := by omega
      rw [if_neg h0, if_neg h1, ih _ _ (by omega)]
      simp [dc]

theorem natToStr_eq (n : Nat) : natToStr n = digits n := by
  simp [natToStr, natDigitsAux_eq]

theorem digits_ne_nil (n : Nat) : digits n ≠ [] := by
  rw [digits]; split <;> simp

theorem digits_noWs (n : Nat) : ∀ c ∈ digits n, isWs c = false := by
  induction n using Nat.strongRecOn with
  | _ n ih =>
    rw [digits]
    split
    · intro c hc
      simp only [List.mem_singleton] at hc
      subst hc; exact isWs_dc n (by omega)
    · intro c hc
      simp only [List.mem_append, List.mem_singleton] at hc
      rcases hc with hc | hc
      · exact ih (n / 10) (by omega) c hc
      · subst hc; exact isWs_dc (n % 10) (by omega)

theorem digits_digit (n : Nat) : ∀ c ∈ digits n, (digitVal c).isSome = true := by
  induction n using Nat.strongRecOn with
  | _ n ih =>
    rw [digits]
    split
    · intro c hc
      simp only [List.mem_singleton] at hc
      subst hc; rw [digitVal_dc n (by omega)]; rfl
    · intro c hc
      simp only [List.mem_append, List.mem_singleton] at hc
      rcases hc with hc | hc
      · exact ih (n / 10) (by omega) c hc
      · subst hc; rw [digitVal_dc (n % 10) (by omega)]; rfl

theorem natToStr_ne_nil (n : Nat) : natToStr n ≠ [] := by
  rw [natToStr_eq]; exact digits_ne_nil n

theorem natToStr_noWs (n : Nat) : ∀ c ∈ natToStr n, isWs c = false := by
  rw [natToStr_eq]; exact digits_noWs n

theorem natToStr_digit (n : Nat) : ∀ c ∈ natToStr n, (digitVal c).isSome = true := by
  rw [natToStr_eq]; exact digits_digit n

/-- `parse (print n) = n` for `parseDigits` (accumulator form) -/
theorem parseDigits_digits (n : Nat) :
    ∀ acc R, acc = 0 → parseDigits acc (digits n ++ R) = parseDigits n R := by
  induction n using Nat.strongRecOn with
  | _ n ih =>
    intro acc R hacc
    subst hacc
    rw [digits]
    split
    · rename_i h
      simp only [List.singleton_append, parseDigits, digitVal_dc n h, Nat.zero_mul, Nat.zero_add]
    · rename_i h
      rw [List.append_assoc, ih (n / 10) (by omega) 0 _ rfl]
      simp only [List.singleton_append, parseDigits, digitVal_dc (n % 10) (by omega)]
      congr 1; omega

theorem parseDigits_natToStr (n : Nat) : parseDigits 0 (natToStr n) = some n := by
  have h := parseDigits_digits n 0 [] rfl
  rw [List.append_nil] at h
  rw [natToStr_eq, h]; rfl

theorem parseU64_natToStr (n : Nat) (h : n < 2 ^ 64) : parseU64 (natToStr n) = some n := by
  have hne : natToStr n ≠ [] := natToStr_ne_nil n
  have hd := natToStr_digit n
  unfold parseU64
  cases hs : natToStr n with
  | nil => exact absurd hs hne
  | cons c cs =>
    have hc : c ≠ '+' := by
      intro hc
      have := hd c (by rw [hs]; simp)
      subst hc
      revert this; decide
    have key : ∀ body : Str, body = c :: cs →
        (if body.isEmpty = true then none
         else match parseDigits 0 body with
           | some n => if n < 2 ^ 64 then some n else none
           | none => none) = some n := by
      intro body hb
      subst hb
      rw [← hs, parseDigits_natToStr]
      simp [hs, h]
    dsimp only
    apply key
    split
    · rename_i r heq
      cases heq
      exact absurd rfl hc
    · rfl

/-! ### the duration lexer on numerals and unit names -/

/-- phase `p` with running total `cur` continues, on a digit, like a fresh item on total `cur'` -/
def Starts (p : DPhase) (cur cur' : Nat × Nat) : Prop :=
  ∀ c d cs, digitVal c = some d → durLoop p cur (c :: cs) = durLoop (.num d) cur' cs

theorem starts_first (cur : Nat × Nat) : Starts .first cur cur := by
  intro c d cs h; simp only [durLoop, h]

theorem starts_firstNext (cur : Nat × Nat) : Starts .firstNext cur cur := by
  intro c d cs h; simp only [durLoop, h]

theorem starts_unit {cur cur' : Nat × Nat} {n : Nat} {u : Str}
    (h : addUnit cur n u = some cur') : Starts (.unit n u) cur cur' := by
  intro c d cs hd; simp only [durLoop, hd, h]

/-- reading the numeral of `v` lands in phase `.num v` -/
theorem durLoop_digits {p : DPhase} {cur cur' : Nat × Nat} (hp : Starts p cur cur') :
    ∀ v, v < 2 ^ 64 → ∀ R, durLoop p cur (digits v ++ R) = durLoop (.num v) cur' R := by
  intro v
  induction v using Nat.strongRecOn with
  | _ v ih =>
    intro hv R
    rw [digits]
    split
    · rename_i h
      exact hp _ _ _ (digitVal_dc v h)
    · rename_i h
      rw [List.append_assoc, ih (v / 10) (by omega) (by omega)]
      have h1 : ckMul (v / 10) 10 = some (v / 10 * 10) := by
        unfold ckMul U64MAX; rw [if_pos (by omega)]
      have h2 : ckAdd (v / 10 * 10) (v % 10) = some v := by
        unfold ckAdd U64MAX; rw [if_pos (by omega)]; congr 1; omega
      simp only [List.singleton_append, durLoop, digitVal_dc (v % 10) (by omega), h1,
        Option.bind_some, h2]

theorem durLoop_natToStr {p : DPhase} {cur cur' : Nat × Nat} (hp : Starts p cur cur')
    (v : Nat) (hv : v < 2 ^ 64) (R : Str) :
    durLoop p cur (natToStr v ++ R) = durLoop (.num v) cur' R := by
  rw [natToStr_eq]; exact durLoop_digits hp v hv R

/-- a character that can be part of a unit name -/
def letterOk (c : Char) : Bool := (digitVal c).isNone && !isWs c && isLetter c

theorem letterOk_iff {c : Char} (h : letterOk c = true) :
    digitVal c = none ∧ isWs c = false ∧ isLetter c = true := by
  unfold letterOk at h
  simp only [Bool.and_eq_true, Option.isNone_iff_eq_none, Bool.not_eq_true'] at h
  exact ⟨h.1.1, h.1.2, h.2⟩

theorem durLoop_letters : ∀ (cs : Str), cs.all letterOk = true → ∀ n u cur R,
    durLoop (.unit n u) cur (cs ++ R) = durLoop (.unit n (u ++ cs)) cur R := by
  intro cs
  induction cs with
  | nil => intro _ n u cur R; simp
  | cons c cs ih =>
    intro h n u cur R
    simp only [List.all_cons, Bool.and_eq_true] at h
    obtain ⟨h1, h2, h3⟩ := letterOk_iff h.1
    simp only [List.cons_append, durLoop, h1, h2, h3, Bool.false_eq_true, ↓reduceIte]
    rw [ih h.2]
    simp

/-- well-formed unit name with its scale -/
def ValidName (nm : Str) (k : Nat) (b : Bool) : Prop :=
  nm ≠ [] ∧ nm.all letterOk = true ∧ unitScale nm = some (k, b) ∧ 0 < k

instance (nm : Str) (k : Nat) (b : Bool) : Decidable (ValidName nm k b) := by
  unfold ValidName; infer_instance

/-- one item `<numeral><unit>`: the unit stays pending until the next digit / end of input -/
theorem durLoop_item {p : DPhase} {cur cur' : Nat × Nat} (hp : Starts p cur cur')
    {nm : Str} {k : Nat} {b : Bool} (hnm : ValidName nm k b) (v : Nat) (hv : v < 2 ^ 64) (R : Str) :
    durLoop p cur ((natToStr v ++ nm) ++ R) = durLoop (.unit v nm) cur' R := by
  obtain ⟨hne, hall, _, _⟩ := hnm
  rw [List.append_assoc, durLoop_natToStr hp v hv]
  cases nm with
  | nil => exact absurd rfl hne
  | cons c cs =>
    simp only [List.all_cons, Bool.and_eq_true] at hall
    obtain ⟨h1, h2, h3⟩ := letterOk_iff hall.1
    simp only [List.cons_append, durLoop, h1, h2, h3, Bool.false_eq_true, ↓reduceIte]
    rw [durLoop_letters cs hall.2]
    simp

/-! ### arithmetic of `addUnit` when nothing overflows -/

def secOf (n k : Nat) (b : Bool) : Nat := if b then n * k else 0
def nsOf (n k : Nat) (b : Bool) : Nat := if b then 0 else n * k

theorem addUnit_ok {cur : Nat × Nat} {n : Nat} {u : Str} {k : Nat} {b : Bool}
    (hu : unitScale u = some (k, b))
    (hs : cur.1 + secOf n k b < 2 ^ 64) (hn : cur.2 + nsOf n k b ≤ 1000000000) :
    addUnit cur n u = some (cur.1 + secOf n k b, cur.2 + nsOf n k b) := by
  cases b with
  | true =>
    simp only [secOf, nsOf, if_true] at hs hn ⊢
    have h1 : ckMul n k = some (n * k) := by
      unfold ckMul U64MAX; rw [if_pos (by omega)]
    have h2 : ckAdd cur.2 0 = some cur.2 := by
      unfold ckAdd U64MAX; rw [if_pos (by omega)]; rfl
    have h3 : ¬ cur.2 > 1000000000 := by omega
    have h4 : ckAdd cur.1 (n * k) = some (cur.1 + n * k) := by
      unfold ckAdd U64MAX; rw [if_pos (by omega)]
    simp only [addUnit, hu, h1, if_true, h2, h3, if_false, h4, Nat.add_zero]
  | false =>
    simp only [secOf, nsOf, Bool.false_eq_true, if_false] at hs hn ⊢
    have h1 : ckMul n k = some (n * k) := by
      unfold ckMul U64MAX; rw [if_pos (by omega)]
    have h2 : ckAdd cur.2 (n * k) = some (cur.2 + n * k) := by
      unfold ckAdd U64MAX; rw [if_pos (by omega)]
    have h3 : ¬ cur.2 + n * k > 1000000000 := by omega
    have h4 : ckAdd cur.1 0 = some cur.1 := by
      unfold ckAdd U64MAX; rw [if_pos (by omega)]; rfl
    simp only [addUnit, hu, h1, Bool.false_eq_true, if_false, h2, h3, h4, Nat.add_zero]

theorem le_secOf_or_nsOf (v k : Nat) (b : Bool) (hk : 0 < k) :
    v ≤ secOf v k b ∨ v ≤ nsOf v k b := by
  have := Nat.le_mul_of_pos_right v hk
  cases b <;> simp only [secOf, nsOf, if_true, Bool.false_eq_true, if_false] <;> omega

/-! ### lists of items -/

structure DurItem where
  v : Nat
  nm : Str
  k : Nat
  b : Bool

def DurItem.Valid (it : DurItem) : Prop := ValidName it.nm it.k it.b

def secSum : List DurItem → Nat
  | [] => 0
  | it :: its => secOf it.v it.k it.b + secSum its

def nsSum : List DurItem → Nat
  | [] => 0
  | it :: its => nsOf it.v it.k it.b + nsSum its

/-- humantime prints an item only if its value is non-zero -/
def renderItems : List DurItem → List Str
  | [] => []
  | it :: its => (if it.v = 0 then [] else [natToStr it.v ++ it.nm]) ++ renderItems its

theorem secOf_zero (k : Nat) (b : Bool) : secOf 0 k b = 0 := by
  cases b <;> simp [secOf]

theorem nsOf_zero (k : Nat) (b : Bool) : nsOf 0 k b = 0 := by
  cases b <;> simp [nsOf]

/-- with a unit pending, the remaining items are all added and the total is returned -/
theorem durLoop_pending : ∀ (its : List DurItem), (∀ it ∈ its, it.Valid) →
    ∀ (n : Nat) (u : Str) (k : Nat) (b : Bool) (cur : Nat × Nat),
    unitScale u = some (k, b) →
    cur.1 + secOf n k b + secSum its < 2 ^ 64 →
    cur.2 + nsOf n k b + nsSum its ≤ 1000000000 →
    durLoop (.unit n u) cur (renderItems its).flatten =
      durationNew (cur.1 + secOf n k b + secSum its) (cur.2 + nsOf n k b + nsSum its) := by
  intro its
  induction its with
  | nil =>
    intro _ n u k b cur hu hs hn
    simp only [secSum, nsSum, Nat.add_zero] at hs hn ⊢
    simp only [renderItems, List.flatten_nil, durLoop, addUnit_ok hu hs hn]
  | cons it its ih =>
    intro hv n u k b cur hu hs hn
    have hit : it.Valid := hv it (by simp)
    have hv' : ∀ it' ∈ its, it'.Valid := fun it' h => hv it' (by simp [h])
    simp only [secSum, nsSum] at hs hn ⊢
    by_cases h0 : it.v = 0
    · simp only [renderItems, h0, if_true, List.nil_append, secOf_zero, nsOf_zero,
        Nat.zero_add] at hs hn ⊢
      exact ih hv' n u k b cur hu hs hn
    · have hle := le_secOf_or_nsOf it.v it.k it.b hit.2.2.2
      have hadd := addUnit_ok (cur := cur) (n := n) hu (by omega) (by omega)
      simp only [renderItems, h0, if_false, List.singleton_append, List.flatten_cons]
      rw [durLoop_item (starts_unit hadd) hit it.v (by omega)]
      rw [ih hv' it.v it.nm it.k it.b _ hit.2.2.1 (by simp only []; omega) (by simp only []; omega)]
      simp only [Nat.add_assoc]

/-- from the initial state, provided at least one item is printed -/
theorem durLoop_items : ∀ (its : List DurItem), (∀ it ∈ its, it.Valid) →
    (∃ it ∈ its, it.v ≠ 0) →
    secSum its < 2 ^ 64 → nsSum its ≤ 1000000000 →
    durLoop .first (0, 0) (renderItems its).flatten = durationNew (secSum its) (nsSum its) := by
  intro its
  induction its with
  | nil => intro _ ⟨it, h, _⟩; simp at h
  | cons it its ih =>
    intro hv hex hs hn
    have hit : it.Valid := hv it (by simp)
    have hv' : ∀ it' ∈ its, it'.Valid := fun it' h => hv it' (by simp [h])
    simp only [secSum, nsSum] at hs hn ⊢
    by_cases h0 : it.v = 0
    · simp only [renderItems, h0, if_true, List.nil_append, secOf_zero, nsOf_zero,
        Nat.zero_add] at hs hn ⊢
      refine ih hv' ?_ hs hn
      obtain ⟨it', hm, hne⟩ := hex
      simp only [List.mem_cons] at hm
      rcases hm with rfl | hm
      · exact absurd h0 hne
      · exact ⟨it', hm, hne⟩
    · have hle := le_secOf_or_nsOf it.v it.k it.b hit.2.2.2
      simp only [renderItems, h0, if_false, List.singleton_append, List.flatten_cons]
      rw [durLoop_item (starts_first (0, 0)) hit it.v (by omega)]
      rw [durLoop_pending its hv' it.v it.nm it.k it.b (0, 0) hit.2.2.1
        (by simp only [Nat.zero_add]; omega) (by simp only [Nat.zero_add]; omega)]
      simp only [Nat.zero_add]

theorem renderItems_noWs : ∀ (its : List DurItem), (∀ it ∈ its, it.Valid) →
    ∀ c ∈ (renderItems its).flatten, isWs c = false := by
  intro its
  induction its with
  | nil => intro _ c hc; simp [renderItems] at hc
  | cons it its ih =>
    intro hv c hc
    have hit : it.Valid := hv it (by simp)
    have hv' : ∀ it' ∈ its, it'.Valid := fun it' h => hv it' (by simp [h])
    simp only [renderItems, List.flatten_append, List.mem_append] at hc
    rcases hc with hc | hc
    · by_cases h0 : it.v = 0
      · simp [h0] at hc
      · simp only [h0, if_false, List.flatten_cons, List.flatten_nil, List.append_nil,
          List.mem_append] at hc
        rcases hc with hc | hc
        · exact natToStr_noWs _ c hc
        · have := List.all_eq_true.mp hit.2.1 c hc
          exact (letterOk_iff this).2.1
    · exact ih hv' c hc

theorem renderItems_ne_nil : ∀ (its : List DurItem), (∃ it ∈ its, it.v ≠ 0) →
    (renderItems its).flatten ≠ [] := by
  intro its
  induction its with
  | nil => intro ⟨it, h, _⟩; simp at h
  | cons it its ih =>
    intro hex
    by_cases h0 : it.v = 0
    · simp only [renderItems, h0, if_true, List.nil_append]
      apply ih
      obtain ⟨it', hm, hne⟩ := hex
      simp only [List.mem_cons] at hm
      rcases hm with rfl | hm
      · exact absurd h0 hne
      · exact ⟨it', hm, hne⟩
    · have := natToStr_ne_nil it.v
      simp only [renderItems, h0, if_false, List.singleton_append, List.flatten_cons]
      intro h
      simp only [List.append_eq_nil_iff] at h
      exact this h.1.1

/-! ### the items of `format_duration` -/

/-- plural suffix as written by humantime's `item_plural` -/
def pl (nm : Str) (v : Nat) : Str := nm ++ (if v > 1 then ['s'] else [])

def allItems (d : Dur) : List DurItem :=
  [ ⟨d.secs / 31557600, pl (kw "year") (d.secs / 31557600), 31557600, true⟩,
    ⟨d.secs % 31557600 / 2630016, pl (kw "month") (d.secs % 31557600 / 2630016), 2630016, true⟩,
    ⟨d.secs % 31557600 % 2630016 / 86400, pl (kw "day") (d.secs % 31557600 % 2630016 / 86400),
      86400, true⟩,
    ⟨d.secs % 31557600 % 2630016 % 86400 / 3600, kw "h", 3600, true⟩,
    ⟨d.secs % 31557600 % 2630016 % 86400 % 3600 / 60, kw "m", 60, true⟩,
    ⟨d.secs % 31557600 % 2630016 % 86400 % 60, kw "s", 1, true⟩,
    ⟨d.nanos / 1000000, kw "ms", 1000000, false⟩,
    ⟨d.nanos / 1000 % 1000, kw "us", 1000, false⟩,
    ⟨d.nanos % 1000, kw "ns", 1, false⟩ ]

theorem durationItems_eq (d : Dur) : durationItems d = renderItems (allItems d) := by
  simp only [durationItems, allItems, renderItems, fmtItem, fmtItemPlural, pl,
    List.append_assoc, List.append_nil]

/-- the plural subtlety: `fmtItemPlural` writes `year`/`years`, `month`/`months`, `day`/`days`,
    and `parse_unit` accepts both forms with the same scale -/
theorem validName_pl_year (v : Nat) : ValidName (pl (kw "year") v) 31557600 true := by
  unfold pl; split <;> decide

theorem validName_pl_month (v : Nat) : ValidName (pl (kw "month") v) 2630016 true := by
  unfold pl; split <;> decide

theorem validName_pl_day (v : Nat) : ValidName (pl (kw "day") v) 86400 true := by
  unfold pl; split <;> decide

theorem allItems_valid (d : Dur) : ∀ it ∈ allItems d, it.Valid := by
  intro it hit
  simp only [allItems, List.mem_cons, List.not_mem_nil, or_false] at hit
  rcases hit with rfl | rfl | rfl | rfl | rfl | rfl | rfl | rfl | rfl
  · exact validName_pl_year _
  · exact validName_pl_month _
  · exact validName_pl_day _
  · exact (by decide : ValidName (kw "h") 3600 true)
  · exact (by decide : ValidName (kw "m") 60 true)
  · exact (by decide : ValidName (kw "s") 1 true)
  · exact (by decide : ValidName (kw "ms") 1000000 false)
  · exact (by decide : ValidName (kw "us") 1000 false)
  · exact (by decide : ValidName (kw "ns") 1 false)

theorem secSum_allItems (d : Dur) : secSum (allItems d) = d.secs := by
  simp only [allItems, secSum, secOf, if_true, Bool.false_eq_true, if_false]
  omega

theorem nsSum_allItems (d : Dur) : nsSum (allItems d) = d.nanos := by
  simp only [allItems, nsSum, nsOf, if_true, Bool.false_eq_true, if_false]
  omega

theorem allItems_nonzero (d : Dur) (h : ¬ (d.secs = 0 ∧ d.nanos = 0)) :
    ∃ it ∈ allItems d, it.v ≠ 0 := by
  false_or_by_contra
  rename_i hno
  have hall : ∀ it ∈ allItems d, it.v = 0 := by
    intro it hit
    false_or_by_contra
    rename_i hne
    exact hno ⟨it, hit, hne⟩
  simp only [allItems, List.forall_mem_cons, List.not_mem_nil, false_imp_iff, implies_true,
    and_true] at hall
  omega

/-! ### main results -/

/-- every `Duration` written by sqllogictest-rs is read back unchanged -/
theorem parse_formatDurationCompact (d : Dur) (hs : d.secs < 2 ^ 64) (hn : d.nanos < 1000000000) :
    parseDuration (formatDurationCompact d) = .ok d := by
  unfold formatDurationCompact parseDuration
  split
  · rename_i h
    obtain ⟨secs, nanos⟩ := d
    simp only at h
    obtain ⟨rfl, rfl⟩ := h
    decide
  · rename_i h
    rw [durationItems_eq, durLoop_items (allItems d) (allItems_valid d) (allItems_nonzero d h)
      (by rw [secSum_allItems]; exact hs) (by rw [nsSum_allItems]; omega)]
    rw [secSum_allItems, nsSum_allItems]
    obtain ⟨secs, nanos⟩ := d
    simp only at hs hn
    unfold durationNew U64MAX
    have h1 : nanos / 1000000000 = 0 := by omega
    have h2 : nanos % 1000000000 = nanos := by omega
    simp only [h1, h2, Nat.add_zero, hs, if_true]

/-- the compact text is a single header token: non-empty, no whitespace -/
theorem formatDurationCompact_token (d : Dur) :
    formatDurationCompact d ≠ [] ∧ ∀ c ∈ formatDurationCompact d, isWs c = false := by
  unfold formatDurationCompact
  split
  · decide
  · rename_i h
    rw [durationItems_eq]
    exact ⟨renderItems_ne_nil _ (allItems_nonzero d h), renderItems_noWs _ (allItems_valid d)⟩

/-- both spellings written by `fmtItemPlural` are in the unit table, with the same scale -/
theorem unitScale_plural :
    unitScale (kw "year") = some (31557600, true) ∧ unitScale (kw "years") = some (31557600, true) ∧
    unitScale (kw "month") = some (2630016, true) ∧ unitScale (kw "months") = some (2630016, true) ∧
    unitScale (kw "day") = some (86400, true) ∧ unitScale (kw "days") = some (86400, true) ∧
    unitScale (kw "h") = some (3600, true) ∧ unitScale (kw "m") = some (60, true) ∧
    unitScale (kw "s") = some (1, true) ∧ unitScale (kw "ms") = some (1000000, false) ∧
    unitScale (kw "us") = some (1000, false) ∧ unitScale (kw "ns") = some (1, false) := by
  decide

/-- every string produced by `fmtItemPlural name v` for `name ∈ {year, month, day}` is the numeral
    of `v` followed by a unit name known to `unitScale` (singular for 1, plural otherwise) -/
theorem fmtItemPlural_unit (v : Nat) :
    (∀ t ∈ fmtItemPlural (kw "year") v, ∃ u, t = natToStr v ++ u ∧
      (u = kw "year" ∨ u = kw "years") ∧ unitScale u = some (31557600, true)) ∧
    (∀ t ∈ fmtItemPlural (kw "month") v, ∃ u, t = natToStr v ++ u ∧
      (u = kw "month" ∨ u = kw "months") ∧ unitScale u = some (2630016, true)) ∧
    (∀ t ∈ fmtItemPlural (kw "day") v, ∃ u, t = natToStr v ++ u ∧
      (u = kw "day" ∨ u = kw "days") ∧ unitScale u = some (86400, true)) := by
  refine ⟨?_, ?_, ?_⟩ <;>
  · intro t ht
    unfold fmtItemPlural at ht
    split at ht
    · simp at ht
    · simp only [List.mem_singleton] at ht
      subst ht
      split
      · exact ⟨_, List.append_assoc _ _ _, Or.inr (by decide), by decide⟩
      · exact ⟨_, List.append_assoc _ _ _, Or.inl (by decide), by decide⟩

end Slt
