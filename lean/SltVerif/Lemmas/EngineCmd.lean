/-
Lemmas for C20b (`SltVerif/EngineCmd.lean`): the five sequential `str::replace` calls of the external
engine's command template are the simultaneous substitution.

* `replaceAll` does not depend on the fuel once it covers the text (`replaceAll_fuel`); `RA` is the
  fuel-free form.
* `RA_flatten`: on a text cut into chunks, each of which is either the pattern itself or "inert"
  (no `{` at all, or a `{` only as its first byte and prefix-incomparable with the pattern), `RA`
  replaces exactly the pattern chunks.
* `stage_step_*`: the k-th `replace` turns stage k into stage k+1, where stage k of a segment list shows
  placeholders k.. and has the values for placeholders ..k-1.
-/
import SltVerif.EngineCmd
import SltVerif.Lemmas.SubstMisc
namespace Slt

/-! ### the pattern constants are the texts of the code -/

theorem patDb_eq : patDb = bytesOfString "{db}" := by decide +kernel
theorem patHost_eq : patHost = bytesOfString "{host}" := by decide +kernel
theorem patPort_eq : patPort = bytesOfString "{port}" := by decide +kernel
theorem patUser_eq : patUser = bytesOfString "{user}" := by decide +kernel
theorem patPass_eq : patPass = bytesOfString "{pass}" := by decide +kernel

/-! ### `replaceAll` without fuel -/

theorem replaceAll_nil (pat rep : Bytes) (fuel : Nat) : replaceAll pat rep fuel [] = [] := by
  cases fuel <;> rfl

/-- any fuel ≥ the length of the text gives the same result -/
theorem replaceAll_fuel_eq (pat rep : Bytes) :
    ∀ (f₁ f₂ : Nat) (s : Bytes), s.length ≤ f₁ → s.length ≤ f₂ →
      replaceAll pat rep f₁ s = replaceAll pat rep f₂ s := by
  intro f₁
  induction f₁ with
  | zero =>
    intro f₂ s h₁ _
    have : s = [] := List.eq_nil_of_length_eq_zero (Nat.le_zero.mp h₁)
    subst this
    simp [replaceAll_nil]
  | succ f₁ ih =>
    intro f₂ s h₁ h₂
    cases s with
    | nil => simp [replaceAll_nil]
    | cons c cs =>
      cases f₂ with
      | zero => simp at h₂
      | succ f₂ =>
        simp only [List.length_cons, Nat.add_le_add_iff_right] at h₁ h₂
        rw [replaceAll, replaceAll]
        by_cases he : pat.isEmpty = true
        · simp [he]
        · have hpos : 0 < pat.length := by
            cases pat with
            | nil => simp at he
            | cons _ _ => simp
          have hd : ((c :: cs).drop pat.length).length ≤ cs.length := by
            simp only [List.length_drop, List.length_cons]; omega
          rw [ih f₂ _ (Nat.le_trans hd h₁) (Nat.le_trans hd h₂), ih f₂ cs h₁ h₂]

/-- `str::replace` without the fuel argument -/
def RA (pat rep s : Bytes) : Bytes := replaceAll pat rep s.length s

theorem replaceAll_fuel (pat rep : Bytes) (fuel : Nat) (s : Bytes) (h : s.length ≤ fuel) :
    replaceAll pat rep fuel s = RA pat rep s :=
  replaceAll_fuel_eq pat rep fuel s.length s h (Nat.le_refl _)

theorem replaceAll_succ_length (pat rep s : Bytes) :
    replaceAll pat rep (s.length + 1) s = RA pat rep s :=
  replaceAll_fuel pat rep _ s (Nat.le_succ _)

theorem RA_nil (pat rep : Bytes) : RA pat rep [] = [] := rfl

theorem RA_cons_prefix (pat rep : Bytes) (c : UInt8) (cs : Bytes) (hne : pat ≠ [])
    (hp : pat <+: c :: cs) : RA pat rep (c :: cs) = rep ++ RA pat rep ((c :: cs).drop pat.length) := by
  have he : pat.isEmpty = false := by cases pat <;> simp at hne ⊢
  have hpos : 0 < pat.length := List.length_pos_iff.mpr hne
  have hd : ((c :: cs).drop pat.length).length ≤ cs.length := by
    simp only [List.length_drop, List.length_cons]; omega
  show replaceAll pat rep (cs.length + 1) (c :: cs) = _
  rw [replaceAll]
  simp only [he, Bool.false_eq_true, ↓reduceIte, List.isPrefixOf_iff_prefix.mpr hp]
  rw [replaceAll_fuel _ _ _ _ hd]

theorem RA_cons_noPrefix (pat rep : Bytes) (c : UInt8) (cs : Bytes) (hp : ¬ pat <+: c :: cs) :
    RA pat rep (c :: cs) = c :: RA pat rep cs := by
  have hnp : pat.isPrefixOf (c :: cs) = false := by
    cases h : pat.isPrefixOf (c :: cs) with
    | false => rfl
    | true => exact absurd (List.isPrefixOf_iff_prefix.mp h) hp
  have hne : pat.isEmpty = false := by
    cases pat with
    | nil => exact absurd (List.nil_prefix) hp
    | cons _ _ => rfl
  show replaceAll pat rep (cs.length + 1) (c :: cs) = _
  rw [replaceAll]
  simp only [hne, Bool.false_eq_true, ↓reduceIte, hnp]
  rfl

/-- the pattern at the front is replaced, and the scan goes on behind it -/
theorem RA_pat_append (pat rep t : Bytes) (hne : pat ≠ []) :
    RA pat rep (pat ++ t) = rep ++ RA pat rep t := by
  cases hp : pat with
  | nil => exact absurd hp hne
  | cons c p =>
    have h := RA_cons_prefix (c :: p) rep c (p ++ t) (by simp) (by simp)
    rw [List.cons_append, h]
    congr 2
    have : (c :: (p ++ t)) = (c :: p) ++ t := rfl
    rw [this, List.drop_left]

/-- a chunk without the first byte of the pattern is copied -/
theorem RA_noHead_append (lb : UInt8) (body rep : Bytes) :
    ∀ (x t : Bytes), lb ∉ x → RA (lb :: body) rep (x ++ t) = x ++ RA (lb :: body) rep t := by
  intro x
  induction x with
  | nil => intro t _; rfl
  | cons c x ih =>
    intro t h
    have hc : c ≠ lb := fun e => h (by simp [e])
    have hx : lb ∉ x := fun e => h (by simp [e])
    have hnp : ¬ (lb :: body) <+: c :: (x ++ t) := by
      intro hp
      have := List.cons_prefix_cons.mp hp
      exact hc this.1.symm
    rw [List.cons_append, RA_cons_noPrefix _ _ _ _ hnp, ih t hx]
    rfl

theorem RA_noHead (lb : UInt8) (body rep x : Bytes) (h : lb ∉ x) : RA (lb :: body) rep x = x := by
  have := RA_noHead_append lb body rep x [] h
  simpa [RA_nil] using this

/-- two prefixes of the same list are comparable -/
theorem prefix_append_comparable {pat x t : Bytes} (h : pat <+: x ++ t) : pat <+: x ∨ x <+: pat := by
  by_cases hl : pat.length ≤ x.length
  · exact Or.inl (List.prefix_of_prefix_length_le h (List.prefix_append x t) hl)
  · exact Or.inr (List.prefix_of_prefix_length_le (List.prefix_append x t) h (by omega))

/-- a chunk is inert for the pattern: it has no byte `lb`, or `lb` only as its first byte and it is
    prefix-incomparable with the pattern -/
def Inert (lb : UInt8) (pat x : Bytes) : Prop :=
  lb ∉ x ∨ ∃ y, x = lb :: y ∧ lb ∉ y ∧ ¬ pat <+: x ∧ ¬ x <+: pat

/-- an inert chunk is copied -/
theorem RA_inert_append (lb : UInt8) (body rep x t : Bytes) (h : Inert lb (lb :: body) x) :
    RA (lb :: body) rep (x ++ t) = x ++ RA (lb :: body) rep t := by
  rcases h with h | ⟨y, rfl, hy, h₁, h₂⟩
  · exact RA_noHead_append lb body rep x t h
  · have hnp : ¬ (lb :: body) <+: lb :: (y ++ t) := by
      intro hp
      rcases prefix_append_comparable (x := lb :: y) (t := t) hp with h | h
      · exact h₁ h
      · exact h₂ h
    rw [List.cons_append, RA_cons_noPrefix _ _ _ _ hnp, RA_noHead_append lb body rep y t hy]
    rfl

/-- chunk by chunk: pattern chunks are replaced, inert chunks are copied -/
theorem RA_flatten {α : Type} (lb : UInt8) (body rep : Bytes) (f g : α → Bytes) :
    ∀ l : List α,
      (∀ a ∈ l, (f a = lb :: body ∧ g a = rep) ∨ (g a = f a ∧ Inert lb (lb :: body) (f a))) →
      RA (lb :: body) rep (l.map f).flatten = (l.map g).flatten := by
  intro l
  induction l with
  | nil => intro _; rfl
  | cons a l ih =>
    intro h
    have ih' := ih (fun b hb => h b (by simp [hb]))
    simp only [List.map_cons, List.flatten_cons]
    rcases h a (by simp) with ⟨hf, hg⟩ | ⟨hg, hi⟩
    · rw [hf, hg, RA_pat_append _ _ _ (by simp), ih']
    · rw [hg, RA_inert_append lb body rep _ _ hi, ih']

/-! ### the stages of the expansion -/

/-- after the first `k` replacements: placeholders number `< k` have their values, the others are shown -/
def Seg.stage (v : EngineVals) (k : Nat) : Seg → Bytes
  | .lit b => b
  | .db => if 0 < k then v.db else patDb
  | .host => if 1 < k then v.host else patHost
  | .port => if 2 < k then v.port else patPort
  | .user => if 3 < k then v.user else patUser
  | .pass => if 4 < k then v.pass else patPass

def stageSegs (v : EngineVals) (k : Nat) (l : List Seg) : Bytes := (l.map (Seg.stage v k)).flatten

theorem stageSegs_zero (v : EngineVals) (l : List Seg) : stageSegs v 0 l = showSegs l := by
  have e : Seg.stage v 0 = Seg.show := by funext s; cases s <;> rfl
  rw [stageSegs, showSegs, e]

theorem stageSegs_five (v : EngineVals) (l : List Seg) : stageSegs v 5 l = evalSegs v l := by
  have e : Seg.stage v 5 = Seg.value v := by funext s; cases s <;> rfl
  rw [stageSegs, evalSegs, e]

/-- the literals of a segment list have no `{` -/
def LitsNoBrace (l : List Seg) : Prop := ∀ b, Seg.lit b ∈ l → bLBrace ∉ b

theorem inert_of_noBrace {pat x : Bytes} (h : bLBrace ∉ x) : Inert bLBrace pat x := Or.inl h

/-- a later placeholder is inert for an earlier pattern: it starts with the only `{` it has and neither is a
    prefix of the other -/
theorem inert_db_host : Inert bLBrace patDb patHost :=
  Or.inr ⟨_, rfl, by decide, by decide, by decide⟩
theorem inert_db_port : Inert bLBrace patDb patPort :=
  Or.inr ⟨_, rfl, by decide, by decide, by decide⟩
theorem inert_db_user : Inert bLBrace patDb patUser :=
  Or.inr ⟨_, rfl, by decide, by decide, by decide⟩
theorem inert_db_pass : Inert bLBrace patDb patPass :=
  Or.inr ⟨_, rfl, by decide, by decide, by decide⟩
theorem inert_host_port : Inert bLBrace patHost patPort :=
  Or.inr ⟨_, rfl, by decide, by decide, by decide⟩
theorem inert_host_user : Inert bLBrace patHost patUser :=
  Or.inr ⟨_, rfl, by decide, by decide, by decide⟩
theorem inert_host_pass : Inert bLBrace patHost patPass :=
  Or.inr ⟨_, rfl, by decide, by decide, by decide⟩
theorem inert_port_user : Inert bLBrace patPort patUser :=
  Or.inr ⟨_, rfl, by decide, by decide, by decide⟩
theorem inert_port_pass : Inert bLBrace patPort patPass :=
  Or.inr ⟨_, rfl, by decide, by decide, by decide⟩
theorem inert_user_pass : Inert bLBrace patUser patPass :=
  Or.inr ⟨_, rfl, by decide, by decide, by decide⟩

theorem stage_step_db (v : EngineVals) (l : List Seg) (hl : LitsNoBrace l) :
    RA patDb v.db (stageSegs v 0 l) = stageSegs v 1 l := by
  apply RA_flatten bLBrace [100, 98, bRBrace]
  intro s hs
  cases s with
  | lit b => exact Or.inr ⟨rfl, inert_of_noBrace (hl b hs)⟩
  | db => exact Or.inl ⟨rfl, rfl⟩
  | host => exact Or.inr ⟨rfl, inert_db_host⟩
  | port => exact Or.inr ⟨rfl, inert_db_port⟩
  | user => exact Or.inr ⟨rfl, inert_db_user⟩
  | pass => exact Or.inr ⟨rfl, inert_db_pass⟩

theorem stage_step_host (v : EngineVals) (l : List Seg) (hl : LitsNoBrace l) (hv : v.NoBrace) :
    RA patHost v.host (stageSegs v 1 l) = stageSegs v 2 l := by
  apply RA_flatten bLBrace [104, 111, 115, 116, bRBrace]
  intro s hs
  cases s with
  | lit b => exact Or.inr ⟨rfl, inert_of_noBrace (hl b hs)⟩
  | db => exact Or.inr ⟨rfl, inert_of_noBrace hv.1⟩
  | host => exact Or.inl ⟨rfl, rfl⟩
  | port => exact Or.inr ⟨rfl, inert_host_port⟩
  | user => exact Or.inr ⟨rfl, inert_host_user⟩
  | pass => exact Or.inr ⟨rfl, inert_host_pass⟩

theorem stage_step_port (v : EngineVals) (l : List Seg) (hl : LitsNoBrace l) (hv : v.NoBrace) :
    RA patPort v.port (stageSegs v 2 l) = stageSegs v 3 l := by
  apply RA_flatten bLBrace [112, 111, 114, 116, bRBrace]
  intro s hs
  cases s with
  | lit b => exact Or.inr ⟨rfl, inert_of_noBrace (hl b hs)⟩
  | db => exact Or.inr ⟨rfl, inert_of_noBrace hv.1⟩
  | host => exact Or.inr ⟨rfl, inert_of_noBrace hv.2.1⟩
  | port => exact Or.inl ⟨rfl, rfl⟩
  | user => exact Or.inr ⟨rfl, inert_port_user⟩
  | pass => exact Or.inr ⟨rfl, inert_port_pass⟩

theorem stage_step_user (v : EngineVals) (l : List Seg) (hl : LitsNoBrace l) (hv : v.NoBrace) :
    RA patUser v.user (stageSegs v 3 l) = stageSegs v 4 l := by
  apply RA_flatten bLBrace [117, 115, 101, 114, bRBrace]
  intro s hs
  cases s with
  | lit b => exact Or.inr ⟨rfl, inert_of_noBrace (hl b hs)⟩
  | db => exact Or.inr ⟨rfl, inert_of_noBrace hv.1⟩
  | host => exact Or.inr ⟨rfl, inert_of_noBrace hv.2.1⟩
  | port => exact Or.inr ⟨rfl, inert_of_noBrace hv.2.2.1⟩
  | user => exact Or.inl ⟨rfl, rfl⟩
  | pass => exact Or.inr ⟨rfl, inert_user_pass⟩

theorem stage_step_pass (v : EngineVals) (l : List Seg) (hl : LitsNoBrace l) (hv : v.NoBrace) :
    RA patPass v.pass (stageSegs v 4 l) = stageSegs v 5 l := by
  apply RA_flatten bLBrace [112, 97, 115, 115, bRBrace]
  intro s hs
  cases s with
  | lit b => exact Or.inr ⟨rfl, inert_of_noBrace (hl b hs)⟩
  | db => exact Or.inr ⟨rfl, inert_of_noBrace hv.1⟩
  | host => exact Or.inr ⟨rfl, inert_of_noBrace hv.2.1⟩
  | port => exact Or.inr ⟨rfl, inert_of_noBrace hv.2.2.1⟩
  | user => exact Or.inr ⟨rfl, inert_of_noBrace hv.2.2.2.1⟩
  | pass => exact Or.inl ⟨rfl, rfl⟩

/-! ### the five calls -/

/-- `expandCmd` as five nested fuel-free replacements -/
theorem expandCmd_eq (v : EngineVals) (t : Bytes) :
    expandCmd v t =
      RA patPass v.pass (RA patUser v.user (RA patPort v.port (RA patHost v.host (RA patDb v.db t)))) := by
  simp only [expandCmd, placeholders, List.foldl_cons, List.foldl_nil, replaceAll_succ_length]

/-- the sequential replacement is the simultaneous substitution -/
theorem expandCmd_showSegs (v : EngineVals) (l : List Seg) (hl : LitsNoBrace l) (hv : v.NoBrace) :
    expandCmd v (showSegs l) = evalSegs v l := by
  rw [expandCmd_eq, ← stageSegs_zero v, stage_step_db v l hl, stage_step_host v l hl hv,
    stage_step_port v l hl hv, stage_step_user v l hl hv, stage_step_pass v l hl hv, stageSegs_five]

/-- nothing happens to a text without `{` -/
theorem expandCmd_noBrace (v : EngineVals) (t : Bytes) (h : bLBrace ∉ t) : expandCmd v t = t := by
  rw [expandCmd_eq]
  have e : ∀ (body rep : Bytes), RA (bLBrace :: body) rep t = t := fun body rep => RA_noHead _ _ _ _ h
  rw [show patDb = bLBrace :: [100, 98, bRBrace] from rfl, e,
    show patHost = bLBrace :: [104, 111, 115, 116, bRBrace] from rfl, e,
    show patPort = bLBrace :: [112, 111, 114, 116, bRBrace] from rfl, e,
    show patUser = bLBrace :: [117, 115, 101, 114, bRBrace] from rfl, e,
    show patPass = bLBrace :: [112, 97, 115, 115, bRBrace] from rfl, e]

/-- one `{db}` between two brace-free texts -/
theorem expandCmd_dbOnly (v : EngineVals) (pre post : Bytes) (hpre : bLBrace ∉ pre)
    (hpost : bLBrace ∉ post) (hv : v.NoBrace) :
    expandCmd v (pre ++ patDb ++ post) = pre ++ v.db ++ post := by
  have hl : LitsNoBrace [.lit pre, .db, .lit post] := by
    intro b hb
    simp only [List.mem_cons, Seg.lit.injEq, reduceCtorEq, List.not_mem_nil, or_false, false_or] at hb
    rcases hb with rfl | rfl <;> assumption
  have := expandCmd_showSegs v [.lit pre, .db, .lit post] hl hv
  simpa [showSegs, evalSegs, Seg.show, Seg.value] using this

end Slt
