/-
C20: `decode` (= `JsonDecoder::decode`) on padded canonical replies: a complete reply at the front of
the buffer is a frame, every proper prefix needs more input.  Also the request encoding.
-/
import SltVerif.Lemmas.ExternScan
namespace Slt

/-- the JSON value of a canonical reply -/
def replyVal : Reply → JVal
  | .rows rs => .obj [(bytesOfString "result", rowsVal rs)]
  | .err m => .obj [(bytesOfString "err", .str m)]

theorem asStrings_map_str (row : List Bytes) : asStrings (row.map JVal.str) = some row := by
  induction row with
  | nil => rfl
  | cons s row ih => simp [asStrings, ih]

theorem asRows_map_rowVal (rs : List (List Bytes)) : asRows (rs.map rowVal) = some rs := by
  induction rs with
  | nil => rfl
  | cons r rs ih => simp [asRows, rowVal, asStrings_map_str, ih]

theorem toReply_replyVal (r : Reply) : toReply (replyVal r) = some r := by
  cases r with
  | rows rs =>
    simp [replyVal, toReply, fieldValues, rowsVal, asRows_map_rowVal]
  | err m =>
    have : bytesOfString "err" ≠ bytesOfString "result" := by decide +kernel
    simp [replyVal, toReply, fieldValues, this]

theorem encReply_cons (r : Reply) : ∃ tl, encReply r = 123 :: tl := by
  cases r <;> exact ⟨_, rfl⟩

theorem nonWsHead_encReply (r : Reply) : NonWsHead (encReply r) := by
  obtain ⟨tl, h⟩ := encReply_cons r
  exact ⟨123, tl, h, by decide⟩

theorem encReply_ne_nil (r : Reply) : encReply r ≠ [] := by
  obtain ⟨tl, h⟩ := encReply_cons r
  rw [h]; simp

theorem scanValue_encReply (r : Reply) (f : Nat) (rest : Bytes) (hf : (encReply r).length ≤ f) :
    scanValue f (encReply r ++ rest) = .ok (replyVal r) rest := by
  cases r with
  | rows rs =>
    have hk := jsonString_length (bytesOfString "result")
    simp only [encReply, List.length_cons, List.length_append, List.length_nil] at hf
    simp only [encReply, replyVal, List.cons_append, List.append_assoc, List.nil_append]
    exact scanValue_obj1 elemOK_rows _ rs f rest (by omega)
  | err m =>
    have hk := jsonString_length (bytesOfString "err")
    simp only [encReply, List.length_cons, List.length_append, List.length_nil] at hf
    simp only [encReply, replyVal, List.cons_append, List.append_assoc, List.nil_append]
    exact scanValue_obj1 elemOK_string _ m f rest (by omega)

theorem scanValue_encReply_pre (r : Reply) (f : Nat) (p : Bytes) (hp : ProperPrefix p (encReply r))
    (hf : p.length + 1 ≤ f) : scanValue f p = .incomplete := by
  cases r with
  | rows rs => exact scanValue_obj1_pre elemOK_rows _ rs f p hp (by omega) hf
  | err m => exact scanValue_obj1_pre elemOK_string _ m f p hp (by omega) hf

/-- `decode_reply`: a complete reply (after white space) at the front of the buffer is decoded to exactly
    that reply and the buffer is advanced to just after it -/
theorem decode_frame (pad : Bytes) (hpad : AllWs pad) (r : Reply) (rest : Bytes) :
    decode (pad ++ encReply r ++ rest) = .frame r rest := by
  obtain ⟨tl, htl⟩ := encReply_cons r
  have hscan := scanValue_encReply r ((pad ++ encReply r ++ rest).length + 1) rest
    (by simp only [List.length_append]; omega)
  have hskip : skipWs (pad ++ encReply r ++ rest) = encReply r ++ rest := by
    rw [List.append_assoc, skipWs_allWs_append pad hpad, (nonWsHead_encReply r).skipWs_append]
  unfold decode
  rw [hskip]
  rw [htl] at hscan ⊢
  simp only [List.cons_append] at hscan ⊢
  simp only [hscan]
  simp [toReply_replyVal]

/-- `decode_prefix`: no proper prefix of a padded reply is a frame or an error -/
theorem decode_pre (pad : Bytes) (hpad : AllWs pad) (r : Reply) (p : Bytes)
    (hp : ProperPrefix p (pad ++ encReply r)) : decode p = .needMore := by
  rcases hp.append_cases with h1 | ⟨p', rfl, hp'⟩
  · unfold decode
    rw [skipWs_allWs p (hpad.of_prefix h1.1)]
  · unfold decode
    rw [skipWs_allWs_append pad hpad, (nonWsHead_encReply r).skipWs_prefix hp'.1]
    cases p' with
    | nil => rfl
    | cons b t =>
      simp only []
      rw [scanValue_encReply_pre r _ (b :: t) hp' (by simp only [List.length_append]; omega)]

/-- a buffer of white space only: nothing to decode yet -/
theorem decode_allWs (pad : Bytes) (hpad : AllWs pad) : decode pad = .needMore := by
  unfold decode
  rw [skipWs_allWs pad hpad]

/-! ### the request -/

theorem encodeRequest_eq (sql : Bytes) :
    encodeRequest sql = 123 :: (jsonString (bytesOfString "sql") ++ 58 :: (jsonString sql ++ [125])) := by
  have : bytesOfString "{\"sql\":" = 123 :: (jsonString (bytesOfString "sql") ++ [58]) := by decide +kernel
  unfold encodeRequest
  rw [this]
  simp

theorem scanValue_encodeRequest (sql : Bytes) (f : Nat) (rest : Bytes) (hf : (encodeRequest sql).length ≤ f) :
    scanValue f (encodeRequest sql ++ rest) = .ok (requestVal sql) rest := by
  have hk := jsonString_length (bytesOfString "sql")
  rw [encodeRequest_eq] at hf ⊢
  simp only [List.length_cons, List.length_append, List.length_nil] at hf
  simp only [requestVal, List.cons_append, List.append_assoc, List.nil_append]
  exact scanValue_obj1 elemOK_string _ sql f rest (by omega)

end Slt
