/-
C20: the recursive encoders of `ExternSpec` written with `List.intercalate` (readability of the spec).
-/
import SltVerif.ExternSpec
namespace Slt

theorem encRest_eq {α : Type} (E : α → Bytes) (l : List α) :
    encRest E l = (l.map (fun a => 44 :: E a)).flatten ++ [93] := by
  induction l with
  | nil => rfl
  | cons a l ih => simp [encRest, ih]

theorem intercalate_cons_cons' {β : Type} (sep x y : List β) (l : List (List β)) :
    List.intercalate sep (x :: y :: l) = x ++ sep ++ List.intercalate sep (y :: l) := by
  simp [List.intercalate]

theorem flatten_map_eq_intercalate {α : Type} (E : α → Bytes) (a : α) (l : List α) :
    E a ++ ((l.map (fun a => 44 :: E a)).flatten) = List.intercalate [44] ((a :: l).map E) := by
  induction l generalizing a with
  | nil => simp [List.intercalate]
  | cons b l ih =>
    simp only [List.map_cons, List.flatten_cons] at ih ⊢
    rw [intercalate_cons_cons', ← ih b]
    simp

/-- `[` elements separated by `,` `]` -/
theorem encArr_eq {α : Type} (E : α → Bytes) (l : List α) :
    encArr E l = [91] ++ List.intercalate [44] (l.map E) ++ [93] := by
  cases l with
  | nil => simp [encArr, List.intercalate]
  | cons a l =>
    rw [← flatten_map_eq_intercalate]
    simp [encArr, encRest_eq]

theorem encReply_rows_eq (rs : List (List Bytes)) :
    encReply (.rows rs) = bytesOfString "{\"result\":" ++
      ([91] ++ List.intercalate [44]
        (rs.map fun row => [91] ++ List.intercalate [44] (row.map jsonString) ++ [93]) ++ [93]) ++
      bytesOfString "}" := by
  have h1 : bytesOfString "{\"result\":" = 123 :: (jsonString (bytesOfString "result") ++ [58]) := by
    decide +kernel
  have h2 : bytesOfString "}" = [125] := by decide +kernel
  have h3 : encRow = fun row => [91] ++ List.intercalate [44] (row.map jsonString) ++ [93] := by
    funext row; exact encArr_eq jsonString row
  rw [h1, h2, ← h3, ← encArr_eq]
  simp [encReply, encRows]

theorem encReply_err_eq (m : Bytes) :
    encReply (.err m) = bytesOfString "{\"err\":" ++ jsonString m ++ bytesOfString "}" := by
  have h1 : bytesOfString "{\"err\":" = 123 :: (jsonString (bytesOfString "err") ++ [58]) := by
    decide +kernel
  have h2 : bytesOfString "}" = [125] := by decide +kernel
  rw [h1, h2]
  simp [encReply]

end Slt
