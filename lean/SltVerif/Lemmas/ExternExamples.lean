/-
C20: concrete instances, evaluated by the kernel — multi-byte characters and escapes cut at every position.
-/
import SltVerif.Lemmas.ExternPoll
import SltVerif.Lemmas.ExternLoosePoll
namespace Slt

/-- `é` = C3 A9, `€` = E2 82 AC, `😀` = F0 9F 98 80; the second row needs the escapes `\"`, `\\`, `\n`, `\u0001` -/
def exReply : Reply :=
  .rows [[bytesOfString "é€", bytesOfString "😀"], [bytesOfString "a\"b\\c\n" ++ [1]], []]

def exErr : Reply := .err (bytesOfString "no such table: \"tä\"\n")

example : encReply exReply =
    bytesOfString "{\"result\":[[\"é€\",\"😀\"],[\"a\\\"b\\\\c\\n\\u0001\"],[]]}" := by decide +kernel

example : bytesOfString "é€😀" = [0xC3, 0xA9, 0xE2, 0x82, 0xAC, 0xF0, 0x9F, 0x98, 0x80] := by decide +kernel

/-- the stream cut at EVERY position (in particular inside `é`, `€`, `😀`, `\"`, `\u0001`): same reply -/
example : ∀ n < (encReply exReply).length + 1,
    runCalls 1 {} ⟨[(encReply exReply).take n, (encReply exReply).drop n], false⟩ = [.reply exReply] := by
  decide +kernel

/-- one byte per chunk, with padding and empty chunks -/
example : runCalls 1 {} ⟨[[]] ++ (bytesOfString " \n" ++ encReply exReply ++ bytesOfString "\r\n").map ([·]), false⟩
    = [.reply exReply] := by decide +kernel

/-- two replies and an error reply, cut at every position of the whole stream -/
example : ∀ n < 120,
    let s := encReply exReply ++ bytesOfString "\n" ++ encReply exErr ++ bytesOfString "\n \t" ++ encReply (.rows [])
    runCalls 3 {} ⟨[s.take n, s.drop n], true⟩ = [.reply exReply, .reply exErr, .reply (.rows [])] := by
  decide +kernel

/-- truncated at every position, then end-of-file: this call and the next fail -/
example : ∀ n < (encReply exReply).length,
    runCalls 2 {} ⟨[(encReply exReply).take n], true⟩ = [.failed, .failed] := by decide +kernel

/-- truncated at every position, stream open: the call waits -/
example : ∀ n < (encReply exReply).length,
    runCalls 1 {} ⟨[(encReply exReply).take n], false⟩ = [.pending] := by decide +kernel

/-- a complete reply, then the engine dies in the middle of the next one -/
example : runCalls 3 {} ⟨[encReply exErr ++ bytesOfString "\n{\"resu"], true⟩ = [.reply exErr, .failed, .failed] := by
  decide +kernel

/-- requests: the SQL text comes back unchanged, whatever bytes it contains (`Scan` has no decidable
    equality, so this instance goes through the theorem; the side condition is evaluated) -/
def exSql : Bytes := bytesOfString "select 'é\t\"x\"' -- \\ \n" ++ [0, 31, 127, 255]

example : scanValue 100 (encodeRequest exSql) = .ok (requestVal exSql) [] := by
  simpa using scanValue_encodeRequest exSql 100 [] (by decide +kernel)

example : encodeRequest (bytesOfString "select 'a\tb' \\ \"x\"\n" ++ [1]) =
    bytesOfString "{\"sql\":\"select 'a\\tb' \\\\ \\\"x\\\"\\n\\u0001\"}" := by decide +kernel

/-! ### loose encodings: what e.g. Python's `json.dumps` writes -/

/-- `{ "result": [["1", "caf\u00E9"], [ ]]\n}` as a `LooseReply` -/
def exLoose : LooseReply :=
  .rows { w₁ := [32], key := canonStr (bytesOfString "result"), w₃ := [32], w₄ := [10],
          val := { elems := [
            { val := { elems := [ { val := canonStr (bytesOfString "1") },
                                  { pre := [32], val := [.raw 99, .raw 97, .raw 102, .u 48 48 69 57] } ] } },
            { pre := [32], val := { gap := [32], elems := [] } } ] } }

example : exLoose.enc = bytesOfString "{ \"result\": [[\"1\", \"caf\\u00E9\"], [ ]]\n}" := by decide +kernel
example : exLoose.WF := by decide +kernel
example : exLoose.reply = .rows [[bytesOfString "1", bytesOfString "café"], []] := by decide +kernel

/-- `json.dumps(..., ensure_ascii=True)`: `", "` and `": "` separators, `\u00e9`, a surrogate pair, `\/` —
    cut at every position -/
example : ∀ n < 70,
    let s := bytesOfString "{\"result\": [[\"1\", \"caf\\u00e9\"], [\"\\ud83d\\ude00\", \"a\\/b\"]]}\n"
    runCalls 1 {} ⟨[s.take n, s.drop n], false⟩ =
      [.reply (.rows [[bytesOfString "1", bytesOfString "café"], [bytesOfString "😀", bytesOfString "a/b"]])] := by
  decide +kernel

example : ∀ n < 40,
    let s := bytesOfString " { \"err\" :\t\"no such table: \\\"t\\\"\" }\r\n"
    runCalls 2 {} ⟨[s.take n, s.drop n], true⟩ = [.reply (.err (bytesOfString "no such table: \"t\"")), .failed] := by
  decide +kernel

end Slt
