/-
C20 (loose encodings): one-member objects with white space, and `decode` on loosely encoded replies.
-/
import SltVerif.Lemmas.ExternLooseScan
import SltVerif.Lemmas.ExternDecode
namespace Slt

/-- the continuation of `scanMember` once the key has been read; `y` starts after the closing quote -/
def memberCont (f : Nat) (key : Bytes) (y : Bytes) : Scan JVal :=
  match skipWs y with
  | [] => .incomplete
  | c :: r1 =>
    if c ≠ 58 then .invalid
    else
      match skipWs r1 with
      | [] => .incomplete
      | v0 :: r2 =>
        match scanValue f (v0 :: r2) with
        | .incomplete => .incomplete
        | .invalid => .invalid
        | .ok v r3 =>
          match skipWs r3 with
          | [] => .incomplete
          | d :: r4 =>
            if d = 125 then .ok (.obj [(key, v)]) r4
            else if d = 44 then
              match skipWs r4 with
              | [] => .incomplete
              | k0 :: r5 =>
                if k0 = 125 then .invalid
                else
                  match scanMember f (k0 :: r5) with
                  | .ok (.obj ms) r6 => .ok (.obj ((key, v) :: ms)) r6
                  | .ok _ _ => .invalid
                  | .incomplete => .incomplete
                  | .invalid => .invalid
            else .invalid

theorem scanMember_lkey (f : Nat) (k : List StrItem) (hk : WFLStr k) (y : Bytes) :
    scanMember (f + 1) (encLStr k ++ y) = memberCont f (decLStr k) y := by
  simp only [encLStr, List.cons_append, List.append_assoc, List.nil_append]
  simp only [scanMember, ne_eq, not_true_eq_false, ↓reduceIte]
  rw [scanStringBody_lstr k hk y]
  rfl

theorem memberCont_ws (f : Nat) (key y : Bytes) (hy : skipWs y = []) : memberCont f key y = .incomplete := by
  simp [memberCont, hy]

theorem memberCont_colon (f : Nat) (key y z : Bytes) (hy : skipWs y = 58 :: z) :
    memberCont f key y = valueCont f key (skipWs z) := by
  unfold memberCont
  rw [hy]
  simp only [ne_eq, not_true_eq_false, ↓reduceIte]
  cases h : skipWs z with
  | nil => simp [valueCont, scanValue_nil]
  | cons v0 r2 => simp only [valueCont]; rfl

theorem scanMember_lkey_pre (f : Nat) (k : List StrItem) (hk : WFLStr k) (p : Bytes)
    (hp : ProperPrefix p (encLStr k)) : scanMember f p = .incomplete := by
  rw [encLStr, properPrefix_cons] at hp
  rcases hp with rfl | ⟨t, rfl, ht⟩
  · exact scanMember_nil f
  · cases f with
    | zero => simp [scanMember]
    | succ f =>
      simp only [scanMember, ne_eq, not_true_eq_false, ↓reduceIte]
      rw [scanStringBody_items_pre k _ [] t hk ht]

theorem scanObjectFirst_lkey (f : Nat) (k : List StrItem) (y : Bytes) :
    scanObjectFirst (f + 1) (encLStr k ++ y) = scanMember f (encLStr k ++ y) := by
  simp [encLStr, scanObjectFirst]

theorem scanObjectFirst_lkey_pre (f : Nat) (k : List StrItem) (hk : WFLStr k) (p : Bytes)
    (hp : ProperPrefix p (encLStr k)) : scanObjectFirst f p = .incomplete := by
  have hp' := hp
  rw [encLStr, properPrefix_cons] at hp
  rcases hp with rfl | ⟨t, rfl, ht⟩
  · exact scanObjectFirst_nil f
  · cases f with
    | zero => simp [scanObjectFirst]
    | succ f =>
      have : scanObjectFirst (f + 1) (34 :: t) = scanMember f (34 :: t) := by simp [scanObjectFirst]
      rw [this]
      exact scanMember_lkey_pre f k hk _ hp'

section Obj
variable {α : Type} {P : α → Prop} {E : α → Bytes} {V : α → JVal} {d : Nat}

theorem valueContW_complete (h : ElemOKP P E V d) (k : Bytes) (a : α) (ha : P a) (w₄ : Bytes)
    (hw : AllWs w₄) (f : Nat) (rest : Bytes) (hf : (E a).length ≤ f) :
    valueCont f k (E a ++ (w₄ ++ 125 :: rest)) = .ok (.obj [(k, V a)]) rest := by
  unfold valueCont
  rw [h.complete a ha f _ hf]
  simp only []
  rw [skipWs_allWs_append _ hw]
  simp [skipWs, isJsonWs]

theorem valueContW_pre (h : ElemOKP P E V d) (k : Bytes) (a : α) (ha : P a) (w₄ : Bytes)
    (hw : AllWs w₄) (f : Nat) (t : Bytes)
    (ht : ProperPrefix t (E a ++ (w₄ ++ [125]))) (hf : t.length + d ≤ f) : valueCont f k t = .incomplete := by
  rcases ht.append_cases with h1 | ⟨t', rfl, ht'⟩
  · unfold valueCont
    rw [h.pre a ha f t h1 hf]
  · simp only [List.length_append] at hf
    unfold valueCont
    rw [h.complete a ha f t' (by omega)]
    simp only []
    rw [skipWs_ws_prefix hw ht'.of_append_singleton]

/-- `{ "k" : <elem> }` followed by anything -/
theorem scanValue_encObjW (h : ElemOKP P E V d) (o : ObjW α) (ho : WFObjW P o) (f : Nat) (rest : Bytes)
    (hf : (encObjW E o).length ≤ f) :
    scanValue f (encObjW E o ++ rest) = .ok (.obj [(decLStr o.key, V o.val)]) rest := by
  obtain ⟨h1, h2, h3, h4, hk, hv⟩ := ho
  have hlk := encLStr_length o.key
  simp only [encObjW, List.length_cons, List.length_append, List.length_nil] at hf
  obtain ⟨f, rfl⟩ : ∃ g, f = g + 3 := ⟨f - 3, by omega⟩
  simp only [encObjW, List.cons_append, List.append_assoc, List.nil_append]
  rw [scanValue_123, skipWs_allWs_append _ h1, ((nonWsHead_encLStr o.key).append _).skipWs_eq,
    scanObjectFirst_lkey, scanMember_lkey f o.key hk,
    memberCont_colon f _ _ (o.w₃ ++ (E o.val ++ (o.w₄ ++ 125 :: rest)))
      (by rw [skipWs_allWs_append _ h2]; simp [skipWs, isJsonWs]),
    skipWs_allWs_append _ h3, ((h.head o.val hv).nonWs).skipWs_append]
  exact valueContW_complete h _ o.val hv o.w₄ h4 f rest (by omega)

theorem scanValue_encObjW_pre (h : ElemOKP P E V d) (o : ObjW α) (ho : WFObjW P o) (f : Nat) (p : Bytes)
    (hp : ProperPrefix p (encObjW E o)) (hd : d ≤ 2) (hf : p.length + 1 ≤ f) :
    scanValue f p = .incomplete := by
  obtain ⟨h1, h2, h3, h4, hk, hv⟩ := ho
  simp only [encObjW] at hp
  rw [properPrefix_cons] at hp
  rcases hp with rfl | ⟨t, rfl, ht⟩
  · exact scanValue_nil f
  simp only [List.length_cons] at hf
  obtain ⟨f, rfl⟩ : ∃ g, f = g + 1 := ⟨f - 1, by omega⟩
  rw [scanValue_123]
  -- inside w₁ ?
  rcases ht.append_cases with hw | ⟨t1, rfl, ht1⟩
  · rw [skipWs_ws_prefix h1 hw.1]; exact scanObjectFirst_nil f
  rw [skipWs_allWs_append _ h1, ((nonWsHead_encLStr o.key).append _).skipWs_prefix ht1.1]
  -- inside the key ?
  rcases ht1.append_cases with hkey | ⟨t2, rfl, ht2⟩
  · exact scanObjectFirst_lkey_pre f o.key hk t1 hkey
  have hlk := encLStr_length o.key
  simp only [List.length_append] at hf
  obtain ⟨f, rfl⟩ : ∃ g, f = g + 2 := ⟨f - 2, by omega⟩
  rw [scanObjectFirst_lkey, scanMember_lkey f o.key hk]
  -- inside w₂ ?
  rcases ht2.append_cases with hw | ⟨t3, rfl, ht3⟩
  · exact memberCont_ws f _ _ (skipWs_ws_prefix h2 hw.1)
  rw [properPrefix_cons] at ht3
  rcases ht3 with rfl | ⟨t4, rfl, ht4⟩
  · exact memberCont_ws f _ _ (by rw [List.append_nil]; exact skipWs_allWs _ h2)
  rw [memberCont_colon f _ _ t4 (by rw [skipWs_allWs_append _ h2]; simp [skipWs, isJsonWs])]
  -- inside w₃ ?
  rcases ht4.append_cases with hw | ⟨t5, rfl, ht5⟩
  · rw [skipWs_ws_prefix h3 hw.1]
    simp [valueCont, scanValue_nil]
  rw [skipWs_allWs_append _ h3, (((h.head o.val hv).nonWs).append _).skipWs_prefix ht5.1]
  simp only [List.length_append, List.length_cons] at hf
  exact valueContW_pre h _ o.val hv o.w₄ h4 f t5 ht5 (by omega)

end Obj

/-! ### loosely encoded replies -/

/-- the JSON value of a loosely encoded reply -/
def LooseReply.jval : LooseReply → JVal
  | .rows o => .obj [(decLStr o.key,
      .arr (o.val.vals.map (fun r => JVal.arr (r.vals.map (fun s => JVal.str (decLStr s))))))]
  | .err o => .obj [(decLStr o.key, .str (decLStr o.val))]

theorem LooseReply.toReply_jval (L : LooseReply) (hL : L.WF) : toReply L.jval = some L.reply := by
  cases L with
  | rows o =>
    obtain ⟨_, hkey⟩ := hL
    have : (o.val.vals.map (fun r => JVal.arr (r.vals.map (fun s => JVal.str (decLStr s))))) =
        (o.val.rows).map rowVal := by
      simp [RowsW.rows, RowW.row, rowVal, List.map_map, Function.comp_def]
    simp only [LooseReply.jval, LooseReply.reply, hkey, this]
    simp [toReply, fieldValues, asRows_map_rowVal]
  | err o =>
    obtain ⟨_, hkey⟩ := hL
    have hne : bytesOfString "err" ≠ bytesOfString "result" := by decide +kernel
    simp only [LooseReply.jval, LooseReply.reply, hkey]
    simp [toReply, fieldValues, hne]

theorem LooseReply.enc_cons (L : LooseReply) : ∃ tl, L.enc = 123 :: tl := by
  cases L <;> exact ⟨_, rfl⟩

theorem LooseReply.nonWsHead (L : LooseReply) : NonWsHead L.enc := by
  obtain ⟨tl, h⟩ := L.enc_cons
  exact ⟨123, tl, h, by decide⟩

theorem LooseReply.scanValue_enc (L : LooseReply) (hL : L.WF) (f : Nat) (rest : Bytes)
    (hf : L.enc.length ≤ f) : scanValue f (L.enc ++ rest) = .ok L.jval rest := by
  cases L with
  | rows o => exact scanValue_encObjW elemOKP_rowsW o hL.1 f rest hf
  | err o => exact scanValue_encObjW elemOKP_lstr o hL.1 f rest hf

theorem LooseReply.scanValue_enc_pre (L : LooseReply) (hL : L.WF) (f : Nat) (p : Bytes)
    (hp : ProperPrefix p L.enc) (hf : p.length + 1 ≤ f) : scanValue f p = .incomplete := by
  cases L with
  | rows o => exact scanValue_encObjW_pre elemOKP_rowsW o hL.1 f p hp (by omega) hf
  | err o => exact scanValue_encObjW_pre elemOKP_lstr o hL.1 f p hp (by omega) hf

theorem decode_frame_loose (pad : Bytes) (hpad : AllWs pad) (L : LooseReply) (hL : L.WF) (rest : Bytes) :
    decode (pad ++ L.enc ++ rest) = .frame L.reply rest := by
  obtain ⟨tl, htl⟩ := L.enc_cons
  have hscan := L.scanValue_enc hL ((pad ++ L.enc ++ rest).length + 1) rest
    (by simp only [List.length_append]; omega)
  have hskip : skipWs (pad ++ L.enc ++ rest) = L.enc ++ rest := by
    rw [List.append_assoc, skipWs_allWs_append pad hpad, L.nonWsHead.skipWs_append]
  unfold decode
  rw [hskip]
  rw [htl] at hscan ⊢
  simp only [List.cons_append] at hscan ⊢
  simp only [hscan]
  simp [L.toReply_jval hL]

theorem decode_pre_loose (pad : Bytes) (hpad : AllWs pad) (L : LooseReply) (hL : L.WF) (p : Bytes)
    (hp : ProperPrefix p (pad ++ L.enc)) : decode p = .needMore := by
  rcases hp.append_cases with h1 | ⟨p', rfl, hp'⟩
  · unfold decode
    rw [skipWs_allWs p (hpad.of_prefix h1.1)]
  · unfold decode
    rw [skipWs_allWs_append pad hpad, L.nonWsHead.skipWs_prefix hp'.1]
    cases p' with
    | nil => rfl
    | cons b t =>
      simp only []
      rw [L.scanValue_enc_pre hL _ (b :: t) hp' (by simp only [List.length_append]; omega)]

end Slt
