/-
C20 (loose encodings): the framing loop on loosely encoded replies (instances of the generic lemmas of
`ExternPoll.lean`), and the canonical encoding as a special case of the loose one.
-/
import SltVerif.Lemmas.ExternLooseDecode
import SltVerif.Lemmas.ExternPoll
namespace Slt

theorem frameAt_loose (pad : Bytes) (hpad : AllWs pad) (L : LooseReply) (hL : L.WF) :
    FrameAt (pad ++ L.enc) L.reply where
  frame rest := decode_frame_loose pad hpad L hL rest
  pre p hp := decode_pre_loose pad hpad L hL p hp

theorem LooseReply.enc_ne_nil (L : LooseReply) : L.enc ≠ [] := by
  obtain ⟨tl, h⟩ := L.enc_cons
  rw [h]; simp

theorem runCalls_looseStream (cl : Bool) (items : List (Bytes × LooseReply)) (st : FrState) (cs : List Bytes)
    (tail : Bytes) (n : Nat)
    (hws : ∀ i ∈ items, AllWs i.1 ∧ i.2.WF) (hst : st.Ready)
    (heq : st.buf ++ cs.flatten = looseStream items ++ tail) :
    ∃ st' cs', st'.Ready ∧ st'.buf ++ cs'.flatten = tail ∧
      runCalls (items.length + n) st ⟨cs, cl⟩ =
        items.map (fun i => CallResult.reply i.2.reply) ++ runCalls n st' ⟨cs', cl⟩ := by
  have := runCalls_frames cl (items.map (fun i => (i.1 ++ i.2.enc, i.2.reply))) st cs tail n
    (by
      intro j hj
      obtain ⟨i, hi, rfl⟩ := List.mem_map.mp hj
      exact frameAt_loose i.1 (hws i hi).1 i.2 (hws i hi).2)
    hst (by rw [heq]; simp [looseStream, List.flatMap_map])
  simpa [List.map_map, Function.comp_def] using this

theorem looseStream_append (a b : List (Bytes × LooseReply)) :
    looseStream (a ++ b) = looseStream a ++ looseStream b := by
  simp [looseStream]

/-- one loosely encoded reply from a white-space state -/
theorem poll_padded_loose (pad₁ pad₂ : Bytes) (h₁ : AllWs pad₁) (h₂ : AllWs pad₂) (L : LooseReply) (hL : L.WF)
    (cs : List Bytes) (closes : Bool) (hcs : cs.flatten = pad₁ ++ L.enc ++ pad₂)
    (st : FrState) (hbuf : AllWs st.buf) (hlive : st.Live)
    (fuel : Nat) (hf : 2 * cs.length + 6 ≤ fuel) :
    ∃ st' cs', pollNext fuel st ⟨cs, closes⟩ = (.reply L.reply, st', ⟨cs', closes⟩) ∧
      AllWs st'.buf ∧ st'.Live ∧ st'.buf ++ cs'.flatten = pad₂ := by
  have hT := frameAt_loose (st.buf ++ pad₁) (hbuf.append h₁) L hL
  have heq : st.buf ++ cs.flatten = (st.buf ++ pad₁ ++ L.enc) ++ pad₂ := by
    rw [hcs]; simp [List.append_assoc]
  have hpp : ProperPrefix st.buf (st.buf ++ pad₁ ++ L.enc) := by
    have : ProperPrefix (st.buf ++ []) (st.buf ++ (pad₁ ++ L.enc)) :=
      ProperPrefix.append_left ((properPrefix_nil_left _).mpr (by simp [L.enc_ne_nil]))
    simpa [List.append_assoc] using this
  obtain ⟨x, cs', hpoll, hx⟩ :=
    poll_find_live hT closes cs st fuel pad₂ hlive (Or.inr hpp) heq (by omega)
  refine ⟨FrState.after x, cs', hpoll, ?_, ⟨rfl, rfl⟩, hx⟩
  have : AllWs (x ++ cs'.flatten) := hx ▸ h₂
  exact this.left

/-! ### the canonical encoding is a loose encoding -/

def canonItem (b : UInt8) : StrItem :=
  if b = 34 then .esc 34
  else if b = 92 then .esc 92
  else if b = 8 then .esc 98
  else if b = 12 then .esc 102
  else if b = 10 then .esc 110
  else if b = 13 then .esc 114
  else if b = 9 then .esc 116
  else if b < 32 then .u 48 48 (hexLower (b.toNat / 16)) (hexLower (b.toNat % 16))
  else .raw b

def canonStr (s : Bytes) : List StrItem := s.map canonItem

theorem hexVal_u00 (b : UInt8) (h : b < 32) :
    hexVal 48 48 (hexLower (b.toNat / 16)) (hexLower (b.toNat % 16)) = b.toNat := by
  obtain ⟨h1, h2⟩ := hexDigitVal_hexLower b.toNat (toNat_lt_32 h)
  simp only [hexVal, hexDigitVal_48, h1, h2, Option.getD_some]
  omega

theorem canonItem_enc (b : UInt8) : (canonItem b).enc = jsonEscapeByte b := by
  unfold canonItem jsonEscapeByte
  repeat' split
  all_goals rfl

theorem canonItem_dec (b : UInt8) : (canonItem b).dec = [b] := by
  unfold canonItem
  split
  · subst_vars; decide
  split
  · subst_vars; decide
  split
  · subst_vars; decide
  split
  · subst_vars; decide
  split
  · subst_vars; decide
  split
  · subst_vars; decide
  split
  · subst_vars; decide
  split
  · rename_i h
    simp only [StrItem.dec, hexVal_u00 b h, utf8OfCode_small b h]
  · rfl

theorem canonItem_wf (b : UInt8) : (canonItem b).WF := by
  unfold canonItem
  split
  · decide
  split
  · decide
  split
  · decide
  split
  · decide
  split
  · decide
  split
  · decide
  split
  · decide
  split
  · rename_i h
    obtain ⟨h1, h2⟩ := hexDigitVal_hexLower b.toNat (toNat_lt_32 h)
    have hb := toNat_lt_32 h
    refine ⟨by decide, by decide, by simp [isHex, h1], by simp [isHex, h2], ?_⟩
    rw [hexVal_u00 b h]
    omega
  · rename_i h1 h2 _ _ _ _ _ h3
    exact ⟨h1, h2, h3⟩

theorem encLStr_canonStr (s : Bytes) : encLStr (canonStr s) = jsonString s := by
  have h : (canonStr s).flatMap StrItem.enc = s.flatMap jsonEscapeByte := by
    induction s with
    | nil => rfl
    | cons b s ih =>
      simp only [canonStr, List.map_cons, List.flatMap_cons, canonItem_enc] at ih ⊢
      rw [ih]
  rw [jsonString_eq, encLStr, h]

theorem decLStr_canonStr (s : Bytes) : decLStr (canonStr s) = s := by
  simp only [decLStr, canonStr, List.flatMap_map]
  induction s with
  | nil => rfl
  | cons b s _ => simp [List.flatMap_cons, canonItem_dec]

theorem wfLStr_canonStr (s : Bytes) : WFLStr (canonStr s) := by
  intro i hi
  obtain ⟨b, _, rfl⟩ := List.mem_map.mp hi
  exact canonItem_wf b

/-- no white space anywhere -/
def tight {α β : Type} (g : α → β) (l : List α) : ArrW β := { gap := [], elems := l.map (fun a => { val := g a }) }

theorem encRestW_tight {α β : Type} (E : β → Bytes) (g : α → β) (l : List α) :
    encRestW E (l.map (fun a => ({ val := g a } : Wsd β))) = encRest (fun a => E (g a)) l := by
  induction l with
  | nil => rfl
  | cons a l ih => simp [encRestW, encRest, ih]

theorem encArrW_tight {α β : Type} (E : β → Bytes) (g : α → β) (l : List α) :
    encArrW E (tight g l) = encArr (fun a => E (g a)) l := by
  cases l with
  | nil => rfl
  | cons a l => simp [encArrW, tight, encArr, encRestW_tight]

theorem tight_vals {α β : Type} (g : α → β) (l : List α) : (tight g l).vals = l.map g := by
  simp [tight, ArrW.vals, List.map_map, Function.comp_def]

theorem wfArrW_tight {α β : Type} (P : β → Prop) (g : α → β) (l : List α) (h : ∀ a ∈ l, P (g a)) :
    WFArrW P (tight g l) := by
  refine ⟨AllWs.nil, ?_⟩
  intro x hx
  simp only [tight] at hx
  obtain ⟨a, ha, rfl⟩ := List.mem_map.mp hx
  exact ⟨AllWs.nil, AllWs.nil, h a ha⟩

def canonRow (row : List Bytes) : RowW := tight canonStr row
def canonRows (rs : List (List Bytes)) : RowsW := tight canonRow rs

theorem encRowW_canonRow (row : List Bytes) : encRowW (canonRow row) = encRow row := by
  simp only [encRowW, canonRow, encArrW_tight, encRow]
  congr 1
  funext s
  exact encLStr_canonStr s

theorem encRowsW_canonRows (rs : List (List Bytes)) : encRowsW (canonRows rs) = encRows rs := by
  simp only [encRowsW, canonRows, encArrW_tight, encRows]
  congr 1
  funext r
  exact encRowW_canonRow r

theorem canonRow_row (row : List Bytes) : (canonRow row).row = row := by
  simp [RowW.row, canonRow, tight_vals, List.map_map, Function.comp_def, decLStr_canonStr]

theorem canonRows_rows (rs : List (List Bytes)) : (canonRows rs).rows = rs := by
  simp [RowsW.rows, canonRows, tight_vals, List.map_map, Function.comp_def, canonRow_row]

theorem wf_canonRows (rs : List (List Bytes)) : WFRowsW (canonRows rs) :=
  wfArrW_tight _ _ _ (fun _ _ => wfArrW_tight _ _ _ (fun s _ => wfLStr_canonStr s))

/-- the canonical encoding of `r`, seen as a loose encoding -/
def canonReply : Reply → LooseReply
  | .rows rs => .rows { key := canonStr (bytesOfString "result"), val := canonRows rs }
  | .err m => .err { key := canonStr (bytesOfString "err"), val := canonStr m }

theorem canonReply_enc (r : Reply) : (canonReply r).enc = encReply r := by
  cases r with
  | rows rs => simp [canonReply, LooseReply.enc, encObjW, encReply, encLStr_canonStr, encRowsW_canonRows]
  | err m => simp [canonReply, LooseReply.enc, encObjW, encReply, encLStr_canonStr]

theorem canonReply_reply (r : Reply) : (canonReply r).reply = r := by
  cases r with
  | rows rs => simp [canonReply, LooseReply.reply, canonRows_rows]
  | err m => simp [canonReply, LooseReply.reply, decLStr_canonStr]

theorem canonReply_wf (r : Reply) : (canonReply r).WF := by
  cases r with
  | rows rs =>
    exact ⟨⟨AllWs.nil, AllWs.nil, AllWs.nil, AllWs.nil, wfLStr_canonStr _, wf_canonRows rs⟩,
      decLStr_canonStr _⟩
  | err m =>
    exact ⟨⟨AllWs.nil, AllWs.nil, AllWs.nil, AllWs.nil, wfLStr_canonStr _, wfLStr_canonStr m⟩,
      decLStr_canonStr _⟩

end Slt
