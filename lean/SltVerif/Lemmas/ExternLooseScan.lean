/-
C20 (loose encodings): arrays and one-member objects with arbitrary white space between the tokens.
Same structure as `ExternScan.lean`; elements may carry a well-formedness predicate `P`.
-/
import SltVerif.Lemmas.ExternLooseString
import SltVerif.Lemmas.ExternScan
namespace Slt

structure ElemOKP {α : Type} (P : α → Prop) (E : α → Bytes) (V : α → JVal) (d : Nat) : Prop where
  head : ∀ a, P a → ElemHead (E a)
  complete : ∀ a, P a → ∀ f rest, (E a).length ≤ f → scanValue f (E a ++ rest) = .ok (V a) rest
  pre : ∀ a, P a → ∀ f p, ProperPrefix p (E a) → p.length + d ≤ f → scanValue f p = .incomplete

theorem ElemOKP.length_pos {α : Type} {P : α → Prop} {E : α → Bytes} {V : α → JVal} {d : Nat}
    (h : ElemOKP P E V d) (a : α) (ha : P a) : 1 ≤ (E a).length := by
  obtain ⟨b, tl, hE, _, _⟩ := h.head a ha
  rw [hE]; simp

theorem elemOKP_lstr : ElemOKP WFLStr encLStr (fun s => JVal.str (decLStr s)) 0 where
  head s _ := ⟨34, _, rfl, by decide, by decide⟩
  complete s hs f rest hf := scanValue_lstr s hs rest f (by have := encLStr_length s; omega)
  pre s hs f p hp _ := scanValue_lstr_pre s hs p f hp

theorem ProperPrefix.of_append_singleton {t A : Bytes} {x : UInt8} (h : ProperPrefix t (A ++ [x])) :
    t <+: A := by
  rcases h.append_cases with h1 | ⟨t', rfl, ht'⟩
  · exact h1.1
  · rw [properPrefix_singleton] at ht'
    subst ht'
    simp

theorem skipWs_ws_prefix {t pad : Bytes} (hpad : AllWs pad) (h : t <+: pad) : skipWs t = [] :=
  skipWs_allWs t (hpad.of_prefix h)

/-! ### arrays -/

theorem scanArrayRest_commaW (f : Nat) (y x : Bytes) (hy : skipWs y = x) (hx : ElemHead x) :
    scanArrayRest (f + 1) (44 :: y) = arrCont f x := by
  obtain ⟨c, r0, rfl, hws, h93⟩ := hx
  simp only [scanArrayRest, arrCont, hy, h93, ↓reduceIte, show ¬ ((44 : UInt8) = 93) by decide]
  rfl

theorem scanArrayRest_comma_nil (f : Nat) (y : Bytes) (hy : skipWs y = []) :
    scanArrayRest (f + 1) (44 :: y) = .incomplete := by
  simp [scanArrayRest, hy]

section Arr
variable {α : Type} {P : α → Prop} {E : α → Bytes} {V : α → JVal} {d : Nat}

theorem nonWsHead_encRestW (E : α → Bytes) (l : List (Wsd α)) : NonWsHead (encRestW E l) := by
  cases l with
  | nil => exact ⟨93, [], rfl, by decide⟩
  | cons a l => exact ⟨44, _, rfl, by decide⟩

theorem encRestW_length_pos (E : α → Bytes) (l : List (Wsd α)) : 1 ≤ (encRestW E l).length := by
  cases l <;> simp [encRestW]

theorem arrContW_complete (h : ElemOKP P E V d) (x : Wsd α) (hpost : AllWs x.post) (hx : P x.val)
    (l : List (Wsd α)) (f : Nat) (rest : Bytes) (hlen : (E x.val).length ≤ f)
    (hrest : scanArrayRest f (encRestW E l ++ rest) = .ok (.arr (l.map (fun y => V y.val))) rest) :
    arrCont f (E x.val ++ (x.post ++ (encRestW E l ++ rest))) =
      .ok (.arr ((x :: l).map (fun y => V y.val))) rest := by
  unfold arrCont
  rw [h.complete x.val hx f _ hlen]
  simp only []
  rw [skipWs_allWs_append _ hpost, (nonWsHead_encRestW E l).skipWs_append, hrest]
  simp

theorem arrContW_pre (h : ElemOKP P E V d) (x : Wsd α) (hpost : AllWs x.post) (hx : P x.val)
    (l : List (Wsd α)) (f : Nat) (t : Bytes)
    (ht : ProperPrefix t (E x.val ++ (x.post ++ encRestW E l))) (hlen : t.length + d ≤ f)
    (hrest : ∀ t', ProperPrefix t' (encRestW E l) → t'.length + d ≤ f → scanArrayRest f t' = .incomplete) :
    arrCont f t = .incomplete := by
  rcases ht.append_cases with h1 | ⟨t2, rfl, ht2⟩
  · unfold arrCont
    rw [h.pre x.val hx f t h1 hlen]
  · have hl : (E x.val).length ≤ f ∧ t2.length + d ≤ f := by
      simp only [List.length_append] at hlen; omega
    unfold arrCont
    rw [h.complete x.val hx f t2 hl.1]
    simp only []
    rcases ht2.append_cases with h2 | ⟨t3, rfl, ht3⟩
    · rw [skipWs_ws_prefix hpost h2.1, scanArrayRest_nil]
    · have hl3 : t3.length + d ≤ f := by
        have := hl.2; simp only [List.length_append] at this; omega
      rw [skipWs_allWs_append _ hpost, (nonWsHead_encRestW E l).skipWs_prefix ht3.1, hrest t3 ht3 hl3]

theorem scanArrayRest_encRestW (h : ElemOKP P E V d) (l : List (Wsd α)) : ∀ (f : Nat) (rest : Bytes),
    (∀ x ∈ l, AllWs x.pre ∧ AllWs x.post ∧ P x.val) → (encRestW E l).length ≤ f →
    scanArrayRest f (encRestW E l ++ rest) = .ok (.arr (l.map (fun y => V y.val))) rest := by
  induction l with
  | nil =>
    intro f rest _ hf
    obtain ⟨f, rfl⟩ : ∃ g, f = g + 1 := ⟨f - 1, by simp [encRestW] at hf; omega⟩
    simp [encRestW, scanArrayRest]
  | cons x l ih =>
    intro f rest hwf hf
    obtain ⟨hpre, hpost, hx⟩ := hwf x (by simp)
    have h1 := h.length_pos x.val hx
    have h2 := encRestW_length_pos E l
    simp only [encRestW, List.length_cons, List.length_append] at hf
    obtain ⟨f, rfl⟩ : ∃ g, f = g + 1 := ⟨f - 1, by omega⟩
    simp only [encRestW, List.cons_append, List.append_assoc]
    rw [scanArrayRest_commaW f _ (E x.val ++ (x.post ++ (encRestW E l ++ rest)))
      (by rw [skipWs_allWs_append _ hpre, ((h.head x.val hx).nonWs).skipWs_append])
      ((h.head x.val hx).append _)]
    exact arrContW_complete h x hpost hx l f rest (by omega)
      (ih f rest (fun y hy => hwf y (by simp [hy])) (by omega))

theorem scanArrayRest_encRestW_pre (h : ElemOKP P E V d) (l : List (Wsd α)) : ∀ (f : Nat) (p : Bytes),
    (∀ x ∈ l, AllWs x.pre ∧ AllWs x.post ∧ P x.val) →
    ProperPrefix p (encRestW E l) → p.length + d ≤ f → scanArrayRest f p = .incomplete := by
  induction l with
  | nil =>
    intro f p _ hp _
    simp only [encRestW, properPrefix_singleton] at hp
    subst hp
    exact scanArrayRest_nil f
  | cons x l ih =>
    intro f p hwf hp hf
    obtain ⟨hpre, hpost, hx⟩ := hwf x (by simp)
    simp only [encRestW] at hp
    rw [properPrefix_cons] at hp
    rcases hp with rfl | ⟨t, rfl, ht⟩
    · exact scanArrayRest_nil f
    simp only [List.length_cons] at hf
    obtain ⟨f, rfl⟩ : ∃ g, f = g + 1 := ⟨f - 1, by omega⟩
    rcases ht.append_cases with h1 | ⟨t1, rfl, ht1⟩
    · exact scanArrayRest_comma_nil f t (skipWs_ws_prefix hpre h1.1)
    · by_cases hne : t1 = []
      · subst hne
        exact scanArrayRest_comma_nil f _ (by rw [List.append_nil]; exact skipWs_allWs _ hpre)
      · have hhead : ElemHead t1 := ((h.head x.val hx).append _).of_prefix ht1.1 hne
        rw [scanArrayRest_commaW f _ t1 (by rw [skipWs_allWs_append _ hpre, hhead.nonWs.skipWs_eq]) hhead]
        simp only [List.length_append] at hf
        exact arrContW_pre h x hpost hx l f t1 ht1 (by omega)
          (fun t' ht' hl => ih f t' (fun y hy => hwf y (by simp [hy])) ht' hl)

theorem scanValue_encArrW (h : ElemOKP P E V d) (a : ArrW α) (ha : WFArrW P a) (f : Nat) (rest : Bytes)
    (hf : (encArrW E a).length ≤ f) :
    scanValue f (encArrW E a ++ rest) = .ok (.arr (a.vals.map V)) rest := by
  obtain ⟨gap, elems⟩ := a
  obtain ⟨hgap, hwf⟩ := ha
  simp only at hgap hwf
  cases elems with
  | nil =>
    simp only [encArrW, List.length_cons, List.length_append, List.length_nil] at hf
    obtain ⟨f, rfl⟩ : ∃ g, f = g + 2 := ⟨f - 2, by omega⟩
    simp only [encArrW, List.cons_append, List.append_assoc, List.nil_append]
    rw [scanValue_91, skipWs_allWs_append _ hgap]
    simp [skipWs, isJsonWs, scanArrayFirst, ArrW.vals]
  | cons x l =>
    obtain ⟨hpre, hpost, hx⟩ := hwf x (by simp)
    have h1 := h.length_pos x.val hx
    have h2 := encRestW_length_pos E l
    simp only [encArrW, List.length_cons, List.length_append] at hf
    obtain ⟨f, rfl⟩ : ∃ g, f = g + 2 := ⟨f - 2, by omega⟩
    simp only [encArrW, List.cons_append, List.append_assoc]
    rw [scanValue_91, skipWs_allWs_append _ hpre, ((h.head x.val hx).nonWs).skipWs_append,
      scanArrayFirst_elem f _ ((h.head x.val hx).append _)]
    have := arrContW_complete h x hpost hx l f rest (by omega)
      (scanArrayRest_encRestW h l f rest (fun y hy => hwf y (by simp [hy])) (by omega))
    rw [this]
    simp [ArrW.vals, List.map_map, Function.comp_def]

theorem scanValue_encArrW_pre (h : ElemOKP P E V d) (a : ArrW α) (ha : WFArrW P a) (f : Nat) (p : Bytes)
    (hp : ProperPrefix p (encArrW E a)) (hf : p.length + (d + 1) ≤ f) : scanValue f p = .incomplete := by
  obtain ⟨gap, elems⟩ := a
  obtain ⟨hgap, hwf⟩ := ha
  simp only at hgap hwf
  cases elems with
  | nil =>
    simp only [encArrW] at hp
    rw [properPrefix_cons] at hp
    rcases hp with rfl | ⟨t, rfl, ht⟩
    · exact scanValue_nil f
    · simp only [List.length_cons] at hf
      obtain ⟨f, rfl⟩ : ∃ g, f = g + 1 := ⟨f - 1, by omega⟩
      rw [scanValue_91, skipWs_ws_prefix hgap ht.of_append_singleton]
      exact scanArrayFirst_nil f
  | cons x l =>
    obtain ⟨hpre, hpost, hx⟩ := hwf x (by simp)
    simp only [encArrW] at hp
    rw [properPrefix_cons] at hp
    rcases hp with rfl | ⟨t, rfl, ht⟩
    · exact scanValue_nil f
    simp only [List.length_cons] at hf
    obtain ⟨f, rfl⟩ : ∃ g, f = g + 2 := ⟨f - 2, by omega⟩
    rw [scanValue_91]
    rcases ht.append_cases with h1 | ⟨t1, rfl, ht1⟩
    · rw [skipWs_ws_prefix hpre h1.1]; exact scanArrayFirst_nil _
    · rw [skipWs_allWs_append _ hpre]
      by_cases hne : t1 = []
      · subst hne
        exact scanArrayFirst_nil _
      · have hhead : ElemHead t1 := ((h.head x.val hx).append _).of_prefix ht1.1 hne
        rw [hhead.nonWs.skipWs_eq, scanArrayFirst_elem f t1 hhead]
        simp only [List.length_append] at hf
        exact arrContW_pre h x hpost hx l f t1 ht1 (by omega)
          (fun t' ht' hl => scanArrayRest_encRestW_pre h l f t' (fun y hy => hwf y (by simp [hy])) ht' hl)

theorem ElemOKP.arr (h : ElemOKP P E V d) :
    ElemOKP (WFArrW P) (encArrW E) (fun a => JVal.arr (a.vals.map V)) (d + 1) where
  head a _ := by
    obtain ⟨gap, elems⟩ := a
    cases elems with
    | nil => exact ⟨91, _, rfl, by decide, by decide⟩
    | cons x l => exact ⟨91, _, rfl, by decide, by decide⟩
  complete a ha f rest hf := scanValue_encArrW h a ha f rest hf
  pre a ha f p hp hf := scanValue_encArrW_pre h a ha f p hp hf

end Arr

theorem elemOKP_rowW : ElemOKP WFRowW encRowW (fun r => JVal.arr (r.vals.map (fun s => JVal.str (decLStr s)))) 1 :=
  elemOKP_lstr.arr

theorem elemOKP_rowsW : ElemOKP WFRowsW encRowsW
    (fun rs => JVal.arr (rs.vals.map (fun r => JVal.arr (r.vals.map (fun s => JVal.str (decLStr s)))))) 2 :=
  elemOKP_rowW.arr

end Slt
