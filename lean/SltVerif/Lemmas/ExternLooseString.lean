/-
C20 (loose encodings): the string scanner on arbitrary valid JSON string literals.
-/
import SltVerif.ExternLooseSpec
import SltVerif.Lemmas.ExternString
namespace Slt

theorem isHex_some {x : UInt8} (h : isHex x = true) : hexDigitVal x = some ((hexDigitVal x).getD 0) := by
  unfold isHex at h
  cases hx : hexDigitVal x with
  | none => simp [hx] at h
  | some v => simp

theorem scanHex4_hex (a b c d : UInt8) (ha : isHex a = true) (hb : isHex b = true) (hc : isHex c = true)
    (hd : isHex d = true) (tl : Bytes) :
    scanHex4 (a :: b :: c :: d :: tl) = .ok (hexVal a b c d) tl := by
  simp only [scanHex4]
  rw [isHex_some ha, isHex_some hb, isHex_some hc, isHex_some hd]
  simp [hexVal]

theorem scanHex4_hex_short (a b c d : UInt8) (ha : isHex a = true) (hb : isHex b = true) (hc : isHex c = true)
    (p : Bytes) (hp : ProperPrefix p [a, b, c, d]) : scanHex4 p = .incomplete := by
  unfold isHex at ha hb hc
  simp only [properPrefix_cons, properPrefix_nil_right] at hp
  rcases hp with rfl | ⟨t, rfl, rfl | ⟨t, rfl, rfl | ⟨t, rfl, rfl | ⟨t, rfl, hf⟩⟩⟩⟩
  · simp [scanHex4]
  · simp [scanHex4, ha]
  · simp [scanHex4, ha, hb]
  · simp [scanHex4, ha, hb, hc]
  · simp at hf

/-- one well-formed item is consumed by one iteration of the string scanner and yields what it denotes -/
theorem scanStringBody_item (fuel : Nat) (acc : Bytes) (i : StrItem) (hi : i.WF) (tl : Bytes) :
    scanStringBody (fuel + 1) acc (i.enc ++ tl) = scanStringBody fuel (acc ++ i.dec) tl := by
  cases i with
  | raw b =>
    obtain ⟨h1, h2, h3⟩ := hi
    simp [StrItem.enc, StrItem.dec, scanStringBody, h1, h2, h3]
  | esc e =>
    simp only [StrItem.WF, unescape] at hi
    simp only [StrItem.enc, StrItem.dec, unescape]
    split at hi
    · subst_vars; simp [scanStringBody]
    split at hi
    · subst_vars; simp [scanStringBody]
    split at hi
    · subst_vars; simp [scanStringBody]
    split at hi
    · subst_vars; simp [scanStringBody]
    split at hi
    · subst_vars; simp [scanStringBody]
    split at hi
    · subst_vars; simp [scanStringBody]
    split at hi
    · subst_vars; simp [scanStringBody]
    split at hi
    · subst_vars; simp [scanStringBody]
    · simp at hi
  | u a b c d =>
    obtain ⟨ha, hb, hc, hd, hn⟩ := hi
    have h1 : ¬ (0xDC00 ≤ hexVal a b c d ∧ hexVal a b c d ≤ 0xDFFF) := by omega
    have h2 : ¬ (0xD800 ≤ hexVal a b c d ∧ hexVal a b c d ≤ 0xDBFF) := by omega
    simp [StrItem.enc, StrItem.dec, scanStringBody, scanHex4_hex a b c d ha hb hc hd, h1, h2]
  | pair a b c d a' b' c' d' =>
    obtain ⟨⟨ha, hb, hc, hd⟩, ⟨ha', hb', hc', hd'⟩, hn, hm⟩ := hi
    have h1 : ¬ (0xDC00 ≤ hexVal a b c d ∧ hexVal a b c d ≤ 0xDFFF) := by omega
    simp [StrItem.enc, StrItem.dec, scanStringBody, scanHex4_hex a b c d ha hb hc hd,
      scanHex4_hex a' b' c' d' ha' hb' hc' hd', h1, hn, hm]

theorem StrItem.enc_length_pos (i : StrItem) : 1 ≤ i.enc.length := by
  cases i <;> simp [StrItem.enc]

/-- a cut inside an item is "incomplete" -/
theorem scanStringBody_item_pre (fuel : Nat) (acc : Bytes) (i : StrItem) (hi : i.WF) (p : Bytes)
    (hp : ProperPrefix p i.enc) : scanStringBody fuel acc p = .incomplete := by
  cases fuel with
  | zero => simp [scanStringBody]
  | succ fuel =>
  cases i with
  | raw b =>
    simp only [StrItem.enc, properPrefix_singleton] at hp
    subst hp
    simp [scanStringBody]
  | esc e =>
    simp only [StrItem.enc, properPrefix_cons, properPrefix_nil_right] at hp
    rcases hp with rfl | ⟨t, rfl, rfl | ⟨t, rfl, hf⟩⟩
    · simp [scanStringBody]
    · simp [scanStringBody]
    · simp at hf
  | u a b c d =>
    obtain ⟨ha, hb, hc, hd, hn⟩ := hi
    simp only [StrItem.enc] at hp
    rw [properPrefix_cons] at hp
    rcases hp with rfl | ⟨t, rfl, hp⟩
    · simp [scanStringBody]
    rw [properPrefix_cons] at hp
    rcases hp with rfl | ⟨t, rfl, hp⟩
    · simp [scanStringBody]
    · simp [scanStringBody, scanHex4_hex_short a b c d ha hb hc t hp]
  | pair a b c d a' b' c' d' =>
    obtain ⟨⟨ha, hb, hc, hd⟩, ⟨ha', hb', hc', hd'⟩, hn, hm⟩ := hi
    have h1 : ¬ (0xDC00 ≤ hexVal a b c d ∧ hexVal a b c d ≤ 0xDFFF) := by omega
    simp only [StrItem.enc] at hp
    rw [properPrefix_cons] at hp
    rcases hp with rfl | ⟨t, rfl, hp⟩
    · simp [scanStringBody]
    rw [properPrefix_cons] at hp
    rcases hp with rfl | ⟨t, rfl, hp⟩
    · simp [scanStringBody]
    -- `t` is a proper prefix of the four digits ++ `\uXXXX`
    have hp' : ProperPrefix t ([a, b, c, d] ++ [92, 117, a', b', c', d']) := by simpa using hp
    rcases hp'.append_cases with h | ⟨t', rfl, ht'⟩
    · simp [scanStringBody, scanHex4_hex_short a b c d ha hb hc t h]
    · simp only [List.cons_append, List.nil_append]
      rw [properPrefix_cons] at ht'
      rcases ht' with rfl | ⟨t, rfl, ht'⟩
      · simp [scanStringBody, scanHex4_hex a b c d ha hb hc hd, h1, hn]
      rw [properPrefix_cons] at ht'
      rcases ht' with rfl | ⟨t, rfl, ht'⟩
      · simp [scanStringBody, scanHex4_hex a b c d ha hb hc hd, h1, hn]
      · simp [scanStringBody, scanHex4_hex a b c d ha hb hc hd, h1, hn,
          scanHex4_hex_short a' b' c' d' ha' hb' hc' t ht']

theorem scanStringBody_items (s : List StrItem) : ∀ (fuel : Nat) (acc rest : Bytes), WFLStr s →
    s.length < fuel →
    scanStringBody fuel acc (s.flatMap StrItem.enc ++ 34 :: rest) = .ok (acc ++ decLStr s) rest := by
  induction s with
  | nil =>
    intro fuel acc rest _ h
    obtain ⟨f, rfl⟩ : ∃ f, fuel = f + 1 := ⟨fuel - 1, by simp at h; omega⟩
    simp [scanStringBody, decLStr]
  | cons i s ih =>
    intro fuel acc rest hwf h
    obtain ⟨f, rfl⟩ : ∃ f, fuel = f + 1 := ⟨fuel - 1, by simp at h; omega⟩
    rw [List.flatMap_cons, List.append_assoc, scanStringBody_item _ _ _ (hwf i (by simp)),
      ih f _ _ (fun j hj => hwf j (by simp [hj])) (by simp at h; omega)]
    simp [decLStr]

theorem scanStringBody_items_pre (s : List StrItem) : ∀ (fuel : Nat) (acc p : Bytes), WFLStr s →
    ProperPrefix p (s.flatMap StrItem.enc ++ [34]) → scanStringBody fuel acc p = .incomplete := by
  induction s with
  | nil =>
    intro fuel acc p _ hp
    simp only [List.flatMap_nil, List.nil_append, properPrefix_singleton] at hp
    subst hp
    exact scanStringBody_nil _ _
  | cons i s ih =>
    intro fuel acc p hwf hp
    rw [List.flatMap_cons, List.append_assoc] at hp
    rcases hp.append_cases with h | ⟨p', rfl, hp'⟩
    · exact scanStringBody_item_pre fuel acc i (hwf i (by simp)) p h
    · cases fuel with
      | zero => simp [scanStringBody]
      | succ fuel =>
        rw [scanStringBody_item _ _ _ (hwf i (by simp))]
        exact ih _ _ _ (fun j hj => hwf j (by simp [hj])) hp'

theorem items_length (s : List StrItem) : s.length ≤ (s.flatMap StrItem.enc).length := by
  induction s with
  | nil => simp
  | cons i s ih =>
    have := i.enc_length_pos
    simp only [List.flatMap_cons, List.length_append, List.length_cons]
    omega

theorem encLStr_length (s : List StrItem) : 2 ≤ (encLStr s).length := by
  simp [encLStr]

/-- body of a string literal, as the member scanner sees a key -/
theorem scanStringBody_lstr (s : List StrItem) (hs : WFLStr s) (rest : Bytes) :
    scanStringBody ((s.flatMap StrItem.enc ++ 34 :: rest).length + 1) [] (s.flatMap StrItem.enc ++ 34 :: rest)
      = .ok (decLStr s) rest := by
  have := scanStringBody_items s ((s.flatMap StrItem.enc ++ 34 :: rest).length + 1) [] rest hs (by
    have := items_length s
    simp only [List.length_append, List.length_cons]
    omega)
  simpa using this

theorem scanValue_lstr (s : List StrItem) (hs : WFLStr s) (rest : Bytes) (f : Nat) (hf : 0 < f) :
    scanValue f (encLStr s ++ rest) = .ok (.str (decLStr s)) rest := by
  obtain ⟨f, rfl⟩ : ∃ g, f = g + 1 := ⟨f - 1, by omega⟩
  simp only [encLStr, List.cons_append, List.append_assoc, List.nil_append]
  simp only [scanValue, ↓reduceIte]
  rw [scanStringBody_lstr s hs rest]

theorem scanValue_lstr_pre (s : List StrItem) (hs : WFLStr s) (p : Bytes) (f : Nat)
    (hp : ProperPrefix p (encLStr s)) : scanValue f p = .incomplete := by
  rw [encLStr, properPrefix_cons] at hp
  rcases hp with rfl | ⟨t, rfl, ht⟩
  · exact scanValue_nil f
  · cases f with
    | zero => simp [scanValue]
    | succ f =>
      simp only [scanValue, ↓reduceIte]
      rw [scanStringBody_items_pre s _ [] t hs ht]

theorem nonWsHead_encLStr (s : List StrItem) : NonWsHead (encLStr s) :=
  NonWsHead.cons _ _ (by decide)

end Slt
