/-
C20: the `FramedRead::poll_next` loop.  Generic in the next frame `T` (padding ++ encoding of `r`), of which
only two facts are used (`FrameAt`): `T` followed by anything decodes to `r`, and no proper prefix of `T`
decodes to anything.
-/
import SltVerif.Lemmas.ExternDecode
namespace Slt

structure FrameAt (T : Bytes) (r : Reply) : Prop where
  frame : ∀ rest, decode (T ++ rest) = .frame r rest
  pre : ∀ p, ProperPrefix p T → decode p = .needMore

theorem frameAt_padded (pad : Bytes) (hpad : AllWs pad) (r : Reply) : FrameAt (pad ++ encReply r) r where
  frame rest := decode_frame pad hpad r rest
  pre p hp := decode_pre pad hpad r p hp

theorem FrameAt.ne_nil {T : Bytes} {r : Reply} (h : FrameAt T r) : T ≠ [] := by
  rintro rfl
  have := h.frame []
  simp [decode, skipWs] at this

/-! ### single steps of the loop on live states -/

theorem poll_read_empty (f : Nat) (buf : Bytes) (cs : List Bytes) (cl : Bool) :
    pollNext (f + 1) ⟨buf, false, false, false⟩ ⟨[] :: cs, cl⟩ = pollNext f ⟨buf, false, false, false⟩ ⟨cs, cl⟩ := by
  simp [pollNext]

theorem poll_read (f : Nat) (buf c : Bytes) (hc : c ≠ []) (cs : List Bytes) (cl : Bool) :
    pollNext (f + 1) ⟨buf, false, false, false⟩ ⟨c :: cs, cl⟩ = pollNext f ⟨buf ++ c, false, true, false⟩ ⟨cs, cl⟩ := by
  simp [pollNext, hc]

theorem poll_needMore (f : Nat) (buf : Bytes) (fd : Feed) (h : decode buf = .needMore) :
    pollNext (f + 1) ⟨buf, false, true, false⟩ fd = pollNext f ⟨buf, false, false, false⟩ fd := by
  simp [pollNext, h]

theorem poll_frame (f : Nat) (buf : Bytes) (fd : Feed) (r : Reply) (rest : Bytes)
    (h : decode buf = .frame r rest) :
    pollNext (f + 1) ⟨buf, false, true, false⟩ fd = (.reply r, FrState.after rest, fd) := by
  simp [pollNext, h, FrState.after]

theorem poll_pending (f : Nat) (buf : Bytes) :
    pollNext (f + 1) ⟨buf, false, false, false⟩ ⟨[], false⟩ =
      (.pending, ⟨buf, false, false, false⟩, ⟨[], false⟩) := by
  simp [pollNext]

/-- end-of-file with an undecodable remainder: the call fails and the state is dead -/
theorem poll_eof (f : Nat) (buf : Bytes) (h : decode buf = .needMore) :
    ∃ st', pollNext (f + 2) ⟨buf, false, false, false⟩ ⟨[], true⟩ = (.failed, st', ⟨[], true⟩) ∧ st'.Dead := by
  by_cases hb : buf = []
  · subst hb
    exact ⟨⟨[], true, false, false⟩, by simp [pollNext, h], by simp [FrState.Dead]⟩
  · exact ⟨⟨buf, true, true, true⟩, by simp [pollNext, h, hb], by simp [FrState.Dead]⟩

theorem poll_dead (f : Nat) (st : FrState) (h : st.Dead) :
    ∃ st', pollNext (f + 1) st ⟨[], true⟩ = (.failed, st', ⟨[], true⟩) ∧ st'.Dead := by
  obtain ⟨buf, eof, rd, er⟩ := st
  obtain ⟨h1, h2⟩ := h
  simp only at h1 h2
  subst h1
  cases er with
  | true => exact ⟨⟨buf, true, false, false⟩, by simp [pollNext], by simp [FrState.Dead]⟩
  | false =>
    have : rd = false := by simpa using h2
    subst this
    exact ⟨⟨buf, true, false, false⟩, by simp [pollNext], by simp [FrState.Dead]⟩

theorem runCalls_dead : ∀ (n : Nat) (st : FrState), st.Dead →
    runCalls n st ⟨[], true⟩ = List.replicate n .failed := by
  intro n
  induction n with
  | zero => intro st _; rfl
  | succ n ih =>
    intro st h
    obtain ⟨st', h1, h2⟩ := poll_dead 5 st h
    simp only [runCalls, List.length_nil, Nat.mul_zero, Nat.zero_add, h1, List.replicate_succ]
    rw [ih st' h2]

/-! ### finding the next frame -/

section
variable {T : Bytes} {r : Reply}

/-- not readable, buffer a proper prefix of `T`: the loop reads chunks until `T` is complete -/
theorem poll_find (hT : FrameAt T r) (cl : Bool) : ∀ (cs : List Bytes) (buf : Bytes) (f : Nat) (R : Bytes),
    ProperPrefix buf T → buf ++ cs.flatten = T ++ R → 2 * cs.length ≤ f →
    ∃ x cs', pollNext f ⟨buf, false, false, false⟩ ⟨cs, cl⟩ = (.reply r, FrState.after x, ⟨cs', cl⟩)
      ∧ x ++ cs'.flatten = R := by
  intro cs
  induction cs with
  | nil =>
    intro buf f R hp heq _
    simp only [List.flatten_nil, List.append_nil] at heq
    subst heq
    have := hp.length_lt
    simp only [List.length_append] at this
    omega
  | cons c cs ih =>
    intro buf f R hp heq hf
    simp only [List.length_cons] at hf
    obtain ⟨f, rfl⟩ : ∃ g, f = g + 2 := ⟨f - 2, by omega⟩
    cases c with
    | nil =>
      rw [poll_read_empty]
      exact ih buf (f + 1) R hp (by simpa using heq) (by omega)
    | cons b c =>
      rw [poll_read _ _ _ (by simp)]
      have heq' : (buf ++ b :: c) ++ cs.flatten = T ++ R := by
        simpa [List.append_assoc] using heq
      rcases prefix_dichotomy heq' with h | ⟨x, hx, hxR⟩
      · rw [poll_needMore _ _ _ (hT.pre _ h)]
        exact ih _ f R h heq' (by omega)
      · rw [hx, poll_frame _ _ _ r x (hT.frame x)]
        exact ⟨x, cs, rfl, hxR⟩

/-- any live state that is readable or whose buffer has not yet reached the end of `T` -/
theorem poll_find_live (hT : FrameAt T r) (cl : Bool) (cs : List Bytes) (st : FrState) (f : Nat) (R : Bytes)
    (hlive : st.Live) (hrd : st.readable = true ∨ ProperPrefix st.buf T)
    (heq : st.buf ++ cs.flatten = T ++ R) (hf : 2 * cs.length + 1 ≤ f) :
    ∃ x cs', pollNext f st ⟨cs, cl⟩ = (.reply r, FrState.after x, ⟨cs', cl⟩) ∧ x ++ cs'.flatten = R := by
  obtain ⟨buf, eof, rd, er⟩ := st
  obtain ⟨h1, h2⟩ := hlive
  simp only at h1 h2 hrd heq
  subst h1 h2
  cases rd with
  | false =>
    have hp : ProperPrefix buf T := by simpa using hrd
    exact poll_find hT cl cs buf f R hp heq (by omega)
  | true =>
    obtain ⟨f, rfl⟩ : ∃ g, f = g + 1 := ⟨f - 1, by omega⟩
    rcases prefix_dichotomy heq with h | ⟨x, hx, hxR⟩
    · rw [poll_needMore _ _ _ (hT.pre _ h)]
      exact poll_find hT cl cs buf f R h heq (by omega)
    · rw [hx, poll_frame _ _ _ r x (hT.frame x)]
      exact ⟨x, cs, rfl, hxR⟩

/-! ### draining a truncated stream -/

/-- all chunks together are still a proper prefix of `T`: the loop reads them all and decodes nothing -/
theorem poll_drain (hT : FrameAt T r) (cl : Bool) : ∀ (cs : List Bytes) (buf : Bytes),
    ProperPrefix (buf ++ cs.flatten) T →
    ∃ k, k ≤ 2 * cs.length ∧ ∀ f, pollNext (f + k) ⟨buf, false, false, false⟩ ⟨cs, cl⟩ =
      pollNext f ⟨buf ++ cs.flatten, false, false, false⟩ ⟨[], cl⟩ := by
  intro cs
  induction cs with
  | nil => intro buf _; exact ⟨0, by simp, fun f => by simp⟩
  | cons c cs ih =>
    intro buf hp
    cases c with
    | nil =>
      obtain ⟨k, hk, h⟩ := ih buf (by simpa using hp)
      refine ⟨k + 1, by simp only [List.length_cons]; omega, fun f => ?_⟩
      rw [← Nat.add_assoc, poll_read_empty, h f]
      simp
    | cons b c =>
      have hp' : ProperPrefix ((buf ++ b :: c) ++ cs.flatten) T := by
        simpa [List.append_assoc] using hp
      obtain ⟨k, hk, h⟩ := ih (buf ++ b :: c) hp'
      refine ⟨k + 2, by simp only [List.length_cons]; omega, fun f => ?_⟩
      rw [show f + (k + 2) = (f + k + 1) + 1 by omega, poll_read _ _ _ (by simp),
        poll_needMore _ _ _ (hT.pre _ hp'.of_append_left), h f]
      simp [List.append_assoc]

/-- the same from any live state (one more iteration if it is readable) -/
theorem poll_drain_live (hT : FrameAt T r) (cl : Bool) (cs : List Bytes) (st : FrState) (hlive : st.Live)
    (hp : ProperPrefix (st.buf ++ cs.flatten) T) :
    ∃ k, k ≤ 2 * cs.length + 1 ∧ ∀ f, pollNext (f + k) st ⟨cs, cl⟩ =
      pollNext f ⟨st.buf ++ cs.flatten, false, false, false⟩ ⟨[], cl⟩ := by
  obtain ⟨buf, eof, rd, er⟩ := st
  obtain ⟨h1, h2⟩ := hlive
  simp only at h1 h2 hp
  subst h1 h2
  obtain ⟨k, hk, h⟩ := poll_drain hT cl cs buf hp
  cases rd with
  | false => exact ⟨k, by omega, h⟩
  | true =>
    refine ⟨k + 1, by omega, fun f => ?_⟩
    rw [← Nat.add_assoc, poll_needMore _ _ _ (hT.pre _ hp.of_append_left), h f]

/-- truncated output followed by end-of-file: the call fails, the state is dead -/
theorem poll_truncated (hT : FrameAt T r) (cs : List Bytes) (st : FrState) (f : Nat) (hlive : st.Live)
    (hp : ProperPrefix (st.buf ++ cs.flatten) T) (hf : 2 * cs.length + 3 ≤ f) :
    ∃ st', pollNext f st ⟨cs, true⟩ = (.failed, st', ⟨[], true⟩) ∧ st'.Dead := by
  obtain ⟨k, hk, h⟩ := poll_drain_live hT true cs st hlive hp
  obtain ⟨g, rfl⟩ : ∃ g, f = (g + 2) + k := ⟨f - k - 2, by omega⟩
  rw [h]
  exact poll_eof g _ (hT.pre _ hp)

/-- truncated output and the stream stays open: the call waits -/
theorem poll_silent (hT : FrameAt T r) (cs : List Bytes) (st : FrState) (f : Nat) (hlive : st.Live)
    (hp : ProperPrefix (st.buf ++ cs.flatten) T) (hf : 2 * cs.length + 2 ≤ f) :
    pollNext f st ⟨cs, false⟩ =
      (.pending, ⟨st.buf ++ cs.flatten, false, false, false⟩, ⟨[], false⟩) := by
  obtain ⟨k, hk, h⟩ := poll_drain_live hT false cs st hlive hp
  obtain ⟨g, rfl⟩ : ∃ g, f = (g + 1) + k := ⟨f - k - 1, by omega⟩
  rw [h]
  exact poll_pending g _

end

/-! ### successive calls -/

theorem replyStream_cons (i : Bytes × Reply) (items : List (Bytes × Reply)) :
    replyStream (i :: items) = i.1 ++ encReply i.2 ++ replyStream items := by
  simp [replyStream]

theorem replyStream_append (a b : List (Bytes × Reply)) :
    replyStream (a ++ b) = replyStream a ++ replyStream b := by
  simp [replyStream]

/-- the invariant between calls: live, and readable unless nothing has been buffered -/
def FrState.Ready (st : FrState) : Prop := st.Live ∧ (st.readable = true ∨ st.buf = [])

theorem FrState.ready_after (x : Bytes) : (FrState.after x).Ready := by
  simp [FrState.Ready, FrState.Live, FrState.after]

theorem FrState.ready_init : ({} : FrState).Ready := by
  simp [FrState.Ready, FrState.Live]

theorem runCalls_silent : ∀ (n : Nat) (buf : Bytes),
    runCalls n ⟨buf, false, false, false⟩ ⟨[], false⟩ = List.replicate n .pending := by
  intro n
  induction n with
  | zero => intro _; rfl
  | succ n ih =>
    intro buf
    simp only [runCalls, List.length_nil, Nat.mul_zero, Nat.zero_add, poll_pending 5 buf,
      List.replicate_succ]
    rw [ih buf]

theorem runCalls_truncated {T : Bytes} {r : Reply} (hT : FrameAt T r) (cs : List Bytes) (st : FrState)
    (hlive : st.Live) (hp : ProperPrefix (st.buf ++ cs.flatten) T) (n : Nat) :
    runCalls (n + 1) st ⟨cs, true⟩ = List.replicate (n + 1) .failed := by
  obtain ⟨st', h1, h2⟩ := poll_truncated hT cs st (2 * cs.length + 6) hlive hp (by omega)
  simp only [runCalls, h1, List.replicate_succ]
  rw [runCalls_dead n st' h2]

theorem runCalls_waiting {T : Bytes} {r : Reply} (hT : FrameAt T r) (cs : List Bytes) (st : FrState)
    (hlive : st.Live) (hp : ProperPrefix (st.buf ++ cs.flatten) T) (n : Nat) :
    runCalls (n + 1) st ⟨cs, false⟩ = List.replicate (n + 1) .pending := by
  have h1 := poll_silent hT cs st (2 * cs.length + 6) hlive hp (by omega)
  simp only [runCalls, h1, List.replicate_succ]
  rw [runCalls_silent n _]

/-- a stream of frames `(T, r)` with `FrameAt T r`: `frames.length` calls return the replies in order and
    leave a ready state whose buffer plus unread chunks is exactly what follows the frames in the stream -/
theorem runCalls_frames (cl : Bool) : ∀ (frames : List (Bytes × Reply)) (st : FrState) (cs : List Bytes)
    (tail : Bytes) (n : Nat),
    (∀ i ∈ frames, FrameAt i.1 i.2) → st.Ready →
    st.buf ++ cs.flatten = frames.flatMap (·.1) ++ tail →
    ∃ st' cs', st'.Ready ∧ st'.buf ++ cs'.flatten = tail ∧
      runCalls (frames.length + n) st ⟨cs, cl⟩ =
        frames.map (fun i => CallResult.reply i.2) ++ runCalls n st' ⟨cs', cl⟩ := by
  intro frames
  induction frames with
  | nil =>
    intro st cs tail n _ hst heq
    exact ⟨st, cs, hst, by simpa using heq, by simp⟩
  | cons i frames ih =>
    intro st cs tail n hfr hst heq
    have hT := hfr i (by simp)
    rw [List.flatMap_cons, List.append_assoc] at heq
    have hrd : st.readable = true ∨ ProperPrefix st.buf i.1 := by
      rcases hst.2 with h | h
      · exact Or.inl h
      · right; rw [h, properPrefix_nil_left]; exact hT.ne_nil
    obtain ⟨x, cs', hpoll, hx⟩ := poll_find_live hT cl cs st (2 * cs.length + 6) _ hst.1 hrd heq (by omega)
    obtain ⟨st', cs'', hst', heq', hrun⟩ := ih (FrState.after x) cs' tail n
      (fun j hj => hfr j (by simp [hj])) (FrState.ready_after x) (by simpa [FrState.after] using hx)
    refine ⟨st', cs'', hst', heq', ?_⟩
    rw [show (i :: frames).length + n = (frames.length + n) + 1 by simp only [List.length_cons]; omega]
    simp only [runCalls, hpoll, List.map_cons, List.cons_append]
    rw [hrun]

/-- `items.length` calls return the replies in order and leave a ready state whose buffer plus unread
    chunks is exactly what follows the replies in the stream -/
theorem runCalls_stream (cl : Bool) (items : List (Bytes × Reply)) (st : FrState) (cs : List Bytes)
    (tail : Bytes) (n : Nat)
    (hws : ∀ i ∈ items, AllWs i.1) (hst : st.Ready) (heq : st.buf ++ cs.flatten = replyStream items ++ tail) :
    ∃ st' cs', st'.Ready ∧ st'.buf ++ cs'.flatten = tail ∧
      runCalls (items.length + n) st ⟨cs, cl⟩ =
        items.map (fun i => CallResult.reply i.2) ++ runCalls n st' ⟨cs', cl⟩ := by
  have := runCalls_frames cl (items.map (fun i => (i.1 ++ encReply i.2, i.2))) st cs tail n
    (by
      intro j hj
      obtain ⟨i, hi, rfl⟩ := List.mem_map.mp hj
      exact frameAt_padded i.1 (hws i hi) i.2)
    hst (by rw [heq]; simp [replyStream, List.flatMap_map])
  simpa [List.map_map, Function.comp_def] using this

/-! ### one padded reply from a white-space state; lock-step driving -/

theorem poll_padded (pad₁ pad₂ : Bytes) (h₁ : AllWs pad₁) (h₂ : AllWs pad₂) (r : Reply)
    (cs : List Bytes) (closes : Bool) (hcs : cs.flatten = pad₁ ++ encReply r ++ pad₂)
    (st : FrState) (hbuf : AllWs st.buf) (hlive : st.Live)
    (fuel : Nat) (hf : 2 * cs.length + 6 ≤ fuel) :
    ∃ st' cs', pollNext fuel st ⟨cs, closes⟩ = (.reply r, st', ⟨cs', closes⟩) ∧
      AllWs st'.buf ∧ st'.Live ∧ st'.buf ++ cs'.flatten = pad₂ := by
  have hT := frameAt_padded (st.buf ++ pad₁) (hbuf.append h₁) r
  have heq : st.buf ++ cs.flatten = (st.buf ++ pad₁ ++ encReply r) ++ pad₂ := by
    rw [hcs]; simp [List.append_assoc]
  have hpp : ProperPrefix st.buf (st.buf ++ pad₁ ++ encReply r) := by
    have : ProperPrefix (st.buf ++ []) (st.buf ++ (pad₁ ++ encReply r)) :=
      ProperPrefix.append_left ((properPrefix_nil_left _).mpr (by simp [encReply_ne_nil]))
    simpa [List.append_assoc] using this
  obtain ⟨x, cs', hpoll, hx⟩ :=
    poll_find_live hT closes cs st fuel pad₂ hlive (Or.inr hpp) heq (by omega)
  refine ⟨FrState.after x, cs', hpoll, ?_, ⟨rfl, rfl⟩, hx⟩
  have : AllWs (x ++ cs'.flatten) := hx ▸ h₂
  exact this.left

theorem runLockstep_replies (ex : List Exchange) :
    ∀ (st : FrState) (unread : List Bytes), (∀ e ∈ ex, e.WF) → st.Live → AllWs (st.buf ++ unread.flatten) →
      runLockstep st unread (ex.map (·.chunks)) = ex.map (fun e => CallResult.reply e.reply) := by
  induction ex with
  | nil => intro _ _ _ _ _; rfl
  | cons e ex ih =>
    intro st unread hwf hlive hws
    obtain ⟨h1, h2, hb⟩ := hwf e (by simp)
    obtain ⟨st', cs', hpoll, hws', hlive', heq'⟩ :=
      poll_padded (unread.flatten ++ e.pad₁) e.pad₂ (hws.right.append h1) h2 e.reply (unread ++ e.chunks) false
        (by simp [hb, padded, List.append_assoc]) st hws.left hlive _ (Nat.le_refl _)
    simp only [List.map_cons, runLockstep, hpoll]
    rw [ih st' cs' (fun e' he' => hwf e' (by simp [he'])) hlive' (by rw [heq']; exact h2)]

end Slt
