/-
List utilities for C20: proper prefixes, white-space runs, `skipWs`.
-/
import SltVerif.ExternSpec
namespace Slt

/-! ### proper prefixes -/

theorem properPrefix_nil_right (p : Bytes) : ProperPrefix p [] ↔ False := by
  unfold ProperPrefix
  constructor
  · rintro ⟨h1, h2⟩; exact h2 (List.prefix_nil.mp h1)
  · exact False.elim

theorem properPrefix_cons (p : Bytes) (a : UInt8) (x : Bytes) :
    ProperPrefix p (a :: x) ↔ p = [] ∨ ∃ t, p = a :: t ∧ ProperPrefix t x := by
  unfold ProperPrefix
  rw [List.prefix_cons_iff]
  constructor
  · rintro ⟨h1 | ⟨t, rfl, ht⟩, h2⟩
    · exact Or.inl h1
    · exact Or.inr ⟨t, rfl, ht, fun h => h2 (by rw [h])⟩
  · rintro (rfl | ⟨t, rfl, ht, hne⟩)
    · exact ⟨Or.inl rfl, by simp⟩
    · exact ⟨Or.inr ⟨t, rfl, ht⟩, fun h => hne (List.cons.inj h).2⟩

theorem properPrefix_nil_left (x : Bytes) : ProperPrefix [] x ↔ x ≠ [] := by
  unfold ProperPrefix
  constructor
  · rintro ⟨_, h⟩; exact fun h' => h h'.symm
  · intro h; exact ⟨List.nil_prefix, fun h' => h h'.symm⟩

theorem properPrefix_singleton (p : Bytes) (a : UInt8) : ProperPrefix p [a] ↔ p = [] := by
  rw [properPrefix_cons]
  simp [properPrefix_nil_right]

theorem ProperPrefix.length_lt {p x : Bytes} (h : ProperPrefix p x) : p.length < x.length := by
  obtain ⟨⟨q, rfl⟩, h2⟩ := h
  cases q with
  | nil => simp at h2
  | cons b q => simp

/-- a proper prefix of `A ++ B` is a proper prefix of `A`, or all of `A` and a proper prefix of `B` -/
theorem ProperPrefix.append_cases {p A B : Bytes} (h : ProperPrefix p (A ++ B)) :
    ProperPrefix p A ∨ ∃ p', p = A ++ p' ∧ ProperPrefix p' B := by
  obtain ⟨⟨q, hq⟩, hne⟩ := h
  rcases List.append_eq_append_iff.mp hq with ⟨as, hA, hq'⟩ | ⟨bs, hp, hB⟩
  · -- A = p ++ as
    by_cases has : as = []
    · subst has
      right
      refine ⟨[], by simpa using hA.symm, ?_⟩
      rw [properPrefix_nil_left]
      rintro rfl
      exact hne (by simp [hA])
    · left
      refine ⟨⟨as, hA.symm⟩, ?_⟩
      rintro rfl
      exact has (by simpa using hA)
  · right
    refine ⟨bs, hp, ⟨q, hB.symm⟩, ?_⟩
    rintro rfl
    exact hne hp

theorem ProperPrefix.of_append_left {a b T : Bytes} (h : ProperPrefix (a ++ b) T) : ProperPrefix a T := by
  obtain ⟨⟨q, hq⟩, hne⟩ := h
  refine ⟨⟨b ++ q, by simpa using hq⟩, ?_⟩
  rintro rfl
  have hb : b = [] := by
    have := congrArg List.length hq
    simp only [List.length_append] at this
    exact List.eq_nil_of_length_eq_zero (by omega)
  exact hne (by simp [hb])

theorem ProperPrefix.append_left {A p B : Bytes} (h : ProperPrefix p B) : ProperPrefix (A ++ p) (A ++ B) := by
  obtain ⟨h1, h2⟩ := h
  exact ⟨(List.prefix_append_right_inj A).mpr h1, fun h => h2 (List.append_cancel_left h)⟩

theorem ProperPrefix.append_right {p A : Bytes} (B : Bytes) (h : ProperPrefix p A) : ProperPrefix p (A ++ B) := by
  obtain ⟨⟨q, hq⟩, h2⟩ := h
  refine ⟨⟨q ++ B, by rw [← hq]; simp⟩, ?_⟩
  rintro rfl
  have := congrArg List.length hq
  simp only [List.length_append] at this
  have hB : B = [] := List.eq_nil_of_length_eq_zero (by omega)
  exact h2 (by simp [hB])

/-- the buffer either has not yet reached the end of `T`, or it contains `T` and some more -/
theorem prefix_dichotomy {a b T R : Bytes} (h : a ++ b = T ++ R) :
    ProperPrefix a T ∨ ∃ x, a = T ++ x ∧ x ++ b = R := by
  rcases List.append_eq_append_iff.mp h with ⟨as, hT, hb⟩ | ⟨bs, ha, hR⟩
  · by_cases has : as = []
    · subst has
      right
      exact ⟨[], by simpa using hT.symm, by simpa using hb⟩
    · left
      refine ⟨⟨as, hT.symm⟩, ?_⟩
      rintro rfl
      exact has (by simpa using hT)
  · right
    exact ⟨bs, ha, hR.symm⟩

/-! ### white space -/

theorem AllWs.nil : AllWs [] := by simp [AllWs]

theorem AllWs.append {a b : Bytes} (ha : AllWs a) (hb : AllWs b) : AllWs (a ++ b) := by
  intro x hx
  rcases List.mem_append.mp hx with h | h
  · exact ha x h
  · exact hb x h

theorem AllWs.of_prefix {p x : Bytes} (hx : AllWs x) (h : p <+: x) : AllWs p :=
  fun b hb => hx b (h.subset hb)

theorem AllWs.left {a b : Bytes} (h : AllWs (a ++ b)) : AllWs a :=
  fun x hx => h x (List.mem_append_left _ hx)

theorem AllWs.right {a b : Bytes} (h : AllWs (a ++ b)) : AllWs b :=
  fun x hx => h x (List.mem_append_right _ hx)

theorem skipWs_allWs_append (pad : Bytes) (h : AllWs pad) (x : Bytes) : skipWs (pad ++ x) = skipWs x := by
  induction pad with
  | nil => rfl
  | cons b pad ih =>
    have hb : isJsonWs b = true := h b (by simp)
    have := ih (fun c hc => h c (by simp [hc]))
    simp [skipWs, hb, this]

theorem skipWs_allWs (pad : Bytes) (h : AllWs pad) : skipWs pad = [] := by
  have := skipWs_allWs_append pad h []
  simpa [skipWs] using this

/-- the list is empty or starts with a byte that is not white space -/
def NonWsHead (x : Bytes) : Prop := ∃ b tl, x = b :: tl ∧ isJsonWs b = false

theorem NonWsHead.skipWs_append {x : Bytes} (h : NonWsHead x) (y : Bytes) : skipWs (x ++ y) = x ++ y := by
  obtain ⟨b, tl, rfl, hb⟩ := h
  simp [skipWs, hb]

theorem NonWsHead.skipWs_eq {x : Bytes} (h : NonWsHead x) : skipWs x = x := by
  simpa using h.skipWs_append []

theorem NonWsHead.skipWs_prefix {x p : Bytes} (h : NonWsHead x) (hp : p <+: x) : skipWs p = p := by
  obtain ⟨b, tl, rfl, hb⟩ := h
  rcases List.prefix_cons_iff.mp hp with rfl | ⟨t, rfl, _⟩
  · rfl
  · simp [skipWs, hb]

theorem NonWsHead.cons (b : UInt8) (tl : Bytes) (h : isJsonWs b = false) : NonWsHead (b :: tl) :=
  ⟨b, tl, rfl, h⟩

theorem NonWsHead.append {x : Bytes} (h : NonWsHead x) (y : Bytes) : NonWsHead (x ++ y) := by
  obtain ⟨b, tl, rfl, hb⟩ := h
  exact ⟨b, tl ++ y, rfl, hb⟩

end Slt
