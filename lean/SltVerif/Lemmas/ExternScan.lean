/-
C20: the JSON scanner on canonical encodings of arrays / single-member objects: a complete encoding is
scanned to its value (leaving the rest of the buffer), every proper prefix is "incomplete".
Generic in the element encoder (`ElemOK`), instantiated twice (strings → row → rows).
-/
import SltVerif.Lemmas.ExternString
namespace Slt

theorem scanArrayRest_nil (f : Nat) : scanArrayRest f [] = .incomplete := by
  cases f <;> simp [scanArrayRest]
theorem scanArrayFirst_nil (f : Nat) : scanArrayFirst f [] = .incomplete := by
  cases f <;> simp [scanArrayFirst]
theorem scanObjectFirst_nil (f : Nat) : scanObjectFirst f [] = .incomplete := by
  cases f <;> simp [scanObjectFirst]
theorem scanMember_nil (f : Nat) : scanMember f [] = .incomplete := by
  cases f <;> simp [scanMember]

/-! ### element heads -/

/-- starts with a byte that is neither white space nor `]` -/
def ElemHead (x : Bytes) : Prop := ∃ b tl, x = b :: tl ∧ isJsonWs b = false ∧ b ≠ 93

theorem ElemHead.nonWs {x : Bytes} (h : ElemHead x) : NonWsHead x := by
  obtain ⟨b, tl, rfl, hb, _⟩ := h
  exact ⟨b, tl, rfl, hb⟩

theorem ElemHead.append {x : Bytes} (h : ElemHead x) (y : Bytes) : ElemHead (x ++ y) := by
  obtain ⟨b, tl, rfl, hb, h93⟩ := h
  exact ⟨b, tl ++ y, rfl, hb, h93⟩

theorem ElemHead.of_prefix {x p : Bytes} (h : ElemHead x) (hp : p <+: x) (hne : p ≠ []) : ElemHead p := by
  obtain ⟨b, tl, rfl, hb, h93⟩ := h
  rcases List.prefix_cons_iff.mp hp with rfl | ⟨t, rfl, _⟩
  · exact absurd rfl hne
  · exact ⟨b, t, rfl, hb, h93⟩

/-- what the element encoder `E` (denoting `V`) must satisfy; `d` = nesting depth of arrays below the
    element (each level burns one unit of fuel more than it consumes bytes) -/
structure ElemOK {α : Type} (E : α → Bytes) (V : α → JVal) (d : Nat) : Prop where
  head : ∀ a, ElemHead (E a)
  complete : ∀ a f rest, (E a).length ≤ f → scanValue f (E a ++ rest) = .ok (V a) rest
  pre : ∀ a f p, ProperPrefix p (E a) → p.length + d ≤ f → scanValue f p = .incomplete

theorem ElemOK.length_pos {α : Type} {E : α → Bytes} {V : α → JVal} {d : Nat} (h : ElemOK E V d) (a : α) :
    1 ≤ (E a).length := by
  obtain ⟨b, tl, hE, _, _⟩ := h.head a
  rw [hE]; simp

theorem elemOK_string : ElemOK jsonString JVal.str 0 where
  head s := by rw [jsonString_eq]; exact ⟨_, _, rfl, by decide, by decide⟩
  complete s f rest hf := scanValue_string s rest f (by have := jsonString_length s; omega)
  pre s f p hp _ := scanValue_string_pre s p f hp

/-! ### arrays -/

/-- the common continuation of `scanArrayFirst` / `scanArrayRest` at an element -/
def arrCont (f : Nat) (x : Bytes) : Scan JVal :=
  match scanValue f x with
  | .incomplete => .incomplete
  | .invalid => .invalid
  | .ok v r =>
    match scanArrayRest f (skipWs r) with
    | .ok (.arr vs) r2 => .ok (.arr (v :: vs)) r2
    | .ok _ _ => .invalid
    | .incomplete => .incomplete
    | .invalid => .invalid

theorem scanArrayRest_comma (f : Nat) (x : Bytes) (hx : ElemHead x) :
    scanArrayRest (f + 1) (44 :: x) = arrCont f x := by
  obtain ⟨c, r0, rfl, hws, h93⟩ := hx
  simp only [scanArrayRest, arrCont, skipWs, hws, h93, Bool.false_eq_true, ↓reduceIte,
    show ¬ ((44 : UInt8) = 93) by decide]
  rfl

theorem scanArrayFirst_elem (f : Nat) (x : Bytes) (hx : ElemHead x) :
    scanArrayFirst (f + 1) x = arrCont f x := by
  obtain ⟨c, r0, rfl, hws, h93⟩ := hx
  simp only [scanArrayFirst, arrCont, h93, ↓reduceIte]
  rfl

theorem scanValue_91 (f : Nat) (x : Bytes) : scanValue (f + 1) (91 :: x) = scanArrayFirst f (skipWs x) := by
  simp [scanValue]

theorem scanValue_123 (f : Nat) (x : Bytes) : scanValue (f + 1) (123 :: x) = scanObjectFirst f (skipWs x) := by
  simp [scanValue]

section Arr
variable {α : Type} {E : α → Bytes} {V : α → JVal} {d : Nat}

theorem nonWsHead_encRest (E : α → Bytes) (l : List α) : NonWsHead (encRest E l) := by
  cases l with
  | nil => exact ⟨93, [], rfl, by decide⟩
  | cons a l => exact ⟨44, _, rfl, by decide⟩

theorem encRest_length_pos (E : α → Bytes) (l : List α) : 1 ≤ (encRest E l).length := by
  cases l <;> simp [encRest]

theorem arrCont_complete (h : ElemOK E V d) (a : α) (l : List α) (f : Nat) (rest : Bytes)
    (hlen : (E a).length ≤ f)
    (hrest : scanArrayRest f (encRest E l ++ rest) = .ok (.arr (l.map V)) rest) :
    arrCont f (E a ++ (encRest E l ++ rest)) = .ok (.arr ((a :: l).map V)) rest := by
  unfold arrCont
  rw [h.complete a f _ hlen]
  simp only []
  rw [(nonWsHead_encRest E l).skipWs_append, hrest]
  simp

theorem arrCont_pre (h : ElemOK E V d) (a : α) (l : List α) (f : Nat) (t : Bytes)
    (ht : ProperPrefix t (E a ++ encRest E l)) (hlen : t.length + d ≤ f)
    (hrest : ∀ t', ProperPrefix t' (encRest E l) → t'.length + d ≤ f → scanArrayRest f t' = .incomplete) :
    arrCont f t = .incomplete := by
  rcases ht.append_cases with h1 | ⟨t', rfl, ht'⟩
  · unfold arrCont
    rw [h.pre a f t h1 hlen]
  · have hl : (E a).length ≤ f ∧ t'.length + d ≤ f := by
      simp only [List.length_append] at hlen; omega
    unfold arrCont
    rw [h.complete a f t' hl.1]
    simp only []
    rw [(nonWsHead_encRest E l).skipWs_prefix ht'.1, hrest t' ht' hl.2]

theorem scanArrayRest_encRest (h : ElemOK E V d) (l : List α) : ∀ (f : Nat) (rest : Bytes),
    (encRest E l).length ≤ f → scanArrayRest f (encRest E l ++ rest) = .ok (.arr (l.map V)) rest := by
  induction l with
  | nil =>
    intro f rest hf
    obtain ⟨f, rfl⟩ : ∃ g, f = g + 1 := ⟨f - 1, by simp [encRest] at hf; omega⟩
    simp [encRest, scanArrayRest]
  | cons a l ih =>
    intro f rest hf
    have h1 := h.length_pos a
    have h2 := encRest_length_pos E l
    simp only [encRest, List.length_cons, List.length_append] at hf
    obtain ⟨f, rfl⟩ : ∃ g, f = g + 1 := ⟨f - 1, by omega⟩
    simp only [encRest, List.cons_append, List.append_assoc]
    rw [scanArrayRest_comma f _ ((h.head a).append _)]
    exact arrCont_complete h a l f rest (by omega) (ih f rest (by omega))

theorem scanArrayRest_encRest_pre (h : ElemOK E V d) (l : List α) : ∀ (f : Nat) (p : Bytes),
    ProperPrefix p (encRest E l) → p.length + d ≤ f → scanArrayRest f p = .incomplete := by
  induction l with
  | nil =>
    intro f p hp _
    simp only [encRest, properPrefix_singleton] at hp
    subst hp
    exact scanArrayRest_nil f
  | cons a l ih =>
    intro f p hp hf
    simp only [encRest] at hp
    rw [properPrefix_cons] at hp
    rcases hp with rfl | ⟨t, rfl, ht⟩
    · exact scanArrayRest_nil f
    · simp only [List.length_cons] at hf
      obtain ⟨f, rfl⟩ : ∃ g, f = g + 1 := ⟨f - 1, by omega⟩
      by_cases hne : t = []
      · subst hne
        simp [scanArrayRest, skipWs]
      · rw [scanArrayRest_comma f t (((h.head a).append _).of_prefix ht.1 hne)]
        exact arrCont_pre h a l f t ht (by omega) (fun t' ht' hl => ih f t' ht' hl)

theorem scanValue_encArr (h : ElemOK E V d) (l : List α) (f : Nat) (rest : Bytes)
    (hf : (encArr E l).length ≤ f) : scanValue f (encArr E l ++ rest) = .ok (.arr (l.map V)) rest := by
  cases l with
  | nil =>
    simp only [encArr, List.length_cons, List.length_nil] at hf
    obtain ⟨f, rfl⟩ : ∃ g, f = g + 2 := ⟨f - 2, by omega⟩
    simp [encArr, scanValue_91, skipWs, isJsonWs, scanArrayFirst]
  | cons a l =>
    have h1 := h.length_pos a
    have h2 := encRest_length_pos E l
    simp only [encArr, List.length_cons, List.length_append] at hf
    obtain ⟨f, rfl⟩ : ∃ g, f = g + 2 := ⟨f - 2, by omega⟩
    simp only [encArr, List.cons_append, List.append_assoc]
    rw [scanValue_91, ((h.head a).nonWs).skipWs_append, scanArrayFirst_elem f _ ((h.head a).append _)]
    exact arrCont_complete h a l f rest (by omega)
      (scanArrayRest_encRest h l f rest (by omega))

theorem scanValue_encArr_pre (h : ElemOK E V d) (l : List α) (f : Nat) (p : Bytes)
    (hp : ProperPrefix p (encArr E l)) (hf : p.length + (d + 1) ≤ f) : scanValue f p = .incomplete := by
  cases l with
  | nil =>
    simp only [encArr, properPrefix_cons, properPrefix_nil_right] at hp
    rcases hp with rfl | ⟨t, rfl, rfl | ⟨t, rfl, hF⟩⟩
    · exact scanValue_nil f
    · simp only [List.length_cons, List.length_nil] at hf
      obtain ⟨f, rfl⟩ : ∃ g, f = g + 1 := ⟨f - 1, by omega⟩
      rw [scanValue_91]
      simp [skipWs, scanArrayFirst_nil]
    · simp at hF
  | cons a l =>
    simp only [encArr] at hp
    rw [properPrefix_cons] at hp
    rcases hp with rfl | ⟨t, rfl, ht⟩
    · exact scanValue_nil f
    · simp only [List.length_cons] at hf
      obtain ⟨f, rfl⟩ : ∃ g, f = g + 2 := ⟨f - 2, by omega⟩
      rw [scanValue_91, (((h.head a).nonWs).append _).skipWs_prefix ht.1]
      by_cases hne : t = []
      · subst hne
        exact scanArrayFirst_nil _
      · rw [scanArrayFirst_elem f t (((h.head a).append _).of_prefix ht.1 hne)]
        exact arrCont_pre h a l f t ht (by omega)
          (fun t' ht' hl => scanArrayRest_encRest_pre h l f t' ht' hl)

/-- arrays of good elements are good elements -/
theorem ElemOK.arr (h : ElemOK E V d) : ElemOK (encArr E) (fun l => JVal.arr (l.map V)) (d + 1) where
  head l := by
    cases l with
    | nil => exact ⟨91, _, rfl, by decide, by decide⟩
    | cons a l => exact ⟨91, _, rfl, by decide, by decide⟩
  complete l f rest hf := scanValue_encArr h l f rest hf
  pre l f p hp hf := scanValue_encArr_pre h l f p hp hf

end Arr

theorem elemOK_row : ElemOK encRow rowVal 1 := elemOK_string.arr
theorem elemOK_rows : ElemOK encRows rowsVal 2 := elemOK_row.arr

/-! ### objects with one member -/

/-- the continuation of `scanMember` once the key and the colon have been read; `x` starts at the value -/
def valueCont (f : Nat) (key : Bytes) (x : Bytes) : Scan JVal :=
  match scanValue f x with
  | .incomplete => .incomplete
  | .invalid => .invalid
  | .ok v r3 =>
    match skipWs r3 with
    | [] => .incomplete
    | d :: r4 =>
      if d = 125 then .ok (.obj [(key, v)]) r4
      else if d = 44 then
        match skipWs r4 with
        | [] => .incomplete
        | k0 :: r5 =>
          if k0 = 125 then .invalid
          else
            match scanMember f (k0 :: r5) with
            | .ok (.obj ms) r6 => .ok (.obj ((key, v) :: ms)) r6
            | .ok _ _ => .invalid
            | .incomplete => .incomplete
            | .invalid => .invalid
      else .invalid

theorem scanMember_colon (f : Nat) (k x : Bytes) (hx : x = [] ∨ NonWsHead x) :
    scanMember (f + 1) (jsonString k ++ 58 :: x) = valueCont f k x := by
  rw [jsonString_eq]
  simp only [List.cons_append, List.append_assoc, List.nil_append]
  simp only [scanMember, ne_eq, not_true_eq_false, ↓reduceIte]
  rw [scanStringBody_enc k _ [] _ (by
    have := escaped_length k
    simp only [List.length_append, List.length_cons]
    omega)]
  rcases hx with rfl | ⟨b, tl, rfl, hb⟩
  · simp [skipWs, isJsonWs, valueCont, scanValue_nil]
  · simp only [skipWs, show isJsonWs 58 = false by decide, hb, Bool.false_eq_true, ↓reduceIte,
      not_true_eq_false, valueCont]
    rfl

theorem scanMember_key_only (f : Nat) (k : Bytes) : scanMember (f + 1) (jsonString k) = .incomplete := by
  rw [jsonString_eq]
  simp only [scanMember, ne_eq, not_true_eq_false, ↓reduceIte]
  rw [scanStringBody_enc k _ [] [] (by
    have := escaped_length k
    simp only [List.length_append, List.length_cons]
    omega)]
  simp [skipWs]

theorem scanMember_key_pre (f : Nat) (k p : Bytes) (hp : ProperPrefix p (jsonString k)) :
    scanMember f p = .incomplete := by
  rw [jsonString_eq, properPrefix_cons] at hp
  rcases hp with rfl | ⟨t, rfl, ht⟩
  · exact scanMember_nil f
  · cases f with
    | zero => simp [scanMember]
    | succ f =>
      simp only [scanMember, ne_eq, not_true_eq_false, ↓reduceIte]
      rw [scanStringBody_pre k _ [] t ht]

theorem scanObjectFirst_key (f : Nat) (k y : Bytes) :
    scanObjectFirst (f + 1) (jsonString k ++ y) = scanMember f (jsonString k ++ y) := by
  rw [jsonString_eq]
  simp [scanObjectFirst]

theorem scanObjectFirst_key_pre (f : Nat) (k p : Bytes) (hp : ProperPrefix p (jsonString k)) :
    scanObjectFirst f p = .incomplete := by
  have hp' := hp
  rw [jsonString_eq, properPrefix_cons] at hp
  rcases hp with rfl | ⟨t, rfl, ht⟩
  · exact scanObjectFirst_nil f
  · cases f with
    | zero => simp [scanObjectFirst]
    | succ f =>
      have : scanObjectFirst (f + 1) (34 :: t) = scanMember f (34 :: t) := by simp [scanObjectFirst]
      rw [this]
      exact scanMember_key_pre f k _ hp'

section Obj
variable {α : Type} {E : α → Bytes} {V : α → JVal} {d : Nat}

theorem valueCont_complete (h : ElemOK E V d) (k : Bytes) (a : α) (f : Nat) (rest : Bytes)
    (hf : (E a).length ≤ f) : valueCont f k (E a ++ 125 :: rest) = .ok (.obj [(k, V a)]) rest := by
  unfold valueCont
  rw [h.complete a f _ hf]
  simp [skipWs, isJsonWs]

theorem valueCont_pre (h : ElemOK E V d) (k : Bytes) (a : α) (f : Nat) (t : Bytes)
    (ht : ProperPrefix t (E a ++ [125])) (hf : t.length + d ≤ f) : valueCont f k t = .incomplete := by
  rcases ht.append_cases with h1 | ⟨t', rfl, ht'⟩
  · unfold valueCont
    rw [h.pre a f t h1 hf]
  · rw [properPrefix_singleton] at ht'
    subst ht'
    simp only [List.append_nil] at hf
    unfold valueCont
    rw [h.complete a f [] (by omega)]
    simp [skipWs]

/-- `{"k":<elem>}` followed by anything: scanned to the one-member object, the rest left alone -/
theorem scanValue_obj1 (h : ElemOK E V d) (k : Bytes) (a : α) (f : Nat) (rest : Bytes)
    (hf : (E a).length + 5 ≤ f) :
    scanValue f (123 :: (jsonString k ++ 58 :: (E a ++ 125 :: rest))) = .ok (.obj [(k, V a)]) rest := by
  obtain ⟨f, rfl⟩ : ∃ g, f = g + 3 := ⟨f - 3, by omega⟩
  rw [scanValue_123, ((nonWsHead_jsonString k).append _).skipWs_eq, scanObjectFirst_key,
    scanMember_colon f k _ (Or.inr (((h.head a).nonWs).append _))]
  exact valueCont_complete h k a f rest (by omega)

/-- no proper prefix of `{"k":<elem>}` is taken for a value or for an error -/
theorem scanValue_obj1_pre (h : ElemOK E V d) (k : Bytes) (a : α) (f : Nat) (p : Bytes)
    (hp : ProperPrefix p (123 :: (jsonString k ++ 58 :: (E a ++ [125])))) (hd : d ≤ 2)
    (hf : p.length + 1 ≤ f) : scanValue f p = .incomplete := by
  rw [properPrefix_cons] at hp
  rcases hp with rfl | ⟨t, rfl, ht⟩
  · exact scanValue_nil f
  simp only [List.length_cons] at hf
  obtain ⟨f, rfl⟩ : ∃ g, f = g + 1 := ⟨f - 1, by omega⟩
  rw [scanValue_123, ((nonWsHead_jsonString k).append _).skipWs_prefix ht.1]
  rcases ht.append_cases with h1 | ⟨t1, rfl, ht1⟩
  · exact scanObjectFirst_key_pre f k t h1
  have hk := jsonString_length k
  simp only [List.length_append] at hf
  obtain ⟨f, rfl⟩ : ∃ g, f = g + 2 := ⟨f - 2, by omega⟩
  rw [scanObjectFirst_key]
  rw [properPrefix_cons] at ht1
  rcases ht1 with rfl | ⟨t2, rfl, ht2⟩
  · rw [List.append_nil]; exact scanMember_key_only f k
  · have hx : t2 = [] ∨ NonWsHead t2 := by
      by_cases hne : t2 = []
      · exact Or.inl hne
      · exact Or.inr (((h.head a).append _).of_prefix ht2.1 hne).nonWs
    rw [scanMember_colon f k t2 hx]
    simp only [List.length_cons] at hf
    exact valueCont_pre h k a f t2 ht2 (by omega)

end Obj

end Slt
