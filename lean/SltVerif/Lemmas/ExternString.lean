/-
C20: the string scanner inverts serde_json's string escaping, and every proper prefix of an escaped
string is "incomplete" (never an error, never a shorter string).
-/
import SltVerif.Lemmas.ExternPrefix
namespace Slt

theorem hexDigitVal_hexLower : ∀ n : Nat, n < 32 →
    hexDigitVal (hexLower (n / 16)) = some (n / 16) ∧ hexDigitVal (hexLower (n % 16)) = some (n % 16) := by
  decide +kernel

theorem hexDigitVal_48 : hexDigitVal 48 = some 0 := by decide +kernel

theorem toNat_lt_32 {b : UInt8} (h : b < 32) : b.toNat < 32 := by
  simpa using UInt8.lt_iff_toNat_lt.mp h

theorem scanHex4_u00 (b : UInt8) (h : b < 32) (tl : Bytes) :
    scanHex4 (48 :: 48 :: hexLower (b.toNat / 16) :: hexLower (b.toNat % 16) :: tl) = .ok b.toNat tl := by
  have hb := toNat_lt_32 h
  obtain ⟨h1, h2⟩ := hexDigitVal_hexLower b.toNat hb
  simp only [scanHex4, hexDigitVal_48, h1, h2]
  congr 1
  omega

theorem utf8OfCode_small (b : UInt8) (h : b < 32) : utf8OfCode b.toNat = [b] := by
  have hb := toNat_lt_32 h
  have : b.toNat < 128 := by omega
  simp [utf8OfCode, this]

/-- one escaped byte is consumed by one iteration of the string scanner and yields that byte -/
theorem scanStringBody_escape (fuel : Nat) (acc : Bytes) (b : UInt8) (tl : Bytes) :
    scanStringBody (fuel + 1) acc (jsonEscapeByte b ++ tl) = scanStringBody fuel (acc ++ [b]) tl := by
  unfold jsonEscapeByte
  split
  · subst_vars; simp [scanStringBody]
  split
  · subst_vars; simp [scanStringBody]
  split
  · subst_vars; simp [scanStringBody]
  split
  · subst_vars; simp [scanStringBody]
  split
  · subst_vars; simp [scanStringBody]
  split
  · subst_vars; simp [scanStringBody]
  split
  · subst_vars; simp [scanStringBody]
  split
  · rename_i h
    have hb := toNat_lt_32 h
    have h1 : ¬ (0xDC00 ≤ b.toNat ∧ b.toNat ≤ 0xDFFF) := by omega
    have h2 : ¬ (0xD800 ≤ b.toNat ∧ b.toNat ≤ 0xDBFF) := by omega
    simp [scanStringBody, scanHex4_u00 b h, utf8OfCode_small b h, h1, h2]
  · simp [scanStringBody, *]

/-- `string_roundtrip` with an accumulator: after the opening quote, the escaped text of ANY byte
    string `s` followed by the closing quote scans to exactly `s`, leaving what follows the quote -/
theorem scanStringBody_enc (s : Bytes) : ∀ (fuel : Nat) (acc rest : Bytes), s.length < fuel →
    scanStringBody fuel acc (s.flatMap jsonEscapeByte ++ 34 :: rest) = .ok (acc ++ s) rest := by
  induction s with
  | nil =>
    intro fuel acc rest h
    obtain ⟨f, rfl⟩ : ∃ f, fuel = f + 1 := ⟨fuel - 1, by simp at h; omega⟩
    simp [scanStringBody]
  | cons b s ih =>
    intro fuel acc rest h
    obtain ⟨f, rfl⟩ : ∃ f, fuel = f + 1 := ⟨fuel - 1, by simp at h; omega⟩
    rw [List.flatMap_cons, List.append_assoc, scanStringBody_escape, ih f _ _ (by simp at h; omega)]
    simp

theorem scanStringBody_nil (fuel : Nat) (acc : Bytes) : scanStringBody fuel acc [] = .incomplete := by
  cases fuel <;> simp [scanStringBody]

theorem scanHex4_short_prefix (b : UInt8) (h : b < 32) (p : Bytes)
    (hp : ProperPrefix p [48, 48, hexLower (b.toNat / 16), hexLower (b.toNat % 16)]) :
    scanHex4 p = .incomplete := by
  have hb := toNat_lt_32 h
  obtain ⟨h1, h2⟩ := hexDigitVal_hexLower b.toNat hb
  simp only [properPrefix_cons, properPrefix_nil_right] at hp
  rcases hp with rfl | ⟨t, rfl, rfl | ⟨t, rfl, rfl | ⟨t, rfl, rfl | ⟨t, rfl, hf⟩⟩⟩⟩
  · simp [scanHex4]
  · simp [scanHex4, hexDigitVal_48]
  · simp [scanHex4, hexDigitVal_48]
  · simp [scanHex4, hexDigitVal_48, h1]
  · simp at hf

/-- a cut inside an escape sequence is "incomplete" -/
theorem scanStringBody_pre_escape (fuel : Nat) (acc : Bytes) (b : UInt8) (p : Bytes)
    (hp : ProperPrefix p (jsonEscapeByte b)) : scanStringBody fuel acc p = .incomplete := by
  cases fuel with
  | zero => simp [scanStringBody]
  | succ fuel =>
  unfold jsonEscapeByte at hp
  have two : ∀ e : UInt8, ProperPrefix p [92, e] → scanStringBody (fuel + 1) acc p = .incomplete := by
    intro e he
    simp only [properPrefix_cons, properPrefix_nil_right] at he
    rcases he with rfl | ⟨t, rfl, rfl | ⟨t, rfl, hf⟩⟩
    · simp [scanStringBody]
    · simp [scanStringBody]
    · simp at hf
  split at hp
  · exact two _ hp
  split at hp
  · exact two _ hp
  split at hp
  · exact two _ hp
  split at hp
  · exact two _ hp
  split at hp
  · exact two _ hp
  split at hp
  · exact two _ hp
  split at hp
  · exact two _ hp
  split at hp
  · rename_i h
    rw [properPrefix_cons] at hp
    rcases hp with rfl | ⟨t, rfl, hp⟩
    · simp [scanStringBody]
    rw [properPrefix_cons] at hp
    rcases hp with rfl | ⟨t, rfl, hp⟩
    · simp [scanStringBody]
    · simp [scanStringBody, scanHex4_short_prefix b h t hp]
  · rw [properPrefix_singleton] at hp
    subst hp
    simp [scanStringBody]

/-- every proper prefix of an escaped string body + closing quote is "incomplete" -/
theorem scanStringBody_pre (s : Bytes) : ∀ (fuel : Nat) (acc p : Bytes),
    ProperPrefix p (s.flatMap jsonEscapeByte ++ [34]) → scanStringBody fuel acc p = .incomplete := by
  induction s with
  | nil =>
    intro fuel acc p hp
    simp only [List.flatMap_nil, List.nil_append, properPrefix_singleton] at hp
    subst hp
    exact scanStringBody_nil _ _
  | cons b s ih =>
    intro fuel acc p hp
    rw [List.flatMap_cons, List.append_assoc] at hp
    rcases hp.append_cases with h | ⟨p', rfl, hp'⟩
    · exact scanStringBody_pre_escape fuel acc b p h
    · cases fuel with
      | zero => simp [scanStringBody]
      | succ fuel => rw [scanStringBody_escape]; exact ih _ _ _ hp'

/-! ### strings as values -/

theorem jsonString_eq (s : Bytes) : jsonString s = 34 :: (s.flatMap jsonEscapeByte ++ [34]) := by
  simp [jsonString]

theorem jsonString_length (s : Bytes) : 2 ≤ (jsonString s).length := by
  simp [jsonString_eq]

theorem scanValue_nil (f : Nat) : scanValue f [] = .incomplete := by
  cases f <;> simp [scanValue]

theorem jsonEscapeByte_length (b : UInt8) : 1 ≤ (jsonEscapeByte b).length := by
  unfold jsonEscapeByte
  repeat' split
  all_goals simp

theorem escaped_length (s : Bytes) : s.length ≤ (s.flatMap jsonEscapeByte).length := by
  induction s with
  | nil => simp
  | cons b s ih =>
    have := jsonEscapeByte_length b
    simp only [List.flatMap_cons, List.length_append, List.length_cons]
    omega

theorem scanValue_string (s rest : Bytes) (f : Nat) (hf : 0 < f) :
    scanValue f (jsonString s ++ rest) = .ok (.str s) rest := by
  obtain ⟨f, rfl⟩ : ∃ g, f = g + 1 := ⟨f - 1, by omega⟩
  rw [jsonString_eq]
  simp only [List.cons_append, List.append_assoc, List.nil_append]
  simp only [scanValue, ↓reduceIte]
  rw [scanStringBody_enc s _ [] rest (by
    have := escaped_length s
    simp only [List.length_append, List.length_cons]
    omega)]
  simp

theorem scanValue_string_pre (s p : Bytes) (f : Nat) (hp : ProperPrefix p (jsonString s)) :
    scanValue f p = .incomplete := by
  rw [jsonString_eq, properPrefix_cons] at hp
  rcases hp with rfl | ⟨t, rfl, ht⟩
  · exact scanValue_nil f
  · cases f with
    | zero => simp [scanValue]
    | succ f =>
      simp only [scanValue, ↓reduceIte]
      rw [scanStringBody_pre s _ [] t ht]

theorem nonWsHead_jsonString (s : Bytes) : NonWsHead (jsonString s) := by
  rw [jsonString_eq]
  exact NonWsHead.cons _ _ (by decide)

end Slt
