/-
Expansion is compositional: expanding `a ++ b` is expanding `a`, then `b` (the first error wins).
-/
import SltVerif.Lemmas.IncludeEq
namespace Slt

/-- sequencing of two expansion results -/
def seqExp (x y : Except IFail (List LRec)) : Except IFail (List LRec) :=
  match x with
  | .error e => .error e
  | .ok a =>
    match y with
    | .error e => .error e
    | .ok b => .ok (a ++ b)

theorem seqExp_ok_nil (y : Except IFail (List LRec)) : seqExp (.ok []) y = y := by
  cases y <;> rfl

theorem seqExp_error (e : IFail) (y : Except IFail (List LRec)) : seqExp (.error e) y = .error e :=
  rfl

section
variable (cfg : PCfg) (fs : Fs) (fuel : Nat)

theorem expandRecs_cons_seq (file : Str) (upper : List (Str × Nat)) (r : Rec) (rs : List Rec) :
    expandRecs cfg fs fuel file upper (r :: rs) =
      seqExp (expandRecs cfg fs fuel file upper [r]) (expandRecs cfg fs fuel file upper rs) := by
  rcases Rec.incl_or_not r with ⟨l, p, rfl⟩ | hr
  · rw [expandRecs_cons_incl, expandRecs_cons_incl, expandRecs_nil]
    by_cases hg : (glob fs (resolveInclude file p)).isEmpty = true
    · rw [if_pos hg, if_pos hg]; rfl
    · rw [if_neg hg, if_neg hg]
      cases expandFiles cfg fs fuel file ((file, l) :: upper) (glob fs (resolveInclude file p)) with
      | error e => rfl
      | ok inner =>
        cases expandRecs cfg fs fuel file upper rs with
        | error e => rfl
        | ok rest => simp [seqExp]
  · rw [expandRecs_cons_other _ _ _ _ _ _ _ hr, expandRecs_cons_other _ _ _ _ _ _ _ hr,
      expandRecs_nil]
    cases expandRecs cfg fs fuel file upper rs with
    | error e => rfl
    | ok rest => rfl

theorem seqExp_assoc (x y z : Except IFail (List LRec)) :
    seqExp (seqExp x y) z = seqExp x (seqExp y z) := by
  cases x with
  | error e => rfl
  | ok a =>
    cases y with
    | error e => rfl
    | ok b =>
      cases z with
      | error e => rfl
      | ok c => simp [seqExp]

/-- **records**: `expandRecs (a ++ b) = expandRecs a ; expandRecs b` -/
theorem expandRecs_append (file : Str) (upper : List (Str × Nat)) (a b : List Rec) :
    expandRecs cfg fs fuel file upper (a ++ b) =
      seqExp (expandRecs cfg fs fuel file upper a) (expandRecs cfg fs fuel file upper b) := by
  induction a with
  | nil => rw [List.nil_append, expandRecs_nil, seqExp_ok_nil]
  | cons r rs ih =>
    rw [List.cons_append, expandRecs_cons_seq, ih, expandRecs_cons_seq cfg fs fuel file upper r rs,
      seqExp_assoc]

theorem expandFiles_cons_seq (including : Str) (site : List (Str × Nat)) (g : Str)
    (names : List Str) :
    expandFiles cfg fs fuel including site (g :: names) =
      seqExp (expandFiles cfg fs fuel including site [g])
        (expandFiles cfg fs fuel including site names) := by
  rw [expandFiles_cons, expandFiles_cons, expandFiles_nil]
  cases parseFile cfg fs fuel g site with
  | error e => rfl
  | ok inner =>
    cases expandFiles cfg fs fuel including site names with
    | error e => rfl
    | ok more => simp [seqExp]

/-- **matches**: `expandFiles (a ++ b) = expandFiles a ; expandFiles b` -/
theorem expandFiles_append (including : Str) (site : List (Str × Nat)) (a b : List Str) :
    expandFiles cfg fs fuel including site (a ++ b) =
      seqExp (expandFiles cfg fs fuel including site a)
        (expandFiles cfg fs fuel including site b) := by
  induction a with
  | nil => rw [List.nil_append, expandFiles_nil, seqExp_ok_nil]
  | cons g names ih =>
    rw [List.cons_append, expandFiles_cons_seq, ih,
      expandFiles_cons_seq cfg fs fuel including site g names, seqExp_assoc]

/-- the first included file that fails decides the result of the include -/
theorem expandFiles_first_error (including : Str) (site : List (Str × Nat)) (pre post : List Str)
    (g : Str) (e : IFail) (o : List LRec)
    (hpre : expandFiles cfg fs fuel including site pre = .ok o)
    (hg : parseFile cfg fs fuel g site = .error e) :
    expandFiles cfg fs fuel including site (pre ++ g :: post) = .error e := by
  rw [expandFiles_append, hpre, expandFiles_cons, hg]; rfl

/-- the first record that fails decides the result of the file -/
theorem expandRecs_first_error (file : Str) (upper : List (Str × Nat)) (pre post : List Rec)
    (r : Rec) (e : IFail) (o : List LRec)
    (hpre : expandRecs cfg fs fuel file upper pre = .ok o)
    (hr : expandRecs cfg fs fuel file upper [r] = .error e) :
    expandRecs cfg fs fuel file upper (pre ++ r :: post) = .error e := by
  rw [expandRecs_append, hpre, expandRecs_cons_seq, hr]; rfl

end

end Slt
