/-
Unfolding equations and inversion lemmas for the include-expansion model (`Include.lean`):
`parseFile` / `expandRecs` / `expandFiles` are defined by well-founded recursion, so they do not
reduce definitionally; every later proof goes through the equations of this file.
-/
import SltVerif.Include
namespace Slt

theorem parseFile_zero (cfg : PCfg) (fs : Fs) (file : Str) (upper : List (Str × Nat)) :
    parseFile cfg fs 0 file upper = .error .outOfFuel := by
  rw [parseFile]

theorem parseFile_succ (cfg : PCfg) (fs : Fs) (fuel : Nat) (file : Str) (upper : List (Str × Nat)) :
    parseFile cfg fs (fuel + 1) file upper =
      match fs.read (normPath file) with
      | none => .error (missingKind fs file upper)
      | some script =>
        match parse cfg script with
        | .error f => .error (.parse f file upper)
        | .ok recs => expandRecs cfg fs fuel file upper recs := by
  rw [parseFile]; rfl

theorem expandRecs_nil (cfg : PCfg) (fs : Fs) (fuel : Nat) (file : Str) (upper : List (Str × Nat)) :
    expandRecs cfg fs fuel file upper [] = .ok [] := by
  rw [expandRecs]

theorem expandRecs_cons_incl (cfg : PCfg) (fs : Fs) (fuel : Nat) (file : Str)
    (upper : List (Str × Nat)) (line : Nat) (pattern : Str) (rs : List Rec) :
    expandRecs cfg fs fuel file upper (.incl line pattern :: rs) =
      if (glob fs (resolveInclude file pattern)).isEmpty then .error (.emptyInclude file line upper)
      else
        match expandFiles cfg fs fuel file ((file, line) :: upper)
            (glob fs (resolveInclude file pattern)) with
        | .error e => .error e
        | .ok inner =>
          match expandRecs cfg fs fuel file upper rs with
          | .error e => .error e
          | .ok rest => .ok (⟨.incl line pattern, file, upper⟩ :: inner ++ rest) := by
  rw [expandRecs]; rfl

theorem expandRecs_cons_other (cfg : PCfg) (fs : Fs) (fuel : Nat) (file : Str)
    (upper : List (Str × Nat)) (r : Rec) (rs : List Rec) (hr : ∀ l p, r ≠ .incl l p) :
    expandRecs cfg fs fuel file upper (r :: rs) =
      match expandRecs cfg fs fuel file upper rs with
      | .error e => .error e
      | .ok rest => .ok (⟨r, file, upper⟩ :: rest) := by
  cases r with
  | incl l p => exact absurd rfl (hr l p)
  | _ =>
    rw [expandRecs]
    · rfl
    · intro _ _ h; cases h

theorem expandFiles_nil (cfg : PCfg) (fs : Fs) (fuel : Nat) (including : Str)
    (site : List (Str × Nat)) :
    expandFiles cfg fs fuel including site [] = .ok [] := by
  rw [expandFiles]

theorem expandFiles_cons (cfg : PCfg) (fs : Fs) (fuel : Nat) (including : Str)
    (site : List (Str × Nat)) (f : Str) (rest : List Str) :
    expandFiles cfg fs fuel including site (f :: rest) =
      match parseFile cfg fs fuel f site with
      | .error e => .error e
      | .ok inner =>
        match expandFiles cfg fs fuel including site rest with
        | .error e => .error e
        | .ok more =>
          .ok (⟨.beginInclude f, including, site.drop 1⟩ :: inner ++
               ⟨.endInclude f, including, site.drop 1⟩ :: more) := by
  rw [expandFiles]; rfl
/-! ### inversion of successful runs -/

theorem parseFile_ok_inv {cfg : PCfg} {fs : Fs} {fuel : Nat} {file : Str} {upper : List (Str × Nat)}
    {out : List LRec} (h : parseFile cfg fs fuel file upper = .ok out) :
    ∃ fuel' script recs, fuel = fuel' + 1 ∧ fs.read (normPath file) = some script ∧
      parse cfg script = .ok recs ∧ expandRecs cfg fs fuel' file upper recs = .ok out := by
  cases fuel with
  | zero => rw [parseFile_zero] at h; cases h
  | succ n =>
    rw [parseFile_succ] at h
    cases hr : fs.read (normPath file) with
    | none => simp only [hr] at h; cases h
    | some script =>
      simp only [hr] at h
      cases hp : parse cfg script with
      | error e => simp only [hp] at h; cases h
      | ok recs => simp only [hp] at h; exact ⟨n, script, recs, rfl, rfl, hp, h⟩

theorem parseFile_ok_intro {cfg : PCfg} {fs : Fs} {fuel : Nat} {file : Str}
    {upper : List (Str × Nat)} {script : Str} {recs : List Rec}
    (hr : fs.read (normPath file) = some script) (hp : parse cfg script = .ok recs) :
    parseFile cfg fs (fuel + 1) file upper = expandRecs cfg fs fuel file upper recs := by
  rw [parseFile_succ]; simp only [hr, hp]

theorem expandRecs_incl_ok_inv {cfg : PCfg} {fs : Fs} {fuel : Nat} {file : Str}
    {upper : List (Str × Nat)} {line : Nat} {pat : Str} {rs : List Rec} {out : List LRec}
    (h : expandRecs cfg fs fuel file upper (.incl line pat :: rs) = .ok out) :
    glob fs (resolveInclude file pat) ≠ [] ∧
    ∃ inner rest,
      expandFiles cfg fs fuel file ((file, line) :: upper) (glob fs (resolveInclude file pat))
        = .ok inner ∧
      expandRecs cfg fs fuel file upper rs = .ok rest ∧
      out = ⟨.incl line pat, file, upper⟩ :: inner ++ rest := by
  rw [expandRecs_cons_incl] at h
  by_cases hg : (glob fs (resolveInclude file pat)).isEmpty = true
  · rw [if_pos hg] at h; cases h
  · rw [if_neg hg] at h
    refine ⟨fun he => hg (by rw [he]; rfl), ?_⟩
    cases hf : expandFiles cfg fs fuel file ((file, line) :: upper)
        (glob fs (resolveInclude file pat)) with
    | error e => rw [hf] at h; cases h
    | ok inner =>
      rw [hf] at h
      cases hr : expandRecs cfg fs fuel file upper rs with
      | error e => rw [hr] at h; cases h
      | ok rest =>
        rw [hr] at h
        injection h with h
        exact ⟨inner, rest, rfl, rfl, h.symm⟩

theorem expandRecs_other_ok_inv {cfg : PCfg} {fs : Fs} {fuel : Nat} {file : Str}
    {upper : List (Str × Nat)} {r : Rec} {rs : List Rec} {out : List LRec}
    (hr : ∀ l p, r ≠ .incl l p)
    (h : expandRecs cfg fs fuel file upper (r :: rs) = .ok out) :
    ∃ rest, expandRecs cfg fs fuel file upper rs = .ok rest ∧ out = ⟨r, file, upper⟩ :: rest := by
  rw [expandRecs_cons_other _ _ _ _ _ _ _ hr] at h
  cases hrs : expandRecs cfg fs fuel file upper rs with
  | error e => rw [hrs] at h; cases h
  | ok rest =>
    rw [hrs] at h
    injection h with h
    exact ⟨rest, rfl, h.symm⟩

theorem expandFiles_cons_ok_inv {cfg : PCfg} {fs : Fs} {fuel : Nat} {including : Str}
    {site : List (Str × Nat)} {f : Str} {names : List Str} {out : List LRec}
    (h : expandFiles cfg fs fuel including site (f :: names) = .ok out) :
    ∃ inner more, parseFile cfg fs fuel f site = .ok inner ∧
      expandFiles cfg fs fuel including site names = .ok more ∧
      out = ⟨.beginInclude f, including, site.drop 1⟩ :: inner ++
            ⟨.endInclude f, including, site.drop 1⟩ :: more := by
  rw [expandFiles_cons] at h
  cases hp : parseFile cfg fs fuel f site with
  | error e => rw [hp] at h; cases h
  | ok inner =>
    rw [hp] at h
    cases hm : expandFiles cfg fs fuel including site names with
    | error e => rw [hm] at h; cases h
    | ok more =>
      rw [hm] at h
      injection h with h
      exact ⟨inner, more, rfl, rfl, h.symm⟩

/-- a record is either an `include` or not (case split used by every induction over `expandRecs`) -/
theorem Rec.incl_or_not (r : Rec) : (∃ l p, r = .incl l p) ∨ (∀ l p, r ≠ .incl l p) := by
  cases r with
  | incl l p => exact .inl ⟨l, p, rfl⟩
  | _ => exact .inr (fun _ _ h => by cases h)

end Slt
