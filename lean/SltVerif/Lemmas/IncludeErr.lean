/-
Errors of an expansion: the first failing step decides, and the error carries the file and the
chain of include sites of the place where it happened.
-/
import SltVerif.Lemmas.IncludeLoc
namespace Slt

section inv
variable {cfg : PCfg} {fs : Fs}

theorem parseFile_error_inv {fuel : Nat} {file : Str} {upper : List (Str × Nat)} {e : IFail}
    (h : parseFile cfg fs fuel file upper = .error e) :
    (fuel = 0 ∧ e = .outOfFuel) ∨
    ∃ n, fuel = n + 1 ∧
      ((fs.read (normPath file) = none ∧ e = missingKind fs file upper) ∨
       ∃ script, fs.read (normPath file) = some script ∧
        ((∃ pf, parse cfg script = .error pf ∧ e = .parse pf file upper) ∨
         ∃ recs, parse cfg script = .ok recs ∧ expandRecs cfg fs n file upper recs = .error e)) := by
  cases fuel with
  | zero => rw [parseFile_zero] at h; injection h with h; exact .inl ⟨rfl, h.symm⟩
  | succ n =>
    refine .inr ⟨n, rfl, ?_⟩
    rw [parseFile_succ] at h
    cases hr : fs.read (normPath file) with
    | none => simp only [hr] at h; injection h with h; exact .inl ⟨rfl, h.symm⟩
    | some script =>
      simp only [hr] at h
      refine .inr ⟨script, rfl, ?_⟩
      cases hp : parse cfg script with
      | error pf => simp only [hp] at h; injection h with h; exact .inl ⟨pf, rfl, h.symm⟩
      | ok recs => simp only [hp] at h; exact .inr ⟨recs, rfl, h⟩

theorem expandFiles_cons_error_inv {fuel : Nat} {including : Str} {site : List (Str × Nat)}
    {g : Str} {names : List Str} {e : IFail}
    (h : expandFiles cfg fs fuel including site (g :: names) = .error e) :
    parseFile cfg fs fuel g site = .error e ∨
    ∃ inner, parseFile cfg fs fuel g site = .ok inner ∧
      expandFiles cfg fs fuel including site names = .error e := by
  rw [expandFiles_cons] at h
  cases hp : parseFile cfg fs fuel g site with
  | error e' => rw [hp] at h; injection h with h; subst h; exact .inl rfl
  | ok inner =>
    rw [hp] at h
    refine .inr ⟨inner, rfl, ?_⟩
    cases hm : expandFiles cfg fs fuel including site names with
    | error e' => rw [hm] at h; injection h with h; subst h; rfl
    | ok more => rw [hm] at h; cases h

theorem expandRecs_incl_error_inv {fuel : Nat} {file : Str} {upper : List (Str × Nat)}
    {line : Nat} {pat : Str} {rs : List Rec} {e : IFail}
    (h : expandRecs cfg fs fuel file upper (.incl line pat :: rs) = .error e) :
    (glob fs (resolveInclude file pat) = [] ∧ e = .emptyInclude file line upper) ∨
    (glob fs (resolveInclude file pat) ≠ [] ∧
      (expandFiles cfg fs fuel file ((file, line) :: upper) (glob fs (resolveInclude file pat))
          = .error e ∨
       ∃ inner,
        expandFiles cfg fs fuel file ((file, line) :: upper) (glob fs (resolveInclude file pat))
          = .ok inner ∧
        expandRecs cfg fs fuel file upper rs = .error e)) := by
  rw [expandRecs_cons_incl] at h
  by_cases hg : (glob fs (resolveInclude file pat)).isEmpty = true
  · rw [if_pos hg] at h; injection h with h
    exact .inl ⟨List.isEmpty_iff.1 hg, h.symm⟩
  · rw [if_neg hg] at h
    refine .inr ⟨fun he => hg (List.isEmpty_iff.2 he), ?_⟩
    cases hf : expandFiles cfg fs fuel file ((file, line) :: upper)
        (glob fs (resolveInclude file pat)) with
    | error e' => rw [hf] at h; injection h with h; subst h; exact .inl rfl
    | ok inner =>
      rw [hf] at h
      refine .inr ⟨inner, rfl, ?_⟩
      cases hr : expandRecs cfg fs fuel file upper rs with
      | error e' => rw [hr] at h; injection h with h; subst h; rfl
      | ok rest => rw [hr] at h; cases h

theorem expandRecs_other_error_inv {fuel : Nat} {file : Str} {upper : List (Str × Nat)}
    {r : Rec} {rs : List Rec} {e : IFail} (hr : ∀ l p, r ≠ .incl l p)
    (h : expandRecs cfg fs fuel file upper (r :: rs) = .error e) :
    expandRecs cfg fs fuel file upper rs = .error e := by
  rw [expandRecs_cons_other _ _ _ _ _ _ _ hr] at h
  cases hrs : expandRecs cfg fs fuel file upper rs with
  | error e' => rw [hrs] at h; injection h with h; subst h; rfl
  | ok rest => rw [hrs] at h; cases h

end inv

/-- error `e` happened at file `g` whose chain of include sites is `chain` -/
def ErrAt (cfg : PCfg) (fs : Fs) (g : Str) (chain : List (Str × Nat)) (e : IFail) : Prop :=
  (fs.read (normPath g) = none ∧ e = missingKind fs g chain) ∨
  (∃ script pf, fs.read (normPath g) = some script ∧ parse cfg script = .error pf ∧
      e = .parse pf g chain) ∨
  (∃ script recs l pat, fs.read (normPath g) = some script ∧ parse cfg script = .ok recs ∧
      .incl l pat ∈ recs ∧ glob fs (resolveInclude g pat) = [] ∧ e = .emptyInclude g l chain)

/-- error `e` of a run with `fuel` is located somewhere below the root `(f, upper)`; running out
    of fuel means that there is a chain of `fuel` nested include sites -/
def ErrBelow (cfg : PCfg) (fs : Fs) (fuel : Nat) (f : Str) (upper : List (Str × Nat))
    (e : IFail) : Prop :=
  (e = .outOfFuel ∧
    ∃ g chain, Reach cfg fs f upper g chain ∧ chain.length = upper.length + fuel) ∨
  ∃ g chain, Reach cfg fs f upper g chain ∧ ErrAt cfg fs g chain e

theorem ErrBelow.lift {cfg : PCfg} {fs : Fs} {fuel : Nat} {f g : Str} {upper : List (Str × Nat)}
    {l : Nat} {e : IFail} (hs : IncludeSite cfg fs f l g)
    (h : ErrBelow cfg fs fuel g ((f, l) :: upper) e) : ErrBelow cfg fs (fuel + 1) f upper e := by
  rcases h with ⟨h, g', chain, hr, hl⟩ | ⟨g', chain, hr, he⟩
  · refine .inl ⟨h, g', chain, Reach.trans (.step .root hs) hr, ?_⟩
    rw [hl, List.length_cons]; omega
  · exact .inr ⟨g', chain, Reach.trans (.step .root hs) hr, he⟩

section located
variable {cfg : PCfg} {fs : Fs}

theorem expandFiles_error_located {fuel : Nat}
    (hF : ∀ g site e, parseFile cfg fs fuel g site = .error e → ErrBelow cfg fs fuel g site e)
    {including : Str} {line : Nat} {upper : List (Str × Nat)} {script : Str} {all : List Rec}
    {pat : Str} (hrd : fs.read (normPath including) = some script)
    (hp : parse cfg script = .ok all) (hin : .incl line pat ∈ all) :
    ∀ names e, (∀ h ∈ names, h ∈ glob fs (resolveInclude including pat)) →
      expandFiles cfg fs fuel including ((including, line) :: upper) names = .error e →
      ErrBelow cfg fs (fuel + 1) including upper e := by
  intro names
  induction names with
  | nil => intro e _ h; rw [expandFiles_nil] at h; cases h
  | cons g names ih =>
    intro e hsub h
    rcases expandFiles_cons_error_inv h with h | ⟨_, _, h⟩
    · exact ErrBelow.lift ⟨script, all, pat, hrd, hp, hin, hsub _ List.mem_cons_self⟩ (hF _ _ _ h)
    · exact ih e (fun h hh => hsub h (List.mem_cons_of_mem _ hh)) h

theorem expandRecs_error_located {fuel : Nat}
    (hF : ∀ g site e, parseFile cfg fs fuel g site = .error e → ErrBelow cfg fs fuel g site e)
    {file : Str} {upper : List (Str × Nat)} {script : Str} {all : List Rec}
    (hrd : fs.read (normPath file) = some script) (hp : parse cfg script = .ok all) :
    ∀ recs e, (∀ r ∈ recs, r ∈ all) → expandRecs cfg fs fuel file upper recs = .error e →
      ErrBelow cfg fs (fuel + 1) file upper e := by
  intro recs
  induction recs with
  | nil => intro e _ h; rw [expandRecs_nil] at h; cases h
  | cons r rs ih =>
    intro e hsub h
    have hsub' : ∀ r ∈ rs, r ∈ all := fun r h => hsub r (List.mem_cons_of_mem _ h)
    rcases Rec.incl_or_not r with ⟨l, p, rfl⟩ | hr
    · have hin : Rec.incl l p ∈ all := hsub _ List.mem_cons_self
      rcases expandRecs_incl_error_inv h with ⟨hg, rfl⟩ | ⟨_, h | ⟨_, _, h⟩⟩
      · exact .inr ⟨file, upper, .root, .inr (.inr ⟨script, all, l, p, hrd, hp, hin, hg, rfl⟩)⟩
      · exact expandFiles_error_located hF hrd hp hin _ _ (fun _ hh => hh) h
      · exact ih e hsub' h
    · exact ih e hsub' (expandRecs_other_error_inv hr h)

/-- **Every error is located**: a failing `parseFile` reports a missing file / a parse error / an
    include without match at a file reachable through include sites, with exactly that file and
    chain — or it ran out of fuel, and then there are `fuel` nested include sites below the root. -/
theorem parseFile_error_located :
    ∀ (fuel : Nat) (f : Str) (upper : List (Str × Nat)) (e : IFail),
      parseFile cfg fs fuel f upper = .error e → ErrBelow cfg fs fuel f upper e := by
  intro fuel
  induction fuel with
  | zero =>
    intro f upper e h
    rw [parseFile_zero] at h; injection h with h
    exact .inl ⟨h.symm, f, upper, .root, rfl⟩
  | succ n ih =>
    intro f upper e h
    rcases parseFile_error_inv h with ⟨h0, _⟩ | ⟨n', hn, h⟩
    · cases h0
    · cases hn
      rcases h with ⟨hrd, rfl⟩ | ⟨script, hrd, ⟨pf, hp, rfl⟩ | ⟨recs, hp, h⟩⟩
      · exact .inr ⟨f, upper, .root, .inl ⟨hrd, rfl⟩⟩
      · exact .inr ⟨f, upper, .root, .inr (.inl ⟨script, pf, hrd, hp, rfl⟩)⟩
      · exact expandRecs_error_located ih hrd hp _ _ (fun _ hh => hh) h

theorem ErrAt.ne_outOfFuel {g : Str} {chain : List (Str × Nat)} {e : IFail}
    (h : ErrAt cfg fs g chain e) : e ≠ .outOfFuel := by
  rcases h with ⟨_, rfl⟩ | ⟨_, _, _, _, rfl⟩ | ⟨_, _, _, _, _, _, _, _, rfl⟩
  · intro h; unfold missingKind at h; split at h <;> cases h
  · intro h; cases h
  · intro h; cases h

/-- **Enough fuel**: if every chain of include sites below the root is shorter than `fuel`, the
    run does not end with `outOfFuel`. -/
theorem parseFile_fuel_suffices {fuel : Nat} {f : Str} {upper : List (Str × Nat)}
    (hdepth : ∀ g chain, Reach cfg fs f upper g chain → chain.length < upper.length + fuel) :
    parseFile cfg fs fuel f upper ≠ .error .outOfFuel := by
  intro h
  rcases parseFile_error_located fuel f upper _ h with ⟨_, g, chain, hr, hl⟩ | ⟨g, chain, _, he⟩
  · have := hdepth g chain hr; omega
  · exact he.ne_outOfFuel rfl

/-- along include sites a strictly decreasing rank bounds the depth -/
theorem Reach.depth_le_rank {rank : Str → Nat}
    (hrank : ∀ g l h, IncludeSite cfg fs g l h → rank h < rank g)
    {f g : Str} {upper chain : List (Str × Nat)} (h : Reach cfg fs f upper g chain) :
    chain.length + rank g ≤ upper.length + rank f := by
  induction h with
  | root => exact Nat.le_refl _
  | step _ hs ih =>
    have := hrank _ _ _ hs
    rw [List.length_cons]; omega

/-- **Acyclic includes never run out of fuel**: if some rank strictly decreases from every
    including file to every file it includes (the include graph is a DAG of height `rank f`),
    fuel above the rank of the root is enough. -/
theorem parseFile_fuel_suffices_rank {rank : Str → Nat}
    (hrank : ∀ g l h, IncludeSite cfg fs g l h → rank h < rank g)
    {fuel : Nat} {f : Str} {upper : List (Str × Nat)} (hf : rank f < fuel) :
    parseFile cfg fs fuel f upper ≠ .error .outOfFuel :=
  parseFile_fuel_suffices (fun g chain hr => by
    have := hr.depth_le_rank hrank; omega)

end located

end Slt
