/-
A concrete file tree used by the tests (`#guard`) and examples of `Props/C14.lean`.

    main.slt      include sub/*.slt ; halt
    sub/a.slt     include ../leaf.slt ; subtest a
    sub/b.slt     subtest b
    sub/c.txt     (not matched by *.slt)
    leaf.slt      halt
    bad.slt       include nothing-*.slt
    top.slt       include leaf.slt ; halt          (literal pattern only: kernel-reducible)
-/
import SltVerif.Include
namespace Slt.IncludeExample
open Slt

def cfg : PCfg := ⟨fun _ => true, ColT.fromCharDefault⟩

def tree : Fs := [
  (kw "main.slt", kw "include sub/*.slt\nhalt\n"),
  (kw "sub/b.slt", kw "subtest b\n"),
  (kw "sub/a.slt", kw "include ../leaf.slt\nsubtest a\n"),
  (kw "sub/c.txt", kw "garbage"),
  (kw "leaf.slt", kw "halt\n"),
  (kw "bad.slt", kw "include nothing-*.slt\n"),
  (kw "broken.slt", kw "include sub/c.txt\n"),
  (kw "top.slt", kw "include leaf.slt\nhalt\n")]

/-- directory names where the order of the path strings differs from the `Path` order -/
def tree2 : Fs := [
  (kw "a-b/x.slt", kw "halt\n"),
  (kw "a/y.slt", kw "halt\n"),
  (kw "a/x.slt", kw "halt\n")]

/-- the expected expansion of `main.slt` -/
def mainExpansion : List LRec :=
  let m := kw "main.slt"
  let a := kw "sub/a.slt"
  let b := kw "sub/b.slt"
  let l := kw "sub/../leaf.slt"
  [ ⟨.incl 1 (kw "sub/*.slt"), m, []⟩,
    ⟨.beginInclude a, m, []⟩,
      ⟨.incl 1 (kw "../leaf.slt"), a, [(m, 1)]⟩,
      ⟨.beginInclude l, a, [(m, 1)]⟩,
        ⟨.halt 1, l, [(a, 1), (m, 1)]⟩,
      ⟨.endInclude l, a, [(m, 1)]⟩,
      ⟨.subtest 2 (kw "a"), a, [(m, 1)]⟩,
    ⟨.endInclude a, m, []⟩,
    ⟨.beginInclude b, m, []⟩,
      ⟨.subtest 1 (kw "b"), b, [(m, 1)]⟩,
    ⟨.endInclude b, m, []⟩,
    ⟨.halt 2, m, []⟩ ]

/-- decidable equality of parse / expansion results (for `#guard` / `decide` in the tests) -/
instance decEqExcept {ε α : Type} [DecidableEq ε] [DecidableEq α] : DecidableEq (Except ε α) := fun a b =>
  match a, b with
  | .ok x, .ok y => if h : x = y then isTrue (by rw [h]) else isFalse (fun e => by cases e; exact h rfl)
  | .error x, .error y =>
    if h : x = y then isTrue (by rw [h]) else isFalse (fun e => by cases e; exact h rfl)
  | .ok _, .error _ => isFalse (fun e => by cases e)
  | .error _, .ok _ => isFalse (fun e => by cases e)

/-- the expected expansion of `top.slt` -/
def topExpansion : List LRec :=
  let t := kw "top.slt"
  let l := kw "leaf.slt"
  [ ⟨.incl 1 l, t, []⟩,
    ⟨.beginInclude l, t, []⟩,
      ⟨.halt 1, l, [(t, 1)]⟩,
    ⟨.endInclude l, t, []⟩,
    ⟨.halt 2, t, []⟩ ]

end Slt.IncludeExample
