/-
The reference relation `Spliced` and the explicit flattening `spliceRef` describe the same lists
(fuel-free form of `expandRecs_eq_spliceRef`).
-/
import SltVerif.Lemmas.IncludeFuel
namespace Slt

variable {cfg : PCfg} {fs : Fs}

/-- every reference splicing of a record list is the flattening over the reference splicings of
    the included files -/
theorem Spliced.flatten {file : Str} {upper : List (Str × Nat)} {recs : List Rec}
    {out : List LRec} (h : Spliced cfg fs (.recs file upper recs) out) :
    ∃ sub : Str → List (Str × Nat) → List LRec,
      out = spliceRef fs sub file upper recs ∧
      ∀ line pat, .incl line pat ∈ recs →
        glob fs (resolveInclude file pat) ≠ [] ∧
        ∀ g ∈ glob fs (resolveInclude file pat),
          Spliced cfg fs (.file g ((file, line) :: upper)) (sub g ((file, line) :: upper)) := by
  obtain ⟨fuel, hf⟩ := h.complete
  obtain ⟨e1, e2⟩ := expandRecs_eq_spliceRef (show expandRecs cfg fs fuel file upper recs = _ from hf)
  refine ⟨expansionOf cfg fs fuel, e1, ?_⟩
  intro line pat hm
  obtain ⟨hne, hs⟩ := e2 line pat hm
  exact ⟨hne, fun g hg => spliced_of_parseFile _ _ _ _ (hs g hg)⟩

theorem spliced_files_of_sub {sub : Str → List (Str × Nat) → List LRec} {file : Str} {line : Nat}
    {upper : List (Str × Nat)} :
    ∀ names : List Str,
      (∀ g ∈ names, Spliced cfg fs (.file g ((file, line) :: upper)) (sub g ((file, line) :: upper))) →
      Spliced cfg fs (.files file line upper names)
        (names.flatMap (fun g => bracket file upper g (sub g ((file, line) :: upper)))) := by
  intro names
  induction names with
  | nil => intro _; exact .filesNil
  | cons g names ih =>
    intro h
    have h1 := h g List.mem_cons_self
    have h2 := ih (fun g' hg' => h g' (List.mem_cons_of_mem _ hg'))
    have := Spliced.filesCons h1 h2
    rw [List.flatMap_cons]
    simpa [bracket] using this

/-- conversely, the flattening over reference splicings of the included files is a reference
    splicing, provided every include has a match -/
theorem spliced_of_spliceRef {sub : Str → List (Str × Nat) → List LRec} {file : Str}
    {upper : List (Str × Nat)} :
    ∀ recs : List Rec,
      (∀ line pat, .incl line pat ∈ recs →
        glob fs (resolveInclude file pat) ≠ [] ∧
        ∀ g ∈ glob fs (resolveInclude file pat),
          Spliced cfg fs (.file g ((file, line) :: upper)) (sub g ((file, line) :: upper))) →
      Spliced cfg fs (.recs file upper recs) (spliceRef fs sub file upper recs) := by
  intro recs
  induction recs with
  | nil => intro _; exact .recsNil
  | cons r rs ih =>
    intro h
    have h2 := ih (fun line pat hm => h line pat (List.mem_cons_of_mem _ hm))
    unfold spliceRef at h2 ⊢
    rw [List.flatMap_cons]
    rcases Rec.incl_or_not r with ⟨l, p, rfl⟩ | hr
    · obtain ⟨hne, hs⟩ := h l p List.mem_cons_self
      have := Spliced.recsIncl hne (spliced_files_of_sub _ hs) h2
      simpa [spliceOne] using this
    · rw [spliceOne_other hr]
      exact .recsOther hr h2

end Slt
