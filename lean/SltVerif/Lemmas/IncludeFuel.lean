/-
Fuel is irrelevant for successful expansions: more fuel gives the same result, and every
derivation of the reference relation `Spliced` is realised by the model with enough fuel.
-/
import SltVerif.Lemmas.IncludeSplice
namespace Slt

section mono
variable {cfg : PCfg} {fs : Fs}

theorem expandFiles_mono {n m : Nat}
    (hF : ∀ g site out, parseFile cfg fs n g site = .ok out → parseFile cfg fs m g site = .ok out)
    (including : Str) (site : List (Str × Nat)) :
    ∀ names out, expandFiles cfg fs n including site names = .ok out →
      expandFiles cfg fs m including site names = .ok out := by
  intro names
  induction names with
  | nil => intro out h; rw [expandFiles_nil] at h ⊢; exact h
  | cons g names ih =>
    intro out h
    obtain ⟨inner, more, h1, h2, rfl⟩ := expandFiles_cons_ok_inv h
    rw [expandFiles_cons, hF _ _ _ h1, ih _ h2]

theorem expandRecs_mono {n m : Nat}
    (hF : ∀ g site out, parseFile cfg fs n g site = .ok out → parseFile cfg fs m g site = .ok out)
    (file : Str) (upper : List (Str × Nat)) :
    ∀ recs out, expandRecs cfg fs n file upper recs = .ok out →
      expandRecs cfg fs m file upper recs = .ok out := by
  intro recs
  induction recs with
  | nil => intro out h; rw [expandRecs_nil] at h ⊢; exact h
  | cons r rs ih =>
    intro out h
    rcases Rec.incl_or_not r with ⟨l, p, rfl⟩ | hr
    · obtain ⟨hne, inner, rest, h1, h2, rfl⟩ := expandRecs_incl_ok_inv h
      have hne' : ¬ (glob fs (resolveInclude file p)).isEmpty = true := by
        intro he; exact hne (List.isEmpty_iff.1 he)
      rw [expandRecs_cons_incl, if_neg hne', expandFiles_mono hF _ _ _ _ h1, ih _ h2]
    · obtain ⟨rest, h1, rfl⟩ := expandRecs_other_ok_inv hr h
      rw [expandRecs_cons_other _ _ _ _ _ _ _ hr, ih _ h1]

/-- a successful `parseFile` run gives the same result with any larger fuel -/
theorem parseFile_mono :
    ∀ (n m : Nat), n ≤ m → ∀ (f : Str) (upper : List (Str × Nat)) (out : List LRec),
      parseFile cfg fs n f upper = .ok out → parseFile cfg fs m f upper = .ok out := by
  intro n
  induction n with
  | zero => intro m _ f upper out h; rw [parseFile_zero] at h; cases h
  | succ n ih =>
    intro m hm f upper out h
    obtain ⟨n', script, recs, hn, hr, hp, he⟩ := parseFile_ok_inv h
    cases hn
    obtain ⟨m', rfl⟩ : ∃ m', m = m' + 1 := ⟨m - 1, by omega⟩
    rw [parseFile_ok_intro hr hp]
    exact expandRecs_mono (ih m' (by omega)) _ _ _ _ he

theorem expandRecs_mono' {n m : Nat} (hnm : n ≤ m) {file : Str} {upper : List (Str × Nat)}
    {recs : List Rec} {out : List LRec} (h : expandRecs cfg fs n file upper recs = .ok out) :
    expandRecs cfg fs m file upper recs = .ok out :=
  expandRecs_mono (parseFile_mono n m hnm) _ _ _ _ h

theorem expandFiles_mono' {n m : Nat} (hnm : n ≤ m) {including : Str} {site : List (Str × Nat)}
    {names : List Str} {out : List LRec}
    (h : expandFiles cfg fs n including site names = .ok out) :
    expandFiles cfg fs m including site names = .ok out :=
  expandFiles_mono (parseFile_mono n m hnm) _ _ _ _ h

end mono

/-- the model run that corresponds to a job -/
def Job.run (cfg : PCfg) (fs : Fs) (fuel : Nat) : Job → Except IFail (List LRec)
  | .file f upper => parseFile cfg fs fuel f upper
  | .recs fl upper rs => expandRecs cfg fs fuel fl upper rs
  | .files including line upper names =>
    expandFiles cfg fs fuel including ((including, line) :: upper) names

theorem Job.run_mono {cfg : PCfg} {fs : Fs} {n m : Nat} (hnm : n ≤ m) {j : Job} {out : List LRec}
    (h : j.run cfg fs n = .ok out) : j.run cfg fs m = .ok out := by
  cases j with
  | file f upper => exact parseFile_mono n m hnm _ _ _ h
  | recs file upper recs => exact expandRecs_mono' hnm h
  | files including line upper names => exact expandFiles_mono' hnm h

/-- soundness, uniformly over jobs -/
theorem Job.spliced_of_run {cfg : PCfg} {fs : Fs} {fuel : Nat} {j : Job} {out : List LRec}
    (h : j.run cfg fs fuel = .ok out) : Spliced cfg fs j out := by
  cases j with
  | file f upper => exact spliced_of_parseFile _ _ _ _ h
  | recs file upper recs => exact spliced_of_expandRecs' h
  | files including line upper names => exact spliced_of_expandFiles' h

/-- **Completeness**: every reference splicing is computed by the model with enough fuel
    (the derivation is finite, i.e. the include structure below the job is acyclic). -/
theorem Spliced.complete {cfg : PCfg} {fs : Fs} {j : Job} {out : List LRec}
    (h : Spliced cfg fs j out) : ∃ fuel, j.run cfg fs fuel = .ok out := by
  induction h with
  | file hr hp _ ih =>
    obtain ⟨n, hn⟩ := ih
    exact ⟨n + 1, by simp only [Job.run] at hn ⊢; rw [parseFile_ok_intro hr hp]; exact hn⟩
  | recsNil => exact ⟨0, by simp only [Job.run]; rw [expandRecs_nil]⟩
  | recsOther hr _ ih =>
    obtain ⟨n, hn⟩ := ih
    refine ⟨n, ?_⟩
    simp only [Job.run] at hn ⊢
    rw [expandRecs_cons_other _ _ _ _ _ _ _ hr, hn]
  | @recsIncl file upper line pat rs inner rest hne _ _ ih1 ih2 =>
    obtain ⟨n1, hn1⟩ := ih1
    obtain ⟨n2, hn2⟩ := ih2
    refine ⟨max n1 n2, ?_⟩
    have h1 := Job.run_mono (Nat.le_max_left n1 n2) hn1
    have h2 := Job.run_mono (Nat.le_max_right n1 n2) hn2
    simp only [Job.run] at h1 h2 ⊢
    have hne' : ¬ (glob fs (resolveInclude file pat)).isEmpty = true := by
      intro he; exact hne (List.isEmpty_iff.1 he)
    rw [expandRecs_cons_incl, if_neg hne', h1, h2]
  | filesNil => exact ⟨0, by simp only [Job.run]; rw [expandFiles_nil]⟩
  | filesCons _ _ ih1 ih2 =>
    obtain ⟨n1, hn1⟩ := ih1
    obtain ⟨n2, hn2⟩ := ih2
    refine ⟨max n1 n2, ?_⟩
    have h1 := Job.run_mono (Nat.le_max_left n1 n2) hn1
    have h2 := Job.run_mono (Nat.le_max_right n1 n2) hn2
    simp only [Job.run] at h1 h2 ⊢
    rw [expandFiles_cons, h1, h2]
    rfl

/-- the model computes exactly the reference relation -/
theorem spliced_iff_run {cfg : PCfg} {fs : Fs} {j : Job} {out : List LRec} :
    Spliced cfg fs j out ↔ ∃ fuel, j.run cfg fs fuel = .ok out :=
  ⟨Spliced.complete, fun ⟨_, h⟩ => Job.spliced_of_run h⟩

/-- two successful runs agree whatever their fuel -/
theorem Job.run_agree {cfg : PCfg} {fs : Fs} {j : Job} {n m : Nat} {o₁ o₂ : List LRec}
    (h₁ : j.run cfg fs n = .ok o₁) (h₂ : j.run cfg fs m = .ok o₂) : o₁ = o₂ :=
  Spliced.det (Job.spliced_of_run h₁) (Job.spliced_of_run h₂)

end Slt
