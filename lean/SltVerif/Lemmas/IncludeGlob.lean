/-
Order of the matches of a wildcard component: `Fs.entries` is sorted (and free of duplicates), so
one `globStep` over a single directory lists its matches in strictly ascending path order, and
every listed path is the directory joined with an entry that matches the component.
-/
import SltVerif.Include
import SltVerif.Lemmas.IncludePath
namespace Slt

theorem strLe_trans (a b c : Str) (h1 : strLe a b = true) (h2 : strLe b c = true) :
    strLe a c = true := by
  unfold strLe at *
  rw [decide_eq_true_eq] at *
  exact List.le_trans h1 h2

theorem strLe_total (a b : Str) : (strLe a b || strLe b a) = true := by
  unfold strLe
  rw [Bool.or_eq_true, decide_eq_true_eq, decide_eq_true_eq]
  exact List.le_total a b

theorem mem_dedup {a : Str} {l : List Str} : a ∈ dedup l ↔ a ∈ l := by
  induction l with
  | nil => simp [dedup]
  | cons b rest ih =>
    unfold dedup
    split
    · rename_i hc
      rw [ih, List.mem_cons]
      constructor
      · exact .inr
      · rintro (rfl | h)
        · exact List.contains_iff_mem.1 hc
        · exact h
    · rw [List.mem_cons, List.mem_cons, ih]

theorem dedup_nodup (l : List Str) : (dedup l).Nodup := by
  induction l with
  | nil => simp [dedup]
  | cons b rest ih =>
    unfold dedup
    split
    · exact ih
    · rename_i hc
      refine List.nodup_cons.2 ⟨?_, ih⟩
      intro hm
      exact hc (List.contains_iff_mem.2 (mem_dedup.1 hm))

/-- the directory listing is in ascending order … -/
theorem entries_sorted (fs : Fs) (d : Str) :
    (fs.entries d).Pairwise (fun a b => strLe a b = true) := by
  unfold Fs.entries
  exact List.pairwise_mergeSort strLe_trans strLe_total _

/-- … and lists every name once -/
theorem entries_nodup (fs : Fs) (d : Str) : (fs.entries d).Nodup := by
  unfold Fs.entries
  exact (List.mergeSort_perm _ _).nodup_iff.2 (dedup_nodup _)

theorem entries_strictSorted (fs : Fs) (d : Str) : (fs.entries d).Pairwise (· < ·) := by
  have h := (entries_sorted fs d).and (List.nodup_iff_pairwise_ne.1 (entries_nodup fs d))
  refine h.imp ?_
  intro a b ⟨hle, hne⟩
  unfold strLe at hle
  rw [decide_eq_true_eq] at hle
  exact Std.lt_of_le_of_ne hle hne

/-- joining with the directory keeps the order of the names -/
theorem joinPath_lt (d a b : Str) (h : a < b) : joinPath d a < joinPath d b := by
  unfold joinPath
  split
  · exact h
  · have h' : ['/'] ++ a < ['/'] ++ b := List.append_left_lt h
    exact List.append_left_lt h'

theorem globStep_single_wild (fs : Fs) (d c : Str) (hc : hasMeta c = true) :
    globStep fs [d] c = ((fs.entries d).filter (wildMatch c)).map (joinPath d) := by
  unfold globStep
  rw [List.flatMap_singleton, if_pos hc]

theorem globStep_single_lit (fs : Fs) (d c : Str) (hc : hasMeta c = false) :
    globStep fs [d] c = if fs.pathExists (joinPath d c) then [joinPath d c] else [] := by
  unfold globStep
  rw [List.flatMap_singleton, if_neg (by rw [hc]; decide)]

/-- **Matches of one wildcard component come in strictly ascending path order.** -/
theorem globStep_wild_sorted (fs : Fs) (d c : Str) (hc : hasMeta c = true) :
    (globStep fs [d] c).Pairwise (· < ·) := by
  rw [globStep_single_wild fs d c hc]
  exact ((entries_strictSorted fs d).filter _).map _ (fun a b h => joinPath_lt d a b h)

theorem globStep_wild_sorted_le (fs : Fs) (d c : Str) (hc : hasMeta c = true) :
    (globStep fs [d] c).Pairwise (fun a b => strLe a b = true) := by
  refine (globStep_wild_sorted fs d c hc).imp ?_
  intro a b h
  unfold strLe
  rw [decide_eq_true_eq]
  exact Std.le_of_lt h

/-- every listed path is `d/name` for an entry `name` of `d` that matches the component, and
    every such entry is listed -/
theorem mem_globStep_wild (fs : Fs) (d c p : Str) (hc : hasMeta c = true) :
    p ∈ globStep fs [d] c ↔
      ∃ name, name ∈ fs.entries d ∧ wildMatch c name = true ∧ p = joinPath d name := by
  rw [globStep_single_wild fs d c hc, List.mem_map]
  constructor
  · rintro ⟨name, hm, rfl⟩
    rw [List.mem_filter] at hm
    exact ⟨name, hm.1, hm.2, rfl⟩
  · rintro ⟨name, h1, h2, rfl⟩
    exact ⟨name, List.mem_filter.2 ⟨h1, h2⟩, rfl⟩

/-! ### whole patterns: literal directories followed by one wildcard component -/

theorem globStep_nil (fs : Fs) (c : Str) : globStep fs [] c = [] := rfl

theorem globStep_lit_length (fs : Fs) (ps : List Str) (c : Str) (hc : hasMeta c = false)
    (h : ps.length ≤ 1) : (globStep fs ps c).length ≤ 1 := by
  match ps, h with
  | [], _ => simp [globStep_nil]
  | [d], _ =>
    rw [globStep_single_lit fs d c hc]
    split <;> simp

theorem foldl_globStep_lit_length (fs : Fs) (cs : List Str) :
    ∀ ps : List Str, (∀ c ∈ cs, hasMeta c = false) → ps.length ≤ 1 →
      (cs.foldl (globStep fs) ps).length ≤ 1 := by
  induction cs with
  | nil => intro ps _ h; exact h
  | cons c cs ih =>
    intro ps hcs h
    rw [List.foldl_cons]
    exact ih _ (fun x hx => hcs x (List.mem_cons_of_mem _ hx))
      (globStep_lit_length fs ps c (hcs c List.mem_cons_self) h)

/-- a pattern without metacharacters has at most one match -/
theorem glob_literal_length (fs : Fs) (pattern : Str)
    (h : ∀ c ∈ splitSlash pattern, hasMeta c = false) : (glob fs pattern).length ≤ 1 :=
  foldl_globStep_lit_length fs _ _ h (by simp)

/-- **`literal/…/literal/wildcard`: the matches come in strictly ascending path order** -/
theorem glob_last_wild_sorted (fs : Fs) (pattern : Str) (cs : List Str) (c : Str)
    (hsplit : splitSlash pattern = cs ++ [c]) (hlit : ∀ x ∈ cs, hasMeta x = false)
    (hc : hasMeta c = true) : (glob fs pattern).Pairwise (· < ·) := by
  unfold glob
  rw [hsplit, List.foldl_append, List.foldl_cons, List.foldl_nil]
  have hlen := foldl_globStep_lit_length fs cs [[]] hlit (by simp)
  match hps : cs.foldl (globStep fs) [[]], hlen with
  | [], _ => rw [globStep_nil]; exact List.Pairwise.nil
  | [d], _ => exact globStep_wild_sorted fs d c hc

/-- the usual shape `include dir/*.slt` -/
theorem glob_dir_wild_sorted (fs : Fs) (d c : Str) (hd : ∀ x ∈ splitSlash d, hasMeta x = false)
    (hs : '/' ∉ c) (hc : hasMeta c = true) : (glob fs (d ++ '/' :: c)).Pairwise (· < ·) :=
  glob_last_wild_sorted fs _ (splitSlash d) c (splitSlash_append_slash d c hs) hd hc

/-- a single wildcard component (`include *.slt` from the current directory) -/
theorem glob_wild_sorted (fs : Fs) (c : Str) (hs : '/' ∉ c) (hc : hasMeta c = true) :
    (glob fs c).Pairwise (· < ·) :=
  glob_last_wild_sorted fs c [] c (by rw [splitSlash_noSlash c hs]; rfl) (fun _ h => by cases h) hc

/-! ### sanity lemmas on `wildMatch` -/

theorem wildMatchStar_nil (ss full : Str) : wildMatch.wildMatchStar [] ss full = true := by
  induction ss with
  | nil => simp [wildMatch.wildMatchStar, wildMatch]
  | cons c ss ih => simp [wildMatch.wildMatchStar, ih]

/-- `*` matches every name -/
theorem wildMatch_star (s : Str) : wildMatch ['*'] s = true := by
  cases s with
  | nil => simp [wildMatch]
  | cons c ss => simp [wildMatch, wildMatchStar_nil]

/-- a component without metacharacters matches itself only -/
theorem wildMatch_literal (p : Str) (hp : hasMeta p = false) (s : Str) :
    wildMatch p s = true ↔ s = p := by
  induction p generalizing s with
  | nil => cases s <;> simp [wildMatch]
  | cons c ps ih =>
    unfold hasMeta at hp ih
    rw [List.any_cons, Bool.or_eq_false_iff] at hp
    obtain ⟨hc, hps⟩ := hp
    have h1 : c ≠ '*' := by intro e; simp [e] at hc
    have h2 : c ≠ '?' := by intro e; simp [e] at hc
    cases s with
    | nil => simp [wildMatch, h1]
    | cons c' ss =>
      rw [wildMatch, if_neg h1]
      simp only [Bool.and_eq_true, Bool.or_eq_true, decide_eq_true_eq, ih hps, h2, false_or,
        List.cons.injEq]
      constructor
      · rintro ⟨rfl, rfl⟩; exact ⟨rfl, rfl⟩
      · rintro ⟨rfl, rfl⟩; exact ⟨rfl, rfl⟩

end Slt
