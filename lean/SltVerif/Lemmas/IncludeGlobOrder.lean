/-
The matches of a whole pattern (any number of wildcard components) come in strictly ascending
`Path` order, i.e. component-wise — which differs from the order of the path strings when a
directory name is a prefix of another (`a/x` < `a-b/x` as paths, not as strings).
-/
import SltVerif.Lemmas.IncludeGlob
namespace Slt

/-- `Path` order: lexicographic on the components -/
def pathLt (a b : Str) : Prop := splitSlash a < splitSlash b

/-- no entry of any directory is the empty name or `.` (true on every real file system) -/
def Fs.EntriesClean (fs : Fs) : Prop := ∀ d name, name ∈ fs.entries d → name ≠ [] ∧ name ≠ ['.']

theorem splitSlash_mem_noSlash (s : Str) : ∀ c ∈ splitSlash s, '/' ∉ c := by
  induction s with
  | nil => intro c hc; rw [splitSlash, List.mem_singleton] at hc; subst hc; exact List.not_mem_nil
  | cons x xs ih =>
    intro c hc
    by_cases hx : x = '/'
    · subst hx
      rw [splitSlash_cons_slash] at hc
      rcases List.mem_cons.1 hc with rfl | hc
      · exact List.not_mem_nil
      · exact ih c hc
    · rw [splitSlash, if_neg hx] at hc
      cases hs : splitSlash xs with
      | nil => exact absurd hs (splitSlash_ne_nil xs)
      | cons l ls =>
        rw [hs] at hc ih
        rcases List.mem_cons.1 hc with rfl | hc
        · intro hm
          rcases List.mem_cons.1 hm with h | h
          · exact hx h.symm
          · exact ih l List.mem_cons_self h
        · exact ih c (List.mem_cons_of_mem _ hc)

/-- splitting distributes over a separating `/` -/
theorem splitSlash_append_slash' (a b : Str) :
    splitSlash (a ++ '/' :: b) = splitSlash a ++ splitSlash b := by
  induction a with
  | nil => rw [List.nil_append, splitSlash_cons_slash]; rfl
  | cons c cs ih =>
    rw [List.cons_append]
    by_cases hc : c = '/'
    · subst hc
      rw [splitSlash_cons_slash, splitSlash_cons_slash, ih]; rfl
    · rw [splitSlash, if_neg hc, ih, splitSlash, if_neg hc]
      cases hs : splitSlash cs with
      | nil => exact absurd hs (splitSlash_ne_nil cs)
      | cons l ls => rfl

/-- membership in a directory listing -/
theorem mem_entries {fs : Fs} {d name : Str} (h : name ∈ fs.entries d) :
    ∃ f ∈ fs, ∃ pre : Str, (pre = [] ∨ pre = normPath d ++ ['/']) ∧
      pre ++ f.1.drop pre.length = f.1 ∧
      (splitSlash (f.1.drop pre.length)).head? = some name := by
  unfold Fs.entries at h
  rw [List.mem_mergeSort, mem_dedup, List.mem_filterMap] at h
  obtain ⟨f, hf, hh⟩ := h
  refine ⟨f, hf, if (normPath d).isEmpty then [] else normPath d ++ ['/'], ?_, ?_⟩
  · by_cases hnd : (normPath d).isEmpty = true
    · rw [if_pos hnd]; exact .inl rfl
    · rw [if_neg hnd]; exact .inr rfl
  · by_cases hp : (if (normPath d).isEmpty then [] else normPath d ++ ['/']).isPrefixOf f.1 = true
    · rw [if_pos hp] at hh
      exact ⟨List.prefix_iff_eq_append.1 (List.isPrefixOf_iff_prefix.1 hp), hh⟩
    · rw [if_neg hp] at hh; cases hh

theorem entries_noSlash (fs : Fs) (d : Str) : ∀ name ∈ fs.entries d, '/' ∉ name := by
  intro name hn
  obtain ⟨f, _, pre, _, _, hh⟩ := mem_entries hn
  obtain ⟨ys, hys⟩ := List.head?_eq_some_iff.1 hh
  exact splitSlash_mem_noSlash _ name (by rw [hys]; exact List.mem_cons_self)

/-- on a tree whose path components are never empty or `.`, the directory listings are clean -/
theorem entriesClean_of_components (fs : Fs)
    (h : ∀ f ∈ fs, ∀ c ∈ splitSlash f.1, c ≠ [] ∧ c ≠ ['.']) : fs.EntriesClean := by
  intro d name hn
  obtain ⟨f, hf, pre, hpre, hsplit, hh⟩ := mem_entries hn
  obtain ⟨ys, hys⟩ := List.head?_eq_some_iff.1 hh
  refine h f hf name ?_
  rcases hpre with rfl | rfl
  · rw [List.length_nil, List.drop_zero] at hys
    rw [hys]; exact List.mem_cons_self
  · rw [← hsplit, List.append_assoc, List.singleton_append, splitSlash_append_slash', hys]
    exact List.mem_append_right _ List.mem_cons_self

/-! ### `joinPath` and components -/

theorem joinPath_special (d c : Str) (hd : d = [] ∨ d = ['.']) : joinPath d c = c := by
  unfold joinPath
  rw [if_pos (by rcases hd with rfl | rfl <;> simp)]

theorem joinPath_normal (d c : Str) (h1 : d ≠ []) (h2 : d ≠ ['.']) :
    joinPath d c = d ++ '/' :: c := by
  unfold joinPath
  rw [if_neg]
  intro h
  rcases h with h | h
  · exact h1 (List.isEmpty_iff.1 h)
  · exact h2 h

theorem splitSlash_joinPath (d c : Str) (h1 : d ≠ []) (h2 : d ≠ ['.']) (hc : '/' ∉ c) :
    splitSlash (joinPath d c) = splitSlash d ++ [c] := by
  rw [joinPath_normal d c h1 h2, splitSlash_append_slash d c hc]

theorem joinPath_ne (d c : Str) (h1 : d ≠ []) (h2 : d ≠ ['.']) :
    joinPath d c ≠ [] ∧ joinPath d c ≠ ['.'] := by
  rw [joinPath_normal d c h1 h2]
  cases d with
  | nil => exact absurd rfl h1
  | cons x xs => constructor <;> (intro h; simp at h)

/-! ### lexicographic order and appended components -/

theorem lex_append_of_length_eq {l₁ l₂ : List Str} (h : l₁ < l₂) (hl : l₁.length = l₂.length)
    (a b : List Str) : l₁ ++ a < l₂ ++ b := by
  have h' : List.Lex (· < ·) l₁ l₂ := h
  show List.Lex (· < ·) (l₁ ++ a) (l₂ ++ b)
  induction h' with
  | nil => simp at hl
  | rel hr => exact .rel hr
  | cons _ ih =>
    simp only [List.length_cons, Nat.add_right_cancel_iff] at hl
    exact .cons (ih ‹_› hl)

theorem lex_append_single (l : List Str) {a b : Str} (h : a < b) : l ++ [a] < l ++ [b] :=
  List.append_left_lt (List.Lex.rel h)

/-! ### the invariant of the walk -/

/-- the prefixes are strictly ascending in `Path` order, have the same number of components, and
    none is the empty prefix or `.` -/
structure GInv (ps : List Str) : Prop where
  sorted : ps.Pairwise pathLt
  len : ∃ n, ∀ d ∈ ps, (splitSlash d).length = n
  ne : ∀ d ∈ ps, d ≠ [] ∧ d ≠ ['.']

/-- what one prefix contributes to a step -/
def stepOne (fs : Fs) (c d : Str) : List Str :=
  if hasMeta c then ((fs.entries d).filter (wildMatch c)).map (joinPath d)
  else if fs.pathExists (joinPath d c) then [joinPath d c] else []

theorem globStep_eq_flatMap (fs : Fs) (ps : List Str) (c : Str) :
    globStep fs ps c = ps.flatMap (stepOne fs c) := rfl

theorem mem_stepOne {fs : Fs} {c d p : Str} (hc : '/' ∉ c) (h : p ∈ stepOne fs c d) :
    ∃ x, '/' ∉ x ∧ p = joinPath d x := by
  unfold stepOne at h
  split at h
  · obtain ⟨x, hx, rfl⟩ := List.mem_map.1 h
    exact ⟨x, entries_noSlash fs d x (List.mem_filter.1 hx).1, rfl⟩
  · split at h
    · exact ⟨c, hc, List.mem_singleton.1 h⟩
    · cases h

/-- the contributions of one prefix are ascending among themselves -/
theorem stepOne_sorted (fs : Fs) (c d : Str) (h1 : d ≠ []) (h2 : d ≠ ['.']) :
    (stepOne fs c d).Pairwise pathLt := by
  unfold stepOne
  split
  · refine List.Pairwise.map _ ?_ ((entries_strictSorted fs d).and
      (List.pairwise_of_forall_mem_list (r := fun a b => '/' ∉ a ∧ '/' ∉ b) ?_) |>.filter _)
    · intro a b ⟨hlt, ha, hb⟩
      unfold pathLt
      rw [splitSlash_joinPath d a h1 h2 ha, splitSlash_joinPath d b h1 h2 hb]
      exact lex_append_single _ hlt
    · intro a ha b hb
      exact ⟨entries_noSlash fs d a ha, entries_noSlash fs d b hb⟩
  · split
    · exact List.pairwise_singleton _ _
    · exact List.Pairwise.nil

theorem GInv.step {fs : Fs} {ps : List Str} (h : GInv ps) (c : Str) (hc : '/' ∉ c) :
    GInv (globStep fs ps c) := by
  obtain ⟨hs, ⟨n, hn⟩, hne⟩ := h
  rw [globStep_eq_flatMap]
  refine ⟨?_, ⟨n + 1, ?_⟩, ?_⟩
  · rw [List.pairwise_flatMap]
    refine ⟨fun d hd => stepOne_sorted fs c d (hne d hd).1 (hne d hd).2, ?_⟩
    have hs' := hs.and (List.pairwise_of_forall_mem_list (l := ps) (r := fun a b => a ∈ ps ∧ b ∈ ps)
      (fun a ha b hb => ⟨ha, hb⟩))
    refine hs'.imp ?_
    intro d₁ d₂ ⟨hlt, hd₁, hd₂⟩ x hx y hy
    obtain ⟨x', hx', rfl⟩ := mem_stepOne hc hx
    obtain ⟨y', hy', rfl⟩ := mem_stepOne hc hy
    unfold pathLt
    rw [splitSlash_joinPath d₁ x' (hne d₁ hd₁).1 (hne d₁ hd₁).2 hx',
      splitSlash_joinPath d₂ y' (hne d₂ hd₂).1 (hne d₂ hd₂).2 hy']
    exact lex_append_of_length_eq hlt (by rw [hn d₁ hd₁, hn d₂ hd₂]) _ _
  · intro p hp
    obtain ⟨d, hd, hp⟩ := List.mem_flatMap.1 hp
    obtain ⟨x, hx, rfl⟩ := mem_stepOne hc hp
    rw [splitSlash_joinPath d x (hne d hd).1 (hne d hd).2 hx, List.length_append, hn d hd]
    rfl
  · intro p hp
    obtain ⟨d, hd, hp⟩ := List.mem_flatMap.1 hp
    obtain ⟨x, hx, rfl⟩ := mem_stepOne hc hp
    exact joinPath_ne d x (hne d hd).1 (hne d hd).2

theorem GInv.single (d : Str) (h1 : d ≠ []) (h2 : d ≠ ['.']) : GInv [d] :=
  ⟨List.pairwise_singleton _ _, ⟨_, fun x hx => by rw [List.mem_singleton.1 hx]⟩,
   fun x hx => by rw [List.mem_singleton.1 hx]; exact ⟨h1, h2⟩⟩

/-- first wildcard step from the empty prefix or `.`: the names themselves -/
theorem GInv.first {fs : Fs} (hclean : fs.EntriesClean) (d c : Str) (hd : d = [] ∨ d = ['.'])
    (hm : hasMeta c = true) : GInv (globStep fs [d] c) := by
  rw [globStep_single_wild fs d c hm]
  have hj : ((fs.entries d).filter (wildMatch c)).map (joinPath d) =
      (fs.entries d).filter (wildMatch c) := by
    rw [show joinPath d = id from funext (fun x => joinPath_special d x hd), List.map_id]
  rw [hj]
  have hmem : ∀ x ∈ (fs.entries d).filter (wildMatch c), x ∈ fs.entries d :=
    fun x hx => (List.mem_filter.1 hx).1
  refine ⟨?_, ⟨1, ?_⟩, ?_⟩
  · refine ((entries_strictSorted fs d).and
      (List.pairwise_of_forall_mem_list (r := fun a b => '/' ∉ a ∧ '/' ∉ b) ?_) |>.filter _).imp ?_
    · intro a ha b hb
      exact ⟨entries_noSlash fs d a ha, entries_noSlash fs d b hb⟩
    · intro a b ⟨hlt, ha, hb⟩
      unfold pathLt
      rw [splitSlash_noSlash a ha, splitSlash_noSlash b hb]
      exact List.Lex.rel hlt
  · intro x hx
    rw [splitSlash_noSlash x (entries_noSlash fs d x (hmem x hx))]; rfl
  · intro x hx
    exact hclean d x (hmem x hx)

/-- at most one prefix, or the invariant -/
def GInv2 (ps : List Str) : Prop := ps.length ≤ 1 ∨ GInv ps

theorem GInv2.step {fs : Fs} (hclean : fs.EntriesClean) {ps : List Str} (h : GInv2 ps) (c : Str)
    (hc : '/' ∉ c) : GInv2 (globStep fs ps c) := by
  rcases h with h | h
  · match ps, h with
    | [], _ => exact .inl (by rw [globStep_nil]; exact Nat.zero_le _)
    | [d], _ =>
      by_cases hm : hasMeta c = true
      · by_cases hd : d = [] ∨ d = ['.']
        · exact .inr (GInv.first hclean d c hd hm)
        · have h1 : d ≠ [] := fun e => hd (.inl e)
          have h2 : d ≠ ['.'] := fun e => hd (.inr e)
          exact .inr ((GInv.single d h1 h2).step c hc)
      · exact .inl (globStep_lit_length fs [d] c (by simpa using hm) (by simp))
  · exact .inr (h.step c hc)

theorem GInv2.foldl {fs : Fs} (hclean : fs.EntriesClean) (cs : List Str)
    (hcs : ∀ c ∈ cs, '/' ∉ c) : ∀ ps, GInv2 ps → GInv2 (cs.foldl (globStep fs) ps) := by
  induction cs with
  | nil => intro ps h; exact h
  | cons c cs ih =>
    intro ps h
    rw [List.foldl_cons]
    exact ih (fun x hx => hcs x (List.mem_cons_of_mem _ hx)) _
      (h.step hclean c (hcs c List.mem_cons_self))

theorem GInv2.pairwise {ps : List Str} (h : GInv2 ps) : ps.Pairwise pathLt := by
  rcases h with h | h
  · match ps, h with
    | [], _ => exact List.Pairwise.nil
    | [d], _ => exact List.pairwise_singleton _ _
  · exact h.sorted

/-- **Matches of any pattern come in strictly ascending `Path` (component-wise) order.** -/
theorem glob_pathSorted (fs : Fs) (hclean : fs.EntriesClean) (pattern : Str) :
    (glob fs pattern).Pairwise pathLt :=
  (GInv2.foldl hclean _ (splitSlash_mem_noSlash pattern) _ (.inl (by simp))).pairwise

end Slt
