/-
Locations in an expansion.

* `Chained file upper cur xs` — structural description of a spliced list: the records of `file`
  carry `(file, upper)`, and directly inside a block `begin g … end g` that follows the include
  record at line `l` every record carries `(g, (file, l) :: upper)`, recursively.
* `Reach` / `IncludeSite` / `OwnRecord` — the semantic reading: the chain of a record is a path of
  real include sites from the root file down to the file the record was parsed from.
-/
import SltVerif.Lemmas.IncludeFuel
import SltVerif.Lemmas.IncludeNested
namespace Slt

/-- the line of an `include` record -/
def Rec.inclLine? : Rec → Option Nat
  | .incl l _ => some l
  | _ => none

/-- `Chained file upper cur xs`: `xs` is a (suffix of a) spliced expansion of `file`, whose own
    chain of include sites is `upper`; `cur` is the line of the include record whose blocks are
    currently being listed (`none`: no block may start here). -/
inductive Chained : Str → List (Str × Nat) → Option Nat → List LRec → Prop
  | nil {file upper cur} : Chained file upper cur []
  | own {file upper cur r rs} : r.isMarker = false →
      Chained file upper r.inclLine? rs → Chained file upper cur (⟨r, file, upper⟩ :: rs)
  | block {file upper line g inner rest} :
      Chained g ((file, line) :: upper) none inner →
      Chained file upper (some line) rest →
      Chained file upper (some line)
        (⟨.beginInclude g, file, upper⟩ :: inner ++ ⟨.endInclude g, file, upper⟩ :: rest)

/-- the side conditions under which a job yields a `Chained` list -/
def Job.noMk : Job → Prop
  | .recs _ _ rs => ∀ r ∈ rs, r.isMarker = false
  | _ => True

/-- what `Chained` means for the output of each kind of job -/
def Job.ChainedOut : Job → List LRec → Prop
  | .file f upper, out => Chained f upper none out
  | .recs fl upper _, out => ∀ cur, Chained fl upper cur out
  | .files including line upper _, out =>
    ∀ rest, Chained including upper (some line) rest →
      Chained including upper (some line) (out ++ rest)

theorem Spliced.chained {cfg : PCfg} {fs : Fs} {j : Job} {out : List LRec}
    (h : Spliced cfg fs j out) : j.noMk → j.ChainedOut out := by
  induction h with
  | file hr hp _ ih =>
    intro _
    exact ih (parse_noMarker _ _ _ hp) none
  | recsNil => intro _ cur; exact .nil
  | recsOther hr _ ih =>
    intro hm cur
    exact .own (hm _ List.mem_cons_self)
      (ih (fun r h => hm r (List.mem_cons_of_mem _ h)) _)
  | recsIncl _ _ _ ih1 ih2 =>
    intro hm cur
    exact .own rfl (ih1 trivial _ (ih2 (fun r h => hm r (List.mem_cons_of_mem _ h)) _))
  | filesNil => intro _ rest h; exact h
  | @filesCons including line upper g names inner more _ _ ih1 ih2 =>
    intro _ rest h
    have : (⟨.beginInclude g, including, upper⟩ :: inner ++
        ⟨.endInclude g, including, upper⟩ :: more) ++ rest =
        (⟨.beginInclude g, including, upper⟩ :: inner ++
        ⟨.endInclude g, including, upper⟩ :: (more ++ rest) : List LRec) := by simp
    rw [this]
    exact .block (ih1 trivial) (ih2 trivial rest h)

/-- a `Chained` list is well bracketed -/
theorem Chained.nested {file : Str} {upper : List (Str × Nat)} {cur : Option Nat}
    {xs : List LRec} (h : Chained file upper cur xs) : Nested (xs.map (·.record)) := by
  induction h with
  | nil => exact .nil
  | own hr _ ih => exact .plain hr ih
  | block _ _ ih1 ih2 =>
    simp only [List.map_cons, List.map_append]
    exact .block ih1 ih2

/-- in a `Chained` list every chain ends with the chain of the root -/
theorem Chained.suffix {file : Str} {upper : List (Str × Nat)} {cur : Option Nat}
    {xs : List LRec} (h : Chained file upper cur xs) : ∀ x ∈ xs, upper <:+ x.upper := by
  induction h with
  | nil => intro x hx; cases hx
  | own _ _ ih =>
    intro x hx
    rcases List.mem_cons.1 hx with rfl | hx
    · exact List.suffix_refl _
    · exact ih x hx
  | @block file upper line g inner rest _ _ ih1 ih2 =>
    intro x hx
    rcases List.mem_cons.1 hx with rfl | hx
    · exact List.suffix_refl _
    · rcases List.mem_append.1 hx with hx | hx
      · exact List.IsSuffix.trans (List.suffix_cons _ _) (ih1 x hx)
      · rcases List.mem_cons.1 hx with rfl | hx
        · exact List.suffix_refl _
        · exact ih2 x hx

/-- records at depth 0 (chain = root chain) belong to the root file -/
theorem Chained.top_file {file : Str} {upper : List (Str × Nat)} {cur : Option Nat}
    {xs : List LRec} (h : Chained file upper cur xs) :
    ∀ x ∈ xs, x.upper = upper → x.file = file := by
  induction h with
  | nil => intro x hx; cases hx
  | own _ _ ih =>
    intro x hx
    rcases List.mem_cons.1 hx with rfl | hx
    · intro _; rfl
    · exact ih x hx
  | @block file upper line g inner rest h1 _ _ ih2 =>
    intro x hx hu
    rcases List.mem_cons.1 hx with rfl | hx
    · rfl
    · rcases List.mem_append.1 hx with hx | hx
      · have hs := h1.suffix x hx
        rw [hu] at hs
        have := hs.length_le
        simp only [List.length_cons] at this
        omega
      · rcases List.mem_cons.1 hx with rfl | hx
        · rfl
        · exact ih2 x hx hu

/-! ### semantic reading of the chain -/

/-- file `g` has at line `l` an `include` record whose pattern (resolved against `g`) matches `h` -/
def IncludeSite (cfg : PCfg) (fs : Fs) (g : Str) (l : Nat) (h : Str) : Prop :=
  ∃ script recs pat, fs.read (normPath g) = some script ∧ parse cfg script = .ok recs ∧
    .incl l pat ∈ recs ∧ h ∈ glob fs (resolveInclude g pat)

/-- `Reach cfg fs f upper g chain`: starting from file `f` with chain `upper`, following include
    sites leads to file `g` with chain `chain` (innermost site first) -/
inductive Reach (cfg : PCfg) (fs : Fs) (f : Str) (upper : List (Str × Nat)) :
    Str → List (Str × Nat) → Prop
  | root : Reach cfg fs f upper f upper
  | step {g chain l h} : Reach cfg fs f upper g chain → IncludeSite cfg fs g l h →
      Reach cfg fs f upper h ((g, l) :: chain)

theorem Reach.trans {cfg : PCfg} {fs : Fs} {a b c : Str} {ua ub uc : List (Str × Nat)}
    (h1 : Reach cfg fs a ua b ub) (h2 : Reach cfg fs b ub c uc) : Reach cfg fs a ua c uc := by
  induction h2 with
  | root => exact h1
  | step _ hs ih => exact .step ih hs

/-- record `r` belongs to file `g`: it is one of the records `g` parses to, or a marker for a
    match of one of `g`'s include records -/
def OwnRecord (cfg : PCfg) (fs : Fs) (g : Str) (r : Rec) : Prop :=
  ∃ script recs, fs.read (normPath g) = some script ∧ parse cfg script = .ok recs ∧
    (r ∈ recs ∨ ∃ l pat h, .incl l pat ∈ recs ∧ h ∈ glob fs (resolveInclude g pat) ∧
      (r = .beginInclude h ∨ r = .endInclude h))

/-- `x` is correctly located below the root `(f, upper)` -/
def LocatedFrom (cfg : PCfg) (fs : Fs) (f : Str) (upper : List (Str × Nat)) (x : LRec) : Prop :=
  Reach cfg fs f upper x.file x.upper ∧ OwnRecord cfg fs x.file x.record

theorem LocatedFrom.lift {cfg : PCfg} {fs : Fs} {f g : Str} {upper : List (Str × Nat)} {l : Nat}
    {x : LRec} (hs : IncludeSite cfg fs f l g) (h : LocatedFrom cfg fs g ((f, l) :: upper) x) :
    LocatedFrom cfg fs f upper x :=
  ⟨Reach.trans (.step .root hs) h.1, h.2⟩

/-- what "correctly located" means for the output of each kind of job -/
def Job.LocatedOut (cfg : PCfg) (fs : Fs) : Job → List LRec → Prop
  | .file f upper, out => ∀ x ∈ out, LocatedFrom cfg fs f upper x
  | .recs fl upper rs, out =>
    ∀ script all, fs.read (normPath fl) = some script → parse cfg script = .ok all →
      (∀ r ∈ rs, r ∈ all) → ∀ x ∈ out, LocatedFrom cfg fs fl upper x
  | .files including line upper names, out =>
    ∀ script all pat, fs.read (normPath including) = some script → parse cfg script = .ok all →
      .incl line pat ∈ all → (∀ h ∈ names, h ∈ glob fs (resolveInclude including pat)) →
      ∀ x ∈ out, LocatedFrom cfg fs including upper x

theorem Spliced.located {cfg : PCfg} {fs : Fs} {j : Job} {out : List LRec}
    (h : Spliced cfg fs j out) : j.LocatedOut cfg fs out := by
  induction h with
  | file hr hp _ ih =>
    intro x hx
    exact ih _ _ hr hp (fun r h => h) x hx
  | recsNil => intro _ _ _ _ _ x hx; cases hx
  | recsOther hr _ ih =>
    intro script all hrd hp hsub x hx
    rcases List.mem_cons.1 hx with rfl | hx
    · exact ⟨.root, script, all, hrd, hp, .inl (hsub _ List.mem_cons_self)⟩
    · exact ih script all hrd hp (fun r h => hsub r (List.mem_cons_of_mem _ h)) x hx
  | recsIncl _ _ _ ih1 ih2 =>
    intro script all hrd hp hsub x hx
    rcases List.mem_cons.1 hx with rfl | hx
    · exact ⟨.root, script, all, hrd, hp, .inl (hsub _ List.mem_cons_self)⟩
    · rcases List.mem_append.1 hx with hx | hx
      · exact ih1 script all _ hrd hp (hsub _ List.mem_cons_self) (fun h hh => hh) x hx
      · exact ih2 script all hrd hp (fun r h => hsub r (List.mem_cons_of_mem _ h)) x hx
  | filesNil => intro _ _ _ _ _ _ _ x hx; cases hx
  | @filesCons including line upper g names inner more _ _ ih1 ih2 =>
    intro script all pat hrd hp hin hsub x hx
    have hg : g ∈ glob fs (resolveInclude including pat) := hsub _ List.mem_cons_self
    have hmark : ∀ r, (r = Rec.beginInclude g ∨ r = Rec.endInclude g) →
        LocatedFrom cfg fs including upper ⟨r, including, upper⟩ := fun r hr =>
      ⟨.root, script, all, hrd, hp, .inr ⟨line, pat, g, hin, hg, hr⟩⟩
    rcases List.mem_cons.1 hx with rfl | hx
    · exact hmark _ (.inl rfl)
    · rcases List.mem_append.1 hx with hx | hx
      · exact LocatedFrom.lift ⟨script, all, pat, hrd, hp, hin, hg⟩ (ih1 x hx)
      · rcases List.mem_cons.1 hx with rfl | hx
        · exact hmark _ (.inr rfl)
        · exact ih2 script all pat hrd hp hin
            (fun h hh => hsub h (List.mem_cons_of_mem _ hh)) x hx

end Slt
