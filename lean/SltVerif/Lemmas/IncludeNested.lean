/-
Well-bracketed marker sequences: the grammar `Nested` of Dyck words over labelled brackets
(`beginInclude f … endInclude f`) interleaved with ordinary records, the stack checker `balanced`,
and their equivalence.
-/
import SltVerif.Lemmas.IncludeParse
namespace Slt

/-- Dyck words: matching `beginInclude` / `endInclude` carry the same file name; ordinary records
    are transparent. -/
inductive Nested : List Rec → Prop
  | nil : Nested []
  | plain {r rs} : r.isMarker = false → Nested rs → Nested (r :: rs)
  | block {f inner rest} : Nested inner → Nested rest →
      Nested (.beginInclude f :: inner ++ .endInclude f :: rest)

/-- stack checker: `stack` holds the names of the currently open blocks, innermost first -/
def balanced : List Str → List Rec → Bool
  | stack, [] => stack.isEmpty
  | stack, r :: rs =>
    match r with
    | .beginInclude f => balanced (f :: stack) rs
    | .endInclude f =>
      (match stack with
       | [] => false
       | g :: st => decide (f = g) && balanced st rs)
    | _ => balanced stack rs

theorem balanced_plain (stack : List Str) (r : Rec) (rs : List Rec) (hr : r.isMarker = false) :
    balanced stack (r :: rs) = balanced stack rs := by
  cases r <;> first | rfl | cases hr

theorem balanced_begin (stack : List Str) (f : Str) (rs : List Rec) :
    balanced stack (.beginInclude f :: rs) = balanced (f :: stack) rs := rfl

theorem balanced_end (stack : List Str) (f g : Str) (rs : List Rec) :
    balanced (g :: stack) (.endInclude f :: rs) = (decide (f = g) && balanced stack rs) := rfl

theorem balanced_end_nil (f : Str) (rs : List Rec) : balanced [] (.endInclude f :: rs) = false := rfl

theorem Nested.append {a b : List Rec} (ha : Nested a) (hb : Nested b) : Nested (a ++ b) := by
  induction ha with
  | nil => exact hb
  | plain hr _ ih => exact .plain hr ih
  | @block f inner rest _ _ _ ih2 =>
    have : Rec.beginInclude f :: inner ++ Rec.endInclude f :: rest ++ b =
        Rec.beginInclude f :: inner ++ Rec.endInclude f :: (rest ++ b) := by simp
    rw [this]
    exact .block ‹Nested inner› ih2

/-- a nested segment is skipped by the checker whatever the stack and the continuation -/
theorem balanced_nested_append {xs : List Rec} (h : Nested xs) :
    ∀ (stack : List Str) (rest : List Rec), balanced stack (xs ++ rest) = balanced stack rest := by
  induction h with
  | nil => intro stack rest; rfl
  | plain hr _ ih =>
    intro stack rest
    rw [List.cons_append, balanced_plain _ _ _ hr]; exact ih stack rest
  | @block f inner rest' _ _ ih1 ih2 =>
    intro stack rest
    have : Rec.beginInclude f :: inner ++ Rec.endInclude f :: rest' ++ rest =
        Rec.beginInclude f :: (inner ++ (Rec.endInclude f :: (rest' ++ rest))) := by simp
    rw [this, balanced_begin, ih1, balanced_end, ih2]
    simp

theorem balanced_of_nested {xs : List Rec} (h : Nested xs) : balanced [] xs = true := by
  have := balanced_nested_append h [] []
  rw [List.append_nil] at this
  rw [this]; rfl

/-- `xs` closes the open blocks `stack` (innermost first) and is otherwise nested -/
def ClosedBy : List Str → List Rec → Prop
  | [], xs => Nested xs
  | s :: st, xs => ∃ a b, xs = a ++ .endInclude s :: b ∧ Nested a ∧ ClosedBy st b

theorem ClosedBy.plain {stack : List Str} {r : Rec} {rs : List Rec} (hr : r.isMarker = false)
    (h : ClosedBy stack rs) : ClosedBy stack (r :: rs) := by
  cases stack with
  | nil => exact Nested.plain hr h
  | cons s st =>
    obtain ⟨a, b, rfl, ha, hb⟩ := h
    exact ⟨r :: a, b, rfl, .plain hr ha, hb⟩

theorem ClosedBy.block {stack : List Str} {f : Str} {a b : List Rec} (ha : Nested a)
    (hb : ClosedBy stack b) : ClosedBy stack (.beginInclude f :: a ++ .endInclude f :: b) := by
  cases stack with
  | nil => exact Nested.block ha hb
  | cons s st =>
    obtain ⟨a', b', rfl, ha', hb'⟩ := hb
    refine ⟨.beginInclude f :: a ++ .endInclude f :: a', b', by simp, .block ha ha', hb'⟩

theorem closedBy_of_balanced : ∀ (xs : List Rec) (stack : List Str),
    balanced stack xs = true → ClosedBy stack xs := by
  intro xs
  induction xs with
  | nil =>
    intro stack h
    cases stack with
    | nil => exact Nested.nil
    | cons s st => cases h
  | cons r rs ih =>
    intro stack h
    by_cases hm : r.isMarker = false
    · rw [balanced_plain _ _ _ hm] at h
      exact (ih _ h).plain hm
    · cases r with
      | beginInclude f =>
        rw [balanced_begin] at h
        obtain ⟨a, b, rfl, ha, hb⟩ := ih _ h
        exact ClosedBy.block ha hb
      | endInclude f =>
        cases stack with
        | nil => cases h
        | cons g st =>
          rw [balanced_end, Bool.and_eq_true, decide_eq_true_eq] at h
          obtain ⟨rfl, h⟩ := h
          exact ⟨[], rs, rfl, .nil, ih _ h⟩
      | _ => exact absurd rfl hm

/-- the checker decides the grammar -/
theorem balanced_iff_nested (xs : List Rec) : balanced [] xs = true ↔ Nested xs :=
  ⟨closedBy_of_balanced xs [], balanced_of_nested⟩

instance (xs : List Rec) : Decidable (Nested xs) :=
  decidable_of_iff _ (balanced_iff_nested xs)

end Slt
