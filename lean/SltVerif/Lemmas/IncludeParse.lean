/-
The parser never emits include markers: `beginInclude` / `endInclude` records are created by
`parse_file_inner` only.  (Needed for the nesting theorem of C14: the brackets of an expansion
are exactly the ones put there by the expansion.)
-/
import SltVerif.Parser
namespace Slt

/-- `Record::Injected(_)` -/
def Rec.isMarker : Rec → Bool
  | .beginInclude _ => true
  | .endInclude _ => true
  | _ => false

/-- no marker among the records emitted so far -/
def PState.noMk (s : PState) : Prop := ∀ r ∈ s.out, r.isMarker = false

theorem noMk_of_out_eq {s t : PState} (h : t.out = s.out) (hs : s.noMk) : t.noMk := by
  unfold PState.noMk; rw [h]; exact hs

theorem noMk_append {s t : PState} {r : Rec} (h : t.out = s.out ++ [r]) (hr : r.isMarker = false)
    (hs : s.noMk) : t.noMk := by
  unfold PState.noMk; rw [h]
  intro x hx
  rcases List.mem_append.1 hx with hx | hx
  · exact hs x hx
  · rw [List.mem_singleton.1 hx]; exact hr

theorem failKind_noMk (s : PState) (n : Nat) (k : PErrKind) (hs : s.noMk) : (failKind s n k).noMk :=
  noMk_of_out_eq rfl hs

theorem failWith_noMk (s : PState) (n : Nat) (e : HErr) (hs : s.noMk) : (failWith s n e).noMk := by
  cases e <;> exact noMk_of_out_eq rfl hs

theorem push_noMk (s : PState) (r : Rec) (hr : r.isMarker = false) (hs : s.noMk) :
    (push s r).noMk := noMk_append rfl hr hs

theorem doStatement_noMk (cfg : PCfg) (s : PState) (n : Nat) (res : List Str) (hs : s.noMk) :
    (doStatement cfg s n res).noMk := by
  unfold doStatement
  split
  · exact failWith_noMk _ _ _ hs
  · split
    · exact failWith_noMk _ _ _ hs
    · exact noMk_of_out_eq rfl hs

theorem doQuery_noMk (cfg : PCfg) (s : PState) (n : Nat) (res : List Str) (hs : s.noMk) :
    (doQuery cfg s n res).noMk := by
  unfold doQuery
  split
  · exact failWith_noMk _ _ _ hs
  · split
    · exact failWith_noMk _ _ _ hs
    · exact noMk_of_out_eq rfl hs

theorem doSystem_noMk (s : PState) (n : Nat) (res : List Str) (hs : s.noMk) :
    (doSystem s n res).noMk := by
  unfold doSystem
  split
  · exact failWith_noMk _ _ _ hs
  · exact noMk_of_out_eq rfl hs

theorem doControl_noMk (s : PState) (n : Nat) (res : List Str) (hs : s.noMk) :
    (doControl s n res).noMk := by
  unfold doControl
  repeat' split
  all_goals first
    | exact failKind_noMk _ _ _ hs
    | exact push_noMk _ _ rfl hs

theorem doSleep_noMk (s : PState) (n : Nat) (d : Str) (hs : s.noMk) : (doSleep s n d).noMk := by
  unfold doSleep
  split
  · exact push_noMk _ _ rfl hs
  · exact failKind_noMk _ _ _ hs
  · exact noMk_of_out_eq rfl hs

theorem doHashThreshold_noMk (s : PState) (n : Nat) (t : Str) (hs : s.noMk) :
    (doHashThreshold s n t).noMk := by
  unfold doHashThreshold
  split
  · exact push_noMk _ _ rfl hs
  · exact failKind_noMk _ _ _ hs

theorem dispatch2_noMk (s : PState) (n : Nat) (k a : Str) (hs : s.noMk) :
    (dispatch2 s n k a).noMk := by
  unfold dispatch2
  repeat' split
  all_goals first
    | exact push_noMk _ _ rfl hs
    | exact doSleep_noMk _ _ _ hs
    | exact doHashThreshold_noMk _ _ _ hs
    | exact failKind_noMk _ _ _ hs
    | exact noMk_append (s := s) rfl rfl hs

theorem dispatch_noMk (cfg : PCfg) (s : PState) (n : Nat) (toks : List Str) (hs : s.noMk) :
    (dispatch cfg s n toks).noMk := by
  unfold dispatch
  repeat' split
  all_goals first
    | exact hs
    | exact doStatement_noMk _ _ _ _ hs
    | exact doQuery_noMk _ _ _ _ hs
    | exact doControl_noMk _ _ _ hs
    | exact doSystem_noMk _ _ _ hs
    | exact dispatch2_noMk _ _ _ _ hs
    | exact push_noMk _ _ rfl hs
    | exact failKind_noMk _ _ _ hs

theorem flushComments_noMk (s : PState) (hs : s.noMk) : (flushComments s).noMk := by
  unfold flushComments
  split
  · exact hs
  · exact noMk_append (s := s) rfl rfl hs

theorem topLine_noMk (cfg : PCfg) (s : PState) (l : Str) (hs : s.noMk) : (topLine cfg s l).noMk := by
  unfold topLine
  have h1 : ({ flushComments s with num := s.num + 1 } : PState).noMk :=
    noMk_of_out_eq (s := flushComments s) rfl (flushComments_noMk s hs)
  split
  · exact noMk_of_out_eq rfl hs
  · split
    · exact push_noMk _ _ rfl h1
    · exact dispatch_noMk _ _ _ _ h1

theorem Hdr.plain_isMarker (h : Hdr) (sql : Str) : (h.plain sql).isMarker = false := by
  cases h <;> rfl

theorem Hdr.withMulti_isMarker (h : Hdr) (sql t : Str) : (h.withMulti sql t).isMarker = false := by
  cases h <;> rfl

theorem Hdr.withResults_isMarker (h : Hdr) (sql : Str) (res : List Str) :
    (h.withResults sql res).isMarker = false := by
  unfold Hdr.withResults
  split
  · rfl
  · exact Hdr.plain_isMarker _ _

theorem emit_noMk (s : PState) (r : Rec) (hr : r.isMarker = false) (hs : s.noMk) :
    (emit s r).noMk := noMk_append rfl hr hs

theorem onDelimiter_noMk (s : PState) (h : Hdr) (sql : Str) (hs : s.noMk) :
    (onDelimiter s h sql).noMk := by
  unfold onDelimiter
  repeat' split
  all_goals first
    | exact failKind_noMk _ _ _ hs
    | exact noMk_of_out_eq rfl hs

theorem step_noMk (cfg : PCfg) (s : PState) (l : Str) (hs : s.noMk) : (step cfg s l).noMk := by
  unfold step
  split
  · exact hs
  · have h1 : ({ s with num := s.num + 1 } : PState).noMk := noMk_of_out_eq (s := s) rfl hs
    split
    · exact topLine_noMk _ _ _ hs
    · exact noMk_of_out_eq (s := s) rfl hs
    · dsimp only
      repeat' split
      · exact emit_noMk _ _ (Hdr.plain_isMarker _ _) h1
      · exact onDelimiter_noMk _ _ _ h1
      · exact noMk_of_out_eq (s := s) rfl hs
    · dsimp only
      split
      · exact emit_noMk _ _ (Hdr.withResults_isMarker _ _ _) h1
      · exact noMk_of_out_eq (s := s) rfl hs
    · dsimp only
      repeat' split
      all_goals first
        | exact emit_noMk _ _ (Hdr.withMulti_isMarker _ _ _) h1
        | exact noMk_of_out_eq (s := s) rfl hs

theorem foldl_step_noMk (cfg : PCfg) (ls : List Str) (s : PState) (hs : s.noMk) :
    (ls.foldl (step cfg) s).noMk := by
  induction ls generalizing s with
  | nil => exact hs
  | cons l ls ih => exact ih _ (step_noMk cfg s l hs)

theorem finish_noMk (s : PState) (hs : s.noMk) (out : List Rec) (h : finish s = .ok out) :
    ∀ r ∈ out, r.isMarker = false := by
  unfold finish at h
  split at h
  · cases h
  · split at h
    · injection h with h; rw [← h]; exact flushComments_noMk s hs
    · cases h
    · injection h with h; rw [← h]; exact emit_noMk _ _ (Hdr.plain_isMarker _ _) hs
    · injection h with h; rw [← h]; exact emit_noMk _ _ (Hdr.withResults_isMarker _ _ _) hs
    · injection h with h; rw [← h]; exact emit_noMk _ _ (Hdr.withMulti_isMarker _ _ _) hs

/-- **The parser emits no include markers.** -/
theorem parse_noMarker (cfg : PCfg) (script : Str) (recs : List Rec)
    (h : parse cfg script = .ok recs) : ∀ r ∈ recs, r.isMarker = false := by
  unfold parse parseLines at h
  exact finish_noMk _ (foldl_step_noMk cfg _ _ (by intro r hr; cases hr)) recs h

end Slt
