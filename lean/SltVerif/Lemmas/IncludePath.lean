/-
Path algebra behind `resolveInclude`: `splitSlash` / `joinSlash` are inverse, the parent directory
of `d/name` is `d`, and an include pattern is resolved against the directory of the including file.
-/
import SltVerif.Include
namespace Slt

theorem splitSlash_ne_nil (s : Str) : splitSlash s ≠ [] := by
  cases s with
  | nil => simp [splitSlash]
  | cons c cs =>
    unfold splitSlash
    split
    · simp
    · split <;> simp

theorem splitSlash_length_pos (s : Str) : 0 < (splitSlash s).length :=
  List.length_pos_iff.2 (splitSlash_ne_nil s)

/-- a name without `/` is a single component -/
theorem splitSlash_noSlash (s : Str) (h : '/' ∉ s) : splitSlash s = [s] := by
  induction s with
  | nil => rfl
  | cons c cs ih =>
    have hc : c ≠ '/' := fun e => h (by rw [e]; exact List.mem_cons_self)
    have hcs : '/' ∉ cs := fun e => h (List.mem_cons_of_mem _ e)
    rw [splitSlash, if_neg hc, ih hcs]

theorem splitSlash_cons_slash (s : Str) : splitSlash ('/' :: s) = [] :: splitSlash s := by
  rw [splitSlash, if_pos rfl]

/-- splitting `d/name` -/
theorem splitSlash_append_slash (d name : Str) (h : '/' ∉ name) :
    splitSlash (d ++ '/' :: name) = splitSlash d ++ [name] := by
  induction d with
  | nil =>
    rw [List.nil_append, splitSlash_cons_slash, splitSlash_noSlash name h]; rfl
  | cons c cs ih =>
    rw [List.cons_append]
    by_cases hc : c = '/'
    · subst hc
      rw [splitSlash_cons_slash, splitSlash_cons_slash, ih]; rfl
    · have hne := splitSlash_ne_nil cs
      rw [splitSlash, if_neg hc, ih, splitSlash, if_neg hc]
      cases hs : splitSlash cs with
      | nil => exact absurd hs hne
      | cons l ls => rfl

theorem joinWith_cons_cons (sep : Str) (c : Char) (l : Str) (ls : List Str) :
    joinWith sep ((c :: l) :: ls) = c :: joinWith sep (l :: ls) := by
  cases ls with
  | nil => rfl
  | cons a as => simp [joinWith]

/-- `joinSlash` undoes `splitSlash` -/
theorem joinSlash_splitSlash (s : Str) : joinSlash (splitSlash s) = s := by
  induction s with
  | nil => rfl
  | cons c cs ih =>
    have hne := splitSlash_ne_nil cs
    unfold joinSlash at ih ⊢
    by_cases hc : c = '/'
    · subst hc
      rw [splitSlash_cons_slash]
      cases hs : splitSlash cs with
      | nil => exact absurd hs hne
      | cons l ls =>
        rw [hs] at ih
        simp only [joinWith, List.nil_append, List.singleton_append]
        rw [ih]
    · rw [splitSlash, if_neg hc]
      cases hs : splitSlash cs with
      | nil => exact absurd hs hne
      | cons l ls =>
        rw [hs] at ih
        simp only
        rw [joinWith_cons_cons, ih]

/-- `path_buf.pop()` on `d/name` gives `d` -/
theorem parentDir_append_slash (d name : Str) (h : '/' ∉ name) :
    parentDir (d ++ '/' :: name) = d := by
  unfold parentDir
  rw [splitSlash_append_slash d name h, List.dropLast_concat, joinSlash_splitSlash]

/-- an absolute pattern is taken as it is (`PathBuf::push` of an absolute path replaces) -/
theorem resolveInclude_absolute (including p : Str) :
    resolveInclude including ('/' :: p) = '/' :: p := rfl

/-- a relative pattern is resolved against the parent directory of the including file, or taken
    as it is when the including file is a bare name (its parent is the current directory) -/
theorem resolveInclude_relative (including pat : Str) (hrel : pat.head? ≠ some '/') :
    resolveInclude including pat =
      if (splitSlash including).length ≤ 1 then pat else parentDir including ++ '/' :: pat := by
  unfold resolveInclude
  split
  · exact absurd rfl hrel
  · rfl

/-- **relative resolution**: an include in `d/name` resolves `pat` to `d/pat` -/
theorem resolveInclude_in_dir (d name pat : Str) (hname : '/' ∉ name)
    (hrel : pat.head? ≠ some '/') :
    resolveInclude (d ++ '/' :: name) pat = d ++ '/' :: pat := by
  rw [resolveInclude_relative _ _ hrel, parentDir_append_slash d name hname,
    splitSlash_append_slash d name hname]
  have := splitSlash_length_pos d
  rw [if_neg (by rw [List.length_append, List.length_singleton]; omega)]

/-- an include in a file of the current directory resolves `pat` to itself -/
theorem resolveInclude_bare (name pat : Str) (hname : '/' ∉ name) :
    resolveInclude name pat = pat := by
  unfold resolveInclude
  split
  · rfl
  · rw [splitSlash_noSlash name hname]; rfl

end Slt
