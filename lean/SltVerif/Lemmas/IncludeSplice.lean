/-
Reference semantics of include expansion, independent of fuel and of the control flow of
`parse_file_inner`:

* `Spliced cfg fs job out` — big-step relation "`out` is the spliced expansion of `job`";
* `spliceRef` — the explicit flattening `recs.flatMap (record :: brackets of its matches)`, the
  expansions of the included files being given;

and the proof that every successful run of the model (`parseFile` / `expandRecs` / `expandFiles`)
produces exactly this.
-/
import SltVerif.Lemmas.IncludeEq
import SltVerif.Lemmas.IncludeParse
namespace Slt

/-- what is being expanded: a whole file, the remaining records of a file, or the remaining
    matches of the `include` at `line` of file `including` -/
inductive Job
  | file (f : Str) (upper : List (Str × Nat))
  | recs (file : Str) (upper : List (Str × Nat)) (recs : List Rec)
  | files (including : Str) (line : Nat) (upper : List (Str × Nat)) (names : List Str)

/-- **Reference splicing.**  A file expands to the expansion of its parsed records; a record is
    kept with the file's name and chain; an `include` record is immediately followed by the
    bracketed expansion of each match of its pattern (resolved against the including file), in
    the order of `glob`, and at least one match is required; the expansion of a match `g` is
    located at `g` with the include site `(including, line)` put in front of the chain. -/
inductive Spliced (cfg : PCfg) (fs : Fs) : Job → List LRec → Prop
  | file {f upper script recs out} :
      fs.read (normPath f) = some script → parse cfg script = .ok recs →
      Spliced cfg fs (.recs f upper recs) out → Spliced cfg fs (.file f upper) out
  | recsNil {file upper} : Spliced cfg fs (.recs file upper []) []
  | recsOther {file upper r rs rest} :
      (∀ l p, r ≠ .incl l p) → Spliced cfg fs (.recs file upper rs) rest →
      Spliced cfg fs (.recs file upper (r :: rs)) (⟨r, file, upper⟩ :: rest)
  | recsIncl {file upper line pat rs inner rest} :
      glob fs (resolveInclude file pat) ≠ [] →
      Spliced cfg fs (.files file line upper (glob fs (resolveInclude file pat))) inner →
      Spliced cfg fs (.recs file upper rs) rest →
      Spliced cfg fs (.recs file upper (.incl line pat :: rs))
        (⟨.incl line pat, file, upper⟩ :: inner ++ rest)
  | filesNil {including line upper} : Spliced cfg fs (.files including line upper []) []
  | filesCons {including line upper g names inner more} :
      Spliced cfg fs (.file g ((including, line) :: upper)) inner →
      Spliced cfg fs (.files including line upper names) more →
      Spliced cfg fs (.files including line upper (g :: names))
        (⟨.beginInclude g, including, upper⟩ :: inner ++ ⟨.endInclude g, including, upper⟩ :: more)

/-! ### soundness of the model w.r.t. `Spliced` -/

section sound
variable {cfg : PCfg} {fs : Fs}

theorem spliced_of_expandFiles {fuel : Nat}
    (hF : ∀ g site out, parseFile cfg fs fuel g site = .ok out → Spliced cfg fs (.file g site) out)
    (including : Str) (line : Nat) (upper : List (Str × Nat)) :
    ∀ names out, expandFiles cfg fs fuel including ((including, line) :: upper) names = .ok out →
      Spliced cfg fs (.files including line upper names) out := by
  intro names
  induction names with
  | nil =>
    intro out h
    rw [expandFiles_nil] at h; injection h with h; subst h
    exact .filesNil
  | cons g names ih =>
    intro out h
    obtain ⟨inner, more, h1, h2, rfl⟩ := expandFiles_cons_ok_inv h
    exact .filesCons (hF _ _ _ h1) (ih _ h2)

theorem spliced_of_expandRecs {fuel : Nat}
    (hF : ∀ g site out, parseFile cfg fs fuel g site = .ok out → Spliced cfg fs (.file g site) out)
    (file : Str) (upper : List (Str × Nat)) :
    ∀ recs out, expandRecs cfg fs fuel file upper recs = .ok out →
      Spliced cfg fs (.recs file upper recs) out := by
  intro recs
  induction recs with
  | nil =>
    intro out h
    rw [expandRecs_nil] at h; injection h with h; subst h
    exact .recsNil
  | cons r rs ih =>
    intro out h
    rcases Rec.incl_or_not r with ⟨l, p, rfl⟩ | hr
    · obtain ⟨hne, inner, rest, h1, h2, rfl⟩ := expandRecs_incl_ok_inv h
      exact .recsIncl hne (spliced_of_expandFiles hF _ _ _ _ _ h1) (ih _ h2)
    · obtain ⟨rest, h1, rfl⟩ := expandRecs_other_ok_inv hr h
      exact .recsOther hr (ih _ h1)

/-- every successful `parseFile` run yields the reference splicing -/
theorem spliced_of_parseFile :
    ∀ (fuel : Nat) (f : Str) (upper : List (Str × Nat)) (out : List LRec),
      parseFile cfg fs fuel f upper = .ok out → Spliced cfg fs (.file f upper) out := by
  intro fuel
  induction fuel with
  | zero => intro f upper out h; rw [parseFile_zero] at h; cases h
  | succ n ih =>
    intro f upper out h
    obtain ⟨n', script, recs, hn, hr, hp, he⟩ := parseFile_ok_inv h
    cases hn
    exact .file hr hp (spliced_of_expandRecs ih _ _ _ _ he)

theorem spliced_of_expandRecs' {fuel : Nat} {file : Str} {upper : List (Str × Nat)}
    {recs : List Rec} {out : List LRec} (h : expandRecs cfg fs fuel file upper recs = .ok out) :
    Spliced cfg fs (.recs file upper recs) out :=
  spliced_of_expandRecs (fun g site out h => spliced_of_parseFile fuel g site out h) _ _ _ _ h

theorem spliced_of_expandFiles' {fuel : Nat} {including : Str} {line : Nat}
    {upper : List (Str × Nat)} {names : List Str} {out : List LRec}
    (h : expandFiles cfg fs fuel including ((including, line) :: upper) names = .ok out) :
    Spliced cfg fs (.files including line upper names) out :=
  spliced_of_expandFiles (fun g site out h => spliced_of_parseFile fuel g site out h) _ _ _ _ _ h

end sound

/-! ### `Spliced` is functional -/

theorem Spliced.det {cfg : PCfg} {fs : Fs} {j : Job} {o₁ o₂ : List LRec}
    (h₁ : Spliced cfg fs j o₁) (h₂ : Spliced cfg fs j o₂) : o₁ = o₂ := by
  induction h₁ generalizing o₂ with
  | file hr hp _ ih =>
    cases h₂ with
    | file hr' hp' h' =>
      rw [hr] at hr'; cases hr'
      rw [hp] at hp'; cases hp'
      exact ih h'
  | recsNil => cases h₂; rfl
  | recsOther hr _ ih =>
    cases h₂ with
    | recsOther _ h' => rw [ih h']
    | recsIncl _ _ _ => exact absurd rfl (hr _ _)
  | recsIncl _ _ _ ih1 ih2 =>
    cases h₂ with
    | recsOther hr' _ => exact absurd rfl (hr' _ _)
    | recsIncl _ h1' h2' => rw [ih1 h1', ih2 h2']
  | filesNil => cases h₂; rfl
  | filesCons _ _ ih1 ih2 =>
    cases h₂ with
    | filesCons h1' h2' => rw [ih1 h1', ih2 h2']

/-! ### the explicit flattening -/

/-- the bracketed block spliced in for one matched file `g` -/
def bracket (file : Str) (upper : List (Str × Nat)) (g : Str) (inner : List LRec) : List LRec :=
  ⟨.beginInclude g, file, upper⟩ :: inner ++ [⟨.endInclude g, file, upper⟩]

/-- what one record of `file` contributes: itself, located at `(file, upper)`; for an `include`
    record additionally one bracketed block per match of its pattern, in `glob` order, the
    expansion `sub g site` of a match being given -/
def spliceOne (fs : Fs) (sub : Str → List (Str × Nat) → List LRec) (file : Str)
    (upper : List (Str × Nat)) (r : Rec) : List LRec :=
  ⟨r, file, upper⟩ ::
    match r with
    | .incl line pat =>
      (glob fs (resolveInclude file pat)).flatMap
        (fun g => bracket file upper g (sub g ((file, line) :: upper)))
    | _ => []

/-- reference flattening of the records of `file` -/
def spliceRef (fs : Fs) (sub : Str → List (Str × Nat) → List LRec) (file : Str)
    (upper : List (Str × Nat)) (recs : List Rec) : List LRec :=
  recs.flatMap (spliceOne fs sub file upper)

/-- the expansion of an included file as computed with the given fuel (`[]` if it fails) -/
def expansionOf (cfg : PCfg) (fs : Fs) (fuel : Nat) (g : Str) (site : List (Str × Nat)) :
    List LRec :=
  match parseFile cfg fs fuel g site with
  | .ok l => l
  | .error _ => []

theorem expansionOf_of_ok {cfg : PCfg} {fs : Fs} {fuel : Nat} {g : Str} {site : List (Str × Nat)}
    {out : List LRec} (h : parseFile cfg fs fuel g site = .ok out) :
    expansionOf cfg fs fuel g site = out := by
  unfold expansionOf; rw [h]

theorem spliceOne_other {fs : Fs} {sub : Str → List (Str × Nat) → List LRec} {file : Str}
    {upper : List (Str × Nat)} {r : Rec} (hr : ∀ l p, r ≠ .incl l p) :
    spliceOne fs sub file upper r = [⟨r, file, upper⟩] := by
  cases r with
  | incl l p => exact absurd rfl (hr l p)
  | _ => rfl

theorem expandFiles_eq_flatMap {cfg : PCfg} {fs : Fs} {fuel : Nat} {including : Str} {line : Nat}
    {upper : List (Str × Nat)} :
    ∀ {names : List Str} {out : List LRec},
      expandFiles cfg fs fuel including ((including, line) :: upper) names = .ok out →
      out = names.flatMap (fun g => bracket including upper g
              (expansionOf cfg fs fuel g ((including, line) :: upper))) ∧
      ∀ g ∈ names, parseFile cfg fs fuel g ((including, line) :: upper) =
        .ok (expansionOf cfg fs fuel g ((including, line) :: upper)) := by
  intro names
  induction names with
  | nil =>
    intro out h
    rw [expandFiles_nil] at h; injection h with h; subst h
    exact ⟨rfl, fun g hg => by cases hg⟩
  | cons g names ih =>
    intro out h
    obtain ⟨inner, more, h1, h2, rfl⟩ := expandFiles_cons_ok_inv h
    obtain ⟨e1, e2⟩ := ih h2
    refine ⟨?_, ?_⟩
    · rw [List.flatMap_cons, ← e1, expansionOf_of_ok h1]
      simp [bracket]
    · intro g' hg'
      rcases List.mem_cons.1 hg' with rfl | hg'
      · rw [expansionOf_of_ok h1]; exact h1
      · exact e2 _ hg'

/-- **Splicing, equational form**: a successful `expandRecs` is the reference flattening over the
    (successful) expansions of the included files; every include has at least one match. -/
theorem expandRecs_eq_spliceRef {cfg : PCfg} {fs : Fs} {fuel : Nat} {file : Str}
    {upper : List (Str × Nat)} :
    ∀ {recs : List Rec} {out : List LRec},
      expandRecs cfg fs fuel file upper recs = .ok out →
      out = spliceRef fs (expansionOf cfg fs fuel) file upper recs ∧
      ∀ line pat, .incl line pat ∈ recs →
        glob fs (resolveInclude file pat) ≠ [] ∧
        ∀ g ∈ glob fs (resolveInclude file pat),
          parseFile cfg fs fuel g ((file, line) :: upper) =
            .ok (expansionOf cfg fs fuel g ((file, line) :: upper)) := by
  intro recs
  induction recs with
  | nil =>
    intro out h
    rw [expandRecs_nil] at h; injection h with h; subst h
    exact ⟨rfl, fun _ _ hm => by cases hm⟩
  | cons r rs ih =>
    intro out h
    rcases Rec.incl_or_not r with ⟨l, p, rfl⟩ | hr
    · obtain ⟨hne, inner, rest, h1, h2, rfl⟩ := expandRecs_incl_ok_inv h
      obtain ⟨e1, e2⟩ := ih h2
      obtain ⟨f1, f2⟩ := expandFiles_eq_flatMap h1
      refine ⟨?_, ?_⟩
      · unfold spliceRef at e1 ⊢
        rw [List.flatMap_cons, ← e1, f1]
        simp [spliceOne]
      · intro line pat hm
        rcases List.mem_cons.1 hm with hm | hm
        · cases hm; exact ⟨hne, f2⟩
        · exact e2 _ _ hm
    · obtain ⟨rest, h1, rfl⟩ := expandRecs_other_ok_inv hr h
      obtain ⟨e1, e2⟩ := ih h1
      refine ⟨?_, ?_⟩
      · unfold spliceRef at e1 ⊢
        rw [List.flatMap_cons, ← e1, spliceOne_other hr]
        rfl
      · intro line pat hm
        rcases List.mem_cons.1 hm with hm | hm
        · exact absurd hm.symm (hr _ _)
        · exact e2 _ _ hm

end Slt
