/-
Algebra of the default normaliser `normalize s = s.trim().split_ascii_whitespace().join(" ")`
and of `default_validator` (runner.rs 473-523), used by C06.

`normalize` trims with the UNICODE notion of white space (`isWs`) but splits with the ASCII
notion (`isAsciiWs`).  Everything below is therefore stated for a generic trimmer `trimP p`
(`trim = trimP isWs` by `rfl`) and a generic splitter `splitAux p`.

Helper lemmas live in `Slt.Norm`; the named results of the task live in `Slt`.
-/
import SltVerif.Shape
import SltVerif.Lemmas.Text
namespace Slt

/-! ### generic trimming -/

/-- `trim` for an arbitrary notion of blank -/
def trimP (p : Char → Bool) (s : Str) : Str := ((s.dropWhile p).reverse.dropWhile p).reverse

theorem trim_eq_trimP (s : Str) : trim s = trimP isWs s := rfl

/-- Rust `str::trim_ascii` (same definition as `trim`, ASCII blanks only) -/
def asciiTrim (s : Str) : Str := trimP isAsciiWs s

/-- neither the first nor the last character is a blank -/
def Trimmed (p : Char → Bool) (u : Str) : Prop :=
  (∀ c, u.head? = some c → p c = false) ∧ (∀ c, u.getLast? = some c → p c = false)

namespace Norm

theorem isWs_of_isAsciiWs (c : Char) (h : isAsciiWs c = true) : isWs c = true := by
  simp only [isAsciiWs, isWs, Bool.or_eq_true, beq_iff_eq, Bool.and_eq_true,
    decide_eq_true_eq] at *
  omega

theorem not_isAsciiWs_of_not_isWs (c : Char) (h : isWs c = false) : isAsciiWs c = false := by
  cases h' : isAsciiWs c
  · rfl
  · rw [isWs_of_isAsciiWs c h'] at h; cases h

theorem allSep_ws_of_ascii (a : Str) (h : AllSep isAsciiWs a) : AllSep isWs a :=
  fun c hc => isWs_of_isAsciiWs c (h c hc)

variable (p : Char → Bool)

theorem dropWhile_head (s : Str) (c : Char) (h : (s.dropWhile p).head? = some c) : p c = false := by
  induction s with
  | nil => simp at h
  | cons d ds ih =>
    by_cases hd : p d = true
    · rw [List.dropWhile_cons_of_pos hd] at h; exact ih h
    · rw [List.dropWhile_cons_of_neg hd] at h
      simp at h; subst h; simpa using hd

theorem mem_takeWhile_sat (s : Str) (c : Char) (h : c ∈ s.takeWhile p) : p c = true := by
  induction s with
  | nil => simp at h
  | cons d ds ih =>
    by_cases hd : p d = true
    · rw [List.takeWhile_cons_of_pos hd] at h
      rcases List.mem_cons.mp h with rfl | h
      · exact hd
      · exact ih h
    · rw [List.takeWhile_cons_of_neg hd] at h; cases h

theorem head?_append_ne {l : Str} (m : Str) (hne : l ≠ []) : (l ++ m).head? = l.head? := by
  cases l with
  | nil => exact absurd rfl hne
  | cons _ _ => rfl

theorem getLast?_append_ne (l : Str) {m : Str} (hne : m ≠ []) :
    (l ++ m).getLast? = m.getLast? := by
  rcases List.eq_nil_or_concat m with rfl | ⟨m', b, rfl⟩
  · exact absurd rfl hne
  · rw [List.concat_eq_append, ← List.append_assoc, List.getLast?_concat, List.getLast?_concat]

/-- what is left after dropping leading blanks is the trimmed text and the trailing blanks -/
theorem dropWhile_eq_trimP_append (s : Str) :
    s.dropWhile p = trimP p s ++ ((s.dropWhile p).reverse.takeWhile p).reverse := by
  have h2 : (s.dropWhile p).reverse.takeWhile p ++ (s.dropWhile p).reverse.dropWhile p =
      (s.dropWhile p).reverse := List.takeWhile_append_dropWhile
  unfold trimP
  rw [← List.reverse_append, h2, List.reverse_reverse]

theorem dropWhile_allSep_append (a r : Str) (ha : AllSep p a)
    (hr : ∀ c, r.head? = some c → p c = false) : (a ++ r).dropWhile p = r := by
  induction a with
  | nil =>
    cases r with
    | nil => rfl
    | cons c cs =>
      have : p c = false := hr c rfl
      simp [this]
  | cons d ds ih =>
    have hd : p d = true := ha d (by simp)
    simp only [List.cons_append]
    rw [List.dropWhile_cons_of_pos hd]
    exact ih (fun c hc => ha c (by simp [hc]))

/-- `s = (leading blanks) ++ trimP p s ++ (trailing blanks)` -/
theorem trimP_decomp (s : Str) :
    ∃ a b, s = a ++ trimP p s ++ b ∧ AllSep p a ∧ AllSep p b := by
  refine ⟨s.takeWhile p, ((s.dropWhile p).reverse.takeWhile p).reverse, ?_, ?_, ?_⟩
  · have h1 : s.takeWhile p ++ s.dropWhile p = s := List.takeWhile_append_dropWhile
    rw [List.append_assoc, ← dropWhile_eq_trimP_append p s, h1]
  · intro c hc; exact mem_takeWhile_sat p _ c hc
  · intro c hc
    rw [List.mem_reverse] at hc
    exact mem_takeWhile_sat p _ c hc

theorem trimP_trimmed (s : Str) : Trimmed p (trimP p s) := by
  constructor
  · intro c hc
    apply dropWhile_head p s c
    rw [dropWhile_eq_trimP_append p s]
    cases ht : trimP p s with
    | nil => rw [ht] at hc; simp at hc
    | cons d ds => rw [ht] at hc; simpa using hc
  · intro c hc
    unfold trimP at hc
    rw [List.getLast?_reverse] at hc
    exact dropWhile_head p _ c hc

/-- a text framed by blanks is trimmed to its core -/
theorem trimP_of_decomp (a core b : Str) (ha : AllSep p a) (hb : AllSep p b)
    (hcore : Trimmed p core) (hne : core ≠ []) : trimP p (a ++ core ++ b) = core := by
  unfold trimP
  have h1 : (a ++ core ++ b).dropWhile p = core ++ b := by
    rw [List.append_assoc]
    apply dropWhile_allSep_append p a (core ++ b) ha
    intro c hc
    rw [head?_append_ne _ hne] at hc
    exact hcore.1 c hc
  rw [h1, List.reverse_append]
  have h2 : (b.reverse ++ core.reverse).dropWhile p = core.reverse := by
    apply dropWhile_allSep_append p b.reverse core.reverse
    · intro c hc; exact hb c (by simpa using hc)
    · intro c hc
      rw [List.head?_reverse] at hc
      exact hcore.2 c hc
  rw [h2, List.reverse_reverse]

theorem trimP_id (u : Str) (h : Trimmed p u) : trimP p u = u := by
  by_cases hne : u = []
  · subst hne; rfl
  · have := trimP_of_decomp p [] u [] (by intro c hc; cases hc) (by intro c hc; cases hc) h hne
    simpa using this

theorem trimP_idem (s : Str) : trimP p (trimP p s) = trimP p s :=
  trimP_id p _ (trimP_trimmed p s)

/-! ### the splitter across separators -/

theorem splitAux_append_sep (cur x : Str) (d : Char) (y : Str) (hd : p d = true) :
    splitAux p cur (x ++ d :: y) = splitAux p cur x ++ splitAux p [] y := by
  induction x generalizing cur with
  | nil =>
    cases cur <;> simp [splitAux, hd]
  | cons c cs ih =>
    by_cases hc : p c = true
    · cases cur <;> simp [splitAux, hc, ih]
    · have hc' : p c = false := by simpa using hc
      simp only [List.cons_append, splitAux, hc', Bool.false_eq_true, if_false]
      exact ih (cur ++ [c])

theorem splitAux_append_allSep (cur x s y : Str) (hs : AllSep p s) (hne : s ≠ []) :
    splitAux p cur (x ++ s ++ y) = splitAux p cur x ++ splitAux p [] y := by
  cases s with
  | nil => exact absurd rfl hne
  | cons d ds =>
    have hd : p d = true := hs d (by simp)
    rw [List.append_assoc, List.cons_append, splitAux_append_sep p cur x d (ds ++ y) hd,
      splitAux_allSep p ds (fun c hc => hs c (by simp [hc])) y]

theorem splitAux_append_trailing (cur x b : Str) (hb : AllSep p b) :
    splitAux p cur (x ++ b) = splitAux p cur x := by
  cases b with
  | nil => simp
  | cons d ds =>
    have hd : p d = true := hb d (by simp)
    rw [splitAux_append_sep p cur x d ds hd,
      splitAux_nil_of_allSep p ds (fun c hc => hb c (by simp [hc]))]
    simp

/-- a token under construction is never lost: it is a prefix of the first piece -/
theorem splitAux_head (cur s : Str) (hcur : cur ≠ []) :
    ∃ t rest, splitAux p cur s = (cur ++ t) :: rest := by
  induction s generalizing cur with
  | nil =>
    refine ⟨[], [], ?_⟩
    cases cur with
    | nil => exact absurd rfl hcur
    | cons _ _ => simp [splitAux]
  | cons c cs ih =>
    by_cases hc : p c = true
    · refine ⟨[], splitAux p [] cs, ?_⟩
      cases cur with
      | nil => exact absurd rfl hcur
      | cons _ _ => simp [splitAux, hc]
    · have hc' : p c = false := by simpa using hc
      obtain ⟨t, rest, h⟩ := ih (cur ++ [c]) (by simp)
      refine ⟨c :: t, rest, ?_⟩
      simp only [splitAux, hc', Bool.false_eq_true, if_false, h]
      simp

/-- a final non-blank character ends the last piece -/
theorem splitAux_last (cur s : Str) (c : Char) (hc : p c = false) :
    ∃ init t, splitAux p cur (s ++ [c]) = init ++ [t ++ [c]] := by
  induction s generalizing cur with
  | nil =>
    refine ⟨[], cur, ?_⟩
    simp [splitAux, hc]
  | cons d ds ih =>
    by_cases hd : p d = true
    · obtain ⟨init, t, h⟩ := ih []
      cases cur with
      | nil => exact ⟨init, t, by simp [splitAux, hd, h]⟩
      | cons e es => exact ⟨(e :: es) :: init, t, by simp [splitAux, hd, h]⟩
    · have hd' : p d = false := by simpa using hd
      obtain ⟨init, t, h⟩ := ih (cur ++ [d])
      exact ⟨init, t, by simp only [List.cons_append, splitAux, hd', Bool.false_eq_true, if_false, h]⟩

/-! ### joinWith -/

theorem joinWith_append (sep : Str) (l m : List Str) (hl : l ≠ []) (hm : m ≠ []) :
    joinWith sep (l ++ m) = joinWith sep l ++ sep ++ joinWith sep m := by
  induction l with
  | nil => exact absurd rfl hl
  | cons t ts ih =>
    cases ts with
    | nil =>
      cases m with
      | nil => exact absurd rfl hm
      | cons u us => simp [joinWith]
    | cons u us =>
      have := ih (by simp)
      simp only [List.cons_append] at this ⊢
      rw [joinWith_cons_cons, joinWith_cons_cons, this]
      simp [List.append_assoc]

theorem joinWith_concat (sep : Str) (init : List Str) (x : Str) :
    ∃ pre, joinWith sep (init ++ [x]) = pre ++ x := by
  cases init with
  | nil => exact ⟨[], by simp [joinWith]⟩
  | cons t ts =>
    refine ⟨joinWith sep (t :: ts) ++ sep, ?_⟩
    rw [joinWith_append sep (t :: ts) [x] (by simp) (by simp)]
    simp [joinWith]

theorem joinWith_cons_head (sep : Str) (c : Char) (t : Str) (rest : List Str) :
    (joinWith sep ((c :: t) :: rest)).head? = some c := by
  cases rest <;> simp [joinWith]

/-- joining joined groups = joining the concatenation, provided no group is empty -/
theorem joinWith_map_joinWith (sep : Str) (L : List (List Str)) (h : ∀ l ∈ L, l ≠ []) :
    joinWith sep (L.map (joinWith sep)) = joinWith sep L.flatten := by
  induction L with
  | nil => rfl
  | cons l L ih =>
    have hl : l ≠ [] := h l (by simp)
    have ih' := ih (fun l' hl' => h l' (by simp [hl']))
    cases L with
    | nil => simp [joinWith]
    | cons l2 L2 =>
      have hl2 : l2 ≠ [] := h l2 (by simp)
      have hfl : (l2 :: L2).flatten ≠ [] := by
        cases l2 with
        | nil => exact absurd rfl hl2
        | cons _ _ => simp
      simp only [List.map_cons] at ih' ⊢
      rw [joinWith_cons_cons, ih']
      show _ = joinWith sep (l ++ (l2 :: L2).flatten)
      rw [joinWith_append sep l _ hl hfl]

/-! ### the splitter on a join of arbitrary texts -/

theorem splitAux_joinWith (sep : Str) (hsep : AllSep p sep) (hne : sep ≠ []) (cols : List Str) :
    splitAux p [] (joinWith sep cols) = (cols.map (splitAux p [])).flatten := by
  induction cols with
  | nil => simp [joinWith, splitAux]
  | cons t ts ih =>
    cases ts with
    | nil => simp [joinWith]
    | cons u us =>
      rw [joinWith_cons_cons, splitAux_append_allSep p [] t sep _ hsep hne, ih]
      simp

theorem splitAux_ne_nil (c : Char) (r : Str) (hc : p c = false) : splitAux p [] (c :: r) ≠ [] := by
  obtain ⟨t, rest, h⟩ := splitAux_head p [c] r (by simp)
  simp only [splitAux, hc, Bool.false_eq_true, if_false, List.nil_append, h]
  simp

end Norm

/-! ### the normaliser -/

open Norm

/-- normalised text is trimmed (Unicode sense): the first piece starts with the first character of
the trimmed input, the last piece ends with its last character -/
theorem Norm.trimmed_joinSp_asciiWords (u : Str) (hu : Trimmed isWs u) :
    Trimmed isWs (joinSp (asciiWords u)) := by
  constructor
  · intro c hc
    cases u with
    | nil => simp [asciiWords, splitAux, joinSp, joinWith] at hc
    | cons d r =>
      have hd : isWs d = false := hu.1 d rfl
      have hd' := not_isAsciiWs_of_not_isWs d hd
      obtain ⟨t, rest, h⟩ := splitAux_head isAsciiWs [d] r (by simp)
      have : asciiWords (d :: r) = (d :: t) :: rest := by
        simp only [asciiWords, splitAux, hd', Bool.false_eq_true, if_false, List.nil_append, h]
        simp
      rw [this, joinSp, joinWith_cons_head] at hc
      cases hc; exact hd
  · intro c hc
    rcases List.eq_nil_or_concat u with rfl | ⟨s, d, hs⟩
    · simp [asciiWords, splitAux, joinSp, joinWith] at hc
    · rw [List.concat_eq_append] at hs
      subst hs
      have hd : isWs d = false := hu.2 d (by simp)
      have hd' := not_isAsciiWs_of_not_isWs d hd
      obtain ⟨init, t, h⟩ := splitAux_last isAsciiWs [] s d hd'
      obtain ⟨pre, hp⟩ := joinWith_concat [' '] init (t ++ [d])
      have : joinSp (asciiWords (s ++ [d])) = pre ++ (t ++ [d]) := by
        rw [asciiWords, h, joinSp, hp]
      rw [this, ← List.append_assoc] at hc
      simp at hc
      subst hc; exact hd

theorem normalize_trimmed (s : Str) : Trimmed isWs (normalize s) :=
  Norm.trimmed_joinSp_asciiWords _ (trimP_trimmed isWs s)

theorem trim_normalize (s : Str) : trim (normalize s) = normalize s :=
  trimP_id isWs _ (normalize_trimmed s)

theorem asciiWords_normalize (s : Str) : asciiWords (normalize s) = asciiWords (trim s) :=
  asciiWords_joinSp _ (asciiWords_isTok _)

/-- **The normaliser is idempotent.** -/
theorem normalize_idem (s : Str) : normalize (normalize s) = normalize s := by
  show joinSp (asciiWords (trim (normalize s))) = normalize s
  rw [trim_normalize, asciiWords_normalize]
  rfl

/-- **Two texts are identified by the normaliser exactly when, after Unicode trimming, they have
the same ASCII-white-space-separated words.** -/
theorem normalize_eq_iff (s t : Str) :
    normalize s = normalize t ↔ asciiWords (trim s) = asciiWords (trim t) := by
  constructor
  · intro h
    have := congrArg asciiWords h
    rwa [asciiWords_normalize, asciiWords_normalize] at this
  · intro h
    unfold normalize
    rw [h]

/-! ### rows joined by a column separator -/

/-- The guard on a value: it has a non-blank character, and whatever (Unicode) white space
surrounds it is ASCII white space — i.e. trimming ASCII blanks already trims it completely.
(`normalize` trims with `char::is_whitespace` but splits with `u8::is_ascii_whitespace`; a value
such as `"a\u{A0}"` keeps its no-break space when it stands inside a row but loses it when
normalised on its own.) -/
def ValueOk (v : Str) : Prop := trim v ≠ [] ∧ asciiTrim v = trim v

instance (v : Str) : Decidable (ValueOk v) := by unfold ValueOk; infer_instance

/-- a column separator of the documented format: a non-empty run of blanks / tabs -/
def SepOk (sep : Str) : Prop := sep ≠ [] ∧ ∀ c ∈ sep, c = ' ' ∨ c = '\t'

instance (sep : Str) : Decidable (SepOk sep) := by unfold SepOk; infer_instance

theorem SepOk.allSep {sep : Str} (h : SepOk sep) : AllSep isAsciiWs sep := by
  intro c hc
  rcases h.2 c hc with rfl | rfl <;> decide

namespace Norm

/-- a core without blanks at its ends, framed by ASCII blanks -/
def Edge (v : Str) : Prop :=
  ∃ a core b, v = a ++ core ++ b ∧ AllSep isAsciiWs a ∧ AllSep isAsciiWs b ∧ core ≠ [] ∧
    Trimmed isWs core

theorem edge_of_valueOk (v : Str) (h : ValueOk v) : Edge v := by
  obtain ⟨a, b, hv, ha, hb⟩ := trimP_decomp isAsciiWs v
  refine ⟨a, trim v, b, ?_, ha, hb, h.1, trimP_trimmed isWs v⟩
  rw [← h.2]; exact hv

theorem Edge.trim_eq {v a core b : Str} (hv : v = a ++ core ++ b) (ha : AllSep isAsciiWs a)
    (hb : AllSep isAsciiWs b) (hne : core ≠ []) (ht : Trimmed isWs core) : trim v = core := by
  rw [hv]
  exact trimP_of_decomp isWs a core b (allSep_ws_of_ascii a ha) (allSep_ws_of_ascii b hb) ht hne

theorem Edge.asciiWords_trim {v : Str} (h : Edge v) : asciiWords (trim v) = asciiWords v := by
  obtain ⟨a, core, b, hv, ha, hb, hne, ht⟩ := h
  rw [Edge.trim_eq hv ha hb hne ht, hv]
  unfold asciiWords
  rw [List.append_assoc, splitAux_allSep isAsciiWs a ha, splitAux_append_trailing isAsciiWs [] core b hb]

theorem Edge.words_ne_nil {v : Str} (h : Edge v) : asciiWords (trim v) ≠ [] := by
  obtain ⟨a, core, b, hv, ha, hb, hne, ht⟩ := h
  rw [Edge.trim_eq hv ha hb hne ht]
  cases core with
  | nil => exact absurd rfl hne
  | cons c r => exact splitAux_ne_nil isAsciiWs c r (not_isAsciiWs_of_not_isWs c (ht.1 c rfl))

theorem Edge.append {v w : Str} (s : Str) (hv : Edge v) (hw : Edge w) : Edge (v ++ s ++ w) := by
  obtain ⟨a, core, b, rfl, ha, hb, hne, ht⟩ := hv
  obtain ⟨a', core', b', rfl, ha', hb', hne', ht'⟩ := hw
  refine ⟨a, core ++ (b ++ s ++ a') ++ core', b', by simp [List.append_assoc], ha, hb', by simp [hne], ?_, ?_⟩
  · intro c hc
    rw [List.append_assoc, head?_append_ne _ hne] at hc
    exact ht.1 c hc
  · intro c hc
    rw [getLast?_append_ne _ hne'] at hc
    exact ht'.2 c hc

theorem Edge.joinWith (sep : Str) (cols : List Str) (hne : cols ≠ []) (h : ∀ v ∈ cols, Edge v) :
    Edge (joinWith sep cols) := by
  induction cols with
  | nil => exact absurd rfl hne
  | cons t ts ih =>
    cases ts with
    | nil => exact h t (by simp)
    | cons u us =>
      rw [joinWith_cons_cons]
      exact Edge.append sep (h t (by simp)) (ih (by simp) (fun v hv => h v (by simp [hv])))

end Norm

/-- general form of `normalize_join`: any non-empty separator of ASCII white space -/
theorem normalize_join' (sep : Str) (hne : sep ≠ []) (hsep : AllSep isAsciiWs sep)
    (cols : List Str) (h : ∀ v ∈ cols, ValueOk v) :
    normalize (joinWith sep cols) = joinSp (cols.map normalize) := by
  by_cases hc : cols = []
  · subst hc; rfl
  · have hE : ∀ v ∈ cols, Edge v := fun v hv => edge_of_valueOk v (h v hv)
    have hJ : Edge (joinWith sep cols) := Edge.joinWith sep cols hc hE
    unfold normalize
    rw [hJ.asciiWords_trim]
    unfold asciiWords
    rw [splitAux_joinWith isAsciiWs sep hsep hne cols]
    have h1 : cols.map (splitAux isAsciiWs []) = cols.map (fun v => asciiWords (trim v)) := by
      apply List.map_congr_left
      intro v hv
      exact ((hE v hv).asciiWords_trim).symm
    rw [h1]
    have h2 : cols.map (fun s => joinSp (splitAux isAsciiWs [] (trim s))) =
        (cols.map (fun v => asciiWords (trim v))).map (joinWith [' ']) := by
      rw [List.map_map]; rfl
    rw [h2]
    unfold joinSp
    rw [joinWith_map_joinWith]
    intro l hl
    rw [List.mem_map] at hl
    obtain ⟨v, hv, rfl⟩ := hl
    exact (hE v hv).words_ne_nil

/-- **Normalising a written row = joining the normalised values.**  For values satisfying
`ValueOk` and a separator of blanks / tabs, the line the updater writes for a row normalises to
exactly the line the validator computes from the row. -/
theorem normalize_join (sep : Str) (hsep : SepOk sep) (cols : List Str)
    (h : ∀ v ∈ cols, ValueOk v) :
    normalize (joinWith sep cols) = joinSp (cols.map normalize) :=
  normalize_join' sep hsep.1 hsep.allSep cols h

/-- **The validator accepts the rows as the updater writes them** (the hypothesis `row ≠ []` of the
task statement is not needed: an empty row is written as an empty line). -/
theorem validator_accepts_own_rows' (rows : List Row) (sep : Str)
    (h : ∀ row ∈ rows, ∀ v ∈ row, ValueOk v) (hsep : SepOk sep) :
    defaultValidator rows (rows.map (joinWith sep)) = true := by
  unfold defaultValidator
  rw [decide_eq_true_eq, List.map_map]
  apply List.map_congr_left
  intro row hrow
  exact (normalize_join sep hsep row (h row hrow)).symm

theorem validator_accepts_own_rows (rows : List Row) (sep : Str)
    (h : ∀ row ∈ rows, row ≠ [] ∧ ∀ v ∈ row, ValueOk v) (hsep : SepOk sep) :
    defaultValidator rows (rows.map (joinWith sep)) = true :=
  validator_accepts_own_rows' rows sep (fun row hrow => (h row hrow).2) hsep

/-! ### `ValueOk` is exactly the condition under which trimming a value does not change its words -/

namespace Norm

/-- blanks that are not all ASCII blanks: ASCII blanks, then a first non-ASCII one -/
theorem split_first_nonAscii (a : Str) (h : ¬ AllSep isAsciiWs a) :
    ∃ a1 x a2, a = a1 ++ x :: a2 ∧ AllSep isAsciiWs a1 ∧ isAsciiWs x = false := by
  have h1 : a.takeWhile isAsciiWs ++ a.dropWhile isAsciiWs = a := List.takeWhile_append_dropWhile
  cases hd : a.dropWhile isAsciiWs with
  | nil =>
    exfalso; apply h
    rw [hd, List.append_nil] at h1
    intro c hc; rw [← h1] at hc
    exact mem_takeWhile_sat isAsciiWs a c hc
  | cons x a2 =>
    refine ⟨a.takeWhile isAsciiWs, x, a2, by rw [← hd, h1], ?_, ?_⟩
    · intro c hc; exact mem_takeWhile_sat isAsciiWs a c hc
    · exact dropWhile_head isAsciiWs a x (by rw [hd]; rfl)

theorem split_last_nonAscii (b : Str) (h : ¬ AllSep isAsciiWs b) :
    ∃ b2 x b1, b = b2 ++ x :: b1 ∧ AllSep isAsciiWs b1 ∧ isAsciiWs x = false := by
  have h' : ¬ AllSep isAsciiWs b.reverse := by
    intro hr; apply h; intro c hc; exact hr c (by simpa using hc)
  obtain ⟨a1, x, a2, hb, ha1, hx⟩ := split_first_nonAscii b.reverse h'
  refine ⟨a2.reverse, x, a1.reverse, ?_, ?_, hx⟩
  · have := congrArg List.reverse hb
    rw [List.reverse_reverse] at this
    rw [this]; simp
  · intro c hc; exact ha1 c (by simpa using hc)

theorem asciiWords_first (a1 : Str) (x : Char) (rest : Str) (ha1 : AllSep isAsciiWs a1)
    (hx : isAsciiWs x = false) : ∃ t r, asciiWords (a1 ++ x :: rest) = (x :: t) :: r := by
  obtain ⟨t, r, h⟩ := splitAux_head isAsciiWs [x] rest (by simp)
  refine ⟨t, r, ?_⟩
  unfold asciiWords
  rw [splitAux_allSep isAsciiWs a1 ha1]
  simp only [splitAux, hx, Bool.false_eq_true, if_false, List.nil_append, h]
  simp

theorem asciiWords_final (init : Str) (x : Char) (b1 : Str) (hb1 : AllSep isAsciiWs b1)
    (hx : isAsciiWs x = false) : ∃ i t, asciiWords (init ++ x :: b1) = i ++ [t ++ [x]] := by
  obtain ⟨i, t, h⟩ := splitAux_last isAsciiWs [] init x hx
  refine ⟨i, t, ?_⟩
  unfold asciiWords
  have : init ++ x :: b1 = (init ++ [x]) ++ b1 := by simp
  rw [this, splitAux_append_trailing isAsciiWs [] _ b1 hb1, h]

end Norm

/-- **Exactness of the guard**: a value is `ValueOk` iff it has a non-blank character and Unicode
trimming does not change its ASCII words — which is what `normalize_join` needs of every value that
stands inside a row. -/
theorem valueOk_iff (v : Str) :
    ValueOk v ↔ trim v ≠ [] ∧ asciiWords (trim v) = asciiWords v := by
  constructor
  · intro h
    exact ⟨h.1, (edge_of_valueOk v h).asciiWords_trim⟩
  · rintro ⟨hne, hw⟩
    refine ⟨hne, ?_⟩
    obtain ⟨a, b, hv, ha, hb⟩ := trimP_decomp isWs v
    rw [← trim_eq_trimP] at hv
    have ht : Trimmed isWs (trim v) := trimP_trimmed isWs v
    generalize trim v = core at hv hne hw ht ⊢
    subst hv
    have hta : Trimmed isAsciiWs core :=
      ⟨fun c hc => not_isAsciiWs_of_not_isWs c (ht.1 c hc),
       fun c hc => not_isAsciiWs_of_not_isWs c (ht.2 c hc)⟩
    -- the first / last character of the core
    obtain ⟨c0, r0, hc0⟩ : ∃ c0 r0, core = c0 :: r0 := by
      cases core with
      | nil => exact absurd rfl hne
      | cons c r => exact ⟨c, r, rfl⟩
    have hc0ws : isWs c0 = false := ht.1 c0 (by rw [hc0]; rfl)
    obtain ⟨i1, c1, hc1⟩ : ∃ i1 c1, core = i1 ++ [c1] := by
      rcases List.eq_nil_or_concat core with h | ⟨i, c, h⟩
      · exact absurd h hne
      · exact ⟨i, c, by rw [h, List.concat_eq_append]⟩
    have hc1ws : isWs c1 = false := ht.2 c1 (by rw [hc1]; simp)
    -- leading blanks are ASCII
    have haA : AllSep isAsciiWs a := by
      apply Classical.byContradiction
      intro hna
      obtain ⟨a1, x, a2, rfl, ha1, hx⟩ := split_first_nonAscii a hna
      have hxws : isWs x = true := ha x (by simp)
      obtain ⟨t, r, h1⟩ := asciiWords_first a1 x (a2 ++ core ++ b) ha1 hx
      obtain ⟨t', r', h2⟩ := asciiWords_first [] c0 r0 (by intro c hc; cases hc)
        (not_isAsciiWs_of_not_isWs c0 hc0ws)
      have e1 : asciiWords ((a1 ++ x :: a2) ++ core ++ b) = (x :: t) :: r := by
        rw [← h1]; congr 1; simp
      have e2 : asciiWords core = (c0 :: t') :: r' := by
        rw [← h2, hc0]; rfl
      rw [e1, e2] at hw
      injection hw with hw _
      injection hw with hw _
      rw [hw] at hc0ws; rw [hc0ws] at hxws; cases hxws
    -- trailing blanks are ASCII
    have hbA : AllSep isAsciiWs b := by
      apply Classical.byContradiction
      intro hnb
      obtain ⟨b2, x, b1, rfl, hb1, hx⟩ := split_last_nonAscii b hnb
      have hxws : isWs x = true := hb x (by simp)
      obtain ⟨i, t, h1⟩ := asciiWords_final (a ++ core ++ b2) x b1 hb1 hx
      obtain ⟨i', t', h2⟩ := asciiWords_final i1 c1 [] (by intro c hc; cases hc)
        (not_isAsciiWs_of_not_isWs c1 hc1ws)
      have e1 : asciiWords (a ++ core ++ (b2 ++ x :: b1)) = i ++ [t ++ [x]] := by
        rw [← h1]; congr 1; simp
      have e2 : asciiWords core = i' ++ [t' ++ [c1]] := by
        rw [← h2, hc1]
      rw [e1, e2] at hw
      have hl := congrArg List.getLast? hw
      rw [List.getLast?_concat, List.getLast?_concat] at hl
      injection hl with hl
      have hl' := congrArg List.getLast? hl
      rw [List.getLast?_concat, List.getLast?_concat] at hl'
      injection hl' with hl'
      rw [hl'] at hc1ws; rw [hc1ws] at hxws; cases hxws
    exact trimP_of_decomp isAsciiWs a core b haA hbA hta hne

/-! ### the guard is necessary; non-vacuity -/

-- a value ending in U+00A0 (no-break space) is not `ValueOk` …
example : ¬ ValueOk (kw "a\u00a0") := by decide
-- … and `normalize_join` is false for it: inside the row the no-break space survives
-- (`split_ascii_whitespace` does not split at it), on its own it is trimmed away
example : normalize (joinWith [' '] [kw "a\u00a0", kw "b"]) = kw "a\u00a0 b" ∧
    joinSp ([kw "a\u00a0", kw "b"].map normalize) = kw "a b" := by decide
-- so the validator rejects the very line the updater writes (record-level corner, outside the guard)
example : defaultValidator [[kw "a\u00a0", kw "b"]]
    ([[kw "a\u00a0", kw "b"]].map (joinWith [' '])) = false := by decide
-- same for a leading vertical tab (Unicode white space, but not ASCII white space for Rust)
example : ¬ ValueOk (kw "\x0ba") := by decide
example : defaultValidator [[kw "b", kw "\x0ba"]]
    ([[kw "b", kw "\x0ba"]].map (joinWith [' '])) = false := by decide
-- a blank-only value is not `ValueOk`, and the law fails for it as well
example : ¬ ValueOk (kw " ") := by decide
example : normalize (joinWith [' '] [kw " ", kw "b"]) ≠ joinSp ([kw " ", kw "b"].map normalize) := by
  decide
-- instances inside the guard: inner double blanks, tabs, surrounding ASCII blanks, inner NBSP
example : ValueOk (kw " x  y\t") := by decide
example : ValueOk (kw "a\u00a0b") := by decide
example : SepOk (kw "\t") ∧ SepOk (kw "  ") ∧ ¬ SepOk [] ∧ ¬ SepOk (kw ",") := by decide
example : normalize (joinWith (kw "\t") [kw " x  y\t", kw "a\u00a0b"]) = kw "x y a\u00a0b" := by decide
example : defaultValidator [[kw " x  y\t", kw "1"], [kw "z", kw "2 "]]
    ([[kw " x  y\t", kw "1"], [kw "z", kw "2 "]].map (joinWith (kw "\t"))) = true := by decide
example : normalize (kw "  a \t b\n") = kw "a b" := by decide

end Slt
