/-
Invariants of the parser transducer used by C04: failures are sticky, the line counter counts
consumed lines, every failure is located at a consumed line (or one past the last line for
an unexpected end of file), panics come only from a duration token.
-/
import SltVerif.Parser
namespace Slt

theorem step_fail (cfg : PCfg) (s : PState) (l : Str) (h : s.fail.isSome = true) :
    step cfg s l = s := by
  simp [step, h]

theorem foldl_step_fail (cfg : PCfg) (ls : List Str) (s : PState) (h : s.fail.isSome = true) :
    ls.foldl (step cfg) s = s := by
  induction ls with
  | nil => rfl
  | cons l ls ih => simp only [List.foldl_cons, step_fail cfg s l h, ih]

/-- header line of the record under construction (0 at top level) -/
def Mode.hdrLine : Mode → Nat
  | .top => 0
  | .sqlFirst h | .sql h _ | .results h _ _ | .multi h _ _ _ => h.line

def Mode.isTop : Mode → Bool
  | .top => true
  | _ => false

/-- where a failure is located -/
def PFail.line : PFail → Nat
  | .err _ n => n
  | .panic n => n

def PFail.isPanic : PFail → Bool
  | .panic _ => true
  | _ => false

/-- a line none of whose tokens makes `parse_duration` panic -/
def LineNoDurPanic (l : Str) : Prop := ∀ t ∈ words l, parseDuration t ≠ .panic

/-- outcome of `dispatch` on a fresh top-level state: counter untouched; either nothing failed and
the mode is still top or a header for line `n` was started; or a failure located at `n`. -/
structure DispatchOk (s r : PState) (n : Nat) : Prop where
  num : r.num = s.num
  fail : r.fail = none ∨ ∃ f, r.fail = some f ∧ f.line = n
  mode : r.mode = s.mode ∨ ∃ h, r.mode = .sqlFirst h ∧ h.line = n

theorem DispatchOk.refl (s : PState) (n : Nat) (h : s.fail = none) : DispatchOk s s n :=
  ⟨rfl, Or.inl h, Or.inl rfl⟩

theorem failKind_ok (s : PState) (n : Nat) (k : PErrKind) : DispatchOk s (failKind s n k) n :=
  ⟨rfl, Or.inr ⟨_, rfl, rfl⟩, Or.inl rfl⟩

theorem failWith_ok (s : PState) (n : Nat) (e : HErr) : DispatchOk s (failWith s n e) n := by
  cases e <;> exact ⟨rfl, Or.inr ⟨_, rfl, rfl⟩, Or.inl rfl⟩

theorem push_ok (s : PState) (n : Nat) (r : Rec) (h : s.fail = none) : DispatchOk s (push s r) n :=
  ⟨rfl, Or.inl h, Or.inl rfl⟩

theorem dispatch_ok (cfg : PCfg) (s : PState) (n : Nat) (toks : List Str) (h : s.fail = none) :
    DispatchOk s (dispatch cfg s n toks) n := by
  unfold dispatch
  split
  · exact DispatchOk.refl s n h
  · split
    · -- statement
      unfold doStatement
      split
      · exact failWith_ok _ _ _
      · split
        · exact failWith_ok _ _ _
        · exact ⟨rfl, Or.inl h, Or.inr ⟨_, rfl, rfl⟩⟩
    · split
      · unfold doQuery
        split
        · exact failWith_ok _ _ _
        · split
          · exact failWith_ok _ _ _
          · exact ⟨rfl, Or.inl h, Or.inr ⟨_, rfl, rfl⟩⟩
      · split
        · unfold doControl
          split
          · repeat' split
            all_goals first
              | exact push_ok _ _ _ h
              | exact failKind_ok _ _ _
          · exact failKind_ok _ _ _
        · split
          · split
            · exact push_ok _ _ _ h
            · exact failKind_ok _ _ _
          · split
            · unfold doSystem
              split
              · exact failWith_ok _ _ _
              · exact ⟨rfl, Or.inl h, Or.inr ⟨_, rfl, rfl⟩⟩
            · split
              · unfold dispatch2
                repeat' split
                all_goals first
                  | exact push_ok _ _ _ h
                  | exact failKind_ok _ _ _
                  | (unfold doSleep; split <;> first
                      | exact push_ok _ _ _ h
                      | exact failKind_ok _ _ _
                      | exact ⟨rfl, Or.inr ⟨_, rfl, rfl⟩, Or.inl rfl⟩)
                  | (unfold doHashThreshold; split <;> first
                      | exact push_ok _ _ _ h
                      | exact failKind_ok _ _ _)
                  | exact ⟨rfl, Or.inl h, Or.inl rfl⟩
              · exact failKind_ok _ _ _

/-- invariant after `i` consumed lines -/
structure PInv (s : PState) (i : Nat) : Prop where
  num_le : s.num ≤ i
  num_eq : s.fail = none → s.num = i
  fail_line : ∀ f, s.fail = some f → 1 ≤ f.line ∧ f.line ≤ i
  hdr_le : s.fail = none → s.mode.hdrLine ≤ s.num
  hdr_pos : s.fail = none → s.mode.isTop = false → 1 ≤ s.mode.hdrLine

theorem pinv_init : PInv {} 0 := by
  constructor <;> simp [Mode.hdrLine, Mode.isTop]

theorem flushComments_fields (s : PState) :
    (flushComments s).num = s.num ∧ (flushComments s).fail = s.fail ∧
    (flushComments s).mode = s.mode ∧ (flushComments s).conds = s.conds ∧
    (flushComments s).conn = s.conn := by
  unfold flushComments; split <;> simp

theorem onDelimiter_ok (s : PState) (h : Hdr) (sql : Str) (hf : s.fail = none) :
    (onDelimiter s h sql).num = s.num ∧
    ((onDelimiter s h sql).fail = none ∧ (onDelimiter s h sql).mode.hdrLine = h.line ∧
        (onDelimiter s h sql).mode.isTop = false ∨
     ∃ f, (onDelimiter s h sql).fail = some f ∧ f.line = h.line) := by
  unfold onDelimiter
  cases h with
  | stmt l c cn e r =>
    simp only []
    split
    · exact ⟨rfl, Or.inl ⟨hf, rfl, rfl⟩⟩
    · exact ⟨rfl, Or.inr ⟨_, rfl, rfl⟩⟩
    · exact ⟨rfl, Or.inr ⟨_, rfl, rfl⟩⟩
  | query l c cn e r =>
    simp only []
    split
    · exact ⟨rfl, Or.inl ⟨hf, rfl, rfl⟩⟩
    · exact ⟨rfl, Or.inl ⟨hf, rfl, rfl⟩⟩
    · exact ⟨rfl, Or.inr ⟨_, rfl, rfl⟩⟩
  | system l c r => exact ⟨rfl, Or.inl ⟨hf, rfl, rfl⟩⟩

/-! step equations, one per mode -/

theorem step_top (cfg : PCfg) (s : PState) (l : Str) (hm : s.mode = .top) (hf : s.fail = none) :
    step cfg s l = topLine cfg s l := by simp [step, hf, hm]

theorem step_sqlFirst (cfg : PCfg) (s : PState) (l : Str) (h : Hdr) (hm : s.mode = .sqlFirst h)
    (hf : s.fail = none) :
    step cfg s l = { s with mode := .sql h [l], num := s.num + 1 } := by simp [step, hf, hm]

theorem step_sql (cfg : PCfg) (s : PState) (l : Str) (h : Hdr) (acc : List Str)
    (hm : s.mode = .sql h acc) (hf : s.fail = none) :
    step cfg s l =
      if l.isEmpty then emit { s with num := s.num + 1 } (h.plain (joinNl acc))
      else if l = kw "----" then onDelimiter { s with num := s.num + 1 } h (joinNl acc)
      else { s with num := s.num + 1, mode := .sql h (acc ++ [l]) } := by
  simp [step, hf, hm]

theorem step_results (cfg : PCfg) (s : PState) (l : Str) (h : Hdr) (sql : Str) (acc : List Str)
    (hm : s.mode = .results h sql acc) (hf : s.fail = none) :
    step cfg s l =
      if l.isEmpty then emit { s with num := s.num + 1 } (h.withResults sql acc)
      else { s with num := s.num + 1, mode := .results h sql (acc ++ [l]) } := by
  simp [step, hf, hm]

theorem step_multi (cfg : PCfg) (s : PState) (l : Str) (h : Hdr) (sql : Str) (acc : List Str)
    (pend : Bool) (hm : s.mode = .multi h sql acc pend) (hf : s.fail = none) :
    step cfg s l =
      if l.isEmpty then
        (if pend then emit { s with num := s.num + 1 } (h.withMulti sql (multiText acc))
         else { s with num := s.num + 1, mode := .multi h sql acc true })
      else { s with num := s.num + 1,
                    mode := .multi h sql (if pend then acc ++ [[], l] else acc ++ [l]) false } := by
  simp [step, hf, hm]

/-- the invariant is re-established by a state that stays in / enters a header mode for `hl` -/
theorem pinv_hdr (r : PState) (i hl : Nat) (hnum : r.num = i + 1) (hf : r.fail = none)
    (hmode : r.mode.hdrLine = hl) (h1 : 1 ≤ hl) (h2 : hl ≤ i + 1) : PInv r (i + 1) :=
  ⟨by omega, fun _ => hnum, fun f hf' => (by rw [hf] at hf'; cases hf'),
   fun _ => (by rw [hmode]; omega), fun _ _ => (by rw [hmode]; exact h1)⟩

/-- … and by a state back at top level -/
theorem pinv_top (r : PState) (i : Nat) (hnum : r.num = i + 1) (hf : r.fail = none)
    (hmode : r.mode = .top) : PInv r (i + 1) :=
  ⟨by omega, fun _ => hnum, fun f hf' => (by rw [hf] at hf'; cases hf'),
   fun _ => (by rw [hmode]; simp [Mode.hdrLine]),
   fun _ ht => (by rw [hmode] at ht; simp [Mode.isTop] at ht)⟩

/-- … and by a failure located at a consumed line -/
theorem pinv_fail (r : PState) (i : Nat) (f : PFail) (hnum : r.num ≤ i + 1) (hf : r.fail = some f)
    (h1 : 1 ≤ f.line) (h2 : f.line ≤ i + 1) : PInv r (i + 1) :=
  ⟨hnum, fun h0 => (by rw [hf] at h0; cases h0),
   fun f' hf' => (by rw [hf] at hf'; injection hf' with hf'; subst hf'; exact ⟨h1, h2⟩),
   fun h0 => (by rw [hf] at h0; cases h0), fun h0 => (by rw [hf] at h0; cases h0)⟩

theorem step_pinv (cfg : PCfg) (s : PState) (l : Str) (i : Nat) (h : PInv s i) :
    PInv (step cfg s l) (i + 1) := by
  by_cases hf : s.fail.isSome = true
  · rw [step_fail cfg s l hf]
    have hne : s.fail ≠ none := by intro h0; simp [h0] at hf
    exact ⟨by have := h.num_le; omega, fun h0 => absurd h0 hne,
      fun f hf' => by have := h.fail_line f hf'; omega, fun h0 => absurd h0 hne,
      fun h0 => absurd h0 hne⟩
  · have hnone : s.fail = none := by
      cases hs : s.fail with
      | none => rfl
      | some f => simp [hs] at hf
    have hnum := h.num_eq hnone
    have hhdr := h.hdr_le hnone
    have hpos := h.hdr_pos hnone
    cases hm : s.mode with
    | top =>
      rw [step_top cfg s l hm hnone]
      simp only [topLine]
      split
      · exact pinv_top _ i (by simp [hnum]) (by simp [hnone]) (by simp [hm])
      · have hfl := flushComments_fields s
        split
        · exact pinv_top _ i (by simp [push, hnum]) (by simp [push, hfl.2.1, hnone])
            (by simp [push, hfl.2.2.1, hm])
        · have hs1 : ({ flushComments s with num := s.num + 1 } : PState).fail = none := by
            simp [hfl.2.1, hnone]
          have hd := dispatch_ok cfg { flushComments s with num := s.num + 1 } (s.num + 1) (words l) hs1
          have hdn : (dispatch cfg { flushComments s with num := s.num + 1 } (s.num + 1) (words l)).num
              = i + 1 := by rw [hd.num]; simp [hnum]
          rcases hd.fail with h0 | ⟨f, hf', hl⟩
          · rcases hd.mode with hm0 | ⟨hh, hm', hl⟩
            · exact pinv_top _ i hdn h0 (by rw [hm0]; simp [hfl.2.2.1, hm])
            · exact pinv_hdr _ i (s.num + 1) hdn h0 (by rw [hm']; simp [Mode.hdrLine, hl])
                (by omega) (by omega)
          · exact pinv_fail _ i f (Nat.le_of_eq hdn) hf' (by omega) (by omega)
    | sqlFirst hd =>
      rw [hm] at hhdr hpos
      simp only [Mode.hdrLine, Mode.isTop] at hhdr hpos
      rw [step_sqlFirst cfg s l hd hm hnone]
      exact pinv_hdr _ i hd.line (by simp [hnum]) (by simp [hnone]) (by simp [Mode.hdrLine])
        (hpos trivial) (by omega)
    | sql hd acc =>
      rw [hm] at hhdr hpos
      simp only [Mode.hdrLine, Mode.isTop] at hhdr hpos
      rw [step_sql cfg s l hd acc hm hnone]
      split
      · exact pinv_top _ i (by simp [emit, hnum]) (by simp [emit, hnone]) (by simp [emit])
      · split
        · have hd' := onDelimiter_ok { s with num := s.num + 1 } hd (joinNl acc) (by simp [hnone])
          have hdn : (onDelimiter { s with num := s.num + 1 } hd (joinNl acc)).num = i + 1 := by
            rw [hd'.1]; simp [hnum]
          rcases hd'.2 with ⟨h0, hl, _⟩ | ⟨f, hf', hl⟩
          · exact pinv_hdr _ i hd.line hdn h0 hl (hpos trivial) (by omega)
          · exact pinv_fail _ i f (Nat.le_of_eq hdn) hf' (by have := hpos trivial; omega) (by omega)
        · exact pinv_hdr _ i hd.line (by simp [hnum]) (by simp [hnone]) (by simp [Mode.hdrLine])
            (hpos trivial) (by omega)
    | results hd sql acc =>
      rw [hm] at hhdr hpos
      simp only [Mode.hdrLine, Mode.isTop] at hhdr hpos
      rw [step_results cfg s l hd sql acc hm hnone]
      split
      · exact pinv_top _ i (by simp [emit, hnum]) (by simp [emit, hnone]) (by simp [emit])
      · exact pinv_hdr _ i hd.line (by simp [hnum]) (by simp [hnone]) (by simp [Mode.hdrLine])
          (hpos trivial) (by omega)
    | multi hd sql acc pend =>
      rw [hm] at hhdr hpos
      simp only [Mode.hdrLine, Mode.isTop] at hhdr hpos
      rw [step_multi cfg s l hd sql acc pend hm hnone]
      split
      · split
        · exact pinv_top _ i (by simp [emit, hnum]) (by simp [emit, hnone]) (by simp [emit])
        · exact pinv_hdr _ i hd.line (by simp [hnum]) (by simp [hnone]) (by simp [Mode.hdrLine])
            (hpos trivial) (by omega)
      · exact pinv_hdr _ i hd.line (by simp [hnum]) (by simp [hnone]) (by simp [Mode.hdrLine])
          (hpos trivial) (by omega)

theorem foldl_pinv (cfg : PCfg) (ls : List Str) (s : PState) (i : Nat) (h : PInv s i) :
    PInv (ls.foldl (step cfg) s) (i + ls.length) := by
  induction ls generalizing s i with
  | nil => simpa using h
  | cons l ls ih =>
    simp only [List.foldl_cons, List.length_cons]
    have := ih (step cfg s l) (i + 1) (step_pinv cfg s l i h)
    rw [show i + (ls.length + 1) = i + 1 + ls.length by omega]
    exact this

end Slt
