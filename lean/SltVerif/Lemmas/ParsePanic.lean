/-
The only way the parser model reaches `panic` is a header token on which the model of
`humantime::parse_duration` panics (`Duration::new` overflow, dependency defect D11).
-/
import SltVerif.Lemmas.ParseInv
namespace Slt

theorem parseRetry_panic (ts : List Str) (h : parseRetry ts = .error .panic) :
    ∃ d ∈ ts, parseDuration d = .panic := by
  unfold parseRetry at h
  split at h
  · cases h
  · split at h
    · cases h
    · split at h
      · cases h
      · split at h
        · cases h
        · split at h
          · cases h
          · split at h
            · cases h
            · split at h
              · cases h
              · split at h
                · cases h
                · rename_i d rest4
                  split at h
                  · cases h
                  · rename_i hp
                    exact ⟨d, by simp, hp⟩
                  · split at h <;> cases h

theorem newInline_nopanic (cfg : PCfg) (re : Str) : newInline cfg re ≠ .error .panic := by
  unfold newInline; repeat' split
  all_goals simp

theorem errorHeader_spec (cfg : PCfg) (res : List Str) :
    errorHeader cfg res ≠ .error .panic ∧
    ∀ e rest, errorHeader cfg res = .ok (e, rest) → ∀ t ∈ rest, t ∈ res := by
  unfold errorHeader
  split
  · exact ⟨by simp, fun e rest h t ht => by injection h with h; injection h with _ h; subst h; exact ht⟩
  · cases hn : newInline cfg (joinSp res) with
    | ok e => exact ⟨by simp, fun e' rest h t ht => by
        injection h with h; injection h with _ h; subst h; cases ht⟩
    | error k =>
      refine ⟨?_, fun e' rest h => by cases h⟩
      intro h; injection h with h; subst h
      exact newInline_nopanic cfg _ hn

theorem stmtHeader_spec (cfg : PCfg) (res : List Str) :
    stmtHeader cfg res ≠ .error .panic ∧
    ∀ e rest, stmtHeader cfg res = .ok (e, rest) → ∀ t ∈ rest, t ∈ res := by
  unfold stmtHeader
  split
  · exact ⟨by simp, fun e rest h => by cases h⟩
  · rename_i k rest0
    split
    · exact ⟨by simp, fun e rest h t ht => by
        injection h with h; injection h with _ h; subst h; simp [ht]⟩
    · split
      · have hs := errorHeader_spec cfg rest0
        cases he : errorHeader cfg rest0 with
        | ok p =>
          obtain ⟨e, r⟩ := p
          exact ⟨by simp, fun e' rest h t ht => by
            injection h with h; injection h with _ h; subst h
            exact List.mem_cons_of_mem _ (hs.2 e r he t ht)⟩
        | error k' =>
          refine ⟨?_, fun e' rest h => by cases h⟩
          intro h; injection h with h; subst h; exact hs.1 he
      · split
        · split
          · exact ⟨by simp, fun e rest h => by cases h⟩
          · rename_i c retry
            split
            · exact ⟨by simp, fun e rest h t ht => by
                injection h with h; injection h with _ h; subst h; simp [ht]⟩
            · exact ⟨by simp, fun e rest h => by cases h⟩
        · exact ⟨by simp, fun e rest h => by cases h⟩

theorem mem_of_mem_drop1 (l : List Str) (t : Str) (h : t ∈ l.drop 1) : t ∈ l := by
  cases l with
  | nil => simp at h
  | cons a l => simp at h; simp [h]

theorem mem_ite_drop1 (c : Prop) [Decidable c] (l : List Str) (t : Str)
    (h : t ∈ (if c then l.drop 1 else l)) : t ∈ l := by
  split at h
  · exact mem_of_mem_drop1 l t h
  · exact h

theorem queryMods_sub (res : List Str) : ∀ t ∈ (queryMods res).2.2, t ∈ res := by
  intro t ht
  unfold queryMods at ht
  exact mem_ite_drop1 _ _ t (mem_ite_drop1 _ _ t ht)

theorem queryHeader_spec (cfg : PCfg) (res : List Str) :
    queryHeader cfg res ≠ .error .panic ∧
    ∀ e rest, queryHeader cfg res = .ok (e, rest) → ∀ t ∈ rest, t ∈ res := by
  unfold queryHeader
  split
  · exact ⟨by simp, fun e rest h t ht => by
      injection h with h; injection h with _ h; subst h; cases ht⟩
  · rename_i k rest0
    split
    · have hs := errorHeader_spec cfg rest0
      cases he : errorHeader cfg rest0 with
      | ok p =>
        obtain ⟨e, r⟩ := p
        exact ⟨by simp, fun e' rest h t ht => by
          injection h with h; injection h with _ h; subst h
          exact List.mem_cons_of_mem _ (hs.2 e r he t ht)⟩
      | error k' =>
        refine ⟨?_, fun e' rest h => by cases h⟩
        intro h; injection h with h; subst h; exact hs.1 he
    · split
      · exact ⟨by simp, fun e rest h => by cases h⟩
      · exact ⟨by simp, fun e rest h t ht => by
          injection h with h; injection h with _ h; subst h
          exact List.mem_cons_of_mem _ (queryMods_sub rest0 t ht)⟩

def PState.noPanic (s : PState) : Prop := ∀ n, s.fail ≠ some (.panic n)

theorem failKind_noPanic (s : PState) (n : Nat) (k : PErrKind) : (failKind s n k).noPanic := by
  intro m h; simp [failKind] at h

theorem failWith_noPanic (s : PState) (n : Nat) (e : HErr) (he : e ≠ .panic) :
    (failWith s n e).noPanic := by
  intro m h
  cases e with
  | kind k => simp [failWith] at h
  | panic => exact he rfl

theorem dispatch_noPanic (cfg : PCfg) (s : PState) (n : Nat) (toks : List Str)
    (hs : s.noPanic) (ht : ∀ t ∈ toks, parseDuration t ≠ .panic) :
    (dispatch cfg s n toks).noPanic := by
  have hpush : ∀ r, (push s r).noPanic := fun r => hs
  unfold dispatch
  split
  · exact hs
  · rename_i k rest
    have hrest : ∀ t ∈ rest, parseDuration t ≠ .panic := fun t h => ht t (by simp [h])
    have retryOk : ∀ ts : List Str, (∀ t ∈ ts, t ∈ rest) → parseRetry ts ≠ .error .panic := by
      intro ts hsub h
      obtain ⟨d, hd, hp⟩ := parseRetry_panic ts h
      exact hrest d (hsub d hd) hp
    split
    · unfold doStatement
      have hsp := stmtHeader_spec cfg rest
      cases hh : stmtHeader cfg rest with
      | error e => exact failWith_noPanic _ _ _ (fun he => hsp.1 (by rw [hh, he]))
      | ok p =>
        obtain ⟨exp, r⟩ := p
        simp only []
        cases hr : parseRetry r with
        | error e => exact failWith_noPanic _ _ _ (fun he => retryOk r (hsp.2 exp r hh) (by rw [hr, he]))
        | ok rt => exact hs
    · split
      · unfold doQuery
        have hsp := queryHeader_spec cfg rest
        cases hh : queryHeader cfg rest with
        | error e => exact failWith_noPanic _ _ _ (fun he => hsp.1 (by rw [hh, he]))
        | ok p =>
          obtain ⟨exp, r⟩ := p
          simp only []
          cases hr : parseRetry r with
          | error e => exact failWith_noPanic _ _ _ (fun he => retryOk r (hsp.2 exp r hh) (by rw [hr, he]))
          | ok rt => exact hs
      · split
        · unfold doControl
          split
          · repeat' split
            all_goals first
              | exact hs
              | exact failKind_noPanic _ _ _
          · exact failKind_noPanic _ _ _
        · split
          · split
            · exact hs
            · exact failKind_noPanic _ _ _
          · rename_i a rest2
            split
            · unfold doSystem
              cases hr : parseRetry rest2 with
              | error e =>
                exact failWith_noPanic _ _ _ (fun he => retryOk rest2 (fun t h => by simp [h]) (by rw [hr, he]))
              | ok rt => exact hs
            · split
              · unfold dispatch2
                repeat' split
                all_goals first
                  | exact hs
                  | exact failKind_noPanic _ _ _
                  | (unfold doSleep
                     cases hd : parseDuration a with
                     | ok d => exact hs
                     | err => exact failKind_noPanic _ _ _
                     | panic => exact absurd hd (hrest a (by simp)))
                  | (unfold doHashThreshold; split <;> first
                      | exact hs
                      | exact failKind_noPanic _ _ _)
              · exact failKind_noPanic _ _ _

theorem flushComments_noPanic (s : PState) (h : s.noPanic) : (flushComments s).noPanic := by
  intro n; rw [(flushComments_fields s).2.1]; exact h n

theorem onDelimiter_noPanic (s : PState) (h : Hdr) (sql : Str) (hs : s.noPanic) :
    (onDelimiter s h sql).noPanic := by
  unfold onDelimiter
  repeat' split
  all_goals first
    | exact hs
    | exact failKind_noPanic _ _ _

theorem step_noPanic (cfg : PCfg) (s : PState) (l : Str) (hs : s.noPanic) (hl : LineNoDurPanic l) :
    (step cfg s l).noPanic := by
  unfold step
  split
  · exact hs
  · split
    · unfold topLine
      split
      · exact hs
      · split
        · exact flushComments_noPanic s hs
        · exact dispatch_noPanic cfg _ _ _ (flushComments_noPanic s hs) hl
    · exact hs
    · simp only []
      split
      · exact hs
      · split
        · exact onDelimiter_noPanic _ _ _ hs
        · exact hs
    · simp only []
      split <;> exact hs
    · simp only []
      split
      · split <;> exact hs
      · exact hs

theorem foldl_noPanic (cfg : PCfg) (ls : List Str) (s : PState) (hs : s.noPanic)
    (hl : ∀ l ∈ ls, LineNoDurPanic l) : (ls.foldl (step cfg) s).noPanic := by
  induction ls generalizing s with
  | nil => exact hs
  | cons l ls ih =>
    exact ih _ (step_noPanic cfg s l hs (hl l (by simp))) (fun l' h' => hl l' (by simp [h']))

end Slt
