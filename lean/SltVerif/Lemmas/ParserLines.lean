/-
`str::lines` on rendered text: joining lines with LF or CRLF (each line its own choice), with or
without a final line terminator, and splitting again gives the lines back — provided no line
contains a line feed or ends in a carriage return (`LineOk`).
-/
import SltVerif.Render
namespace Slt

theorem splitNl_ne_nil (s : Str) : splitNl s ≠ [] := by
  cases s with
  | nil => simp [splitNl]
  | cons c cs =>
    simp only [splitNl]
    split
    · simp
    · split <;> simp

theorem splitNl_noNl (l : Str) (hl : '\n' ∉ l) : splitNl l = [l] := by
  induction l with
  | nil => rfl
  | cons c cs ih =>
    have hc : c ≠ '\n' := fun h => hl (by simp [h])
    have := ih (fun h => hl (by simp [h]))
    simp [splitNl, hc, this]

theorem splitNl_append_nl (l rest : Str) (hl : '\n' ∉ l) :
    splitNl (l ++ '\n' :: rest) = l :: splitNl rest := by
  induction l with
  | nil => simp [splitNl]
  | cons c cs ih =>
    have hc : c ≠ '\n' := fun h => hl (by simp [h])
    have := ih (fun h => hl (by simp [h]))
    simp [splitNl, hc, this]

theorem lines_append_nl (l rest : Str) (hl : '\n' ∉ l) :
    lines (l ++ '\n' :: rest) = stripCr l :: lines rest := by
  unfold lines
  simp only [splitNl_append_nl l rest hl]
  obtain ⟨p, ps, hp⟩ := List.exists_cons_of_ne_nil (splitNl_ne_nil rest)
  rw [hp]
  simp [List.getLast?_cons_cons]

theorem lines_noNl (l : Str) (hl : '\n' ∉ l) (hne : l ≠ []) : lines l = [l] := by
  unfold lines
  simp only [splitNl_noNl l hl]
  cases l with
  | nil => exact absurd rfl hne
  | cons c cs => simp

theorem lines_nil : lines [] = [] := by decide

theorem stripCr_append_cr (l : Str) : stripCr (l ++ ['\r']) = l := by
  simp [stripCr]

theorem stripCr_of_ok (l : Str) (h : l.getLast? ≠ some '\r') : stripCr l = l := by
  unfold stripCr
  split
  · rename_i r heq
    have : l.getLast? = some '\r' := by
      rw [← List.head?_reverse, heq]; rfl
    exact absurd this h
  · rfl

/-- a line followed by its terminator and more text -/
theorem lines_eol (l rest : Str) (c : Bool) (hl : LineOk l) :
    lines (l ++ eol c ++ rest) = l :: lines rest := by
  cases c with
  | false =>
    have := lines_append_nl l rest hl.1
    simp only [eol, Bool.false_eq_true, ↓reduceIte, List.append_assoc, List.cons_append,
      List.nil_append]
    rw [this, stripCr_of_ok l hl.2]
  | true =>
    have h1 : '\n' ∉ l ++ ['\r'] := by
      intro h
      simp only [List.mem_append, List.mem_singleton] at h
      rcases h with h | h
      · exact hl.1 h
      · exact absurd h (by decide)
    have h2 : l ++ eol true ++ rest = (l ++ ['\r']) ++ '\n' :: rest := by simp [eol]
    rw [h2, lines_append_nl _ rest h1, stripCr_append_cr]

/-- **`lines ∘ renderText = id`** -/
theorem lines_renderText (L : List (Str × Bool)) (final : Bool)
    (hok : ∀ p ∈ L, LineOk p.1)
    (hlast : final = false → ∀ p, L.getLast? = some p → p.1 ≠ []) :
    lines (renderText L final) = L.map (·.1) := by
  induction L with
  | nil => simp [renderText, lines_nil]
  | cons p rest ih =>
    obtain ⟨l, c⟩ := p
    have hl : LineOk l := hok (l, c) (by simp)
    cases rest with
    | nil =>
      cases final with
      | true =>
        have := lines_eol l [] c hl
        simpa [renderText, lines_nil] using this
      | false =>
        have hne : l ≠ [] := hlast rfl (l, c) (by simp)
        simp [renderText, lines_noNl l hl.1 hne]
    | cons q rest' =>
      have ih' := ih (fun p hp => hok p (by simp [hp]))
        (fun hf p hp => hlast hf p (by simpa [List.getLast?_cons_cons] using hp))
      simp only [renderText, List.map_cons]
      rw [lines_eol l _ c hl, ih']
      rfl

end Slt
