/-
Lemmas about the reference semantics of `Render.lean` (`refStep`, `refRun`, `expected`): the
pending conditions / connection and the line counter, read off the item list directly.
-/
import SltVerif.Render
namespace Slt

variable (cfg : PCfg)

theorem refStep_conds (r : Ref) (i : Item) : (refStep cfg r i).conds = i.condsAfter r.conds := by
  cases i <;> simp [refStep, Item.condsAfter, Item.isRecord, Item.cond?]

theorem refStep_conn (r : Ref) (i : Item) : (refStep cfg r i).conn = i.connAfter r.conn := by
  cases i <;> simp [refStep, Item.connAfter, Item.usesConn, Item.conn?]

theorem refStep_num (r : Ref) (i : Item) :
    (refStep cfg r i).num = r.num + (renderItem i).length := by
  cases i <;> simp [refStep, renderItem, renderOpen, Item.term, Item.tail?]

theorem refRun_snoc (pre : List Item) (i : Item) :
    refRun cfg (pre ++ [i]) = refStep cfg (refRun cfg pre) i := by
  simp [refRun, List.foldl_append]

/-- the pending conditions are the condition lines since the last record -/
theorem refRun_conds (pre : List Item) : (refRun cfg pre).conds = condsSince pre := by
  have key : ∀ rev : List Item, (refRun cfg rev.reverse).conds =
      (rev.takeWhile (fun i => !i.isRecord)).reverse.filterMap Item.cond? := by
    intro rev
    induction rev with
    | nil => rfl
    | cons i rev ih =>
      rw [List.reverse_cons, refRun_snoc, refStep_conds, ih]
      cases h : i.isRecord with
      | true => simp [Item.condsAfter, h]
      | false => cases hc : i.cond? <;> simp [Item.condsAfter, h, hc]
  have := key pre.reverse
  rwa [List.reverse_reverse] at this

/-- the pending connection is the one named last since the last statement | query -/
theorem refRun_conn (pre : List Item) : (refRun cfg pre).conn = connSince pre := by
  have key : ∀ rev : List Item, (refRun cfg rev.reverse).conn =
      ((rev.takeWhile (fun i => !i.usesConn)).findSome? Item.conn?).getD .dflt := by
    intro rev
    induction rev with
    | nil => rfl
    | cons i rev ih =>
      rw [List.reverse_cons, refRun_snoc, refStep_conn, ih]
      cases h : i.usesConn with
      | true => simp [Item.connAfter, h]
      | false =>
        cases hc : i.conn? <;> simp [Item.connAfter, h, hc]
  have := key pre.reverse
  rwa [List.reverse_reverse] at this

/-- the line counter is the number of lines rendered -/
theorem foldl_refStep_num (is : List Item) (r : Ref) :
    (is.foldl (refStep cfg) r).num = r.num + (render is).length := by
  induction is generalizing r with
  | nil => simp [render]
  | cons i is ih =>
    simp only [List.foldl_cons, ih, refStep_num, render, List.flatMap_cons, List.length_append]
    omega

theorem refRun_num (pre : List Item) : (refRun cfg pre).num = (render pre).length := by
  simpa [refRun] using foldl_refStep_num cfg pre {}

/-- records are only ever appended -/
theorem refStep_out (r : Ref) (i : Item) : ∃ ext, (refStep cfg r i).out = r.out ++ ext := by
  by_cases hcm : i.isComment = true
  · cases i <;> simp [Item.isComment] at hcm
    exact ⟨[], by simp [refStep]⟩
  · refine ⟨(if r.comments = [] then [] else [.comment r.comments]) ++
      i.recs cfg (r.num + 1) r.conds r.conn, ?_⟩
    cases i <;> simp [Item.isComment] at hcm <;>
      (by_cases hc : r.comments = [] <;> simp [refStep, Ref.flushed, hc])

theorem foldl_refStep_flushed (is : List Item) (r : Ref) :
    ∃ ext, (is.foldl (refStep cfg) r).flushed = r.out ++ ext := by
  induction is generalizing r with
  | nil =>
    by_cases hc : r.comments = []
    · exact ⟨[], by simp [Ref.flushed, hc]⟩
    · exact ⟨[.comment r.comments], by simp [Ref.flushed, hc]⟩
  | cons i is ih =>
    obtain ⟨e1, h1⟩ := refStep_out cfg r i
    obtain ⟨e2, h2⟩ := ih (refStep cfg r i)
    exact ⟨e1 ++ e2, by rw [List.foldl_cons, h2, h1, List.append_assoc]⟩

/-- the records of a non-comment item, placed after everything parsed before it -/
theorem expected_split (pre post : List Item) (i : Item) (hi : i.isComment = false) :
    ∃ after, expected cfg (pre ++ i :: post) =
      expected cfg pre ++ i.recs cfg ((render pre).length + 1) (condsSince pre) (connSince pre)
        ++ after := by
  obtain ⟨ext, hext⟩ := foldl_refStep_flushed cfg post (refStep cfg (refRun cfg pre) i)
  refine ⟨ext, ?_⟩
  unfold expected
  have : refRun cfg (pre ++ i :: post) = post.foldl (refStep cfg) (refStep cfg (refRun cfg pre) i) := by
    simp [refRun, List.foldl_append]
  rw [this, hext, ← refRun_conds cfg pre, ← refRun_conn cfg pre, ← refRun_num cfg pre]
  cases i with
  | comment ts => simp [Item.isComment] at hi
  | _ => simp [refStep]

/-- the records of a non-comment item at the end of a script -/
theorem expected_snoc (pre : List Item) (i : Item) (hi : i.isComment = false) :
    expected cfg (pre ++ [i]) =
      expected cfg pre ++ i.recs cfg ((render pre).length + 1) (condsSince pre) (connSince pre) := by
  have e1 : expected cfg (pre ++ [i]) = (refStep cfg (refRun cfg pre) i).flushed := by
    simp [expected, refRun_snoc]
  have e2 : (refStep cfg (refRun cfg pre) i).flushed =
      (refRun cfg pre).flushed ++ i.recs cfg ((refRun cfg pre).num + 1)
        (refRun cfg pre).conds (refRun cfg pre).conn := by
    cases i <;> simp [Item.isComment] at hi <;> simp [refStep, Ref.flushed]
  rw [e1, e2, refRun_conds, refRun_conn, refRun_num]
  rfl

/-- located records carry the line they are given -/
theorem recs_line (i : Item) (n : Nat) (conds : List Cond) (conn : Conn) :
    ∀ rec ∈ i.recs cfg n conds conn, ∀ l, rec.line? = some l → l = n := by
  cases i <;> simp [Item.recs, Rec.line?] <;> (intro l h; exact h.symm)

theorem recs_located (i : Item) (hi : i.isLocated = true) (n : Nat) (conds : List Cond)
    (conn : Conn) : ∃ rec, i.recs cfg n conds conn = [rec] ∧ rec.line? = some n := by
  cases i <;> simp [Item.isLocated] at hi <;> exact ⟨_, rfl, rfl⟩

theorem recs_record (i : Item) (hi : i.isRecord = true) (n : Nat) (conds : List Cond)
    (conn : Conn) : ∃ rec, i.recs cfg n conds conn = [rec] ∧ rec.conds? = some conds := by
  cases i <;> simp [Item.isRecord] at hi <;> exact ⟨_, rfl, rfl⟩

theorem recs_usesConn (i : Item) (hi : i.usesConn = true) (n : Nat) (conds : List Cond)
    (conn : Conn) : ∃ rec, i.recs cfg n conds conn = [rec] ∧ rec.conn? = some conn := by
  cases i <;> simp [Item.usesConn] at hi <;> exact ⟨_, rfl, rfl⟩

theorem recs_multi (i : Item) (text : List Str) (hi : i.tail? = some (.multi text)) (n : Nat)
    (conds : List Cond) (conn : Conn) :
    ∃ rec, i.recs cfg n conds conn = [rec] ∧ rec.multiText? = some (trim (joinNl text)) := by
  cases i with
  | statement f rt lay s1 more =>
    cases f with
    | error e =>
      cases e <;> simp [Item.tail?, StmtForm.tail, ErrForm.tail] at hi
      subst hi
      exact ⟨_, rfl, rfl⟩
    | _ => simp [Item.tail?, StmtForm.tail] at hi
  | query f rt lay s1 more =>
    cases f with
    | error e =>
      cases e <;> simp [Item.tail?, QueryForm.tail, ErrForm.tail] at hi
      subst hi
      exact ⟨_, rfl, rfl⟩
    | bare rs => cases rs <;> simp [Item.tail?, QueryForm.tail, resultsTail] at hi
    | typed _ _ _ rs => cases rs <;> simp [Item.tail?, QueryForm.tail, resultsTail] at hi
  | system rt lay c1 more so =>
    cases so <;> simp [Item.tail?, stdoutTail] at hi
    subst hi
    exact ⟨_, rfl, rfl⟩
  | _ => simp [Item.tail?] at hi

/-- conditions written between two records (no record in `mid`) are exactly what is pending -/
theorem condsSince_after (pre mid : List Item) (i : Item) (hi : i.isRecord = true)
    (hmid : ∀ j ∈ mid, j.isRecord = false) :
    condsSince (pre ++ i :: mid) = mid.filterMap Item.cond? := by
  unfold condsSince
  have : (pre ++ i :: mid).reverse = mid.reverse ++ i :: pre.reverse := by simp
  rw [this, List.takeWhile_append_of_pos (by
    intro j hj; simp [hmid j (List.mem_reverse.mp hj)])]
  simp [hi]

theorem connSince_after (pre mid : List Item) (i : Item) (hi : i.usesConn = true)
    (hmid : ∀ j ∈ mid, j.usesConn = false) :
    connSince (pre ++ i :: mid) = (mid.reverse.findSome? Item.conn?).getD .dflt := by
  unfold connSince
  have : (pre ++ i :: mid).reverse = mid.reverse ++ i :: pre.reverse := by simp
  rw [this, List.takeWhile_append_of_pos (by
    intro j hj; simp [hmid j (List.mem_reverse.mp hj)])]
  simp [hi]

/-- a `connection` line stays pending over everything that is not a statement | query | connection -/
theorem connSince_connection (pre mid : List Item) (nm : Str) (lay : Lay)
    (hmid : ∀ j ∈ mid, j.usesConn = false ∧ j.conn? = none) :
    connSince (pre ++ .connection nm lay :: mid) = mkConn nm := by
  unfold connSince
  have : (pre ++ Item.connection nm lay :: mid).reverse =
      mid.reverse ++ Item.connection nm lay :: pre.reverse := by simp
  rw [this, List.takeWhile_append_of_pos (by
    intro j hj; simp [(hmid j (List.mem_reverse.mp hj)).1])]
  have hnone : mid.reverse.findSome? Item.conn? = none := by
    rw [List.findSome?_eq_none_iff]
    intro j hj
    exact (hmid j (List.mem_reverse.mp hj)).2
  simp [List.findSome?_append, hnone, List.findSome?_cons, Item.usesConn, Item.conn?]

theorem condsSince_snoc_record (pre : List Item) (i : Item) (hi : i.isRecord = true) :
    condsSince (pre ++ [i]) = [] := by
  simpa using condsSince_after pre [] i hi (by simp)

theorem connSince_snoc_uses (pre : List Item) (i : Item) (hi : i.usesConn = true) :
    connSince (pre ++ [i]) = .dflt := by
  simpa using connSince_after pre [] i hi (by simp)

/-- a multi-line block is written as `----`, the text lines and two blank lines -/
theorem renderItem_multi (i : Item) (text : List Str) (hi : i.tail? = some (.multi text)) :
    ∃ front, renderOpen i = front ++ kw "----" :: text ∧ i.term = [[], []] := by
  cases i with
  | statement f rt lay s1 more =>
    simp only [Item.tail?, Option.some.injEq] at hi
    exact ⟨_, by simp only [renderOpen, hi, Tail.body]; rfl,
      by simp [Item.term, Item.tail?, hi, Tail.term]⟩
  | query f rt lay s1 more =>
    simp only [Item.tail?, Option.some.injEq] at hi
    exact ⟨_, by simp only [renderOpen, hi, Tail.body]; rfl,
      by simp [Item.term, Item.tail?, hi, Tail.term]⟩
  | system rt lay c1 more so =>
    simp only [Item.tail?, Option.some.injEq] at hi
    exact ⟨_, by simp only [renderOpen, hi, Tail.body]; rfl,
      by simp [Item.term, Item.tail?, hi, Tail.term]⟩
  | _ => simp [Item.tail?] at hi

/-! ### `trim` really trims -/

theorem head_dropWhile_isWs (s : Str) (c : Char) (h : (s.dropWhile isWs).head? = some c) :
    isWs c = false := by
  induction s with
  | nil => simp at h
  | cons a s ih =>
    simp only [List.dropWhile_cons] at h
    split at h
    · exact ih h
    · simp only [List.head?_cons, Option.some.injEq] at h; subst h; simp_all

theorem trim_getLast (s : Str) (c : Char) (h : (trim s).getLast? = some c) : isWs c = false := by
  unfold trim trimEnd at h
  rw [List.getLast?_reverse] at h
  exact head_dropWhile_isWs _ c h

theorem trim_head (s : Str) (c : Char) (h : (trim s).head? = some c) : isWs c = false := by
  unfold trim trimEnd trimStart at h
  rw [List.head?_reverse] at h
  -- the last character of `dropWhile isWs (reverse (dropWhile isWs s))` is a character of
  -- `dropWhile isWs s` that survives, and the first of those is not blank
  generalize hy : List.dropWhile isWs s = y at h
  have hy0 : ∀ d, y.head? = some d → isWs d = false := by
    intro d hd; rw [← hy] at hd; exact head_dropWhile_isWs s d hd
  cases y with
  | nil => simp at h
  | cons d y' =>
    have hd : isWs d = false := hy0 d rfl
    -- dropping blanks from the reversed list never removes `d`
    have hmem : ∀ (z : Str), (List.dropWhile isWs (z ++ [d])).getLast? = some d := by
      intro z
      induction z with
      | nil => simp [hd]
      | cons a z ih =>
        simp only [List.cons_append, List.dropWhile_cons]
        split
        · exact ih
        · rw [← List.cons_append, List.getLast?_append]
          simp
    rw [List.reverse_cons, hmem] at h
    simp only [Option.some.injEq] at h
    subst h; exact hd

end Slt
