/-
Helper lemmas for property C03: the parser model (`Parser.lean`) simulates the reference
semantics of `Render.lean` item by item.

* header lines: `words (hdrLine toks lay) = toks`
* header words: `parseRetry`, `stmtHeader`, `queryHeader` on the words the renderer writes
* blocks: the folds of `step` over an SQL block, result lines, a multi-line text
* `step_item`: `foldl step (toP r) (renderItem i) = toP (refStep r i)`
-/
import SltVerif.Render
namespace Slt

deriving instance DecidableEq for Except

/-! ### header lines -/

theorem zipSeps_fst (ts seps : List Str) : (zipSeps ts seps).map (·.1) = ts := by
  induction ts generalizing seps with
  | nil => cases seps <;> simp [zipSeps]
  | cons t ts ih => cases seps <;> simp [zipSeps, ih]

theorem zipSeps_mem (ts seps : List Str) (hlen : seps.length = ts.length)
    (htok : ∀ t ∈ ts, IsTok isWs t) (hws : ∀ s ∈ seps, AllSep isWs s) :
    ∀ q ∈ zipSeps ts seps, IsTok isWs q.1 ∧ AllSep isWs q.2 := by
  induction ts generalizing seps with
  | nil => intro q hq; cases seps <;> simp [zipSeps] at hq
  | cons t ts ih =>
    cases seps with
    | nil => simp at hlen
    | cons s ss =>
      intro q hq
      simp only [zipSeps, List.mem_cons] at hq
      rcases hq with rfl | hq
      · exact ⟨htok t (by simp), hws s (by simp)⟩
      · exact ih ss (by simpa using hlen) (fun t ht => htok t (by simp [ht]))
          (fun x hx => hws x (by simp [hx])) q hq

theorem zipSeps_sep (ts seps : List Str) (hlen : seps.length = ts.length)
    (hsep : ∀ s ∈ seps.dropLast, s ≠ []) :
    ∀ i, (hi : i + 1 < (zipSeps ts seps).length) → ((zipSeps ts seps)[i]'(by omega)).2 ≠ [] := by
  induction ts generalizing seps with
  | nil => intro i hi; cases seps <;> simp [zipSeps] at hi
  | cons t ts ih =>
    cases seps with
    | nil => simp at hlen
    | cons s ss =>
      intro i hi
      cases i with
      | zero =>
        simp only [zipSeps, List.getElem_cons_zero]
        cases ss with
        | nil => cases ts <;> simp [zipSeps] at hi hlen
        | cons a b => exact hsep s (by simp [List.dropLast])
      | succ j =>
        simp only [zipSeps, List.length_cons] at hi
        simp only [zipSeps, List.getElem_cons_succ]
        exact ih ss (by simpa using hlen)
          (fun x hx => hsep x (by
            cases ss with
            | nil => simp at hx
            | cons a b => simp only [List.dropLast_cons_cons, List.mem_cons] at hx ⊢; right; exact hx))
          j (by omega)

/-- Tokenising a header line gives back its words, whatever the layout. -/
theorem words_hdrLine (toks : List Str) (lay : Lay) (htok : ∀ t ∈ toks, IsTok isWs t)
    (hlay : LayOk toks lay) : words (hdrLine toks lay) = toks := by
  obtain ⟨hlead, hlen, hws, hsep⟩ := hlay
  unfold words hdrLine
  rw [splitAux_allSep isWs _ hlead,
    splitAux_joinSep isWs _ (zipSeps_mem toks lay.seps hlen htok hws)
      (zipSeps_sep toks lay.seps hlen hsep), zipSeps_fst]

theorem isWs_hash : isWs '#' = false := by decide

/-- a header line whose first word does not start with `#` is neither empty nor a comment -/
theorem hdrLine_head (c : Char) (k : Str) (rest : List Str) (lay : Lay) (hc : c ≠ '#')
    (hlay : LayOk ((c :: k) :: rest) lay) :
    ∃ d l, hdrLine ((c :: k) :: rest) lay = d :: l ∧ d ≠ '#' := by
  obtain ⟨hlead, hlen, _, _⟩ := hlay
  unfold hdrLine
  cases hl : lay.lead with
  | cons d l =>
    refine ⟨d, _, rfl, ?_⟩
    intro hd
    have := hlead d (by simp [hl])
    rw [hd, isWs_hash] at this
    exact absurd this (by decide)
  | nil =>
    cases hs : lay.seps with
    | nil => simp [hs] at hlen
    | cons s ss =>
      simp only [zipSeps, joinSep, List.nil_append, List.cons_append]
      exact ⟨c, _, rfl, hc⟩

theorem stripHash_cons (d : Char) (l : Str) (hd : d ≠ '#') : stripHash (d :: l) = none := by
  unfold stripHash; split
  · rename_i heq; simp only [List.cons.injEq] at heq; exact absurd heq.1 hd
  · rfl

/-! ### the parser state at top level -/

/-- parser state at top level, nothing failed -/
def PState.atTop (out : List Rec) (conds : List Cond) (conn : Conn) (comments : List Str)
    (num : Nat) : PState :=
  { mode := .top, out := out, conds := conds, conn := conn, comments := comments, num := num,
    fail := none }

/-- the parser state corresponding to a reference state -/
def Ref.toP (r : Ref) : PState := PState.atTop r.out r.conds r.conn r.comments r.num

theorem flushComments_atTop (out conds conn comments num) :
    flushComments (PState.atTop out conds conn comments num) =
      PState.atTop (if comments = [] then out else out ++ [.comment comments]) conds conn [] num := by
  unfold flushComments PState.atTop
  cases comments <;> simp

/-- a non-comment, non-empty line at top level: pending comments are flushed, the words are
dispatched -/
theorem step_top (cfg : PCfg) (r : Ref) (line : Str) (d : Char) (l : Str)
    (hline : line = d :: l) (hd : d ≠ '#') :
    step cfg r.toP line =
      dispatch cfg (PState.atTop r.flushed r.conds r.conn [] (r.num + 1)) (r.num + 1) (words line) := by
  subst hline
  have hsh := stripHash_cons d l hd
  obtain ⟨out, comments, conds, conn, num⟩ := r
  simp only [step, Ref.toP, PState.atTop, topLine, hsh, flushComments, Ref.flushed]
  cases comments <;> simp

/-- a header line at top level -/
theorem step_hdrLine (cfg : PCfg) (r : Ref) (toks : List Str) (lay : Lay)
    (htok : ∀ t ∈ toks, IsTok isWs t) (hlay : LayOk toks lay)
    (c : Char) (k : Str) (rest : List Str) (h : toks = (c :: k) :: rest) (hc : c ≠ '#') :
    step cfg r.toP (hdrLine toks lay) =
      dispatch cfg (PState.atTop r.flushed r.conds r.conn [] (r.num + 1)) (r.num + 1) toks := by
  subst h
  obtain ⟨d, l, hline, hd⟩ := hdrLine_head c k rest lay hc hlay
  rw [step_top cfg r _ d l hline hd, words_hdrLine _ _ htok hlay]

/-! ### lines that are not header lines -/

theorem step_blank (cfg : PCfg) (r : Ref) :
    step cfg r.toP [] = (refStep cfg r .blank).toP := by
  obtain ⟨out, comments, conds, conn, num⟩ := r
  cases comments <;>
    simp [step, Ref.toP, PState.atTop, topLine, stripHash, flushComments, push, refStep,
      Ref.flushed, Item.recs, Item.condsAfter, Item.connAfter, Item.isRecord, Item.usesConn,
      Item.cond?, Item.conn?, renderItem, renderOpen, Item.term, Item.tail?]

theorem step_wsLine (cfg : PCfg) (r : Ref) (ws : Str) (hne : ws ≠ []) (hws : AllSep isWs ws) :
    step cfg r.toP ws = (refStep cfg r (.wsLine ws)).toP := by
  cases ws with
  | nil => exact absurd rfl hne
  | cons d l =>
    have hd : d ≠ '#' := by
      intro hd
      have := hws d (by simp)
      rw [hd, isWs_hash] at this
      exact absurd this (by decide)
    rw [step_top cfg r _ d l rfl hd]
    have hw : words (d :: l) = [] := splitAux_nil_of_allSep isWs _ hws
    simp [hw, dispatch, Ref.toP, refStep, Item.recs, Item.condsAfter, Item.connAfter,
      Item.isRecord, Item.usesConn, Item.cond?, Item.conn?, renderItem, renderOpen, Item.term,
      Item.tail?]

theorem step_comment (cfg : PCfg) (ts : List Str) (r : Ref) :
    (ts.map ('#' :: ·)).foldl (step cfg) r.toP = (refStep cfg r (.comment ts)).toP := by
  induction ts generalizing r with
  | nil => simp [refStep]
  | cons t ts ih =>
    have h1 : step cfg r.toP ('#' :: t) =
        Ref.toP { r with comments := r.comments ++ [t], num := r.num + 1 } := by
      simp [step, Ref.toP, PState.atTop, topLine, stripHash]
    simp only [List.map_cons, List.foldl_cons, h1, ih]
    simp [refStep, Ref.toP, Nat.add_assoc, Nat.add_comm 1]

/-! ### one-line directives -/

section directives
variable (cfg : PCfg) (r : Ref)

/-- unfolds the reference side of a one-line item -/
local macro "ref_simp" : tactic => `(tactic|
  simp [dispatch, dispatch2, kw, push, addCond, setConn, refStep, Ref.toP, PState.atTop,
    Item.recs, Item.condsAfter, Item.connAfter, Item.isRecord, Item.usesConn, Item.cond?,
    Item.conn?, renderItem, renderOpen, Item.term, Item.tail?, mkCond])

theorem step_halt (lay : Lay) (hok : (Item.halt lay).HdrOk) :
    step cfg r.toP (hdrLine (Item.halt lay).toks lay) = (refStep cfg r (.halt lay)).toP := by
  obtain ⟨htok, hlay⟩ := hok
  rw [step_hdrLine cfg r _ lay htok hlay 'h' "alt".toList [] rfl (by decide)]
  simp only [Item.toks]
  ref_simp

theorem step_subtest (a : Str) (lay : Lay) (hok : (Item.subtest a lay).HdrOk) :
    step cfg r.toP (hdrLine (Item.subtest a lay).toks lay) =
      (refStep cfg r (.subtest a lay)).toP := by
  obtain ⟨htok, hlay⟩ := hok
  rw [step_hdrLine cfg r _ lay htok hlay 's' "ubtest".toList [a] rfl (by decide)]
  simp only [Item.toks]
  ref_simp

theorem step_incl (a : Str) (lay : Lay) (hok : (Item.incl a lay).HdrOk) :
    step cfg r.toP (hdrLine (Item.incl a lay).toks lay) = (refStep cfg r (.incl a lay)).toP := by
  obtain ⟨htok, hlay⟩ := hok
  rw [step_hdrLine cfg r _ lay htok hlay 'i' "nclude".toList [a] rfl (by decide)]
  simp only [Item.toks]
  ref_simp

theorem step_sleep (a : Str) (lay : Lay) (hok : (Item.sleep a lay).HdrOk)
    (hd : parseDuration a = .ok (durOf a)) :
    step cfg r.toP (hdrLine (Item.sleep a lay).toks lay) = (refStep cfg r (.sleep a lay)).toP := by
  obtain ⟨htok, hlay⟩ := hok
  rw [step_hdrLine cfg r _ lay htok hlay 's' "leep".toList [a] rfl (by decide)]
  simp only [Item.toks]
  simp only [dispatch, dispatch2, doSleep, hd]
  ref_simp

theorem step_hashThreshold (a : Str) (lay : Lay) (hok : (Item.hashThreshold a lay).HdrOk)
    (hn : (parseU64 a).isSome = true) :
    step cfg r.toP (hdrLine (Item.hashThreshold a lay).toks lay) =
      (refStep cfg r (.hashThreshold a lay)).toP := by
  obtain ⟨htok, hlay⟩ := hok
  obtain ⟨v, hv⟩ := Option.isSome_iff_exists.mp hn
  rw [step_hdrLine cfg r _ lay htok hlay 'h' "ash-threshold".toList [a] rfl (by decide)]
  simp only [Item.toks]
  simp [dispatch, dispatch2, doHashThreshold, hv, numOf, kw, push, refStep, Ref.toP,
    PState.atTop, Item.recs, Item.condsAfter, Item.connAfter, Item.isRecord, Item.usesConn,
    Item.cond?, Item.conn?, renderItem, renderOpen, Item.term, Item.tail?]

theorem step_cond (skip : Bool) (a : Str) (lay : Lay) (hok : (Item.cond skip a lay).HdrOk) :
    step cfg r.toP (hdrLine (Item.cond skip a lay).toks lay) =
      (refStep cfg r (.cond skip a lay)).toP := by
  obtain ⟨htok, hlay⟩ := hok
  cases skip with
  | true =>
    rw [step_hdrLine cfg r _ lay htok hlay 's' "kipif".toList [a] rfl (by decide)]
    simp only [Item.toks]
    ref_simp
  | false =>
    rw [step_hdrLine cfg r _ lay htok hlay 'o' "nlyif".toList [a] rfl (by decide)]
    simp only [Item.toks]
    ref_simp

theorem step_connection (a : Str) (lay : Lay) (hok : (Item.connection a lay).HdrOk) :
    step cfg r.toP (hdrLine (Item.connection a lay).toks lay) =
      (refStep cfg r (.connection a lay)).toP := by
  obtain ⟨htok, hlay⟩ := hok
  rw [step_hdrLine cfg r _ lay htok hlay 'c' "onnection".toList [a] rfl (by decide)]
  simp only [Item.toks]
  ref_simp

theorem step_control (c : Control) (lay : Lay) (hok : (Item.control c lay).HdrOk) :
    step cfg r.toP (hdrLine (Item.control c lay).toks lay) =
      (refStep cfg r (.control c lay)).toP := by
  obtain ⟨htok, hlay⟩ := hok
  rw [step_hdrLine cfg r _ lay htok hlay 'c' "ontrol".toList c.toks rfl (by decide)]
  simp only [Item.toks]
  cases c with
  | sortMode m =>
    cases m <;>
      simp [Control.toks, SortMode.toStr, SortMode.ofStr, doControl, dispatch, kw, push, refStep,
        Ref.toP, PState.atTop, Item.recs, Item.condsAfter, Item.connAfter, Item.isRecord,
        Item.usesConn, Item.cond?, Item.conn?, renderItem, renderOpen, Item.term, Item.tail?]
  | resultMode m =>
    cases m <;>
      simp [Control.toks, ResultMode.toStr, ResultMode.ofStr, doControl, dispatch, kw, push,
        refStep, Ref.toP, PState.atTop, Item.recs, Item.condsAfter, Item.connAfter,
        Item.isRecord, Item.usesConn, Item.cond?, Item.conn?, renderItem, renderOpen, Item.term,
        Item.tail?]
  | substitution on =>
    cases on <;>
      simp [Control.toks, doControl, dispatch, kw, push, refStep,
        Ref.toP, PState.atTop, Item.recs, Item.condsAfter, Item.connAfter, Item.isRecord,
        Item.usesConn, Item.cond?, Item.conn?, renderItem, renderOpen, Item.term, Item.tail?]

end directives

/-! ### inside a record: SQL block, result lines, multi-line text -/

/-- parser state inside a record (no pending comment lines, nothing failed) -/
def PState.inMode (m : Mode) (out : List Rec) (conds : List Cond) (conn : Conn) (num : Nat) :
    PState :=
  { mode := m, out := out, conds := conds, conn := conn, comments := [], num := num, fail := none }

section blocks
variable (cfg : PCfg) (h : Hdr) (out : List Rec) (conds : List Cond) (conn : Conn)

theorem step_sqlFirst (num : Nat) (l : Str) :
    step cfg (PState.inMode (.sqlFirst h) out conds conn num) l =
      PState.inMode (.sql h [l]) out conds conn (num + 1) := by
  simp [step, PState.inMode]

theorem fold_block (more : List Str) (hmore : BlockOk more) (acc : List Str) (num : Nat) :
    more.foldl (step cfg) (PState.inMode (.sql h acc) out conds conn num) =
      PState.inMode (.sql h (acc ++ more)) out conds conn (num + more.length) := by
  induction more generalizing acc num with
  | nil => simp
  | cons l ls ih =>
    have ⟨hne, hnd⟩ := hmore l (by simp)
    have hl : l.isEmpty = false := by cases l <;> simp_all
    have h1 : step cfg (PState.inMode (.sql h acc) out conds conn num) l =
        PState.inMode (.sql h (acc ++ [l])) out conds conn (num + 1) := by
      simp [step, PState.inMode, hl, hnd]
    rw [List.foldl_cons, h1, ih (fun x hx => hmore x (by simp [hx]))]
    simp [Nat.add_assoc, Nat.add_comm 1]

theorem step_sql_blank (acc : List Str) (num : Nat) :
    step cfg (PState.inMode (.sql h acc) out conds conn num) [] =
      PState.atTop (out ++ [h.plain (joinNl acc)]) conds conn [] (num + 1) := by
  simp [step, PState.inMode, PState.atTop, emit]

theorem step_sql_delim (acc : List Str) (num : Nat) :
    step cfg (PState.inMode (.sql h acc) out conds conn num) (kw "----") =
      onDelimiter (PState.inMode (.sql h acc) out conds conn (num + 1)) h (joinNl acc) := by
  simp [step, PState.inMode, kw]

theorem fold_results (sql : Str) (rs : List Str) (hrs : ∀ l ∈ rs, l ≠ []) (acc : List Str)
    (num : Nat) :
    rs.foldl (step cfg) (PState.inMode (.results h sql acc) out conds conn num) =
      PState.inMode (.results h sql (acc ++ rs)) out conds conn (num + rs.length) := by
  induction rs generalizing acc num with
  | nil => simp
  | cons l ls ih =>
    have hne := hrs l (by simp)
    have hl : l.isEmpty = false := by cases l <;> simp_all
    have h1 : step cfg (PState.inMode (.results h sql acc) out conds conn num) l =
        PState.inMode (.results h sql (acc ++ [l])) out conds conn (num + 1) := by
      simp [step, PState.inMode, hl]
    rw [List.foldl_cons, h1, ih (fun x hx => hrs x (by simp [hx]))]
    simp [Nat.add_assoc, Nat.add_comm 1]

theorem step_results_blank (sql : Str) (acc : List Str) (num : Nat) :
    step cfg (PState.inMode (.results h sql acc) out conds conn num) [] =
      PState.atTop (out ++ [h.withResults sql acc]) conds conn [] (num + 1) := by
  simp [step, PState.inMode, PState.atTop, emit]

theorem fold_multi (sql : Str) (t : List Str) (acc : List Str) (pend : Bool) (num : Nat)
    (ht : multiOk pend t = true) :
    t.foldl (step cfg) (PState.inMode (.multi h sql acc pend) out conds conn num) =
      PState.inMode (.multi h sql (acc ++ (if pend then [[]] else []) ++ t) false) out conds conn
        (num + t.length) := by
  induction t generalizing acc pend num with
  | nil =>
    cases pend <;> simp_all [multiOk]
  | cons l ls ih =>
    rw [List.foldl_cons]
    cases hl : l.isEmpty with
    | true =>
      have hl' : l = [] := by simpa using hl
      subst hl'
      simp only [multiOk, List.isEmpty_nil, ↓reduceIte, Bool.and_eq_true, Bool.not_eq_true'] at ht
      obtain ⟨hp, ht'⟩ := ht
      subst hp
      have h1 : step cfg (PState.inMode (.multi h sql acc false) out conds conn num) [] =
          PState.inMode (.multi h sql acc true) out conds conn (num + 1) := by
        simp [step, PState.inMode]
      rw [h1, ih _ _ _ ht']
      simp [Nat.add_assoc, Nat.add_comm 1]
    | false =>
      simp only [multiOk, hl, Bool.false_eq_true, ↓reduceIte] at ht
      have h1 : step cfg (PState.inMode (.multi h sql acc pend) out conds conn num) l =
          PState.inMode (.multi h sql (if pend then acc ++ [[], l] else acc ++ [l]) false)
            out conds conn (num + 1) := by
        simp [step, PState.inMode, hl]
      rw [h1, ih _ _ _ ht]
      cases pend <;> simp [Nat.add_assoc, Nat.add_comm 1]

theorem step_multi_blank1 (sql : Str) (acc : List Str) (num : Nat) :
    step cfg (PState.inMode (.multi h sql acc false) out conds conn num) [] =
      PState.inMode (.multi h sql acc true) out conds conn (num + 1) := by
  simp [step, PState.inMode]

theorem step_multi_blank2 (sql : Str) (acc : List Str) (num : Nat) :
    step cfg (PState.inMode (.multi h sql acc true) out conds conn num) [] =
      PState.atTop (out ++ [h.withMulti sql (multiText acc)]) conds conn [] (num + 1) := by
  simp [step, PState.inMode, PState.atTop, emit]

end blocks

/-! ### a whole record, for any header the parser may have built -/

/-- the header expects query results -/
def Hdr.isResults : Hdr → Bool
  | .query _ _ _ (.results ..) _ => true
  | _ => false

/-- a `----` line starts a multi-line text -/
def Hdr.isMulti : Hdr → Bool
  | .stmt _ _ _ (.error .empty) _ => true
  | .query _ _ _ (.error .empty) _ => true
  | .system .. => true
  | _ => false

def TailFits (h : Hdr) : Tail → Prop
  | .plain => True
  | .results _ => h.isResults = true
  | .multi _ => h.isMulti = true

/-- the record built for header `h`, block text `sql` and tail `t` -/
def Hdr.finishRec (h : Hdr) (sql : Str) : Tail → Rec
  | .plain => h.plain sql
  | .results rs => h.withResults sql rs
  | .multi t => h.withMulti sql (multiText t)

/-- the mode after the block and the tail body, before the terminator -/
def openMode (h : Hdr) (block : List Str) : Tail → Mode
  | .plain => .sql h block
  | .results rs => .results h (joinNl block) rs
  | .multi t => .multi h (joinNl block) t false

theorem onDelimiter_results (s : PState) (h : Hdr) (sql : Str) (hh : h.isResults = true) :
    onDelimiter s h sql = { s with mode := .results h sql [] } := by
  unfold Hdr.isResults at hh
  split at hh
  · simp [onDelimiter]
  · simp at hh

theorem onDelimiter_multi (s : PState) (h : Hdr) (sql : Str) (hh : h.isMulti = true) :
    onDelimiter s h sql = { s with mode := .multi h sql [] false } := by
  cases h with
  | stmt l c cn e r =>
    cases e with
    | error e' => cases e' <;> simp_all [Hdr.isMulti, onDelimiter]
    | ok => simp [Hdr.isMulti] at hh
    | count n => simp [Hdr.isMulti] at hh
  | query l c cn e r =>
    cases e with
    | error e' => cases e' <;> simp_all [Hdr.isMulti, onDelimiter]
    | results => simp [Hdr.isMulti] at hh
  | system => simp [onDelimiter]

section record
variable (cfg : PCfg) (h : Hdr) (out : List Rec) (conds : List Cond) (conn : Conn)

/-- header consumed; block and tail body read -/
theorem fold_record_open (num : Nat) (s1 : Str) (more : List Str) (tail : Tail)
    (hmore : BlockOk more) (hfit : TailFits h tail) (hwf : tail.WF) :
    (s1 :: more ++ tail.body).foldl (step cfg) (PState.inMode (.sqlFirst h) out conds conn num) =
      PState.inMode (openMode h (s1 :: more) tail) out conds conn
        (num + (s1 :: more ++ tail.body).length) := by
  rw [List.cons_append, List.foldl_cons, step_sqlFirst, List.foldl_append,
    fold_block cfg h out conds conn more hmore]
  cases tail with
  | plain => simp [Tail.body, openMode, Nat.add_assoc, Nat.add_comm 1]
  | results rs =>
    simp only [Tail.body, List.foldl_cons, step_sql_delim]
    rw [onDelimiter_results _ _ _ hfit]
    have := fold_results cfg h out conds conn (joinNl ([s1] ++ more)) rs hwf [] (num + 1 + more.length + 1)
    simp only [PState.inMode] at this ⊢
    rw [this]
    simp [openMode]
    omega
  | multi t =>
    simp only [Tail.body, List.foldl_cons, step_sql_delim]
    rw [onDelimiter_multi _ _ _ hfit]
    have := fold_multi cfg h out conds conn (joinNl ([s1] ++ more)) t [] false (num + 1 + more.length + 1) hwf
    simp only [PState.inMode] at this ⊢
    rw [this]
    simp [openMode]
    omega

/-- the terminating blank line(s) -/
theorem fold_term (num : Nat) (block : List Str) (tail : Tail) :
    tail.term.foldl (step cfg) (PState.inMode (openMode h block tail) out conds conn num) =
      PState.atTop (out ++ [h.finishRec (joinNl block) tail]) conds conn []
        (num + tail.term.length) := by
  cases tail with
  | plain => simp [Tail.term, openMode, step_sql_blank, Hdr.finishRec]
  | results rs => simp [Tail.term, openMode, step_results_blank, Hdr.finishRec]
  | multi t =>
    simp [Tail.term, openMode, step_multi_blank1, step_multi_blank2, Hdr.finishRec]

/-- a record from the line after its header to its terminator -/
theorem fold_record (num : Nat) (s1 : Str) (more : List Str) (tail : Tail)
    (hmore : BlockOk more) (hfit : TailFits h tail) (hwf : tail.WF) :
    (s1 :: more ++ tail.body ++ tail.term).foldl (step cfg)
        (PState.inMode (.sqlFirst h) out conds conn num) =
      PState.atTop (out ++ [h.finishRec (joinNl (s1 :: more)) tail]) conds conn []
        (num + (s1 :: more ++ tail.body ++ tail.term).length) := by
  rw [List.foldl_append, fold_record_open cfg h out conds conn num s1 more tail hmore hfit hwf,
    fold_term]
  congr 1
  simp only [List.length_append, List.length_cons]
  omega

/-- end of input anywhere inside the terminator gives the same record -/
theorem finish_open (num : Nat) (block : List Str) (tail : Tail) (t : List Str)
    (ht : t <+: tail.term) :
    finish (t.foldl (step cfg) (PState.inMode (openMode h block tail) out conds conn num)) =
      .ok (out ++ [h.finishRec (joinNl block) tail]) := by
  have hcases : t = [] ∨ t = [[]] ∨ t = tail.term := by
    obtain ⟨u, hu⟩ := ht
    cases tail <;> simp only [Tail.term] at hu ⊢ <;>
      (rcases t with _ | ⟨a, _ | ⟨b, _ | ⟨c, t⟩⟩⟩ <;> simp_all)
  rcases hcases with rfl | rfl | rfl
  · cases tail <;> simp [openMode, finish, PState.inMode, emit, Hdr.finishRec]
  · cases tail <;>
      simp only [openMode, List.foldl_cons, List.foldl_nil, step_sql_blank, step_results_blank,
        step_multi_blank1] <;>
      simp [finish, PState.inMode, PState.atTop, emit, Hdr.finishRec, flushComments]
  · rw [fold_term]
    simp [finish, PState.atTop, flushComments]

end record

/-! ### the words of a record header -/

/-- the expectation known once the header line is read (a multi-line text comes later) -/
def ErrForm.hexp : ErrForm → ExpErr
  | .inline ts => .inline (joinSp ts)
  | _ => .empty

def StmtForm.hexp : StmtForm → SExp
  | .ok => .ok
  | .count d => .count (numOf d)
  | .error e => .error e.hexp

def QueryForm.hexp (cfg : PCfg) : QueryForm → QExp
  | .bare _ => .results [] none none none []
  | .typed ty so lb _ => .results (typesOf cfg ty) so none lb []
  | .error e => .error e.hexp

theorem parseRetry_toks (rt : Option RetryTok) (h : RetryOk rt) :
    parseRetry (retryToks rt) = .ok (retryOf rt) := by
  cases rt with
  | none => rfl
  | some r =>
    obtain ⟨hn, hd⟩ := h
    cases hp : parseU64 r.attempts with
    | none => simp [numOf, hp] at hn
    | some n =>
      have hn' : numOf r.attempts = n := by simp [numOf, hp]
      have hn0 : n ≠ 0 := by omega
      simp [retryToks, RetryTok.toks, parseRetry, hp, hd, retryOf, hn', hn0, kw]

theorem joinSp_ne_nil (ts : List Str) (hne : ts ≠ []) (htok : ∀ t ∈ ts, IsTok isWs t) :
    joinSp ts ≠ [] := by
  cases ts with
  | nil => exact absurd rfl hne
  | cons t ts =>
    have ht := (htok t (by simp)).1
    cases ts with
    | nil => simpa [joinSp, joinWith] using ht
    | cons u us => simp [joinSp, joinWith, ht]

theorem retryShaped_eq (ts : List Str) : retryShaped ts = isRetryShape ts := by
  rcases ts with _ | ⟨a, _ | ⟨b, _ | ⟨c, _ | ⟨d, _ | ⟨e, r⟩⟩⟩⟩⟩ <;> rfl

theorem errorHeader_toks (cfg : PCfg) (e : ErrForm) (rt : Option RetryTok) (hwf : e.WF cfg rt)
    (htok : ∀ t ∈ e.toks, IsTok isWs t) :
    errorHeader cfg (e.toks ++ retryToks rt) = .ok (e.hexp, retryToks rt) := by
  cases e with
  | any =>
    cases rt <;>
      simp [ErrForm.toks, retryToks, RetryTok.toks, errorHeader, isRetryShape, newInline, joinSp,
        joinWith, ErrForm.hexp]
  | multi t =>
    cases rt <;>
      simp [ErrForm.toks, retryToks, RetryTok.toks, errorHeader, isRetryShape, newInline, joinSp,
        joinWith, ErrForm.hexp]
  | inline ts =>
    obtain ⟨hne, hshape, hre, hrt⟩ := hwf
    rw [retryShaped_eq] at hshape
    subst hrt
    have hj := joinSp_ne_nil ts hne htok
    have hj' : (joinSp ts).isEmpty = false := by cases h : joinSp ts <;> simp_all
    simp [ErrForm.toks, retryToks, errorHeader, hshape, newInline, hj', hre, ErrForm.hexp]

theorem stmtHeader_toks (cfg : PCfg) (f : StmtForm) (rt : Option RetryTok) (hwf : f.WF cfg rt)
    (htok : ∀ t ∈ f.toks, IsTok isWs t) :
    stmtHeader cfg (f.toks ++ retryToks rt) = .ok (f.hexp, retryToks rt) := by
  cases f with
  | ok => simp [StmtForm.toks, stmtHeader, StmtForm.hexp]
  | count d =>
    obtain ⟨v, hv⟩ := Option.isSome_iff_exists.mp hwf
    simp [StmtForm.toks, stmtHeader, StmtForm.hexp, kw, hv, numOf]
  | error e =>
    have := errorHeader_toks cfg e rt hwf (fun t ht => htok t (by simp [StmtForm.toks, ht]))
    simp [StmtForm.toks, stmtHeader, StmtForm.hexp, kw, this]

theorem sortMode_ofStr_toStr (m : SortMode) : SortMode.ofStr m.toStr = some m := by
  cases m <;> decide

theorem parseTypes_ok (cfg : PCfg) (ty : Str) (h : ∀ c ∈ ty, (cfg.fromChar c).isSome = true) :
    parseTypes cfg ty = some (typesOf cfg ty) := by
  induction ty with
  | nil => rfl
  | cons c cs ih =>
    obtain ⟨t, ht⟩ := Option.isSome_iff_exists.mp (h c (by simp))
    simp [parseTypes, typesOf, ht] at ih ⊢
    exact ih (fun d hd => h d (by simp [hd]))

theorem queryMods_toks (so : Option SortMode) (lb : Option Str) (rt : Option RetryTok)
    (hlb : match lb with
      | none => True
      | some l => l ≠ kw "retry" ∧ (so = none → SortMode.ofStr l = none)) :
    queryMods ((so.map SortMode.toStr).toList ++ lb.toList ++ retryToks rt) =
      (so, lb, retryToks rt) := by
  have hr : SortMode.ofStr (kw "retry") = none := by decide
  cases so with
  | none =>
    cases lb with
    | none =>
      cases rt with
      | none => simp [queryMods, retryToks]
      | some r => simp [queryMods, retryToks, RetryTok.toks, hr]
    | some l =>
      obtain ⟨h1, h2⟩ := hlb
      simp [queryMods, h2 rfl, h1]
  | some m =>
    have hm := sortMode_ofStr_toStr m
    cases lb with
    | none =>
      cases rt with
      | none => simp [queryMods, retryToks, hm]
      | some r => simp [queryMods, retryToks, RetryTok.toks, hm]
    | some l =>
      obtain ⟨h1, _⟩ := hlb
      simp [queryMods, hm, h1]

theorem queryHeader_toks (cfg : PCfg) (f : QueryForm) (rt : Option RetryTok) (hwf : f.WF cfg rt)
    (htok : ∀ t ∈ f.toks, IsTok isWs t) :
    queryHeader cfg (f.toks ++ retryToks rt) = .ok (f.hexp cfg, retryToks rt) := by
  cases f with
  | bare rs =>
    have : rt = none := hwf
    subst this
    simp [QueryForm.toks, retryToks, queryHeader, QueryForm.hexp]
  | typed ty so lb rs =>
    obtain ⟨hne, hty, hlb⟩ := hwf
    have hm := queryMods_toks so lb rt hlb
    simp only [List.append_assoc] at hm
    simp [QueryForm.toks, queryHeader, hne, parseTypes_ok cfg ty hty, hm, QueryForm.hexp]
  | error e =>
    have := errorHeader_toks cfg e rt hwf (fun t ht => htok t (by simp [QueryForm.toks, ht]))
    simp [QueryForm.toks, queryHeader, QueryForm.hexp, this]

/-! ### multi-line texts are returned trimmed -/

theorem trim_append_ws (x : Str) (c : Char) (hc : isWs c = true) : trim (x ++ [c]) = trim x := by
  unfold trim trimStart
  rw [List.dropWhile_append]
  cases h : List.dropWhile isWs x with
  | nil => simp [trimEnd, hc]
  | cons a y =>
    simp only [List.isEmpty_cons, Bool.false_eq_true, ↓reduceIte]
    unfold trimEnd
    simp [hc]

theorem flatMap_nl (t : List Str) (hne : t ≠ []) :
    t.flatMap (· ++ ['\n']) = joinNl t ++ ['\n'] := by
  induction t with
  | nil => exact absurd rfl hne
  | cons a t ih =>
    cases t with
    | nil => simp [joinNl, joinWith]
    | cons b rest =>
      have := ih (by simp)
      simp only [List.flatMap_cons] at this ⊢
      rw [this]
      simp [joinNl, joinWith]

theorem multiText_eq (t : List Str) : multiText t = multiTextOf t := by
  unfold multiText multiTextOf
  cases t with
  | nil => rfl
  | cons a t => rw [flatMap_nl _ (by simp), trim_append_ws _ _ (by decide)]


section records
variable (cfg : PCfg) (r : Ref)

/-- header line, block, tail body and terminator of any record -/
theorem step_record_gen (toks : List Str) (lay : Lay) (h : Hdr) (conn' : Conn) (s1 : Str)
    (more : List Str) (tail : Tail)
    (hhdr : step cfg r.toP (hdrLine toks lay) =
      PState.inMode (.sqlFirst h) r.flushed [] conn' (r.num + 1))
    (hmore : BlockOk more) (hfit : TailFits h tail) (hwf : tail.WF) :
    (hdrLine toks lay :: (s1 :: more ++ tail.body) ++ tail.term).foldl (step cfg) r.toP =
      PState.atTop (r.flushed ++ [h.finishRec (joinNl (s1 :: more)) tail]) [] conn' []
        (r.num + (hdrLine toks lay :: (s1 :: more ++ tail.body) ++ tail.term).length) := by
  rw [List.cons_append, List.foldl_cons, hhdr,
    fold_record cfg h r.flushed [] conn' (r.num + 1) s1 more tail hmore hfit hwf]
  congr 1
  simp only [List.length_append, List.length_cons]
  omega

/-- the same with the input ending inside the terminator -/
theorem finish_record_gen (toks : List Str) (lay : Lay) (h : Hdr) (conn' : Conn) (s1 : Str)
    (more : List Str) (tail : Tail) (t : List Str)
    (hhdr : step cfg r.toP (hdrLine toks lay) =
      PState.inMode (.sqlFirst h) r.flushed [] conn' (r.num + 1))
    (hmore : BlockOk more) (hfit : TailFits h tail) (hwf : tail.WF) (ht : t <+: tail.term) :
    finish ((hdrLine toks lay :: (s1 :: more ++ tail.body) ++ t).foldl (step cfg) r.toP) =
      .ok (r.flushed ++ [h.finishRec (joinNl (s1 :: more)) tail]) := by
  rw [List.cons_append, List.foldl_cons, hhdr, List.foldl_append,
    fold_record_open cfg h r.flushed [] conn' (r.num + 1) s1 more tail hmore hfit hwf,
    finish_open cfg h r.flushed [] conn' _ _ tail t ht]

theorem stmt_hdr (f : StmtForm) (rt : Option RetryTok) (lay : Lay) (s1 : Str) (more : List Str)
    (hwf : WF cfg (.statement f rt lay s1 more)) :
    step cfg r.toP (hdrLine (Item.statement f rt lay s1 more).toks lay) =
      PState.inMode (.sqlFirst (.stmt (r.num + 1) r.conds r.conn f.hexp (retryOf rt)))
        r.flushed [] .dflt (r.num + 1) := by
  obtain ⟨⟨htok, hlay⟩, hf, hrt, _, _⟩ := hwf
  rw [step_hdrLine cfg r _ lay htok hlay 's' "tatement".toList (f.toks ++ retryToks rt) rfl
    (by decide)]
  have htok' : ∀ t ∈ f.toks, IsTok isWs t := fun t ht => htok t (by simp [Item.toks, ht])
  simp [Item.toks, dispatch, doStatement, stmtHeader_toks cfg f rt hf htok',
    parseRetry_toks rt hrt, startStmt, PState.atTop, PState.inMode]

theorem stmt_fits (n : Nat) (conds : List Cond) (conn : Conn) (f : StmtForm)
    (rt : Option Retry) : TailFits (.stmt n conds conn f.hexp rt) f.tail := by
  cases f with
  | error e => cases e <;> simp [StmtForm.tail, ErrForm.tail, TailFits, StmtForm.hexp, ErrForm.hexp, Hdr.isMulti]
  | _ => simp [StmtForm.tail, TailFits]

theorem stmt_finishRec (n : Nat) (conds : List Cond) (conn : Conn) (f : StmtForm)
    (rt : Option Retry) (sql : Str) :
    (Hdr.stmt n conds conn f.hexp rt).finishRec sql f.tail = .statement n conds conn sql f.exp rt := by
  cases f with
  | error e =>
    cases e <;> simp [StmtForm.tail, ErrForm.tail, Hdr.finishRec, StmtForm.hexp, ErrForm.hexp,
      Hdr.plain, Hdr.withMulti, StmtForm.exp, ErrForm.exp, multiText_eq]
  | _ => simp [StmtForm.tail, Hdr.finishRec, StmtForm.hexp, Hdr.plain, StmtForm.exp]

theorem query_hdr (f : QueryForm) (rt : Option RetryTok) (lay : Lay) (s1 : Str) (more : List Str)
    (hwf : WF cfg (.query f rt lay s1 more)) :
    step cfg r.toP (hdrLine (Item.query f rt lay s1 more).toks lay) =
      PState.inMode (.sqlFirst (.query (r.num + 1) r.conds r.conn (f.hexp cfg) (retryOf rt)))
        r.flushed [] .dflt (r.num + 1) := by
  obtain ⟨⟨htok, hlay⟩, hf, hrt, _, _⟩ := hwf
  rw [step_hdrLine cfg r _ lay htok hlay 'q' "uery".toList (f.toks ++ retryToks rt) rfl
    (by decide)]
  have htok' : ∀ t ∈ f.toks, IsTok isWs t := fun t ht => htok t (by simp [Item.toks, ht])
  have hk : kw "query" ≠ kw "statement" := by decide
  simp [Item.toks, dispatch, hk, doQuery, queryHeader_toks cfg f rt hf htok',
    parseRetry_toks rt hrt, startQuery, PState.atTop, PState.inMode]

theorem query_fits (n : Nat) (conds : List Cond) (conn : Conn) (f : QueryForm)
    (rt : Option Retry) : TailFits (.query n conds conn (f.hexp cfg) rt) f.tail := by
  cases f with
  | error e =>
    cases e <;> simp [QueryForm.tail, ErrForm.tail, TailFits, QueryForm.hexp, ErrForm.hexp, Hdr.isMulti]
  | bare rs => cases rs <;> simp [QueryForm.tail, resultsTail, TailFits, QueryForm.hexp, Hdr.isResults]
  | typed ty so lb rs =>
    cases rs <;> simp [QueryForm.tail, resultsTail, TailFits, QueryForm.hexp, Hdr.isResults]

theorem query_finishRec (n : Nat) (conds : List Cond) (conn : Conn) (f : QueryForm)
    (rt : Option Retry) (sql : Str) :
    (Hdr.query n conds conn (f.hexp cfg) rt).finishRec sql f.tail =
      .query n conds conn sql (f.exp cfg) rt := by
  cases f with
  | error e =>
    cases e <;> simp [QueryForm.tail, ErrForm.tail, Hdr.finishRec, QueryForm.hexp, ErrForm.hexp,
      Hdr.plain, Hdr.withMulti, QueryForm.exp, ErrForm.exp, multiText_eq]
  | bare rs =>
    cases rs <;> simp [QueryForm.tail, resultsTail, Hdr.finishRec, QueryForm.hexp, Hdr.plain,
      Hdr.withResults, QueryForm.exp]
  | typed ty so lb rs =>
    cases rs <;> simp [QueryForm.tail, resultsTail, Hdr.finishRec, QueryForm.hexp, Hdr.plain,
      Hdr.withResults, QueryForm.exp]

theorem system_hdr (rt : Option RetryTok) (lay : Lay) (c1 : Str) (more : List Str)
    (so : Option (List Str)) (hwf : WF cfg (.system rt lay c1 more so)) :
    step cfg r.toP (hdrLine (Item.system rt lay c1 more so).toks lay) =
      PState.inMode (.sqlFirst (.system (r.num + 1) r.conds (retryOf rt)))
        r.flushed [] r.conn (r.num + 1) := by
  obtain ⟨⟨htok, hlay⟩, hrt, _, _⟩ := hwf
  rw [step_hdrLine cfg r _ lay htok hlay 's' "ystem".toList (kw "ok" :: retryToks rt) rfl
    (by decide)]
  have h1 : kw "system" ≠ kw "statement" := by decide
  have h2 : kw "system" ≠ kw "query" := by decide
  have h3 : kw "system" ≠ kw "control" := by decide
  simp [Item.toks, dispatch, h1, h2, h3, doSystem, parseRetry_toks rt hrt, startSystem,
    PState.atTop, PState.inMode]

theorem system_fits (n : Nat) (conds : List Cond) (rt : Option Retry) (so : Option (List Str)) :
    TailFits (.system n conds rt) (stdoutTail so) := by
  cases so <;> simp [stdoutTail, TailFits, Hdr.isMulti]

theorem system_finishRec (n : Nat) (conds : List Cond) (rt : Option Retry)
    (so : Option (List Str)) (cmd : Str) :
    (Hdr.system n conds rt).finishRec cmd (stdoutTail so) =
      .system n conds cmd (so.map multiTextOf) rt := by
  cases so <;> simp [stdoutTail, Hdr.finishRec, Hdr.plain, Hdr.withMulti, multiText_eq]

end records

/-! ### every item -/

/-- **Simulation**: reading the lines of a well-formed item at top level takes the parser from
the state of `r` to the state of `refStep r i`. -/
theorem step_item (cfg : PCfg) (r : Ref) (i : Item) (hwf : WF cfg i) :
    (renderItem i).foldl (step cfg) r.toP = (refStep cfg r i).toP := by
  cases i with
  | blank => simpa [renderItem, renderOpen, Item.term, Item.tail?] using step_blank cfg r
  | wsLine ws =>
    simpa [renderItem, renderOpen, Item.term, Item.tail?] using step_wsLine cfg r ws hwf.2.1 hwf.2.2
  | comment ts =>
    simpa [renderItem, renderOpen, Item.term, Item.tail?] using step_comment cfg ts r
  | halt lay =>
    simpa [renderItem, renderOpen, Item.term, Item.tail?] using step_halt cfg r lay hwf.1
  | subtest a lay =>
    simpa [renderItem, renderOpen, Item.term, Item.tail?] using step_subtest cfg r a lay hwf.1
  | sleep a lay =>
    simpa [renderItem, renderOpen, Item.term, Item.tail?] using step_sleep cfg r a lay hwf.1 hwf.2
  | incl a lay =>
    simpa [renderItem, renderOpen, Item.term, Item.tail?] using step_incl cfg r a lay hwf.1
  | hashThreshold a lay =>
    simpa [renderItem, renderOpen, Item.term, Item.tail?] using
      step_hashThreshold cfg r a lay hwf.1 hwf.2
  | cond sk a lay =>
    simpa [renderItem, renderOpen, Item.term, Item.tail?] using step_cond cfg r sk a lay hwf.1
  | connection a lay =>
    simpa [renderItem, renderOpen, Item.term, Item.tail?] using step_connection cfg r a lay hwf.1
  | control c lay =>
    simpa [renderItem, renderOpen, Item.term, Item.tail?] using step_control cfg r c lay hwf.1
  | statement f rt lay s1 more =>
    have h := step_record_gen cfg r _ lay _ _ s1 more f.tail (stmt_hdr cfg r f rt lay s1 more hwf)
      hwf.2.2.2.1 (stmt_fits _ _ _ f _) hwf.2.2.2.2
    rw [stmt_finishRec] at h
    simpa [renderItem, renderOpen, Item.term, Item.tail?, refStep, Ref.toP, Item.recs,
      Item.condsAfter, Item.connAfter, Item.isRecord, Item.usesConn] using h
  | query f rt lay s1 more =>
    have h := step_record_gen cfg r _ lay _ _ s1 more f.tail (query_hdr cfg r f rt lay s1 more hwf)
      hwf.2.2.2.1 (query_fits cfg _ _ _ f _) hwf.2.2.2.2
    rw [query_finishRec] at h
    simpa [renderItem, renderOpen, Item.term, Item.tail?, refStep, Ref.toP, Item.recs,
      Item.condsAfter, Item.connAfter, Item.isRecord, Item.usesConn] using h
  | system rt lay c1 more so =>
    have h := step_record_gen cfg r _ lay _ _ c1 more (stdoutTail so)
      (system_hdr cfg r rt lay c1 more so hwf) hwf.2.2.1 (system_fits _ _ _ so) hwf.2.2.2
    rw [system_finishRec] at h
    simpa [renderItem, renderOpen, Item.term, Item.tail?, refStep, Ref.toP, Item.recs,
      Item.condsAfter, Item.connAfter, Item.isRecord, Item.usesConn, Item.conn?] using h


/-! ### whole scripts -/

theorem fold_items (cfg : PCfg) (is : List Item) (r : Ref) (hwf : ∀ i ∈ is, WF cfg i) :
    (render is).foldl (step cfg) r.toP = (is.foldl (refStep cfg) r).toP := by
  induction is generalizing r with
  | nil => rfl
  | cons i is ih =>
    simp only [render, List.flatMap_cons, List.foldl_append, List.foldl_cons]
    rw [step_item cfg r i (hwf i (by simp))]
    exact ih _ (fun j hj => hwf j (by simp [hj]))

theorem finish_toP (r : Ref) : finish r.toP = .ok r.flushed := by
  obtain ⟨out, comments, conds, conn, num⟩ := r
  cases comments <;> simp [finish, Ref.toP, PState.atTop, flushComments, Ref.flushed]

/-- the input may end anywhere inside the terminator of the last item -/
theorem finish_item (cfg : PCfg) (r : Ref) (i : Item) (hwf : WF cfg i) (t : List Str)
    (ht : t <+: i.term) :
    finish ((renderOpen i ++ t).foldl (step cfg) r.toP) = .ok (refStep cfg r i).flushed := by
  have hplain : i.term = [] →
      finish ((renderOpen i ++ t).foldl (step cfg) r.toP) = .ok (refStep cfg r i).flushed := by
    intro h0
    have ht' : t = [] := by simpa [h0] using ht
    have := step_item cfg r i hwf
    simp only [renderItem, h0] at this
    rw [ht', this, finish_toP]
  cases i with
  | statement f rt lay s1 more =>
    have h := finish_record_gen cfg r _ lay _ _ s1 more f.tail t
      (stmt_hdr cfg r f rt lay s1 more hwf) hwf.2.2.2.1 (stmt_fits _ _ _ f _) hwf.2.2.2.2 ht
    rw [stmt_finishRec] at h
    simpa [renderOpen, refStep, Ref.flushed, Item.recs] using h
  | query f rt lay s1 more =>
    have h := finish_record_gen cfg r _ lay _ _ s1 more f.tail t
      (query_hdr cfg r f rt lay s1 more hwf) hwf.2.2.2.1 (query_fits cfg _ _ _ f _) hwf.2.2.2.2 ht
    rw [query_finishRec] at h
    simpa [renderOpen, refStep, Ref.flushed, Item.recs] using h
  | system rt lay c1 more so =>
    have h := finish_record_gen cfg r _ lay _ _ c1 more (stdoutTail so) t
      (system_hdr cfg r rt lay c1 more so hwf) hwf.2.2.1 (system_fits _ _ _ so) hwf.2.2.2 ht
    rw [system_finishRec] at h
    simpa [renderOpen, refStep, Ref.flushed, Item.recs] using h
  | _ => exact hplain rfl

end Slt
