/-
C13: concrete templates used by the examples of `Props/C13.lean`, and the counterexamples that
justify the conditions of `WFt` one by one: for each condition a template violating only that
condition on which the real parser (`substFull` on the rendered text) does something other than
the template's meaning (`eval`).  Everything is checked by kernel evaluation (`decide +kernel`).
-/
import SltVerif.Lemmas.SubstNorm
namespace Slt.SubstEx
open Slt

/-- ASCII text as bytes -/
abbrev B (s : String) : Bytes := asciiBytes s

/-- no variable is defined -/
def g0 : Bytes → Option Bytes := fun _ => none

/-- `A = "x"`, `a-b = "y"`; everything else undefined -/
def gA : Bytes → Option Bytes := fun k =>
  if k = B "A" then some (B "x") else if k = B "a-b" then some (B "y") else none

/-- a value full of metacharacters: `V = "$A \\ ${A:z} {}"` and `A = "x"` -/
def gV : Bytes → Option Bytes := fun k =>
  if k = B "V" then some (B "$A \\ ${A:z} {}") else if k = B "A" then some (B "x") else none

/-- `select ${X:${Y:${Z:a\}b$A}}} from $V;\$\\{}` — defaults nested to depth 3, an escaped brace
inside the innermost default, unescaped braces at top level -/
def tNested : List Piece :=
  [.lit (B "select "),
   .var (B "X") true (some [.var (B "Y") true (some [.var (B "Z") true
      (some [.lit (B "a"), .esc bRBrace, .lit (B "b"), .var (B "A") false none])])]),
   .lit (B " from "), .var (B "V") false none, .lit (B ";"), .esc bDollar, .esc bBackslash,
   .lit (B "{}")]

theorem tNested_wf : WFt false tNested := by decide +kernel

theorem tNested_render :
    render tNested = B "select ${X:${Y:${Z:a\\}b$A}}} from $V;\\$\\\\{}" := by decide +kernel

/-- the value of `V` is inserted verbatim: its `$A`, `\`, `${A:z}` stay as they are, while the
template's own `$A` (in the innermost default) is replaced -/
theorem tNested_subst :
    substFull gV (B "select ${X:${Y:${Z:a\\}b$A}}} from $V;\\$\\\\{}") =
      .ok (B "select a}bx from $A \\ ${A:z} {};$\\{}") := by decide +kernel

theorem tNested_eval : eval gV tNested = .ok (B "select a}bx from $A \\ ${A:z} {};$\\{}") := by
  decide +kernel

/-! ### counterexamples: each condition of `WFt` is needed

`differs g t` : the text of `t` is not processed to the meaning of `t`. -/

def differs (g : Bytes → Option Bytes) (t : List Piece) : Prop := substFull g (render t) ≠ eval g t

instance (g : Bytes → Option Bytes) (t : List Piece) : Decidable (differs g t) := by
  unfold differs; infer_instance

/-- W1a. a literal containing `$`: read as a variable -/
theorem cex_lit_dollar :
    ¬ WFt false [.lit (B "a$b")] ∧ differs g0 [.lit (B "a$b")] ∧
    substFull g0 (render [.lit (B "a$b")]) = .error (.noSuchVar (B "b")) := by decide +kernel

/-- W1b. a literal containing a backslash: read as an escape -/
theorem cex_lit_backslash :
    ¬ WFt false [.lit (B "a\\b")] ∧ differs g0 [.lit (B "a\\b")] ∧
    substFull g0 (render [.lit (B "a\\b")]) = .error .invalidEscape := by decide +kernel

/-- W2. an empty literal hides that `$A` is followed by a name byte -/
theorem cex_lit_empty :
    ¬ WFt false [.var (B "A") false none, .lit [], .lit (B "b")] ∧
    differs gA [.var (B "A") false none, .lit [], .lit (B "b")] := by decide +kernel

/-- W3. adjacent literals: the parser returns one part, not two (harmless for the meaning: this
condition and non-emptiness are normal-form conditions, see `normalizeTpl`) -/
theorem cex_lit_adjacent :
    ¬ WFt false [.lit (B "a"), .lit (B "b")] ∧
    (parseTemplate 3 (render [.lit (B "a"), .lit (B "b")])).map List.length = .ok 1 ∧
    (toParts [.lit (B "a"), .lit (B "b")]).length = 2 ∧
    WFt false (normalizeTpl [.lit (B "a"), .lit (B "b")]) := by decide +kernel

/-- W4a. an empty unbraced name: the text ends in `$` and the crate panics (index out of bounds) -/
theorem cex_name_empty :
    ¬ WFt false [.var [] false none] ∧ differs g0 [.var [] false none] ∧
    substFull g0 (render [.var [] false none]) = .error .panic := by decide +kernel

/-- W4b. an empty braced name -/
theorem cex_name_empty_braced :
    ¬ WFt false [.var [] true none] ∧
    substFull g0 (render [.var [] true none]) = .error .missingName ∧
    eval g0 [.var [] true none] = .error (.noSuchVar []) := by decide +kernel

/-- W5. a name with a byte that is not alphanumeric / `_`: `$a-b` is `$a` followed by `-b` -/
theorem cex_name_byte :
    ¬ WFt false [.var (B "a-b") false none] ∧ differs gA [.var (B "a-b") false none] ∧
    eval gA [.var (B "a-b") false none] = .ok (B "y") ∧
    substFull gA (render [.var (B "a-b") false none]) = .error (.noSuchVar (B "a")) := by
  decide +kernel

/-- W6. an escape of a byte other than `\ $ { } :` is rejected by the crate -/
theorem cex_escape :
    ¬ WFt false [.esc 110] ∧ differs g0 [.esc 110] ∧
    substFull g0 (render [.esc 110]) = .error .invalidEscape := by decide +kernel

/-- W7. `$A` directly followed by a name byte: the name swallows it -/
theorem cex_unbraced_follow :
    ¬ WFt false [.var (B "A") false none, .lit (B "b")] ∧
    differs gA [.var (B "A") false none, .lit (B "b")] ∧
    eval gA [.var (B "A") false none, .lit (B "b")] = .ok (B "xb") ∧
    substFull gA (render [.var (B "A") false none, .lit (B "b")]) = .error (.noSuchVar (B "Ab")) := by
  decide +kernel

/-- … written with braces it is fine -/
theorem ok_braced_follow :
    WFt false [.var (B "A") true none, .lit (B "b")] ∧
    substFull gA (render [.var (B "A") true none, .lit (B "b")]) = .ok (B "xb") := by decide +kernel

/-- W8a. an unescaped `}` in a literal inside a default ends the default early -/
theorem cex_default_close :
    ¬ WFt false [.var (B "U") true (some [.lit (B "x}y")])] ∧
    differs g0 [.var (B "U") true (some [.lit (B "x}y")])] ∧
    eval g0 [.var (B "U") true (some [.lit (B "x}y")])] = .ok (B "x}y") ∧
    substFull g0 (render [.var (B "U") true (some [.lit (B "x}y")])]) = .ok (B "xy}") := by
  decide +kernel

/-- W8b. an unescaped `{` in a literal inside a default: the closing brace is never found -/
theorem cex_default_open :
    ¬ WFt false [.var (B "U") true (some [.lit (B "{")])] ∧
    differs g0 [.var (B "U") true (some [.lit (B "{")])] ∧
    substFull g0 (render [.var (B "U") true (some [.lit (B "{")])]) = .error .missingBrace := by
  decide +kernel

/-- … escaped they are fine, and so are unescaped braces outside defaults -/
theorem ok_default_escaped :
    WFt false [.var (B "U") true (some [.esc bLBrace, .lit (B "x"), .esc bRBrace]), .lit (B "{}}{")] ∧
    substFull g0 (render [.var (B "U") true (some [.esc bLBrace, .lit (B "x"), .esc bRBrace]),
      .lit (B "{}}{")]) = .ok (B "{x}{}}{") := by decide +kernel

/-- Remark: W8 is sufficient, not necessary — braces that happen to be balanced inside the default
are counted correctly by `find_closing_brace`. -/
theorem remark_balanced_braces :
    ¬ WFt false [.var (B "U") true (some [.lit (B "{x}")])] ∧
    ¬ differs g0 [.var (B "U") true (some [.lit (B "{x}")])] := by decide +kernel

/-! ### a runner's variables -/

/-- test directory `/tmp/d1`, locals `__DATABASE__ = db1`, `HOME = local`, environment
`HOME = /root`, `USER = u` -/
def exVars : VarEnv :=
  { testDir := B "/tmp/d1", now := B "17",
    locals := [(B "HOME", B "local"), (B "__DATABASE__", B "db1")],
    env := [(B "HOME", B "/root"), (B "USER", B "u")] }

end Slt.SubstEx
