/-
Lemmas for C13, part 1: `findIdx`, and `findClosing` (= `find_closing_brace`) expressed by a
structurally recursive scanner `scan` that walks the text byte by byte, counting braces.
The crate's odd comparisons (a relative offset compared with the total length) turn out to be
redundant: whenever they fire the search would have failed anyway.
-/
import SltVerif.SubstSpec
namespace Slt

/-! ### `findIdx` -/

theorem findIdx_append_of_all_false (p : UInt8 → Bool) (l r : Bytes)
    (h : ∀ c ∈ l, p c = false) :
    findIdx p (l ++ r) = (findIdx p r).map (· + l.length) := by
  induction l with
  | nil => simp
  | cons a l ih =>
    have ha : p a = false := h a (by simp)
    have ih' := ih (fun c hc => h c (by simp [hc]))
    simp only [List.cons_append, findIdx, ha, Bool.false_eq_true, ↓reduceIte, ih', Option.map_map,
      List.length_cons]
    congr 1

theorem findIdx_none_of_all_false (p : UInt8 → Bool) (l : Bytes) (h : ∀ c ∈ l, p c = false) :
    findIdx p l = none := by
  have := findIdx_append_of_all_false p l [] h
  simpa [findIdx] using this

theorem findIdx_hit (p : UInt8 → Bool) (l : Bytes) (c : UInt8) (r : Bytes)
    (h : ∀ x ∈ l, p x = false) (hc : p c = true) :
    findIdx p (l ++ c :: r) = some l.length := by
  rw [findIdx_append_of_all_false p l _ h]
  simp [findIdx, hc]

theorem findIdx_none_all_false (p : UInt8 → Bool) :
    ∀ l : Bytes, findIdx p l = none → ∀ c ∈ l, p c = false := by
  intro l
  induction l with
  | nil => intro _ c hc; simp at hc
  | cons a l ih =>
    intro h c hc
    simp only [findIdx] at h
    split at h
    · simp at h
    · rename_i hpa
      simp only [Option.map_eq_none_iff] at h
      rcases List.mem_cons.mp hc with rfl | hc'
      · simpa using hpa
      · exact ih h c hc'

theorem findIdx_some_split (p : UInt8 → Bool) :
    ∀ (l : Bytes) (k : Nat), findIdx p l = some k →
      ∃ a c b, l = a ++ c :: b ∧ a.length = k ∧ (∀ x ∈ a, p x = false) ∧ p c = true := by
  intro l
  induction l with
  | nil => intro k h; simp [findIdx] at h
  | cons x l ih =>
    intro k h
    simp only [findIdx] at h
    split at h
    · rename_i hpx
      refine ⟨[], x, l, rfl, ?_, by simp, hpx⟩
      simpa using (Option.some.inj h)
    · rename_i hpx
      cases hf : findIdx p l with
      | none => simp [hf] at h
      | some j =>
        simp only [hf, Option.map_some, Option.some.injEq] at h
        obtain ⟨a, c, b, hl, hlen, hall, hc⟩ := ih j hf
        refine ⟨x :: a, c, b, by simp [hl], by simp [hlen, h], ?_, hc⟩
        intro y hy
        rcases List.mem_cons.mp hy with rfl | hy'
        · simpa using hpx
        · exact hall y hy'

/-! ### the brace scanner -/

/-- the bytes `find_closing_brace` stops at -/
def isBraceSpecial (c : UInt8) : Bool := c == bBackslash || c == bLBrace || c == bRBrace

/-- `find_closing_brace` as a byte-by-byte scan: a backslash skips the next byte, `{` opens,
`}` closes; the result is the offset of the `}` that brings the count from 1 to 0 -/
def scan : Bytes → Int → Option Nat
  | [], _ => none
  | c :: cs, n =>
    if c == bBackslash then
      match cs with
      | [] => none
      | _ :: cs' => (scan cs' n).map (· + 2)
    else if c == bLBrace then (scan cs (n + 1)).map (· + 1)
    else if c == bRBrace then (if n - 1 = 0 then some 0 else (scan cs (n - 1)).map (· + 1))
    else (scan cs n).map (· + 1)

theorem scan_cons (c : UInt8) (cs : Bytes) (n : Int) :
    scan (c :: cs) n =
      if c == bBackslash then
        match cs with
        | [] => none
        | _ :: cs' => (scan cs' n).map (· + 2)
      else if c == bLBrace then (scan cs (n + 1)).map (· + 1)
      else if c == bRBrace then (if n - 1 = 0 then some 0 else (scan cs (n - 1)).map (· + 1))
      else (scan cs n).map (· + 1) := by
  rw [scan.eq_def]
  rfl

theorem scan_cons_normal (c : UInt8) (cs : Bytes) (n : Int) (h : isBraceSpecial c = false) :
    scan (c :: cs) n = (scan cs n).map (· + 1) := by
  simp only [isBraceSpecial, Bool.or_eq_false_iff] at h
  simp [scan_cons, h.1.1, h.1.2, h.2]

theorem scan_append_normal (a r : Bytes) (n : Int) (h : ∀ c ∈ a, isBraceSpecial c = false) :
    scan (a ++ r) n = (scan r n).map (· + a.length) := by
  induction a with
  | nil => simp
  | cons x a ih =>
    have hx := h x (by simp)
    have ih' := ih (fun c hc => h c (by simp [hc]))
    simp only [List.cons_append, scan_cons_normal x _ n hx, ih', Option.map_map, List.length_cons]
    congr 1

theorem scan_normal_none (a : Bytes) (n : Int) (h : ∀ c ∈ a, isBraceSpecial c = false) :
    scan a n = none := by
  have := scan_append_normal a [] n h
  simpa [scan] using this

theorem scan_escape (c : UInt8) (r : Bytes) (n : Int) :
    scan (bBackslash :: c :: r) n = (scan r n).map (· + 2) := by
  simp [scan_cons]

theorem scan_open (r : Bytes) (n : Int) :
    scan (bLBrace :: r) n = (scan r (n + 1)).map (· + 1) := by
  have : (bLBrace == bBackslash) = false := by decide
  simp [scan_cons, this]

theorem scan_close_continue (r : Bytes) (n : Int) (h : n - 1 ≠ 0) :
    scan (bRBrace :: r) n = (scan r (n - 1)).map (· + 1) := by
  have h1 : (bRBrace == bBackslash) = false := by decide
  have h2 : (bRBrace == bLBrace) = false := by decide
  simp [scan_cons, h1, h2, h]

theorem scan_close_done (r : Bytes) : scan (bRBrace :: r) 1 = some 0 := by
  have h1 : (bRBrace == bBackslash) = false := by decide
  have h2 : (bRBrace == bLBrace) = false := by decide
  simp [scan_cons, h1, h2]

/-! ### `findClosing` is `scan` -/

theorem findClosing_eq_scan (h : Bytes) :
    ∀ (fuel finger : Nat) (nested : Int), h.length - finger < fuel →
      findClosing h fuel finger nested = (scan (h.drop finger) nested).map (· + finger) := by
  intro fuel
  induction fuel with
  | zero => intro finger nested hf; omega
  | succ fuel ih =>
    intro finger nested hf
    rw [findClosing]
    by_cases hge : finger ≥ h.length
    · simp only [hge, ↓reduceIte]
      rw [List.drop_of_length_le hge]
      simp [scan]
    · simp only [hge, ↓reduceIte]
      have hfold : (fun c => c == bBackslash || c == bLBrace || c == bRBrace) = isBraceSpecial := by
        funext c; rfl
      rw [hfold]
      cases hfi : findIdx isBraceSpecial (h.drop finger) with
      | none =>
        have := scan_normal_none (h.drop finger) nested (findIdx_none_all_false _ _ hfi)
        simp [this]
      | some next =>
        obtain ⟨a, c, b, hl, hlen, hall, hc⟩ := findIdx_some_split _ _ _ hfi
        have hlenh : h.length = finger + next + 1 + b.length := by
          have := congrArg List.length hl
          simp only [List.length_drop, List.length_append, List.length_cons] at this
          omega
        have hd0 : h.drop (finger + next) = c :: b := by
          rw [← List.drop_drop, hl, ← hlen]
          simp
        have hd1 : h.drop (finger + next + 1) = b := by
          rw [← List.drop_drop, hd0]
          simp
        have hd2 : h.drop (finger + next + 2) = b.drop 1 := by
          rw [show finger + next + 2 = (finger + next + 1) + 1 from rfl, ← List.drop_drop, hd1]
        have hscan : scan (h.drop finger) nested = (scan (c :: b) nested).map (· + next) := by
          rw [hl, scan_append_normal a _ nested hall, hlen]
        simp only [hd0, List.headD_cons, hscan, Option.map_map]
        simp only [isBraceSpecial, Bool.or_eq_true, beq_iff_eq] at hc
        by_cases hc1 : c = bBackslash
        · subst hc1
          simp only [BEq.rfl, ↓reduceIte]
          by_cases he : next + 1 = h.length
          · have hb : b = [] := by
              apply List.eq_nil_of_length_eq_zero; omega
            simp [he, hb, scan]
          · simp only [he, ↓reduceIte]
            rw [ih _ _ (by omega), hd2]
            cases b with
            | nil => simp [scan]
            | cons y b' =>
              simp only [List.drop_succ_cons, List.drop_zero, scan_escape, Option.map_map]
              congr 1; funext x; simp only [Function.comp]; omega
        · have hne1 : (c == bBackslash) = false := by simpa using hc1
          simp only [hne1, Bool.false_eq_true, ↓reduceIte]
          by_cases hc2 : c = bLBrace
          · subst hc2
            simp only [BEq.rfl, ↓reduceIte]
            by_cases he : next = h.length - 1
            · have hb : b = [] := by
                apply List.eq_nil_of_length_eq_zero; omega
              simp [he, hb, scan_open, scan]
            · simp only [he, ↓reduceIte]
              rw [ih _ _ (by omega), hd1, scan_open, Option.map_map]
              congr 1; funext x; simp only [Function.comp]; omega
          · have hne2 : (c == bLBrace) = false := by simpa using hc2
            have hc3 : c = bRBrace := by
              rcases hc with (h1 | h2) | h3
              · exact absurd h1 hc1
              · exact absurd h2 hc2
              · exact h3
            subst hc3
            simp only [hne2, Bool.false_eq_true, ↓reduceIte]
            by_cases hn : nested - 1 = 0
            · have : nested = 1 := by omega
              subst this
              simp [scan_close_done]
              omega
            · simp only [hn, ↓reduceIte]
              rw [ih _ _ (by omega), hd1, scan_close_continue _ _ hn, Option.map_map]
              congr 1; funext x; simp only [Function.comp]; omega

end Slt
