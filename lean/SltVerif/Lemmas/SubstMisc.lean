/-
Lemmas for C13, part 5: `eval` is compositional; `replaceAll` / `simpleReplace` are the identity
when the patterns do not occur; `getConn` does not touch the substitution switch; decidable
equality of substitution results (for the `decide` examples).
-/
import SltVerif.Lemmas.SubstSim
namespace Slt

/-- decidable equality of substitution results (for `decide` in examples) -/
instance decEqExceptSubst {α : Type} [DecidableEq α] : DecidableEq (Except SubstErr α) := fun a b =>
  match a, b with
  | .ok x, .ok y => if h : x = y then isTrue (by rw [h]) else isFalse (by intro e; cases e; exact h rfl)
  | .error x, .error y =>
    if h : x = y then isTrue (by rw [h]) else isFalse (by intro e; cases e; exact h rfl)
  | .ok _, .error _ => isFalse (by intro e; cases e)
  | .error _, .ok _ => isFalse (by intro e; cases e)

/-- text of an ASCII string as bytes (reduces in the kernel, unlike `String.toUTF8`) -/
def asciiBytes (s : String) : Bytes := s.toList.map (fun c => c.toNat.toUInt8)

/-! ### `eval` is compositional -/

theorem eval_nil (get : Bytes → Option Bytes) : eval get [] = .ok [] := by simp [eval]

theorem eval_cons (get : Bytes → Option Bytes) (p : Piece) (ps : List Piece) :
    eval get (p :: ps) =
      match evalPiece get p with
      | .error e => .error e
      | .ok a =>
        match eval get ps with
        | .error e => .error e
        | .ok b => .ok (a ++ b) := by
  simp only [eval]
  rfl

theorem eval_append (get : Bytes → Option Bytes) (s t : List Piece) :
    eval get (s ++ t) =
      match eval get s with
      | .error e => .error e
      | .ok a =>
        match eval get t with
        | .error e => .error e
        | .ok b => .ok (a ++ b) := by
  induction s with
  | nil => simp only [List.nil_append, eval_nil]; cases eval get t <;> simp
  | cons p ps ih =>
    simp only [List.cons_append, eval_cons, ih]
    cases evalPiece get p <;> cases eval get ps <;> cases eval get t <;> simp

/-- a defined variable evaluates to its value, whatever the value and the default are -/
theorem evalPiece_defined (get : Bytes → Option Bytes) (n : Bytes) (br : Bool)
    (d : Option (List Piece)) (v : Bytes) (h : get n = some v) :
    evalPiece get (.var n br d) = .ok v := by
  cases d <;> rw [evalPiece, h]

theorem evalPiece_undefined_default (get : Bytes → Option Bytes) (n : Bytes) (br : Bool)
    (d : List Piece) (h : get n = none) :
    evalPiece get (.var n br (some d)) = eval get d := by
  rw [evalPiece, h]

theorem evalPiece_undefined (get : Bytes → Option Bytes) (n : Bytes) (br : Bool)
    (h : get n = none) :
    evalPiece get (.var n br none) = .error (.noSuchVar n) := by
  rw [evalPiece, h]

/-! ### `str::replace` without an occurrence -/

theorem replaceAll_noOccur (pat rep : Bytes) :
    ∀ (fuel : Nat) (s : Bytes), ¬ pat <:+: s → replaceAll pat rep fuel s = s := by
  intro fuel
  induction fuel with
  | zero => intro s _; simp [replaceAll]
  | succ f ih =>
    intro s hs
    cases s with
    | nil => simp [replaceAll]
    | cons c cs =>
      rw [replaceAll]
      by_cases he : pat.isEmpty = true
      · simp [he]
      · have hnp : pat.isPrefixOf (c :: cs) = false := by
          cases hp : pat.isPrefixOf (c :: cs) with
          | false => rfl
          | true => exact absurd (List.isPrefixOf_iff_prefix.mp hp).isInfix hs
        have hcs : ¬ pat <:+: cs := fun h => hs (h.trans (List.suffix_cons c cs).isInfix)
        simp [he, hnp, ih cs hcs]

theorem foldl_fixed {α β : Type} (f : α → β → α) (a : α) :
    ∀ l : List β, (∀ b ∈ l, f a b = a) → l.foldl f a = a := by
  intro l
  induction l with
  | nil => intro _; rfl
  | cons b l ih =>
    intro h
    rw [List.foldl_cons, h b (by simp)]
    exact ih (fun b' hb' => h b' (by simp [hb']))

/-- the patterns `simple_replace` looks for -/
def simplePatterns (v : VarEnv) : List Bytes :=
  (bDollar :: bytesOfString "__TEST_DIR__") :: (bDollar :: bytesOfString "__NOW__") ::
    v.locals.map (fun kv => bDollar :: kv.1)

theorem simpleReplace_noOccur (v : VarEnv) (s : Bytes)
    (h : ∀ pat ∈ simplePatterns v, ¬ pat <:+: s) : simpleReplace v s = s := by
  have h1 : ¬ (bDollar :: bytesOfString "__TEST_DIR__") <:+: s := h _ (by simp [simplePatterns])
  have h2 : ¬ (bDollar :: bytesOfString "__NOW__") <:+: s := h _ (by simp [simplePatterns])
  simp only [simpleReplace]
  rw [replaceAll_noOccur _ _ _ _ h1, replaceAll_noOccur _ _ _ _ h2]
  apply foldl_fixed
  intro kv hkv
  apply replaceAll_noOccur
  apply h
  simp only [simplePatterns, List.mem_cons, List.mem_map]
  exact Or.inr (Or.inr ⟨kv, hkv, rfl⟩)

theorem infix_mem_head {pat s : Bytes} {c : UInt8} {p : Bytes} (hp : pat = c :: p)
    (h : pat <:+: s) : c ∈ s := by
  obtain ⟨a, b, rfl⟩ := h
  simp [hp]

/-- without a `$` there is nothing to replace -/
theorem simpleReplace_noDollar (v : VarEnv) (s : Bytes) (h : bDollar ∉ s) :
    simpleReplace v s = s := by
  apply simpleReplace_noOccur
  intro pat hpat hin
  simp only [simplePatterns, List.mem_cons, List.mem_map] at hpat
  rcases hpat with rfl | rfl | ⟨kv, _, rfl⟩
  · exact h (infix_mem_head rfl hin)
  · exact h (infix_mem_head rfl hin)
  · exact h (infix_mem_head rfl hin)

/-! ### the runner -/

theorem getConn_substOn {σ : Type} (E : Env σ) (w : World σ) (c : Conn) :
    (getConn E w c).1.substOn = w.substOn := by
  unfold getConn
  split
  · rfl
  · cases h : (E.make w.db w.makes).2 <;> simp [h]

end Slt
