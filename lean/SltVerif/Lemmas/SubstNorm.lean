/-
Lemmas for C13, part 6: `normalizeTpl` (merge adjacent literals, drop empty ones) changes neither the
text nor the meaning of a template, and establishes the normal form.
-/
import SltVerif.Lemmas.SubstMisc
namespace Slt

theorem render_consPiece (p : Piece) (ps : List Piece) :
    render (consPiece p ps) = renderPiece p ++ render ps := by
  unfold consPiece
  split
  · simp [render, renderPiece]
  · split
    · rename_i h; simp only [List.isEmpty_iff] at h; simp [renderPiece, h]
    · simp [render]
  · simp [render]

theorem eval_consPiece (get : Bytes → Option Bytes) (p : Piece) (ps : List Piece) :
    eval get (consPiece p ps) = eval get (p :: ps) := by
  unfold consPiece
  split
  · rename_i b b' ps'
    simp only [eval_cons, evalPiece]
    cases eval get ps' <;> simp
  · split
    · rename_i h; simp only [List.isEmpty_iff] at h
      subst h
      simp only [eval_cons, evalPiece]
      cases eval get ps <;> simp
    · rfl
  · rfl

mutual
theorem render_normalizeTpl : ∀ t : List Piece, render (normalizeTpl t) = render t
  | [] => by simp [normalizeTpl]
  | p :: ps => by
    rw [normalizeTpl, render_consPiece, renderPiece_normalizePiece p, render_normalizeTpl ps, render_cons]

theorem renderPiece_normalizePiece : ∀ p : Piece, renderPiece (normalizePiece p) = renderPiece p
  | .lit b => by simp [normalizePiece]
  | .esc c => by simp [normalizePiece]
  | .var n br none => by simp [normalizePiece]
  | .var n br (some d) => by
    simp only [normalizePiece, renderPiece, render_normalizeTpl d]
end

mutual
theorem eval_normalizeTpl (get : Bytes → Option Bytes) :
    ∀ t : List Piece, eval get (normalizeTpl t) = eval get t
  | [] => by simp [normalizeTpl]
  | p :: ps => by
    rw [normalizeTpl, eval_consPiece, eval_cons, eval_cons, evalPiece_normalizePiece get p,
      eval_normalizeTpl get ps]

theorem evalPiece_normalizePiece (get : Bytes → Option Bytes) :
    ∀ p : Piece, evalPiece get (normalizePiece p) = evalPiece get p
  | .lit b => by simp [normalizePiece]
  | .esc c => by simp [normalizePiece]
  | .var n br none => by simp [normalizePiece]
  | .var n br (some d) => by
    simp only [normalizePiece, evalPiece, eval_normalizeTpl get d]
end

/-! ### `normalizeTpl` establishes the normal form (W2, W3 of `WFt`) -/

/-- no literal directly after a literal -/
def noLitAfterLit : Piece → List Piece → Bool
  | .lit _, .lit _ :: _ => false
  | _, _ => true

mutual
/-- literals non-empty and not adjacent, also inside defaults -/
def litNormal : List Piece → Bool
  | [] => true
  | p :: ps => litNormalPiece p && noLitAfterLit p ps && litNormal ps

def litNormalPiece : Piece → Bool
  | .lit b => !b.isEmpty
  | .esc _ => true
  | .var _ _ none => true
  | .var _ _ (some d) => litNormal d
end

theorem noLitAfterLit_lit (x y : Bytes) (qs : List Piece) :
    noLitAfterLit (.lit x) qs = noLitAfterLit (.lit y) qs := by
  cases qs with
  | nil => rfl
  | cons q qs => cases q <;> rfl

theorem litNormal_consPiece (p : Piece) (ps : List Piece)
    (hp : litNormalPiece p = true ∨ p = .lit []) (hps : litNormal ps = true) :
    litNormal (consPiece p ps) = true := by
  cases p with
  | esc c => simp [consPiece, litNormal, litNormalPiece, noLitAfterLit, hps]
  | var n br d =>
    have hp' : litNormalPiece (.var n br d) = true := by
      rcases hp with h | h
      · exact h
      · cases h
    simp [consPiece, litNormal, noLitAfterLit, hp', hps]
  | lit b =>
    cases ps with
    | nil => by_cases hb : b = [] <;> simp [consPiece, hb, litNormal, litNormalPiece, noLitAfterLit]
    | cons q qs =>
      cases q with
      | lit b' =>
        simp only [litNormal, litNormalPiece, Bool.and_eq_true, Bool.not_eq_eq_eq_not,
          Bool.not_true, List.isEmpty_eq_false_iff] at hps
        simp only [consPiece, litNormal, litNormalPiece, Bool.and_eq_true, Bool.not_eq_eq_eq_not,
          Bool.not_true, List.isEmpty_eq_false_iff]
        refine ⟨⟨?_, ?_⟩, hps.2⟩
        · intro h; exact hps.1.1 (List.append_eq_nil_iff.mp h).2
        · rw [noLitAfterLit_lit (b ++ b') b']; exact hps.1.2
      | esc c =>
        by_cases hb : b = [] <;>
          simp [consPiece, hb, litNormal, litNormalPiece, noLitAfterLit] at hps ⊢ <;> simp [hps]
      | var n br d =>
        cases d <;> by_cases hb : b = [] <;>
          simp [consPiece, hb, litNormal, litNormalPiece, noLitAfterLit] at hps ⊢ <;> simp [hps]

mutual
theorem litNormal_normalizeTpl : ∀ t : List Piece, litNormal (normalizeTpl t) = true
  | [] => by simp [normalizeTpl, litNormal]
  | p :: ps => by
    rw [normalizeTpl]
    exact litNormal_consPiece _ _ (litNormalPiece_normalizePiece p) (litNormal_normalizeTpl ps)

theorem litNormalPiece_normalizePiece :
    ∀ p : Piece, litNormalPiece (normalizePiece p) = true ∨ normalizePiece p = .lit []
  | .lit [] => Or.inr (by simp [normalizePiece])
  | .lit (c :: b) => Or.inl (by simp [normalizePiece, litNormalPiece])
  | .esc c => Or.inl (by simp [normalizePiece, litNormalPiece])
  | .var n br none => Or.inl (by simp [normalizePiece, litNormalPiece])
  | .var n br (some d) => Or.inl (by
      simp only [normalizePiece, litNormalPiece]; exact litNormal_normalizeTpl d)
end

end Slt
