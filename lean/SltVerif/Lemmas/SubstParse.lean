/-
Lemmas for C13, part 3: one step of `parseTemplate` (= `Template::parse`) on a text that starts
with a literal run followed by an escape / `$NAME` / `${NAME}` / `${NAME:default}`, and the
simulation theorem `parse_render`: on the rendering of a well-formed abstract template the parser
returns exactly the template's parts, for every nesting depth, given fuel > length.
-/
import SltVerif.Lemmas.SubstScan
namespace Slt

/-- the bytes `Template::parse` stops at -/
def isTplSpecial (c : UInt8) : Bool := c == bDollar || c == bBackslash

/-- a literal run: no `$`, no backslash -/
def Clean (l : Bytes) : Prop := ∀ c ∈ l, isTplSpecial c = false

/-- the literal part emitted for the run `l` (none when empty) -/
def litPre (l : Bytes) : List Part := if l.isEmpty then [] else [.lit l]

/-- the text does not continue a preceding `$NAME` -/
def headNotName : Bytes → Prop
  | [] => True
  | c :: _ => isNameByte c = false

theorem isTplSpecial_fold : (fun c => c == bDollar || c == bBackslash) = isTplSpecial := by
  funext c; rfl

theorem clean_nil : Clean [] := by intro c hc; simp at hc

theorem takeWhile_name (n r : Bytes) (hn : n.all isNameByte = true) (hr : headNotName r) :
    (n ++ r).takeWhile isNameByte = n ∧ (n ++ r).dropWhile isNameByte = r := by
  induction n with
  | nil =>
    cases r with
    | nil => simp
    | cons c r =>
      simp only [headNotName] at hr
      simp [hr]
  | cons a n ih =>
    simp only [List.all_cons, Bool.and_eq_true] at hn
    have := ih hn.2
    simp [hn.1, this]

theorem headNotName_cons (c : UInt8) (r : Bytes) (h : isNameByte c = false) :
    headNotName (c :: r) := h

theorem parse_nil (fuel : Nat) : parseTemplate fuel [] = .ok [] := by
  cases fuel <;> simp [parseTemplate]

/-- a text without `$` and backslash is one literal -/
theorem parse_end (f : Nat) (l : Bytes) (hl : Clean l) :
    parseTemplate (f + 1) l = .ok (litPre l) := by
  rw [parseTemplate]
  have hidx : findIdx isTplSpecial l = none := findIdx_none_of_all_false _ l hl
  simp only [isTplSpecial_fold, hidx, Option.getD_none, List.take_length, List.drop_length]
  cases l <;> simp [litPre]

/-- literal run, then `\c` -/
theorem parse_esc (f : Nat) (l : Bytes) (c : UInt8) (r : Bytes) (ps : List Part) (hl : Clean l)
    (hc : isEscapable c = true) (hr : parseTemplate f r = .ok ps) :
    parseTemplate (f + 1) (l ++ bBackslash :: c :: r) = .ok (litPre l ++ .esc c :: ps) := by
  rw [parseTemplate]
  have hidx : findIdx isTplSpecial (l ++ bBackslash :: c :: r) = some l.length :=
    findIdx_hit _ l _ _ hl (by decide)
  have hu : unescapeOne (some c) = .ok c := by
    simp only [isEscapable] at hc
    simp [unescapeOne, hc]
  simp only [isTplSpecial_fold, hidx, Option.getD_some, List.take_left', List.drop_left']
  simp [hu, hr, litPre]

/-- literal run, then `$NAME` not followed by a name byte -/
theorem parse_unbraced (f : Nat) (l n r : Bytes) (ps : List Part) (hl : Clean l)
    (hne : n ≠ []) (hn : n.all isNameByte = true) (hrn : headNotName r)
    (hr : parseTemplate f r = .ok ps) :
    parseTemplate (f + 1) (l ++ bDollar :: (n ++ r)) = .ok (litPre l ++ .var n none :: ps) := by
  rw [parseTemplate]
  have hidx : findIdx isTplSpecial (l ++ bDollar :: (n ++ r)) = some l.length :=
    findIdx_hit _ l _ _ hl (by decide)
  obtain ⟨htw, hdw⟩ := takeWhile_name n r hn hrn
  simp only [isTplSpecial_fold, hidx, Option.getD_some, List.take_left', List.drop_left']
  have hd : (bDollar == bBackslash) = false := by decide
  cases n with
  | nil => exact absurd rfl hne
  | cons d n' =>
    have hdn : isNameByte d = true := by
      simp only [List.all_cons, Bool.and_eq_true] at hn; exact hn.1
    have hdb : (d == bLBrace) = false := by
      have := (nameByte_facts d hdn).2.2.1
      simpa using this
    simp only [List.cons_append] at htw hdw ⊢
    simp [hd, hdb, htw, hdw, hr, litPre]

/-- literal run, then `${NAME}` -/
theorem parse_braced (f : Nat) (l n r : Bytes) (ps : List Part) (hl : Clean l)
    (hne : n ≠ []) (hn : n.all isNameByte = true) (hr : parseTemplate f r = .ok ps) :
    parseTemplate (f + 1) (l ++ bDollar :: bLBrace :: (n ++ bRBrace :: r)) =
      .ok (litPre l ++ .var n none :: ps) := by
  rw [parseTemplate]
  have hidx : findIdx isTplSpecial (l ++ bDollar :: bLBrace :: (n ++ bRBrace :: r)) =
      some l.length := findIdx_hit _ l _ _ hl (by decide)
  obtain ⟨htw, hdw⟩ := takeWhile_name n (bRBrace :: r) hn (headNotName_cons _ _ (by decide))
  simp only [isTplSpecial_fold, hidx, Option.getD_some, List.take_left', List.drop_left']
  have hd : (bDollar == bBackslash) = false := by decide
  have hne' : (n ++ bRBrace :: r).isEmpty = false := by cases n <;> simp
  have hne'' : n.isEmpty = false := by cases n <;> simp at hne ⊢
  simp [hd, htw, hdw, hr, litPre, hne', hne'']

/-- literal run, then `${NAME:src}` where `find_closing_brace` returns the position of the
displayed closing brace -/
theorem parse_default (f : Nat) (l n src r : Bytes) (dps ps : List Part) (hl : Clean l)
    (hne : n ≠ []) (hn : n.all isNameByte = true)
    (hfc : findClosing (bDollar :: bLBrace :: (n ++ bColon :: (src ++ bRBrace :: r)))
      ((bDollar :: bLBrace :: (n ++ bColon :: (src ++ bRBrace :: r))).length + 1) 0 0 =
        some (3 + n.length + src.length))
    (hd : parseTemplate f src = .ok dps) (hr : parseTemplate f r = .ok ps) :
    parseTemplate (f + 1) (l ++ bDollar :: bLBrace :: (n ++ bColon :: (src ++ bRBrace :: r))) =
      .ok (litPre l ++ .var n (some dps) :: ps) := by
  rw [parseTemplate]
  have hidx : findIdx isTplSpecial (l ++ bDollar :: bLBrace :: (n ++ bColon :: (src ++ bRBrace :: r))) =
      some l.length := findIdx_hit _ l _ _ hl (by decide)
  obtain ⟨htw, hdw⟩ := takeWhile_name n (bColon :: (src ++ bRBrace :: r)) hn
    (headNotName_cons _ _ (by decide))
  simp only [isTplSpecial_fold, hidx, Option.getD_some, List.take_left', List.drop_left']
  have hdb : (bDollar == bBackslash) = false := by decide
  have hcb : (bColon == bRBrace) = false := by decide
  have hne' : (n ++ bColon :: (src ++ bRBrace :: r)).isEmpty = false := by cases n <;> simp
  have hne'' : n.isEmpty = false := by cases n <;> simp at hne ⊢
  have htake : List.drop (2 + n.length + 1)
      (List.take (3 + n.length + src.length)
        (bDollar :: bLBrace :: (n ++ bColon :: (src ++ bRBrace :: r)))) = src := by
    have e1 : bDollar :: bLBrace :: (n ++ bColon :: (src ++ bRBrace :: r)) =
        (bDollar :: bLBrace :: (n ++ [bColon])) ++ (src ++ bRBrace :: r) := by simp
    have e2 : 3 + n.length + src.length = (bDollar :: bLBrace :: (n ++ [bColon])).length + src.length := by
      simp; omega
    have e3 : 2 + n.length + 1 = (bDollar :: bLBrace :: (n ++ [bColon])).length := by
      simp; omega
    rw [e1, e2, List.take_length_add_append, e3, List.take_left' rfl, List.drop_left' rfl]
  have hdrop : List.drop (3 + n.length + src.length + 1)
      (bDollar :: bLBrace :: (n ++ bColon :: (src ++ bRBrace :: r))) = r := by
    have e1 : bDollar :: bLBrace :: (n ++ bColon :: (src ++ bRBrace :: r)) =
        (bDollar :: bLBrace :: (n ++ bColon :: (src ++ [bRBrace]))) ++ r := by simp
    have e2 : 3 + n.length + src.length + 1 =
        (bDollar :: bLBrace :: (n ++ bColon :: (src ++ [bRBrace]))).length := by
      simp; omega
    rw [e1, e2, List.drop_left' rfl]
  have hnE : (l ++ bDollar :: bLBrace :: (n ++ bColon :: (src ++ bRBrace :: r))).isEmpty = false := by
    simp
  simp only [hnE, hdb, Bool.false_eq_true, ↓reduceIte, BEq.rfl, hne', htw, hne'', hdw, hcb,
    bne_self_eq_false, hfc, htake, hd, hdrop, hr, litPre]

end Slt
