/-
Lemmas for C13, part 2: byte facts, and `find_closing_brace` on rendered templates — the text of a
well-formed default is brace-balanced for the scanner, so the search started at the `$` of
`${NAME:default}` ends exactly at that variable's own closing brace.
-/
import SltVerif.Lemmas.SubstFind
namespace Slt

/-! ### bytes -/

theorem nameByte_facts (c : UInt8) (h : isNameByte c = true) :
    c ≠ bDollar ∧ c ≠ bBackslash ∧ c ≠ bLBrace ∧ c ≠ bRBrace ∧ c ≠ bColon := by
  refine ⟨?_, ?_, ?_, ?_, ?_⟩ <;> (rintro rfl; revert h; decide)

theorem nameByte_not_special (c : UInt8) (h : isNameByte c = true) : isBraceSpecial c = false := by
  obtain ⟨_, h2, h3, h4, _⟩ := nameByte_facts c h
  simp [isBraceSpecial, h2, h3, h4]

theorem name_not_special (n : Bytes) (h : n.all isNameByte = true) :
    ∀ c ∈ n, isBraceSpecial c = false := by
  intro c hc
  exact nameByte_not_special c (List.all_eq_true.mp h c hc)

theorem litByte_not_special (c : UInt8) (h : litByteOk true c = true) :
    isBraceSpecial c = false := by
  simp only [litByteOk, Bool.not_true, Bool.false_or, Bool.and_eq_true, bne_iff_ne, ne_eq] at h
  obtain ⟨⟨_, h2⟩, h3, h4⟩ := h
  simp [isBraceSpecial, h2, h3, h4]

theorem dollar_not_special : isBraceSpecial bDollar = false := by decide
theorem colon_not_special : isBraceSpecial bColon = false := by decide

theorem map_add_map (o : Option Nat) (a b : Nat) :
    (o.map (· + a)).map (· + b) = o.map (· + (a + b)) := by
  cases o <;> simp [Nat.add_assoc]

/-! ### scanning a rendered default -/

theorem scan_cons_piece (p : Piece) (ps : List Piece) (r : Bytes) (k : Int)
    (key : ∀ r', scan (renderPiece p ++ r') k = (scan r' k).map (· + (renderPiece p).length))
    (ihps : scan (render ps ++ r) k = (scan r k).map (· + (render ps).length)) :
    scan (render (p :: ps) ++ r) k = (scan r k).map (· + (render (p :: ps)).length) := by
  simp only [render, List.append_assoc, List.length_append]
  rw [key, ihps, map_add_map]
  congr 1; funext x; omega

theorem wfList_cons {b : Bool} {p : Piece} {ps : List Piece} (h : wfList b (p :: ps) = true) :
    wfPiece b p = true ∧ followOk p ps = true ∧ wfList b ps = true := by
  simp only [wfList, Bool.and_eq_true] at h
  exact ⟨h.1.1, h.1.2, h.2⟩

/-- The rendering of a template that is well-formed as a default is transparent for the brace
scanner at every depth `k ≥ 1`. -/
theorem scan_render : ∀ (d : List Piece) (r : Bytes) (k : Int), wfList true d = true → 1 ≤ k →
    scan (render d ++ r) k = (scan r k).map (· + (render d).length)
  | [], r, k, _, _ => by simp [render]
  | .lit b :: ps, r, k, hwf, hk => by
    obtain ⟨hp, _, hps⟩ := wfList_cons hwf
    refine scan_cons_piece _ _ _ _ (fun r' => ?_) (scan_render ps r k hps hk)
    simp only [wfPiece, Bool.and_eq_true] at hp
    simp only [renderPiece]
    exact scan_append_normal b r' k
      (fun c hc => litByte_not_special c (List.all_eq_true.mp hp.2 c hc))
  | .esc c :: ps, r, k, hwf, hk => by
    obtain ⟨_, _, hps⟩ := wfList_cons hwf
    refine scan_cons_piece _ _ _ _ (fun r' => ?_) (scan_render ps r k hps hk)
    simp only [renderPiece, List.cons_append, List.nil_append, scan_escape, List.length_cons,
      List.length_nil]
  | .var n false none :: ps, r, k, hwf, hk => by
    obtain ⟨hp, _, hps⟩ := wfList_cons hwf
    refine scan_cons_piece _ _ _ _ (fun r' => ?_) (scan_render ps r k hps hk)
    simp only [wfPiece, Bool.and_eq_true] at hp
    simp only [renderPiece, Bool.false_eq_true, ↓reduceIte, List.cons_append, List.length_cons]
    rw [scan_cons_normal _ _ _ dollar_not_special,
      scan_append_normal n r' k (name_not_special n hp.1.2), map_add_map]
  | .var n true none :: ps, r, k, hwf, hk => by
    obtain ⟨hp, _, hps⟩ := wfList_cons hwf
    refine scan_cons_piece _ _ _ _ (fun r' => ?_) (scan_render ps r k hps hk)
    simp only [wfPiece, Bool.and_eq_true] at hp
    simp only [renderPiece, ↓reduceIte, List.cons_append, List.append_assoc, List.length_cons,
      List.length_append, List.length_nil, List.nil_append]
    rw [scan_cons_normal _ _ _ dollar_not_special, scan_open,
      scan_append_normal n _ _ (name_not_special n hp.1.2),
      scan_close_continue _ _ (by omega), map_add_map, map_add_map, map_add_map]
    have : k + 1 - 1 = k := by omega
    rw [this]
    congr 1; funext x; omega
  | .var n br (some d') :: ps, r, k, hwf, hk => by
    obtain ⟨hp, _, hps⟩ := wfList_cons hwf
    refine scan_cons_piece _ _ _ _ (fun r' => ?_) (scan_render ps r k hps hk)
    simp only [wfPiece, Bool.and_eq_true] at hp
    have ihd := scan_render d' (bRBrace :: r') (k + 1) hp.2 (by omega)
    simp only [renderPiece, List.cons_append, List.append_assoc, List.length_cons,
      List.length_append, List.length_nil, List.nil_append]
    rw [scan_cons_normal _ _ _ dollar_not_special, scan_open,
      scan_append_normal n _ _ (name_not_special n hp.1.2),
      scan_cons_normal _ _ _ colon_not_special, ihd,
      scan_close_continue _ _ (by omega), map_add_map, map_add_map, map_add_map, map_add_map,
      map_add_map]
    have : k + 1 - 1 = k := by omega
    rw [this]
    congr 1; funext x; omega

/-- **`find_closing_brace` finds the variable's own closing brace**: on the text
`${NAME:default}…` (whatever follows) the search returns the position of the `}` that ends this
variable. -/
theorem findClosing_default (n : Bytes) (d : List Piece) (r : Bytes)
    (hn : n.all isNameByte = true) (hd : wfList true d = true) (fuel : Nat)
    (hfuel : (bDollar :: bLBrace :: (n ++ bColon :: (render d ++ bRBrace :: r))).length < fuel) :
    findClosing (bDollar :: bLBrace :: (n ++ bColon :: (render d ++ bRBrace :: r))) fuel 0 0 =
      some (3 + n.length + (render d).length) := by
  rw [findClosing_eq_scan _ _ _ _ (by omega)]
  simp only [List.drop_zero]
  rw [scan_cons_normal _ _ _ dollar_not_special, scan_open,
    scan_append_normal n _ _ (name_not_special n hn),
    scan_cons_normal _ _ _ colon_not_special, scan_render d _ _ hd (by omega)]
  simp only [Int.zero_add, scan_close_done, Option.map_some, Nat.zero_add, Nat.add_zero]
  congr 1; omega

end Slt
