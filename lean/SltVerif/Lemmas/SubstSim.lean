/-
Lemmas for C13, part 4: the simulation theorem.  On the rendering of a well-formed abstract
template `Template::parse` returns exactly the template's parts (`parse_render`, any nesting depth,
any fuel > length), expansion of those parts is `eval` (`expandParts_toParts`), hence
`substFull get (render t) = eval get t` (`substFull_render`).
-/
import SltVerif.Lemmas.SubstParse
namespace Slt

theorem render_cons (p : Piece) (ps : List Piece) : render (p :: ps) = renderPiece p ++ render ps := by
  simp [render]

theorem toParts_cons (p : Piece) (ps : List Piece) : toParts (p :: ps) = toPart p :: toParts ps := by
  simp [toParts]

theorem clean_of_wfLit {inD : Bool} {b : Bytes} (h : wfPiece inD (.lit b) = true) :
    b ≠ [] ∧ Clean b := by
  simp only [wfPiece, Bool.and_eq_true, Bool.not_eq_eq_eq_not, Bool.not_true,
    List.isEmpty_eq_false_iff] at h
  refine ⟨h.1, ?_⟩
  intro c hc
  have := List.all_eq_true.mp h.2 c hc
  simp only [litByteOk, Bool.and_eq_true, bne_iff_ne, ne_eq] at this
  simp [isTplSpecial, this.1.1, this.1.2]

theorem headNotName_render {inD : Bool} :
    ∀ (ps : List Piece), wfList inD ps = true → startsWithNameByte ps = false →
      headNotName (render ps)
  | [], _, _ => by simp [render, headNotName]
  | .lit [] :: ps, hwf, _ => by
    have := (wfList_cons hwf).1
    simp [wfPiece] at this
  | .lit (c :: b) :: ps, _, h => by
    simp only [startsWithNameByte] at h
    simp [render, renderPiece, headNotName, h]
  | .esc c :: ps, _, _ => by
    simp only [render, renderPiece, List.cons_append, headNotName]
    decide
  | .var n false none :: ps, _, _ => by
    simp only [render, renderPiece, Bool.false_eq_true, ↓reduceIte, List.cons_append, headNotName]
    decide
  | .var n true none :: ps, _, _ => by
    simp only [render, renderPiece, ↓reduceIte, List.cons_append, headNotName]
    decide
  | .var n br (some d) :: ps, _, _ => by
    simp only [render, renderPiece, List.cons_append, headNotName]
    decide

/-- one parser step: literal run `l`, then the non-literal piece `p`, given the parser is
correct on the rest and on `p`'s default -/
theorem parse_piece (l : Bytes) (hl : Clean l) (inD : Bool) (p : Piece) (ps : List Piece)
    (hnl : p.isLit = false) (hwf : wfList inD (p :: ps) = true)
    (ihps : ∀ fuel, (render ps).length < fuel → parseTemplate fuel (render ps) = .ok (toParts ps))
    (ihd : ∀ n br d, p = .var n br (some d) → ∀ fuel, (render d).length < fuel →
      parseTemplate fuel (render d) = .ok (toParts d))
    (fuel : Nat) (hfuel : l.length + (render (p :: ps)).length < fuel) :
    parseTemplate fuel (l ++ render (p :: ps)) = .ok (litPre l ++ toParts (p :: ps)) := by
  obtain ⟨f, rfl⟩ : ∃ f, fuel = f + 1 := ⟨fuel - 1, by omega⟩
  obtain ⟨hp, hfol, hps⟩ := wfList_cons hwf
  rw [render_cons] at hfuel ⊢
  rw [toParts_cons]
  match p, hnl, hp, hfol, ihd with
  | .esc c, _, hp, _, _ =>
    simp only [renderPiece, List.length_append, List.length_cons, List.length_nil] at hfuel
    simp only [renderPiece, List.cons_append, List.nil_append, toPart]
    exact parse_esc f l c (render ps) (toParts ps) hl (by simpa [wfPiece] using hp)
      (ihps f (by omega))
  | .var n false none, _, hp, hfol, _ =>
    simp only [wfPiece, Bool.and_eq_true, Bool.not_eq_eq_eq_not, Bool.not_true,
      List.isEmpty_eq_false_iff] at hp
    simp only [followOk, Bool.not_eq_eq_eq_not, Bool.not_true] at hfol
    simp only [renderPiece, Bool.false_eq_true, ↓reduceIte, List.length_append, List.length_cons]
      at hfuel
    simp only [renderPiece, Bool.false_eq_true, ↓reduceIte, List.cons_append, toPart]
    exact parse_unbraced f l n (render ps) (toParts ps) hl hp.1.1 hp.1.2
      (headNotName_render ps hps hfol) (ihps f (by omega))
  | .var n true none, _, hp, _, _ =>
    simp only [wfPiece, Bool.and_eq_true, Bool.not_eq_eq_eq_not, Bool.not_true,
      List.isEmpty_eq_false_iff] at hp
    simp only [renderPiece, ↓reduceIte, List.length_append, List.length_cons, List.length_nil]
      at hfuel
    simp only [renderPiece, ↓reduceIte, List.cons_append, List.append_assoc, List.nil_append, toPart]
    exact parse_braced f l n (render ps) (toParts ps) hl hp.1.1 hp.1.2 (ihps f (by omega))
  | .var n br (some d), _, hp, _, ihd =>
    simp only [wfPiece, Bool.and_eq_true, Bool.not_eq_eq_eq_not, Bool.not_true,
      List.isEmpty_eq_false_iff] at hp
    simp only [renderPiece, List.length_append, List.length_cons, List.length_nil] at hfuel
    simp only [renderPiece, List.cons_append, List.append_assoc, List.nil_append, toPart]
    refine parse_default f l n (render d) (render ps) (toParts d) (toParts ps) hl hp.1.1 hp.1.2 ?_
      (ihd n br d rfl f (by omega)) (ihps f (by omega))
    exact findClosing_default n d (render ps) hp.1.2 hp.2 _ (by omega)

/-- **The parser implements the grammar**: on the rendering of a well-formed template
`Template::parse` returns the template's parts — unbounded nesting, any sufficient fuel. -/
theorem parse_render : ∀ (t : List Piece) (inD : Bool) (fuel : Nat), wfList inD t = true →
    (render t).length < fuel → parseTemplate fuel (render t) = .ok (toParts t)
  | [], _, fuel, _, _ => by simp [render, toParts, parse_nil]
  | [.lit b], inD, fuel, hwf, hfuel => by
    obtain ⟨f, rfl⟩ : ∃ f, fuel = f + 1 := ⟨fuel - 1, by omega⟩
    obtain ⟨hne, hcl⟩ := clean_of_wfLit (wfList_cons hwf).1
    have : litPre b = [.lit b] := by cases b <;> simp [litPre] at hne ⊢
    simp only [render, renderPiece, List.append_nil, toParts, toPart]
    rw [parse_end f b hcl, this]
  | .lit b :: .lit b' :: ps, inD, fuel, hwf, _ => by
    have := (wfList_cons hwf).2.1
    simp [followOk, Piece.isLit] at this
  | .lit b :: .esc c :: ps, inD, fuel, hwf, hfuel => by
    obtain ⟨hp, _, hrest⟩ := wfList_cons hwf
    obtain ⟨hne, hcl⟩ := clean_of_wfLit hp
    have hpre : litPre b = [.lit b] := by cases b <;> simp [litPre] at hne ⊢
    have hps := (wfList_cons hrest).2.2
    rw [render_cons, toParts_cons] at *
    simp only [renderPiece, toPart] at hfuel ⊢
    rw [parse_piece b hcl inD (.esc c) ps rfl hrest
      (fun fuel h => parse_render ps inD fuel hps h) (fun _ _ _ h => nomatch h) fuel
      (by simpa using hfuel), hpre]
    rfl
  | .lit b :: .var n br none :: ps, inD, fuel, hwf, hfuel => by
    obtain ⟨hp, _, hrest⟩ := wfList_cons hwf
    obtain ⟨hne, hcl⟩ := clean_of_wfLit hp
    have hpre : litPre b = [.lit b] := by cases b <;> simp [litPre] at hne ⊢
    have hps := (wfList_cons hrest).2.2
    rw [render_cons, toParts_cons] at *
    simp only [renderPiece, toPart] at hfuel ⊢
    rw [parse_piece b hcl inD (.var n br none) ps rfl hrest
      (fun fuel h => parse_render ps inD fuel hps h) (fun _ _ _ h => nomatch h) fuel
      (by simpa using hfuel), hpre]
    rfl
  | .lit b :: .var n br (some d) :: ps, inD, fuel, hwf, hfuel => by
    obtain ⟨hp, _, hrest⟩ := wfList_cons hwf
    obtain ⟨hne, hcl⟩ := clean_of_wfLit hp
    have hpre : litPre b = [.lit b] := by cases b <;> simp [litPre] at hne ⊢
    obtain ⟨hv, _, hps⟩ := wfList_cons hrest
    have hd : wfList true d = true := by
      simp only [wfPiece, Bool.and_eq_true] at hv; exact hv.2
    rw [render_cons, toParts_cons] at *
    simp only [renderPiece, toPart] at hfuel ⊢
    rw [parse_piece b hcl inD (.var n br (some d)) ps rfl hrest
      (fun fuel h => parse_render ps inD fuel hps h)
      (fun n' br' d' h fuel hf => by
        cases h; exact parse_render d true fuel hd hf) fuel
      (by simpa using hfuel), hpre]
    rfl
  | .esc c :: ps, inD, fuel, hwf, hfuel => by
    have hps := (wfList_cons hwf).2.2
    have := parse_piece [] clean_nil inD (.esc c) ps rfl hwf
      (fun fuel h => parse_render ps inD fuel hps h) (fun _ _ _ h => nomatch h) fuel
      (by simpa using hfuel)
    simpa [litPre] using this
  | .var n br none :: ps, inD, fuel, hwf, hfuel => by
    have hps := (wfList_cons hwf).2.2
    have := parse_piece [] clean_nil inD (.var n br none) ps rfl hwf
      (fun fuel h => parse_render ps inD fuel hps h) (fun _ _ _ h => nomatch h) fuel
      (by simpa using hfuel)
    simpa [litPre] using this
  | .var n br (some d) :: ps, inD, fuel, hwf, hfuel => by
    obtain ⟨hv, _, hps⟩ := wfList_cons hwf
    have hd : wfList true d = true := by
      simp only [wfPiece, Bool.and_eq_true] at hv; exact hv.2
    have := parse_piece [] clean_nil inD (.var n br (some d)) ps rfl hwf
      (fun fuel h => parse_render ps inD fuel hps h)
      (fun n' br' d' h fuel hf => by
        cases h; exact parse_render d true fuel hd hf) fuel
      (by simpa using hfuel)
    simpa [litPre] using this

/-! ### expansion of the parts is `eval` -/

theorem expandParts_toParts (get : Bytes → Option Bytes) :
    ∀ t : List Piece, expandParts get (toParts t) = eval get t
  | [] => by simp [toParts, expandParts, eval]
  | .lit b :: ps => by
    have ih := expandParts_toParts get ps
    simp only [toParts, toPart, expandParts, expandPart, eval, evalPiece, ih]
    cases eval get ps <;> rfl
  | .esc c :: ps => by
    have ih := expandParts_toParts get ps
    simp only [toParts, toPart, expandParts, expandPart, eval, evalPiece, ih]
    cases eval get ps <;> rfl
  | .var n br none :: ps => by
    have ih := expandParts_toParts get ps
    simp only [toParts, toPart, expandParts, expandPart, eval, evalPiece, ih]
    cases get n <;> cases eval get ps <;> rfl
  | .var n br (some d) :: ps => by
    have ih := expandParts_toParts get ps
    have ihd := expandParts_toParts get d
    simp only [toParts, toPart, expandParts, expandPart, eval, evalPiece, ih, ihd]
    cases get n <;> cases eval get d <;> cases eval get ps <;> rfl

/-- `subst::substitute` on the rendering of a well-formed template is the template's meaning. -/
theorem substFull_render (get : Bytes → Option Bytes) (t : List Piece) (inD : Bool)
    (h : wfList inD t = true) : substFull get (render t) = eval get t := by
  simp only [substFull, parse_render t inD _ h (Nat.lt_succ_self _), expandParts_toParts]

end Slt
