/-
Helper lemmas about the text primitives (`splitAux`, `words`, `asciiWords`, `trim`, `lines`).
-/
import SltVerif.Text
namespace Slt

variable (p : Char → Bool)

/-- a token: non-empty, no separator character -/
def IsTok (t : Str) : Prop := t ≠ [] ∧ ∀ c ∈ t, p c = false
/-- blanks only -/
def AllSep (s : Str) : Prop := ∀ c ∈ s, p c = true

instance (t : Str) : Decidable (IsTok p t) := by unfold IsTok; infer_instance
instance (t : Str) : Decidable (AllSep p t) := by unfold AllSep; infer_instance

theorem splitAux_tok (t : Str) (ht : ∀ c ∈ t, p c = false) (cur r : Str) :
    splitAux p cur (t ++ r) = splitAux p (cur ++ t) r := by
  induction t generalizing cur with
  | nil => simp
  | cons c cs ih =>
    have hc : p c = false := ht c (by simp)
    simp only [List.cons_append, splitAux, hc]
    rw [ih (fun d hd => ht d (by simp [hd])) (cur ++ [c])]
    simp

theorem splitAux_sep (c : Char) (hc : p c = true) (cur r : Str) :
    splitAux p cur (c :: r) = (if cur.isEmpty then [] else [cur]) ++ splitAux p [] r := by
  cases cur <;> simp [splitAux, hc]

theorem splitAux_allSep (s : Str) (hs : AllSep p s) (r : Str) :
    splitAux p [] (s ++ r) = splitAux p [] r := by
  induction s with
  | nil => rfl
  | cons c cs ih =>
    have hc : p c = true := hs c (by simp)
    simp only [List.cons_append, splitAux, hc]
    simpa using ih (fun d hd => hs d (by simp [hd]))

theorem splitAux_nil_of_allSep (s : Str) (hs : AllSep p s) : splitAux p [] s = [] := by
  have := splitAux_allSep p s hs []
  simpa [splitAux] using this

/-- a token followed by nothing or by a separator is split off as a whole -/
theorem splitAux_tok_then (t r : Str) (ht : IsTok p t)
    (hr : r = [] ∨ ∃ d r', r = d :: r' ∧ p d = true) :
    splitAux p [] (t ++ r) = t :: splitAux p [] r := by
  rw [splitAux_tok p t ht.2]
  have hne : t ≠ [] := ht.1
  rcases hr with rfl | ⟨d, r', rfl, hd⟩
  · simp [splitAux, hne]
  · rw [splitAux_sep p d hd ([] ++ t), splitAux_sep p d hd []]
    simp [hne]

/-- tokens with their trailing separators: `t₀ s₀ t₁ s₁ … tₙ sₙ` -/
def joinSep : List (Str × Str) → Str
  | [] => []
  | (t, s) :: rest => t ++ s ++ joinSep rest

/-- Tokenising a header line gives back the tokens, whatever non-empty blanks separate them
and whatever blanks trail. -/
theorem splitAux_joinSep (ts : List (Str × Str))
    (h : ∀ q ∈ ts, IsTok p q.1 ∧ AllSep p q.2)
    (hsep : ∀ i, (hi : i + 1 < ts.length) → (ts[i]'(by omega)).2 ≠ []) :
    splitAux p [] (joinSep ts) = ts.map (·.1) := by
  induction ts with
  | nil => simp [joinSep, splitAux]
  | cons q rest ih =>
    obtain ⟨t, s⟩ := q
    have ⟨ht, hs⟩ := h (t, s) (by simp)
    simp only [joinSep, List.map_cons, List.append_assoc]
    have ihr := ih (fun q hq => h q (by simp [hq])) (fun i hi => by
      have := hsep (i + 1) (by simp; omega)
      simpa using this)
    rw [splitAux_tok_then p t _ ht, splitAux_allSep p s hs, ihr]
    cases s with
    | cons d s' => right; exact ⟨d, _, rfl, hs d (by simp)⟩
    | nil =>
      cases rest with
      | nil => left; simp [joinSep]
      | cons q rest' =>
        have := hsep 0 (by simp)
        simp at this

/-! ### joinWith / words round trip -/

theorem joinWith_cons_cons (sep t u : Str) (ts : List Str) :
    joinWith sep (t :: u :: ts) = t ++ sep ++ joinWith sep (u :: ts) := rfl

/-- `joinSp ts` is `joinSep` with single blanks -/
theorem joinSp_eq_joinSep (ts : List Str) :
    joinSp ts = joinSep ((ts.dropLast.map (fun t => (t, [' ']))) ++
      (match ts.getLast? with | some t => [(t, [])] | none => [])) := by
  induction ts with
  | nil => rfl
  | cons t ts ih =>
    cases ts with
    | nil => simp [joinSp, joinWith, joinSep]
    | cons u us =>
      simp only [joinSp] at ih ⊢
      rw [joinWith_cons_cons, ih]
      simp [joinSep, List.dropLast, List.getLast?]

/-- Splitting a single-blank join of tokens gives the tokens back
(`p ' ' = true`; used for both `split_whitespace` and `split_ascii_whitespace`). -/
theorem splitAux_joinSp (hsp : p ' ' = true) (ts : List Str) (h : ∀ t ∈ ts, IsTok p t) :
    splitAux p [] (joinSp ts) = ts := by
  induction ts with
  | nil => simp [joinSp, joinWith, splitAux]
  | cons t ts ih =>
    cases ts with
    | nil =>
      have := splitAux_tok_then p t [] (h t (by simp)) (Or.inl rfl)
      simpa [joinSp, joinWith, splitAux] using this
    | cons u us =>
      simp only [joinSp] at ih ⊢
      rw [joinWith_cons_cons, List.append_assoc,
        splitAux_tok_then p t ([' '] ++ joinWith [' '] (u :: us)) (h t (by simp))
          (Or.inr ⟨' ', joinWith [' '] (u :: us), by simp, hsp⟩)]
      have : splitAux p [] ([' '] ++ joinWith [' '] (u :: us)) = splitAux p [] (joinWith [' '] (u :: us)) :=
        splitAux_allSep p [' '] (by intro c hc; simp at hc; subst hc; exact hsp) _
      rw [this, ih (fun t' ht' => h t' (by simp [ht']))]

/-- every piece produced by the splitter is a token -/
theorem splitAux_isTok (s cur : Str) (hcur : ∀ c ∈ cur, p c = false) :
    ∀ t ∈ splitAux p cur s, IsTok p t := by
  induction s generalizing cur with
  | nil =>
    intro t ht
    simp only [splitAux] at ht
    split at ht
    · simp at ht
    · simp at ht; subst ht
      exact ⟨by intro h; simp_all, hcur⟩
  | cons c cs ih =>
    intro t ht
    simp only [splitAux] at ht
    by_cases hc : p c = true
    · simp only [hc, if_true] at ht
      split at ht
      · exact ih [] (by simp) t ht
      · simp at ht
        rcases ht with rfl | ht
        · exact ⟨by intro h; simp_all, hcur⟩
        · exact ih [] (by simp) t ht
    · have hc' : p c = false := by simpa using hc
      simp only [hc', Bool.false_eq_true, if_false] at ht
      exact ih (cur ++ [c]) (by
        intro d hd; simp at hd
        rcases hd with hd | rfl
        · exact hcur d hd
        · exact hc') t ht

theorem words_isTok (s : Str) : ∀ t ∈ words s, IsTok isWs t :=
  splitAux_isTok isWs s [] (by simp)

theorem asciiWords_isTok (s : Str) : ∀ t ∈ asciiWords s, IsTok isAsciiWs t :=
  splitAux_isTok isAsciiWs s [] (by simp)

/-- `words (joinSp (words s)) = words s`: re-tokenising a single-blank join is stable -/
theorem words_joinSp_words (s : Str) : words (joinSp (words s)) = words s :=
  splitAux_joinSp isWs (by decide) _ (words_isTok s)

theorem asciiWords_joinSp (ts : List Str) (h : ∀ t ∈ ts, IsTok isAsciiWs t) :
    asciiWords (joinSp ts) = ts :=
  splitAux_joinSp isAsciiWs (by decide) ts h

end Slt
