/-
C05, closure: the guards `RecOk` / `ctxOk` hold of every record list the parser theorem of C03
speaks about — `expected cfg A` for a well-formed abstract script `A` whose lines survive
`str::lines` (`LineOk`), for a configuration whose column types can be written (`CfgOk`).
-/
import SltVerif.Lemmas.UnparseTrim
import SltVerif.Lemmas.UnparseExpected
namespace Slt

variable (cfg : PCfg)

/-! ### numbers and durations read are in range -/

theorem parseBody_range (body : Str) (n : Nat)
    (h : (if body.isEmpty then none
      else match parseDigits 0 body with
        | some n => if n < 2 ^ 64 then some n else none
        | none => none) = some n) : n < 2 ^ 64 := by
  by_cases hb : body.isEmpty = true
  · simp [hb] at h
  · simp only [hb, Bool.false_eq_true, ↓reduceIte] at h
    cases hp : parseDigits 0 body with
    | none => simp [hp] at h
    | some m =>
      simp only [hp] at h
      by_cases hm : m < 2 ^ 64
      · simp only [hm, ↓reduceIte, Option.some.injEq] at h
        subst h; exact hm
      · simp [hm] at h

theorem parseU64_range (s : Str) (n : Nat) (h : parseU64 s = some n) : n < 2 ^ 64 :=
  parseBody_range _ n h

theorem numOf_range (s : Str) : numOf s < 2 ^ 64 := by
  unfold numOf
  cases h : parseU64 s with
  | none => simp
  | some n => simpa using parseU64_range s n h

theorem durationNew_range (s n : Nat) (d : Dur) (h : durationNew s n = .ok d) :
    d.secs < 2 ^ 64 ∧ d.nanos < 1000000000 := by
  unfold durationNew at h
  simp only at h
  split at h
  · rename_i hs
    simp only [DurOut.ok.injEq] at h
    subst h
    exact ⟨hs, Nat.mod_lt _ (by decide)⟩
  · cases h

theorem durLoop_range (s : Str) : ∀ (p : DPhase) (cur : Nat × Nat) (d : Dur),
    durLoop p cur s = .ok d → d.secs < 2 ^ 64 ∧ d.nanos < 1000000000 := by
  induction s with
  | nil =>
    intro p cur d h
    cases p with
    | first => simp [durLoop] at h
    | firstNext => exact durationNew_range _ _ _ (by simpa [durLoop] using h)
    | num n => simp [durLoop] at h
    | unit n u =>
      simp only [durLoop] at h
      split at h
      · cases h
      · exact durationNew_range _ _ _ h
  | cons c cs ih =>
    intro p cur d h
    cases p with
    | first =>
      simp only [durLoop] at h
      split at h
      · exact ih _ _ _ h
      · split at h
        · exact ih _ _ _ h
        · cases h
    | firstNext =>
      simp only [durLoop] at h
      split at h
      · exact ih _ _ _ h
      · split at h
        · exact ih _ _ _ h
        · cases h
    | num n =>
      simp only [durLoop] at h
      split at h
      · split at h
        · exact ih _ _ _ h
        · cases h
      · split at h
        · exact ih _ _ _ h
        · split at h
          · exact ih _ _ _ h
          · cases h
    | unit n u =>
      simp only [durLoop] at h
      split at h
      · split at h
        · cases h
        · exact ih _ _ _ h
      · split at h
        · split at h
          · cases h
          · exact ih _ _ _ h
        · split at h
          · exact ih _ _ _ h
          · cases h

theorem parseDuration_range (s : Str) (d : Dur) (h : parseDuration s = .ok d) :
    d.secs < 2 ^ 64 ∧ d.nanos < 1000000000 :=
  durLoop_range s _ _ d h

theorem retryVal_of_ok (rt : Option RetryTok) (h : RetryOk rt) : RetryVal (retryOf rt) := by
  cases rt with
  | none => trivial
  | some r =>
    obtain ⟨h0, hd⟩ := h
    exact ⟨h0, numOf_range _, parseDuration_range _ _ hd⟩

/-! ### the records of one item -/

theorem errExp_ok (e : ErrForm) (rt : Option RetryTok) (hwf : e.WF cfg rt)
    (htok : ∀ t ∈ e.toks, IsTok isWs t) (htail : e.tail.WF)
    (hlines : ∀ l ∈ e.tail.body, LineOk l) : e.exp.Ok cfg (retryOf rt) := by
  cases e with
  | any => trivial
  | inline ts =>
    obtain ⟨hne, hshape, hre, hrt⟩ := hwf
    subst hrt
    have hw : words (joinSp ts) = ts := splitAux_joinSp isWs (by decide) ts htok
    refine ⟨joinSp_ne_nil ts hne htok, ?_, ?_, hre, rfl⟩
    · rw [hw]
    · rw [hw, ← retryShaped_eq]; exact hshape
  | multi t =>
    apply multiTextOk_of_lines t htail
    intro l hl
    exact hlines l (by simp [ErrForm.tail, Tail.body, hl])

theorem stmtExp_ok (f : StmtForm) (rt : Option RetryTok) (hwf : f.WF cfg rt)
    (htok : ∀ t ∈ f.toks, IsTok isWs t) (htail : f.tail.WF)
    (hlines : ∀ l ∈ f.tail.body, LineOk l) : f.exp.Ok cfg (retryOf rt) := by
  cases f with
  | ok => trivial
  | count d => exact numOf_range d
  | error e =>
    exact errExp_ok cfg e rt hwf (fun t ht => htok t (by simp [StmtForm.toks, ht])) htail hlines

theorem typesOf_ne_nil (ty : Str) (hne : ty ≠ []) (h : ∀ c ∈ ty, (cfg.fromChar c).isSome = true) :
    typesOf cfg ty ≠ [] := by
  cases ty with
  | nil => exact absurd rfl hne
  | cons c cs =>
    obtain ⟨t, ht⟩ := Option.isSome_iff_exists.mp (h c (by simp))
    simp [typesOf, ht]

theorem queryExp_ok (hcfg : CfgOk cfg) (f : QueryForm) (rt : Option RetryTok)
    (hwf : f.WF cfg rt) (htok : ∀ t ∈ f.toks, IsTok isWs t) (htail : f.tail.WF)
    (hlines : ∀ l ∈ f.tail.body, LineOk l) : (f.exp cfg).Ok cfg (retryOf rt) := by
  have hres : ∀ rs : Option (List Str), (resultsTail rs).WF →
      (∀ l ∈ (resultsTail rs).body, LineOk l) → ∀ l ∈ rs.getD [], l ≠ [] ∧ LineOk l := by
    intro rs h1 h2 l hl
    cases rs with
    | none => simp at hl
    | some r =>
      simp only [Option.getD_some] at hl
      exact ⟨h1 l hl, h2 l (by simp [resultsTail, Tail.body, hl])⟩
  cases f with
  | bare rs =>
    have : rt = none := hwf
    subst this
    refine ⟨rfl, ?_, ?_, trivial, hres rs htail hlines⟩
    · intro t ht; cases ht
    · intro _; exact ⟨rfl, rfl, rfl⟩
  | typed ty so lb rs =>
    obtain ⟨_, hty, hlb⟩ := hwf
    have htytok : IsTok isWs ty := htok ty (by simp [QueryForm.toks])
    refine ⟨rfl, ?_, ?_, ?_, hres rs htail hlines⟩
    · intro t ht
      simp only [typesOf, List.mem_filterMap] at ht
      obtain ⟨c, _, hc⟩ := ht
      exact hcfg c t hc
    · intro h0
      exact absurd h0 (typesOf_ne_nil cfg ty htytok.1 hty)
    · cases lb with
      | none => trivial
      | some l => exact ⟨htok l (by simp [QueryForm.toks]), hlb.1, hlb.2⟩
  | error e =>
    exact errExp_ok cfg e rt hwf (fun t ht => htok t (by simp [QueryForm.toks, ht])) htail hlines

theorem blockText_ok (s1 : Str) (more : List Str) (hb : BlockOk more)
    (hl : ∀ l ∈ s1 :: more, LineOk l) : BlockTextOk (joinNl (s1 :: more)) := by
  have hs : splitNl (joinNl (s1 :: more)) = s1 :: more :=
    splitNl_joinNl _ (by simp) (fun l h => (hl l h).1)
  unfold BlockTextOk blockRest
  rw [hs]
  exact ⟨fun l h => (hl l h).2, hb⟩

theorem stdout_ok (so : Option (List Str)) (htail : (stdoutTail so).WF)
    (hlines : ∀ l ∈ (stdoutTail so).body, LineOk l) : StdoutOk (so.map multiTextOf) := by
  cases so with
  | none => trivial
  | some t =>
    apply multiTextOk_of_lines t htail
    intro l hl
    exact hlines l (by simp [stdoutTail, Tail.body, hl])

/-- **The records of a well-formed item are writable.** -/
theorem recs_recOk (hcfg : CfgOk cfg) (i : Item) (hwf : WF cfg i)
    (hlines : ∀ l ∈ renderItem i, LineOk l) (n : Nat) (conds : List Cond) (conn : Conn) :
    ∀ r ∈ i.recs cfg n conds conn, RecOk cfg r := by
  obtain ⟨hhdr, hside⟩ := hwf
  cases i with
  | blank => intro r hr; simp [Item.recs] at hr; subst hr; trivial
  | wsLine ws => intro r hr; simp [Item.recs] at hr
  | comment ts => intro r hr; simp [Item.recs] at hr
  | halt lay => intro r hr; simp [Item.recs] at hr; subst hr; trivial
  | control c lay => intro r hr; simp [Item.recs] at hr; subst hr; trivial
  | subtest nm lay =>
    intro r hr; simp [Item.recs] at hr; subst hr
    exact hhdr.1 nm (by simp [Item.toks])
  | incl f lay =>
    intro r hr; simp [Item.recs] at hr; subst hr
    exact hhdr.1 f (by simp [Item.toks])
  | sleep d lay =>
    intro r hr; simp [Item.recs] at hr; subst hr
    exact parseDuration_range d _ hside
  | hashThreshold d lay =>
    intro r hr; simp [Item.recs] at hr; subst hr
    exact numOf_range d
  | cond skip l lay =>
    intro r hr; simp [Item.recs] at hr; subst hr
    have := hhdr.1 l (by simp [Item.toks])
    cases skip <;> simpa [RecOk, mkCond, Cond.label] using this
  | connection nm lay =>
    intro r hr; simp [Item.recs] at hr; subst hr
    have := hhdr.1 nm (by simp [Item.toks])
    by_cases hd : nm = kw "default"
    · simp [RecOk, mkConn, hd, ConnOk]
    · simp only [RecOk, mkConn, hd, ↓reduceIte, ConnOk]
      exact ⟨this, hd⟩
  | statement f rt lay s1 more =>
    intro r hr; simp [Item.recs] at hr; subst hr
    obtain ⟨hf, hrt, hb, htail⟩ := hside
    have hl : ∀ l ∈ s1 :: more ++ f.tail.body, LineOk l := by
      intro l hl
      exact hlines l (List.mem_append_left _ (List.mem_cons_of_mem _ hl))
    refine ⟨blockText_ok s1 more hb (fun l h => hl l (List.mem_append_left _ h)), ?_,
      retryVal_of_ok rt hrt⟩
    exact stmtExp_ok cfg f rt hf
      (fun t ht => hhdr.1 t (by simp [Item.toks, ht])) htail
      (fun l h => hl l (List.mem_append_right _ h))
  | query f rt lay s1 more =>
    intro r hr; simp [Item.recs] at hr; subst hr
    obtain ⟨hf, hrt, hb, htail⟩ := hside
    have hl : ∀ l ∈ s1 :: more ++ f.tail.body, LineOk l := by
      intro l hl
      exact hlines l (List.mem_append_left _ (List.mem_cons_of_mem _ hl))
    refine ⟨blockText_ok s1 more hb (fun l h => hl l (List.mem_append_left _ h)), ?_,
      retryVal_of_ok rt hrt⟩
    exact queryExp_ok cfg hcfg f rt hf
      (fun t ht => hhdr.1 t (by simp [Item.toks, ht])) htail
      (fun l h => hl l (List.mem_append_right _ h))
  | system rt lay c1 more so =>
    intro r hr; simp [Item.recs] at hr; subst hr
    obtain ⟨hrt, hb, htail⟩ := hside
    have hl : ∀ l ∈ c1 :: more ++ (stdoutTail so).body, LineOk l := by
      intro l hl
      exact hlines l (List.mem_append_left _ (List.mem_cons_of_mem _ hl))
    exact ⟨blockText_ok c1 more hb (fun l h => hl l (List.mem_append_left _ h)),
      stdout_ok so htail (fun l h => hl l (List.mem_append_right _ h)), retryVal_of_ok rt hrt⟩

/-! ### the whole script -/

/-- what the reference run keeps: writable records, comment lines without line feed -/
def RefOk (ref : Ref) : Prop :=
  (∀ r ∈ ref.out, RecOk cfg r) ∧ (∀ l ∈ ref.comments, '\n' ∉ l)

theorem flushed_recOk (ref : Ref) (h : RefOk cfg ref) : ∀ r ∈ ref.flushed, RecOk cfg r := by
  unfold Ref.flushed
  split
  · exact h.1
  · rename_i hc
    intro r hr
    simp only [List.mem_append, List.mem_singleton] at hr
    rcases hr with hr | rfl
    · exact h.1 r hr
    · exact ⟨hc, h.2⟩

theorem refStep_refOk (hcfg : CfgOk cfg) (ref : Ref) (i : Item) (h : RefOk cfg ref)
    (hwf : WF cfg i) (hlines : ∀ l ∈ renderItem i, LineOk l) : RefOk cfg (refStep cfg ref i) := by
  by_cases hi : i.isComment = true
  · cases i <;> simp [Item.isComment] at hi
    rename_i ts
    refine ⟨by simpa [refStep] using h.1, ?_⟩
    intro l hl
    simp only [refStep, List.mem_append] at hl
    rcases hl with hl | hl
    · exact h.2 l hl
    · have := (hlines ('#' :: l) (by simp [renderItem, renderOpen, Item.term, Item.tail?, hl])).1
      intro hm
      exact this (by simp [hm])
  · have hi' : i.isComment = false := by simpa using hi
    have hout : (refStep cfg ref i).out =
        ref.flushed ++ i.recs cfg (ref.num + 1) ref.conds ref.conn ∧
        (refStep cfg ref i).comments = [] := by
      cases i <;> simp [Item.isComment] at hi' <;> simp [refStep]
    refine ⟨?_, by rw [hout.2]; intro l hl; cases hl⟩
    rw [hout.1]
    intro r hr
    simp only [List.mem_append] at hr
    rcases hr with hr | hr
    · exact flushed_recOk cfg ref h r hr
    · exact recs_recOk cfg hcfg i hwf hlines _ _ _ r hr

theorem foldl_refOk (hcfg : CfgOk cfg) (A : List Item) (ref : Ref) (h : RefOk cfg ref)
    (hwf : ∀ i ∈ A, WF cfg i) (hlines : ∀ l ∈ render A, LineOk l) :
    RefOk cfg (A.foldl (refStep cfg) ref) := by
  induction A generalizing ref with
  | nil => exact h
  | cons i A ih =>
    simp only [render, List.flatMap_cons, List.mem_append] at hlines
    exact ih _ (refStep_refOk cfg hcfg ref i h (hwf i (by simp)) (fun l hl => hlines l (Or.inl hl)))
      (fun j hj => hwf j (by simp [hj])) (fun l hl => hlines l (Or.inr hl))

/-- **Every record of a well-formed script is writable** (`RecOk`): the guard of the formatting
theorem is met by everything the parser theorem of C03 covers. -/
theorem expected_recOk (hcfg : CfgOk cfg) (A : List Item) (hwf : ∀ i ∈ A, WF cfg i)
    (hlines : ∀ l ∈ render A, LineOk l) : ∀ r ∈ expected cfg A, RecOk cfg r :=
  flushed_recOk cfg _ (foldl_refOk cfg hcfg A {} ⟨(by intro r hr; cases hr), (by intro l hl; cases hl)⟩
    hwf hlines)

/-! ### conditions and connection are the ones announced -/

def ctxAfter (c : Ctx) (R : List Rec) : Ctx := R.foldl Ctx.next c

theorem ctxOk_append' (c : Ctx) (xs ys : List Rec) :
    ctxOk c (xs ++ ys) = (ctxOk c xs && ctxOk (ctxAfter c xs) ys) := by
  induction xs generalizing c with
  | nil => simp [ctxOk, ctxAfter]
  | cons x xs ih => simp [ctxOk, ctxAfter, ih, Bool.and_assoc]

theorem ctxAfter_append (c : Ctx) (xs ys : List Rec) :
    ctxAfter c (xs ++ ys) = ctxAfter (ctxAfter c xs) ys := by
  simp [ctxAfter, List.foldl_append]

theorem recs_ctx (i : Item) (n : Nat) (c : Ctx) :
    ctxOk c (i.recs cfg n c.conds c.conn) = true ∧
    ctxAfter c (i.recs cfg n c.conds c.conn) = ⟨i.condsAfter c.conds, i.connAfter c.conn⟩ := by
  cases i <;>
    simp [Item.recs, ctxOk, ctxAfter, Ctx.fits, Ctx.next, Item.condsAfter, Item.connAfter,
      Item.isRecord, Item.usesConn, Item.cond?, Item.conn?]

/-- the records so far are consistent, and what is pending after them is what the reference state
holds -/
def RefCtx (ref : Ref) : Prop :=
  ctxOk {} ref.out = true ∧ ctxAfter {} ref.out = ⟨ref.conds, ref.conn⟩

theorem flushed_ctx (ref : Ref) (h : RefCtx ref) :
    ctxOk {} ref.flushed = true ∧ ctxAfter {} ref.flushed = ⟨ref.conds, ref.conn⟩ := by
  unfold Ref.flushed
  split
  · exact h
  · rw [ctxOk_append', ctxAfter_append, h.1, h.2]
    simp [ctxOk, ctxAfter, Ctx.fits, Ctx.next]

theorem refStep_ctx (ref : Ref) (i : Item) (h : RefCtx ref) : RefCtx (refStep cfg ref i) := by
  by_cases hi : i.isComment = true
  · cases i <;> simp [Item.isComment] at hi
    simpa [refStep, RefCtx] using h
  · have hi' : i.isComment = false := by simpa using hi
    have hout : (refStep cfg ref i).out =
        ref.flushed ++ i.recs cfg (ref.num + 1) ref.conds ref.conn := by
      cases i <;> simp [Item.isComment] at hi' <;> simp [refStep]
    obtain ⟨h1, h2⟩ := flushed_ctx ref h
    have h3 := recs_ctx cfg i (ref.num + 1) ⟨ref.conds, ref.conn⟩
    unfold RefCtx
    rw [hout, ctxOk_append', ctxAfter_append, h1, h2, h3.1, h3.2, refStep_conds, refStep_conn]
    exact ⟨rfl, rfl⟩

/-- **Conditions and connection of every record of a script are the ones announced in front of
it** (`ctxOk`) — of any script, well-formed or not. -/
theorem expected_ctxOk (A : List Item) : ctxOk {} (expected cfg A) = true := by
  have key : ∀ (A : List Item) (ref : Ref), RefCtx ref → RefCtx (A.foldl (refStep cfg) ref) := by
    intro A
    induction A with
    | nil => intro ref h; exact h
    | cons i A ih => intro ref h; exact ih _ (refStep_ctx cfg ref i h)
  exact (flushed_ctx _ (key A {} ⟨rfl, rfl⟩)).1

end Slt
