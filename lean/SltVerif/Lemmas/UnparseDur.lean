/-
The facts about numbers and durations written as text that the C05 lemma files use, under one
roof (proved in `SltVerif/Lemmas/Duration.lean`).
-/
import SltVerif.Lemmas.Duration
import SltVerif.Lemmas.Text
namespace Slt

/-- every `Duration` written by sqllogictest-rs is read back unchanged -/
theorem fmtDur_parse (d : Dur) (hs : d.secs < 2 ^ 64) (hn : d.nanos < 1000000000) :
    parseDuration (formatDurationCompact d) = .ok d :=
  parse_formatDurationCompact d hs hn

/-- … and is one word -/
theorem fmtDur_isTok (d : Dur) : IsTok isWs (formatDurationCompact d) :=
  ⟨(formatDurationCompact_token d).1, (formatDurationCompact_token d).2⟩

theorem natStr_parse (n : Nat) (h : n < 2 ^ 64) : parseU64 (natToStr n) = some n :=
  parseU64_natToStr n h

theorem natStr_isTok (n : Nat) : IsTok isWs (natToStr n) :=
  ⟨natToStr_ne_nil n, natToStr_noWs n⟩

end Slt
