/-
C05, step 4: the lines written survive `str::lines` (`LineOk`), the last line written for a record
is not empty (unless the record has an empty SQL text and nothing after it, D19), record lists
split into a body and trailing `newline` records, and `unparse` / `SameMeaning` see a record only
through `Rec.norm`.
-/
import SltVerif.Lemmas.UnparseExpected
import SltVerif.Lemmas.UnparseRender
namespace Slt

variable (cfg : PCfg)

/-! ### every line written is a line -/

theorem lineOk_nil : LineOk [] := by decide

theorem lineOk_delim : LineOk (kw "----") := by decide

theorem splitNl_lineOk (s : Str) (h : NoCr (splitNl s)) : ∀ l ∈ splitNl s, LineOk l :=
  fun l hl => ⟨splitNl_noNl_mem s l hl, h l hl⟩

theorem textLines_subset (t : Str) : ∀ l ∈ textLines t, l ∈ splitNl t := by
  unfold textLines
  split
  · intro l hl; cases hl
  · intro l hl; exact hl

theorem textLines_lineOk (t : Str) (h : MultiTextOk t) : ∀ l ∈ textLines t, LineOk l :=
  fun l hl => ⟨splitNl_noNl_mem t l (textLines_subset t l hl), h.2.1 l hl⟩

theorem term_lineOk (t : Tail) : ∀ l ∈ t.term, LineOk l := by
  cases t <;> (intro l hl; simp [Tail.term] at hl; subst hl; exact lineOk_nil)

theorem multi_body_lineOk (t : Str) (h : MultiTextOk t) :
    ∀ l ∈ (Tail.multi (textLines t)).body, LineOk l := by
  intro l hl
  simp only [Tail.body, List.mem_cons] at hl
  rcases hl with rfl | hl
  · exact lineOk_delim
  · exact textLines_lineOk t h l hl

theorem err_body_lineOk (e : ExpErr) (rt : Option Retry) (h : e.Ok cfg rt) :
    ∀ l ∈ (canonErr e).tail.body, LineOk l := by
  cases e with
  | empty => intro l hl; cases hl
  | inline re => intro l hl; cases hl
  | multi t => exact multi_body_lineOk t h

theorem stmt_body_lineOk (e : SExp) (rt : Option Retry) (h : e.Ok cfg rt) :
    ∀ l ∈ (canonStmt e).tail.body, LineOk l := by
  cases e with
  | ok => intro l hl; cases hl
  | count n => intro l hl; cases hl
  | error e => exact err_body_lineOk cfg e rt h

theorem canonQuery_tail_results (types : List ColT) (sort : Option SortMode)
    (rmode : Option ResultMode) (label : Option Str) (res : List Str) :
    (canonQuery (.results types sort rmode label res)).tail = .results res := by
  by_cases ht : types = [] <;> simp [canonQuery, ht, QueryForm.tail, resultsTail]

theorem query_body_lineOk (e : QExp) (rt : Option Retry) (h : e.Ok cfg rt) :
    ∀ l ∈ (canonQuery e).tail.body, LineOk l := by
  cases e with
  | error e => exact err_body_lineOk cfg e rt h
  | results types sort rmode label res =>
    rw [canonQuery_tail_results]
    intro l hl
    simp only [Tail.body, List.mem_cons] at hl
    rcases hl with rfl | hl
    · exact lineOk_delim
    · exact (h.2.2.2.2 l hl).2

theorem stdout_body_lineOk (o : Option Str) (h : StdoutOk o) :
    ∀ l ∈ (stdoutTail (o.map textLines)).body, LineOk l := by
  cases o with
  | none => intro l hl; cases hl
  | some t => exact multi_body_lineOk t h

/-- the lines of a record with a block: header, SQL / command text, tail -/
theorem block_lineOk (hdr sql : Str) (tail : Tail) (hh : LineOk hdr) (hs : NoCr (splitNl sql))
    (hb : ∀ l ∈ tail.body, LineOk l) :
    ∀ l ∈ (hdr :: blockHead sql :: blockRest sql ++ tail.body) ++ tail.term, LineOk l := by
  intro l hl
  rw [List.cons_append, ← splitNl_eq_cons] at hl
  simp only [List.cons_append, List.mem_cons, List.mem_append] at hl
  rcases hl with rfl | (hl | hl) | hl
  · exact hh
  · exact splitNl_lineOk sql hs l hl
  · exact hb l hl
  · exact term_lineOk tail l hl

theorem query_header_lineOk (e : QExp) (rt : Option Retry) (h : e.Ok cfg rt) :
    LineOk (hdrLine (kw "query" :: (canonQuery e).toks ++ retryToks (canonRetry rt))
      (queryLay (canonQuery e) (kw "query" :: (canonQuery e).toks ++ retryToks (canonRetry rt)))) := by
  have htok : ∀ t ∈ kw "query" :: (canonQuery e).toks ++ retryToks (canonRetry rt),
      IsTok isWs t := by
    intro t ht
    simp only [List.cons_append, List.mem_cons, List.mem_append] at ht
    rcases ht with rfl | ht | ht
    · exact kw_isTok_query
    · exact canonQuery_isTok cfg e rt h t ht
    · exact retryToks_isTok rt t ht
  cases hf : canonQuery e with
  | bare rs =>
    have hrt : rt = none := by
      cases e with
      | error e => simp [canonQuery] at hf
      | results types sort rmode label res =>
        by_cases hty : types = []
        · exact (h.2.2.1 hty).2.2
        · simp [canonQuery, hty] at hf
    subst hrt
    simp only [queryLay, QueryForm.toks, canonRetry, retryToks]
    decide
  | typed ty so lb rs =>
    rw [hf] at htok
    simp only [queryLay, hdrLine_canonLay]
    exact lineOk_joinSp _ htok
  | error e' =>
    rw [hf] at htok
    simp only [queryLay, hdrLine_canonLay]
    exact lineOk_joinSp _ htok

/-- **Every line written for a writable record survives `str::lines`**: it has no line feed and
does not end in a carriage return. -/
theorem canonItem_lineOk (r : Rec) (h : RecOk cfg r) :
    ∀ l ∈ renderItem (canonItem r), LineOk l := by
  have hwf := (canonItem_wf cfg r h).1
  cases r with
  | statement ln c cn sql e rt =>
    obtain ⟨hsql, he, _⟩ := h
    simp only [canonItem, renderItem, renderOpen, Item.term, Item.tail?, Item.toks,
      hdrLine_canonLay]
    exact block_lineOk _ sql _ (lineOk_joinSp _ hwf.1) hsql.1 (stmt_body_lineOk cfg e rt he)
  | query ln c cn sql e rt =>
    obtain ⟨hsql, he, _⟩ := h
    simp only [canonItem, renderItem, renderOpen, Item.term, Item.tail?, Item.toks]
    exact block_lineOk _ sql _ (query_header_lineOk cfg e rt he) hsql.1
      (query_body_lineOk cfg e rt he)
  | system ln c cmd o rt =>
    obtain ⟨hcmd, ho, _⟩ := h
    simp only [canonItem, renderItem, renderOpen, Item.term, Item.tail?, Item.toks,
      hdrLine_canonLay]
    exact block_lineOk _ cmd _ (lineOk_joinSp _ hwf.1) hcmd.1 (stdout_body_lineOk o ho)
  | comment ls =>
    intro l hl
    simp only [canonItem, renderItem, renderOpen, Item.term, Item.tail?, List.append_nil,
      List.map_map, List.mem_map, Function.comp] at hl
    obtain ⟨x, hx, rfl⟩ := hl
    exact lineOk_comment x (h.2 x hx)
  | newline =>
    intro l hl
    simp [canonItem, renderItem, renderOpen, Item.term, Item.tail?] at hl
    subst hl; exact lineOk_nil
  | beginInclude f => exact absurd h (by simp [RecOk])
  | endInclude f => exact absurd h (by simp [RecOk])
  | condition c =>
    cases c <;>
    · intro l hl
      simp only [canonItem, renderItem, renderOpen, Item.term, Item.tail?, List.append_nil,
        List.mem_singleton, Item.toks, Bool.false_eq_true, ↓reduceIte, hdrLine_canonLay] at hl
      subst hl
      exact lineOk_joinSp _ hwf.1
  | connection c =>
    cases c <;>
    · intro l hl
      simp only [canonItem, renderItem, renderOpen, Item.term, Item.tail?, List.append_nil,
        List.mem_singleton, Item.toks, hdrLine_canonLay] at hl
      subst hl
      exact lineOk_joinSp _ hwf.1
  | _ =>
    intro l hl
    simp only [canonItem, renderItem, renderOpen, Item.term, Item.tail?, List.append_nil,
      List.mem_singleton, Item.toks, hdrLine_canonLay] at hl
    subst hl
    exact lineOk_joinSp _ hwf.1

theorem render_lineOk (R : List Rec) (h : ∀ r ∈ R, RecOk cfg r) :
    ∀ l ∈ render (canonItems R), LineOk l := by
  intro l hl
  simp only [render, canonItems, List.mem_flatMap, List.mem_map] at hl
  obtain ⟨i, ⟨r, hr, rfl⟩, hl⟩ := hl
  exact canonItem_lineOk cfg r (h r hr) l hl

/-! ### the last line written for a record is not empty -/

/-- the last line, if there is one, is not empty -/
def LastNonempty (ls : List Str) : Prop := ∀ l, ls.getLast? = some l → l ≠ []

theorem lastNonempty_append (xs ys : List Str) (hy : ys ≠ []) (h : LastNonempty ys) :
    LastNonempty (xs ++ ys) := by
  intro l hl
  rw [List.getLast?_append] at hl
  cases hy' : ys.getLast? with
  | none => exact absurd (List.getLast?_eq_none_iff.mp hy') hy
  | some y =>
    rw [hy'] at hl
    simp only [Option.some_or, Option.some.injEq] at hl
    subst hl
    exact h y hy'

theorem lastNonempty_cons (x : Str) (ys : List Str) (hy : ys ≠ []) (h : LastNonempty ys) :
    LastNonempty (x :: ys) :=
  lastNonempty_append [x] ys hy h

theorem lastNonempty_of_all (ls : List Str) (h : ∀ l ∈ ls, l ≠ []) : LastNonempty ls :=
  fun l hl => h l (List.mem_of_getLast? hl)

theorem multiOk_last (pend : Bool) (t : List Str) (h : multiOk pend t = true) :
    LastNonempty t := by
  induction t generalizing pend with
  | nil => intro l hl; simp at hl
  | cons a t ih =>
    cases t with
    | nil =>
      intro l hl
      simp only [List.getLast?_singleton, Option.some.injEq] at hl
      subst hl
      intro ha
      subst ha
      simp [multiOk] at h
    | cons b t' =>
      simp only [multiOk] at h
      split at h
      · simp only [Bool.and_eq_true] at h
        exact lastNonempty_cons a _ (by simp) (ih true h.2)
      · exact lastNonempty_cons a _ (by simp) (ih false h)

theorem tail_body_last (t : Tail) (h : t.WF) : LastNonempty t.body := by
  cases t with
  | plain => intro l hl; simp [Tail.body] at hl
  | results rs =>
    apply lastNonempty_of_all
    intro l hl
    simp only [Tail.body, List.mem_cons] at hl
    rcases hl with rfl | hl
    · decide
    · exact h l hl
  | multi tx =>
    cases tx with
    | nil => intro l hl; simp [Tail.body] at hl; subst hl; decide
    | cons a b => exact lastNonempty_cons _ _ (by simp) (multiOk_last false _ h)

theorem splitNl_last (sql : Str) (hne : sql ≠ []) (hb : BlockOk (blockRest sql)) :
    LastNonempty (splitNl sql) := by
  rw [splitNl_eq_cons]
  cases hr : blockRest sql with
  | nil =>
    intro l hl
    simp only [List.getLast?_singleton, Option.some.injEq] at hl
    subst hl
    have := joinNl_block sql
    rw [hr] at this
    intro h0
    apply hne
    rw [← this, h0]; rfl
  | cons a b =>
    apply lastNonempty_cons _ _ (by simp)
    apply lastNonempty_of_all
    intro l hl
    rw [hr] at hb
    exact (hb l hl).1

/-- header, block and tail of a record: the last line is not empty if something follows the block
or the block text is not empty -/
theorem block_last (hdr sql : Str) (tail : Tail) (hb : BlockOk (blockRest sql)) (ht : tail.WF)
    (h : tail.body ≠ [] ∨ sql ≠ []) :
    LastNonempty (hdr :: blockHead sql :: blockRest sql ++ tail.body) := by
  rw [List.cons_append, ← splitNl_eq_cons]
  by_cases hbody : tail.body = []
  · rw [hbody, List.append_nil]
    have hne : sql ≠ [] := by
      rcases h with h | h
      · exact absurd hbody h
      · exact h
    exact lastNonempty_cons _ _ (splitNl_ne_nil sql) (splitNl_last sql hne hb)
  · rw [← List.cons_append]
    exact lastNonempty_append _ _ hbody (tail_body_last tail ht)

theorem stmt_plain_body (e : SExp) (h : e.plain = false) : (canonStmt e).tail.body ≠ [] := by
  cases e with
  | error e =>
    cases e with
    | multi t => simp [canonStmt, canonErr, StmtForm.tail, ErrForm.tail, Tail.body]
    | _ => simp [SExp.plain] at h
  | _ => simp [SExp.plain] at h

theorem query_plain_body (e : QExp) (h : e.plain = false) : (canonQuery e).tail.body ≠ [] := by
  cases e with
  | error e =>
    cases e with
    | multi t => simp [canonQuery, canonErr, QueryForm.tail, ErrForm.tail, Tail.body]
    | _ => simp [QExp.plain] at h
  | results types sort rmode label res => rw [canonQuery_tail_results]; simp [Tail.body]

theorem isEmpty_false_ne {α} (l : List α) (h : l.isEmpty = false) : l ≠ [] := by
  intro h0; subst h0; simp at h

/-- **The last line written for a record** (its terminating blank lines apart) **is not empty** —
unless the record is a `newline`, or has an empty SQL text that ends it. -/
theorem canonItem_last (r : Rec) (h : RecOk cfg r) (hnl : r ≠ .newline)
    (hend : r.emptyAtEnd = false) :
    renderOpen (canonItem r) ≠ [] ∧ LastNonempty (renderOpen (canonItem r)) := by
  have hwf := canonItem_wf cfg r h
  cases r with
  | statement ln c cn sql e rt =>
    obtain ⟨hsql, he, _⟩ := h
    refine ⟨by simp [canonItem, renderOpen], ?_⟩
    simp only [canonItem, renderOpen]
    apply block_last _ sql _ hsql.2 hwf.2.2.2.2
    simp only [Rec.emptyAtEnd, Bool.and_eq_false_iff] at hend
    rcases hend with hend | hend
    · exact Or.inr (isEmpty_false_ne _ hend)
    · exact Or.inl (stmt_plain_body e hend)
  | query ln c cn sql e rt =>
    obtain ⟨hsql, he, _⟩ := h
    refine ⟨by simp [canonItem, renderOpen], ?_⟩
    simp only [canonItem, renderOpen]
    apply block_last _ sql _ hsql.2 hwf.2.2.2.2
    simp only [Rec.emptyAtEnd, Bool.and_eq_false_iff] at hend
    rcases hend with hend | hend
    · exact Or.inr (isEmpty_false_ne _ hend)
    · exact Or.inl (query_plain_body e hend)
  | system ln c cmd o rt =>
    obtain ⟨hcmd, ho, _⟩ := h
    refine ⟨by simp [canonItem, renderOpen], ?_⟩
    simp only [canonItem, renderOpen]
    apply block_last _ cmd _ hcmd.2 hwf.2.2.2
    simp only [Rec.emptyAtEnd, Bool.and_eq_false_iff] at hend
    rcases hend with hend | hend
    · exact Or.inr (isEmpty_false_ne _ hend)
    · cases o with
      | none => simp at hend
      | some t => exact Or.inl (by simp [stdoutTail, Tail.body])
  | comment ls =>
    obtain ⟨hne, _⟩ := h
    refine ⟨by simpa [canonItem, renderOpen] using hne, ?_⟩
    apply lastNonempty_of_all
    intro l hl
    simp only [canonItem, renderOpen, List.map_map, List.mem_map, Function.comp] at hl
    obtain ⟨x, _, rfl⟩ := hl
    simp
  | newline => exact absurd rfl hnl
  | beginInclude f => exact absurd h (by simp [RecOk])
  | endInclude f => exact absurd h (by simp [RecOk])
  | condition c =>
    cases c <;>
    · refine ⟨by simp [canonItem, renderOpen], ?_⟩
      intro l hl
      simp only [canonItem, renderOpen, Item.toks, Bool.false_eq_true, ↓reduceIte,
        hdrLine_canonLay, List.getLast?_singleton, Option.some.injEq] at hl
      subst hl
      apply joinSp_ne_nil'
      decide
  | connection c =>
    cases c <;>
    · refine ⟨by simp [canonItem, renderOpen], ?_⟩
      intro l hl
      simp only [canonItem, renderOpen, Item.toks, hdrLine_canonLay, List.getLast?_singleton,
        Option.some.injEq] at hl
      subst hl
      apply joinSp_ne_nil'
      decide
  | _ =>
    refine ⟨by simp [canonItem, renderOpen], ?_⟩
    intro l hl
    simp only [canonItem, renderOpen, Item.toks, hdrLine_canonLay, List.getLast?_singleton,
      Option.some.injEq] at hl
    subst hl
    apply joinSp_ne_nil'
    decide

/-- the terminator of an item is blank lines only -/
theorem term_blank (i : Item) : ∃ j, i.term = List.replicate j [] := by
  unfold Item.term
  cases i.tail? with
  | none => exact ⟨0, rfl⟩
  | some t =>
    cases t with
    | plain => exact ⟨1, rfl⟩
    | results rs => exact ⟨1, rfl⟩
    | multi tx => exact ⟨2, rfl⟩

/-! ### trailing `newline` records -/

theorem dropWhile_idem' {α} (p : α → Bool) (l : List α) :
    (l.dropWhile p).dropWhile p = l.dropWhile p := by
  induction l with
  | nil => rfl
  | cons c cs ih =>
    by_cases hc : p c = true
    · simp [hc, ih]
    · simp [hc]

theorem head_dropWhile {α} (p : α → Bool) (l : List α) (x : α)
    (h : (l.dropWhile p).head? = some x) : p x = false := by
  induction l with
  | nil => simp at h
  | cons a l ih =>
    simp only [List.dropWhile_cons] at h
    split at h
    · exact ih h
    · simp only [List.head?_cons, Option.some.injEq] at h; subst h; simp_all

theorem takeWhile_eq_replicate (l : List Rec) :
    ∃ k, l.takeWhile (· = .newline) = List.replicate k .newline := by
  refine ⟨(l.takeWhile (· = .newline)).length, ?_⟩
  rw [List.eq_replicate_iff]
  refine ⟨rfl, ?_⟩
  intro b hb
  have hall := List.all_takeWhile (p := (· = Rec.newline)) (l := l)
  rw [List.all_eq_true] at hall
  simpa using hall b hb

/-- a record list is its body followed by `newline` records; the body does not end in one -/
theorem stripNewlines_spec (R : List Rec) :
    (∃ k, R = stripNewlines R ++ List.replicate k .newline) ∧
    (∀ r, (stripNewlines R).getLast? = some r → r ≠ .newline) := by
  constructor
  · obtain ⟨k, hk⟩ := takeWhile_eq_replicate R.reverse
    refine ⟨k, ?_⟩
    have := List.takeWhile_append_dropWhile (p := (· = Rec.newline)) (l := R.reverse)
    have h2 : R = (R.reverse.dropWhile (· = .newline)).reverse ++
        (R.reverse.takeWhile (· = .newline)).reverse := by
      rw [← List.reverse_append, this, List.reverse_reverse]
    rw [hk, List.reverse_replicate] at h2
    exact h2
  · intro r hr
    unfold stripNewlines at hr
    rw [List.getLast?_reverse] at hr
    have := head_dropWhile _ _ _ hr
    simpa using this

theorem stripNewlines_idem (R : List Rec) : stripNewlines (stripNewlines R) = stripNewlines R := by
  unfold stripNewlines
  rw [List.reverse_reverse, dropWhile_idem']

theorem stripNewlines_append_newlines (R : List Rec) (k : Nat) :
    stripNewlines (R ++ List.replicate k .newline) = stripNewlines R := by
  unfold stripNewlines
  rw [List.reverse_append, List.reverse_replicate]
  congr 1
  induction k with
  | zero => rfl
  | succ k ih => simp [List.replicate_succ, ih]

/-! ### records are written and compared through their pieces (`Rec.atoms`) -/

theorem unparse_unline (r : Rec) : unparse r.unline = unparse r := by
  cases r <;> rfl

theorem writeRecords_append (xs ys : List Rec) :
    writeRecords (xs ++ ys) =
      match writeRecords xs, writeRecords ys with
      | some a, some b => some (a ++ b)
      | _, _ => none := by
  induction xs with
  | nil =>
    rw [List.nil_append]
    cases h : writeRecords ys <;> simp [writeRecords]
  | cons x xs ih =>
    simp only [List.cons_append, writeRecords, ih]
    cases unparse x <;> cases writeRecords xs <;> cases writeRecords ys <;> simp

/-- the lines of a comment record, written one record per line -/
theorem writeRecords_comment_lines (ls : List Str) :
    writeRecords (ls.map (fun l => Rec.comment [trimEnd l])) =
      some (linesToText (ls.map (fun l => '#' :: trimEnd l))) := by
  induction ls with
  | nil => rfl
  | cons l ls ih =>
    simp only [List.map_cons, writeRecords, ih, unparse, joinNl, linesToText_cons,
      trimEnd_idem, List.map_nil, joinWith]

/-- a record and its pieces are written the same -/
theorem writeRecords_atoms_one (r : Rec) (h : r ≠ .comment []) :
    writeRecords r.atoms = writeRecords [r] := by
  cases r with
  | comment ls =>
    have hne : ls.map (fun l => '#' :: trimEnd l) ≠ [] := by
      intro h0; apply h; simpa using h0
    simp only [Rec.atoms, writeRecords_comment_lines, writeRecords, unparse,
      linesToText_eq_joinNl _ hne]
  | _ => simp only [Rec.atoms, writeRecords, unparse_unline]

theorem writeRecords_atoms (R : List Rec) (h : ∀ r ∈ R, r ≠ .comment []) :
    writeRecords (R.flatMap Rec.atoms) = writeRecords R := by
  induction R with
  | nil => rfl
  | cons r rs ih =>
    have h1 := writeRecords_atoms_one r (h r (by simp))
    have h2 := ih (fun x hx => h x (by simp [hx]))
    have h3 := writeRecords_append [r] rs
    rw [List.flatMap_cons, writeRecords_append, h1, h2]
    simpa using h3.symm

theorem writeRecords_congr (R' R : List Rec) (h : R'.flatMap Rec.atoms = R.flatMap Rec.atoms)
    (h' : ∀ r ∈ R', r ≠ .comment []) (h'' : ∀ r ∈ R, r ≠ .comment []) :
    writeRecords R' = writeRecords R := by
  rw [← writeRecords_atoms R' h', h, writeRecords_atoms R h'']

theorem recOk_no_empty_comment (r : Rec) (h : RecOk cfg r) : r ≠ .comment [] := by
  intro h0; subst h0; exact h.1 rfl

theorem sameMeaning_of_atoms (R' R : List Rec) (h : R'.flatMap Rec.atoms = R.flatMap Rec.atoms) :
    SameMeaning R' R := by
  unfold SameMeaning meaning
  rw [h]

theorem atoms_newlines (k : Nat) :
    (List.replicate k Rec.newline).flatMap Rec.atoms = List.replicate k Rec.newline := by
  induction k with
  | zero => rfl
  | succ k ih => rw [List.replicate_succ, List.flatMap_cons, ih]; rfl

theorem meaning_strip (R : List Rec) : meaning (stripNewlines R) = meaning R := by
  obtain ⟨⟨k, hk⟩, _⟩ := stripNewlines_spec R
  unfold meaning
  conv => rhs; rw [hk]
  rw [List.flatMap_append, atoms_newlines, stripNewlines_append_newlines]

theorem sameMeaning_strip (R' R : List Rec) (h : SameMeaning R' (stripNewlines R)) :
    SameMeaning R' R := by
  unfold SameMeaning at h ⊢
  rw [h, meaning_strip]

theorem sameMeaning_refl (R : List Rec) : SameMeaning R R := rfl

theorem sameMeaning_symm {R' R : List Rec} (h : SameMeaning R' R) : SameMeaning R R' := h.symm

theorem sameMeaning_trans {A B C : List Rec} (h1 : SameMeaning A B) (h2 : SameMeaning B C) :
    SameMeaning A C := h1.trans h2

/-! ### the guards on lists are inherited by the body -/

theorem ctxOk_append (c : Ctx) (xs ys : List Rec) (h : ctxOk c (xs ++ ys) = true) :
    ctxOk c xs = true := by
  induction xs generalizing c with
  | nil => rfl
  | cons x xs ih =>
    simp only [List.cons_append, ctxOk, Bool.and_eq_true] at h ⊢
    exact ⟨h.1, ih _ h.2⟩

end Slt
