/-
C05, step 3: the records the canonical script of `R` stands for (`expected`, the reference
semantics of `Render.lean`) are the records `R` — line numbers and blanks at the end of comment
lines apart.
-/
import SltVerif.Lemmas.UnparseWF
namespace Slt

variable (cfg : PCfg)

/-! ### one record -/

theorem joinNl_block (sql : Str) : joinNl (blockHead sql :: blockRest sql) = sql := by
  rw [← splitNl_eq_cons, joinNl_splitNl]

theorem canonErr_exp (e : ExpErr) (rt : Option Retry) (h : e.Ok cfg rt) : (canonErr e).exp = e := by
  cases e with
  | empty => rfl
  | inline re => simp [canonErr, ErrForm.exp, h.2.1]
  | multi t => simp [canonErr, ErrForm.exp, multiTextOf_textLines t h.1]

theorem canonStmt_exp (e : SExp) (rt : Option Retry) (h : e.Ok cfg rt) : (canonStmt e).exp = e := by
  cases e with
  | ok => rfl
  | count n => simp [canonStmt, StmtForm.exp, numOf_natToStr n h]
  | error e => simp [canonStmt, StmtForm.exp, canonErr_exp cfg e rt h]

theorem canonQuery_exp (e : QExp) (rt : Option Retry) (h : e.Ok cfg rt) :
    (canonQuery e).exp cfg = e := by
  cases e with
  | error e => simp [canonQuery, QueryForm.exp, canonErr_exp cfg e rt h]
  | results types sort rmode label res =>
    obtain ⟨hrm, hty, hemp, _, _⟩ := h
    subst hrm
    by_cases ht : types = []
    · obtain ⟨hs, hl, _⟩ := hemp ht
      subst ht hs hl
      simp [canonQuery, QueryForm.exp]
    · simp [canonQuery, ht, QueryForm.exp, typesOf_canon cfg types hty]

theorem stdout_exp (o : Option Str) (h : StdoutOk o) :
    (o.map textLines).map multiTextOf = o := by
  cases o with
  | none => rfl
  | some t => simp [multiTextOf_textLines t h.1]

def Rec.isComment : Rec → Bool
  | .comment _ => true
  | _ => false

theorem canonItem_isComment (r : Rec) : (canonItem r).isComment = r.isComment := by
  cases r with
  | condition c => cases c <;> rfl
  | connection c => cases c <;> rfl
  | _ => rfl

/-- **The records of one item**: the record itself, at the line it is written at, given that it
carries the pending conditions / connection. -/
theorem canonItem_recs (r : Rec) (h : RecOk cfg r) (hc : r.isComment = false) (c : Ctx)
    (hfit : c.fits r = true) (n : Nat) :
    ((canonItem r).recs cfg n c.conds c.conn).flatMap Rec.atoms = r.atoms := by
  cases r with
  | statement l cs cn sql e rt =>
    obtain ⟨_, he, hrt⟩ := h
    simp only [Ctx.fits, Bool.and_eq_true, decide_eq_true_eq] at hfit
    obtain ⟨rfl, rfl⟩ := hfit
    simp [canonItem, Item.recs, Rec.atoms, Rec.unline, joinNl_block, canonStmt_exp cfg e rt he,
      retryOf_canon rt hrt]
  | query l cs cn sql e rt =>
    obtain ⟨_, he, hrt⟩ := h
    simp only [Ctx.fits, Bool.and_eq_true, decide_eq_true_eq] at hfit
    obtain ⟨rfl, rfl⟩ := hfit
    simp [canonItem, Item.recs, Rec.atoms, Rec.unline, joinNl_block, canonQuery_exp cfg e rt he,
      retryOf_canon rt hrt]
  | system l cs cmd o rt =>
    obtain ⟨_, ho, hrt⟩ := h
    simp only [Ctx.fits, decide_eq_true_eq] at hfit
    subst hfit
    simp [canonItem, Item.recs, Rec.atoms, Rec.unline, joinNl_block, stdout_exp o ho,
      retryOf_canon rt hrt]
  | sleep l d => simp [canonItem, Item.recs, Rec.atoms, Rec.unline, durOf_fmt d h.1 h.2]
  | hashThreshold l k => simp [canonItem, Item.recs, Rec.atoms, Rec.unline, numOf_natToStr k h]
  | condition cd => cases cd <;> simp [canonItem, Item.recs, Rec.atoms, Rec.unline, mkCond]
  | connection cn =>
    cases cn with
    | dflt => simp [canonItem, Item.recs, Rec.atoms, Rec.unline, mkConn]
    | named nm => simp [canonItem, Item.recs, Rec.atoms, Rec.unline, mkConn, h.2]
  | comment ls => simp [Rec.isComment] at hc
  | beginInclude f => exact absurd h (by simp [RecOk])
  | endInclude f => exact absurd h (by simp [RecOk])
  | _ => simp [canonItem, Item.recs, Rec.atoms, Rec.unline]

/-- what is pending after the item is what is pending after the record -/
theorem canonItem_after (r : Rec) (h : RecOk cfg r) (c : Ctx) :
    (canonItem r).condsAfter c.conds = (c.next r).conds ∧
    (canonItem r).connAfter c.conn = (c.next r).conn := by
  cases r with
  | condition cd =>
    cases cd <;> simp [canonItem, Item.condsAfter, Item.connAfter, Item.isRecord, Item.usesConn,
      Item.cond?, Item.conn?, Ctx.next, mkCond]
  | connection cn =>
    cases cn with
    | dflt =>
      simp [canonItem, Item.condsAfter, Item.connAfter, Item.isRecord, Item.usesConn,
        Item.cond?, Item.conn?, Ctx.next, mkConn]
    | named nm =>
      simp [canonItem, Item.condsAfter, Item.connAfter, Item.isRecord, Item.usesConn,
        Item.cond?, Item.conn?, Ctx.next, mkConn, h.2]
  | _ =>
    simp [canonItem, Item.condsAfter, Item.connAfter, Item.isRecord, Item.usesConn,
      Item.cond?, Item.conn?, Ctx.next]

/-! ### the reference run -/

theorem refStep_noncomment (ref : Ref) (i : Item) (hi : i.isComment = false) :
    (refStep cfg ref i).flushed = ref.flushed ++ i.recs cfg (ref.num + 1) ref.conds ref.conn := by
  cases i <;> simp [Item.isComment] at hi <;> simp [refStep, Ref.flushed]

/-- the pieces of the records so far: those of the closed records, then the pending comment
lines -/
theorem flushed_atoms (ref : Ref) :
    ref.flushed.flatMap Rec.atoms =
      ref.out.flatMap Rec.atoms ++ ref.comments.map (fun l => .comment [trimEnd l]) := by
  unfold Ref.flushed
  split
  · rename_i h; simp [h]
  · simp [Rec.atoms]

/-- the reference run over the canonical items, from any reference state that agrees with the
context of the record list -/
theorem foldl_canon (R : List Rec) (hok : ∀ r ∈ R, RecOk cfg r) (c : Ctx) (ref : Ref)
    (hconds : ref.conds = c.conds) (hconn : ref.conn = c.conn) (hctx : ctxOk c R = true) :
    (((canonItems R).foldl (refStep cfg) ref).flushed).flatMap Rec.atoms =
      ref.flushed.flatMap Rec.atoms ++ R.flatMap Rec.atoms := by
  induction R generalizing c ref with
  | nil => simp [canonItems]
  | cons r rs ih =>
    simp only [ctxOk, Bool.and_eq_true] at hctx
    obtain ⟨hfit, hrest⟩ := hctx
    have hr := hok r (by simp)
    have hoks : ∀ x ∈ rs, RecOk cfg x := fun x hx => hok x (by simp [hx])
    have hafter := canonItem_after cfg r hr c
    simp only [canonItems, List.map_cons, List.foldl_cons, List.flatMap_cons]
    by_cases hc : r.isComment = true
    · -- a comment record: its lines join the pending comment lines
      cases r with
      | comment ls =>
        have ih' := ih hoks (c.next (.comment ls))
          (refStep cfg ref (canonItem (.comment ls)))
          (by simp [canonItem, refStep, hconds, Ctx.next])
          (by simp [canonItem, refStep, hconn, Ctx.next]) hrest
        simp only [canonItems] at ih'
        rw [ih', flushed_atoms, flushed_atoms]
        simp [canonItem, refStep, Rec.atoms, trimEnd_idem]
      | _ => simp [Rec.isComment] at hc
    · have hc' : r.isComment = false := by simpa using hc
      have hi : (canonItem r).isComment = false := by rw [canonItem_isComment]; exact hc'
      have hfl := refStep_noncomment cfg ref (canonItem r) hi
      have ih' := ih hoks (c.next r) (refStep cfg ref (canonItem r))
        (by rw [refStep_conds, hconds]; exact hafter.1)
        (by rw [refStep_conn, hconn]; exact hafter.2) hrest
      simp only [canonItems] at ih'
      rw [ih', hfl, hconds, hconn, List.flatMap_append, canonItem_recs cfg r hr hc' c hfit]
      simp

/-- **The canonical script stands for the records it was made from**: the same pieces (line
numbers, blanks at the end of comment lines and the grouping of adjacent comment lines apart). -/
theorem expected_canon (R : List Rec) (hok : ∀ r ∈ R, RecOk cfg r) (hctx : ctxOk {} R = true) :
    (expected cfg (canonItems R)).flatMap Rec.atoms = R.flatMap Rec.atoms := by
  have := foldl_canon cfg R hok {} {} rfl rfl hctx
  have h0 : ({} : Ref).flushed = [] := rfl
  rw [h0, List.flatMap_nil, List.nil_append] at this
  exact this

/-! ### no comment record without lines -/

theorem recs_no_comment (i : Item) (n : Nat) (conds : List Cond) (conn : Conn) :
    ∀ r ∈ i.recs cfg n conds conn, r.isComment = false := by
  cases i <;> simp [Item.recs, Rec.isComment]

theorem flushed_no_empty_comment (ref : Ref) (h : ∀ r ∈ ref.out, r ≠ .comment []) :
    ∀ r ∈ ref.flushed, r ≠ .comment [] := by
  unfold Ref.flushed
  split
  · exact h
  · rename_i hc
    intro r hr
    simp only [List.mem_append, List.mem_singleton] at hr
    rcases hr with hr | rfl
    · exact h r hr
    · simpa using hc

theorem refStep_no_empty_comment (ref : Ref) (i : Item) (h : ∀ r ∈ ref.out, r ≠ .comment []) :
    ∀ r ∈ (refStep cfg ref i).out, r ≠ .comment [] := by
  by_cases hi : i.isComment = true
  · cases i <;> simp [Item.isComment] at hi
    simpa [refStep] using h
  · have hi' : i.isComment = false := by simpa using hi
    have hout : (refStep cfg ref i).out =
        ref.flushed ++ i.recs cfg (ref.num + 1) ref.conds ref.conn := by
      cases i <;> simp [Item.isComment] at hi' <;> simp [refStep]
    rw [hout]
    intro r hr
    simp only [List.mem_append] at hr
    rcases hr with hr | hr
    · exact flushed_no_empty_comment ref h r hr
    · intro h0
      have := recs_no_comment cfg i _ _ _ r hr
      rw [h0] at this
      simp [Rec.isComment] at this

/-- the parser (its reference semantics) never produces a comment record without lines -/
theorem expected_no_empty_comment (A : List Item) : ∀ r ∈ expected cfg A, r ≠ .comment [] := by
  have key : ∀ (A : List Item) (ref : Ref), (∀ r ∈ ref.out, r ≠ .comment []) →
      ∀ r ∈ (A.foldl (refStep cfg) ref).out, r ≠ .comment [] := by
    intro A
    induction A with
    | nil => intro ref h; exact h
    | cons i A ih =>
      intro ref h
      exact ih _ (refStep_no_empty_comment cfg ref i h)
  exact flushed_no_empty_comment _ (key A {} (by intro r hr; cases hr))

end Slt
