/-
C05, step 5: composition with the parser theorem of C03.  The formatted file is the text of the
lines of the canonical script with the blank lines at its end cut off; `parse_render_eof` reads it
back as `expected (canonItems R)`, which has the same pieces (`Rec.atoms`) as `R`.
-/
import SltVerif.Lemmas.UnparseEnd
import SltVerif.Props.C03
namespace Slt

variable (cfg : PCfg)

theorem snoc_cases {α} (l : List α) : l = [] ∨ ∃ l' b, l = l' ++ [b] := by
  rcases List.eq_nil_or_concat l with h | ⟨l', b, h⟩
  · exact Or.inl h
  · exact Or.inr ⟨l', b, by simpa using h⟩

theorem render_append (A B : List Item) : render (A ++ B) = render A ++ render B := by
  simp [render]

theorem render_singleton (i : Item) : render [i] = renderItem i := by simp [render]

theorem canonItems_append (R S : List Rec) :
    canonItems (R ++ S) = canonItems R ++ canonItems S := by
  simp [canonItems]

theorem render_canon_newlines (k : Nat) :
    render (canonItems (List.replicate k .newline)) = List.replicate k [] := by
  induction k with
  | zero => rfl
  | succ k ih =>
    rw [List.replicate_succ, List.replicate_succ]
    have : canonItems (Rec.newline :: List.replicate k Rec.newline) =
        [Item.blank] ++ canonItems (List.replicate k Rec.newline) := rfl
    rw [this, render_append, ih]
    rfl

/-- parsing a text given by its lines is parsing the lines -/
theorem parse_linesToText (ls : List Str) (hok : ∀ l ∈ ls, LineOk l) :
    parse cfg (linesToText ls) = parseLines cfg ls := by
  unfold parse
  rw [lines_linesToText ls hok]

theorem lineOk_last_ne_nl (l : Str) (h : LineOk l) : l.getLast? ≠ some '\n' :=
  fun hl => h.1 (List.mem_of_getLast? hl)

/-- the lines of a script whose last record is `r`: everything up to the last line of `r`, which
is not empty, then blank lines only -/
theorem render_snoc_shape (R1 : List Rec) (r : Rec) (hr : RecOk cfg r) (hnl : r ≠ .newline)
    (hend : r.emptyAtEnd = false) :
    ∃ init l j, l ≠ [] ∧ renderOpen (canonItem r) = init ++ [l] ∧
      render (canonItems (R1 ++ [r])) =
        ((render (canonItems R1) ++ init) ++ [l]) ++ List.replicate j [] := by
  obtain ⟨hne, hlast⟩ := canonItem_last cfg r hr hnl hend
  obtain ⟨j, hj⟩ := term_blank (canonItem r)
  rcases snoc_cases (renderOpen (canonItem r)) with h0 | ⟨init, l, h0⟩
  · exact absurd h0 hne
  · refine ⟨init, l, j, hlast l (by rw [h0]; simp), h0, ?_⟩
    rw [canonItems_append, render_append]
    have : canonItems [r] = [canonItem r] := rfl
    rw [this, render_singleton, renderItem, h0, hj]
    simp only [List.append_assoc]

/-- **Format, then parse, then format again** — for every writable record list. -/
theorem fmt_roundtrip (R : List Rec) (hok : ∀ r ∈ R, RecOk cfg r) (hlist : ListOk R) :
    ∃ text R', fmtFile R = some text ∧ parse cfg text = .ok R' ∧ SameMeaning R' R ∧
      fmtFile R' = some text := by
  obtain ⟨⟨k, hk⟩, hlast⟩ := stripNewlines_spec R
  have hw := writeRecords_canon cfg R hok
  rcases snoc_cases (stripNewlines R) with h0 | ⟨R1, r, h0⟩
  · -- blank lines only
    rw [h0, List.nil_append] at hk
    cases k with
    | zero =>
      subst hk
      exact ⟨[], [], rfl, rfl, rfl, rfl⟩
    | succ m =>
      refine ⟨['\n'], [.newline], ?_, rfl, ?_, rfl⟩
      · unfold fmtFile
        rw [hw, hk, render_canon_newlines, Option.map_some, normalizeTail_blank]
      · unfold SameMeaning
        rw [← meaning_strip R, h0]; rfl
  · -- the last record that is not a `newline` is `r`
    have hmem : ∀ x ∈ R1 ++ [r], x ∈ R := by
      intro x hx
      rw [hk, h0]
      exact List.mem_append_left _ hx
    have hok0 : ∀ x ∈ R1 ++ [r], RecOk cfg x := fun x hx => hok x (hmem x hx)
    have hok1 : ∀ x ∈ R1, RecOk cfg x := fun x hx => hok0 x (List.mem_append_left _ hx)
    have hr : RecOk cfg r := hok0 r (by simp)
    have hnl : r ≠ .newline := hlast r (by rw [h0]; simp)
    have hend : r.emptyAtEnd = false := by
      have := hlist.2
      unfold EndOk at this
      rw [h0] at this
      simpa using this
    have hctx : ctxOk {} (R1 ++ [r]) = true := by
      have := hlist.1
      rw [hk, h0] at this
      exact ctxOk_append _ _ _ this
    obtain ⟨init, l, j, hlne, hopen, hshape⟩ := render_snoc_shape cfg R1 r hr hnl hend
    -- the lines written, without the blank lines at the end
    have hlines : ∀ x ∈ (render (canonItems R1) ++ init) ++ [l], LineOk x := by
      intro x hx
      apply render_lineOk cfg (R1 ++ [r]) hok0 x
      rw [hshape]
      exact List.mem_append_left _ hx
    have hl : LineOk l := hlines l (by simp)
    -- the formatted text
    have htext : fmtFile R = some (linesToText ((render (canonItems R1) ++ init) ++ [l])) := by
      unfold fmtFile
      rw [hw, Option.map_some]
      congr 1
      have : render (canonItems R) =
          ((render (canonItems R1) ++ init) ++ [l]) ++ List.replicate (j + k) [] := by
        conv => lhs; rw [hk, h0]
        rw [canonItems_append, render_append, hshape, render_canon_newlines, List.append_assoc,
          List.replicate_append_replicate]
      rw [this]
      exact normalizeTail_linesToText _ l (j + k) hlne (lineOk_last_ne_nl l hl)
    -- parsing it
    have hparse : parse cfg (linesToText ((render (canonItems R1) ++ init) ++ [l])) =
        .ok (expected cfg (canonItems (R1 ++ [r]))) := by
      rw [parse_linesToText cfg _ hlines]
      have := C03.parse_render_eof cfg (canonItems R1) (canonItem r) []
        (canonItems_wf cfg R1 hok1) (canonItem_wf cfg r hr) List.nil_prefix
      rw [List.append_nil, hopen, ← List.append_assoc] at this
      rw [this, canonItems_append]
      rfl
    have hnorm := expected_canon cfg (R1 ++ [r]) hok0 hctx
    refine ⟨_, _, htext, hparse, ?_, ?_⟩
    · apply sameMeaning_strip
      rw [h0]
      exact sameMeaning_of_atoms _ _ hnorm
    · unfold fmtFile
      rw [writeRecords_congr _ _ hnorm (expected_no_empty_comment cfg _)
          (fun x hx => recOk_no_empty_comment cfg x (hok0 x hx)),
        writeRecords_canon cfg (R1 ++ [r]) hok0, Option.map_some, hshape]
      congr 1
      exact normalizeTail_linesToText _ l j hlne (lineOk_last_ne_nl l hl)

end Slt
